/-
Impl/C05Engine.lean — the engine side of C05: how DuckDB's grammar groups the *text* sqlglot renders
for a `SqlExpr`, and the decidable scope hypotheses of the partial theorem.

sqlglot's generator prints a tree verbatim: it adds no parentheses of its own (a `Paren` node prints
`( … )`, `Not(x)` prints `NOT x`, `Is(x, Null)` prints `x IS NULL`, function / CASE / CAST arguments are
delimited by commas and keywords).  The engine then parses that token stream with an operator-precedence
grammar.  `feed` replays exactly that parse on the in-order token stream of the tree:

  * `Frame`      an operator waiting for its right operand (`l k ▢`, `l BETWEEN lo AND ▢`, `k ▢`)
  * `reduceTo p` the grammar's shift/reduce decision when an operator token of level `p` arrives:
                 pending frames that bind tighter are closed first; an equal level closes for the
                 left-associative levels and is a *syntax error* for the non-associative ones
  * `engineTree` the tree the engine actually evaluates (`none` = the engine rejects the text)

The level table is DuckDB's (= PostgreSQL's) `%left/%nonassoc` list:
  OR 1 < AND 2 < NOT 3 < IS / IS NOT DISTINCT FROM 4 < comparison 5 < BETWEEN IN LIKE 6 < + - 7 < * / % 8 < unary minus 10.
It is an assumption about the engine, validated against DuckDB on every generated case.
-/
import SqlframeModel.Impl.C05Column
namespace Sqlframe.C05
open Sqlframe

/-! ## levels -/

def infixLevel : String → Nat
  | "Or" => 1
  | "And" => 2
  | "NullSafeEQ" => 4
  | "EQ" => 5 | "NEQ" => 5 | "LT" => 5 | "LTE" => 5 | "GT" => 5 | "GTE" => 5
  | "Like" => 6 | "ILike" => 6
  | "Add" => 7 | "Sub" => 7
  | "Mul" => 8 | "Div" => 8 | "Mod" => 8
  | _ => 0

def prefixLevel : String → Nat
  | "Not" => 3
  | "Neg" => 10
  | _ => 0

/-- levels declared `%left`; all other operator levels are `%nonassoc` -/
def leftAssocLevel (p : Nat) : Bool := p == 1 || p == 2 || p == 7 || p == 8

def isNullLevel : Nat := 4
def inLevel : Nat := 6
def betweenLevel : Nat := 6
def atomLevel : Nat := 100

/-- how loosely the root of a rendered tree binds (atoms, parenthesised text, functions, CASE, CAST: `atomLevel`) -/
def level : SqlExpr → Nat
  | .bin k _ _ => infixLevel k
  | .un k _ => prefixLevel k
  | .isNull _ => isNullLevel
  | .inList _ _ => inLevel
  | .between _ _ _ => betweenLevel
  | .alias _ _ => 0
  | _ => atomLevel

/-- the lower bound of BETWEEN is a `b_expr` of the grammar: arithmetic, comparisons, IS [NOT] DISTINCT FROM,
    unary minus over atoms — no bare IS NULL / IN / BETWEEN / LIKE / NOT / AND / OR -/
def bExpr : SqlExpr → Bool
  | .bin k a b =>
      (infixLevel k == 4 || infixLevel k == 5 || infixLevel k == 7 || infixLevel k == 8) && bExpr a && bExpr b
  | .un k a => k == "Neg" && bExpr a
  | .isNull _ => false
  | .inList _ _ => false
  | .between _ _ _ => false
  | .alias _ _ => false
  | _ => true

/-- every operand binds strictly tighter than the operator it belongs to (left operands of the
    left-associative levels may bind equally), or is an atom / parenthesised / a function / CASE / CAST;
    `AS` does not occur inside an expression -/
def wellParen : SqlExpr → Bool
  | .col _ => true
  | .lit _ => true
  | .paren a => wellParen a
  | .bin k a b =>
      wellParen a && wellParen b && decide (0 < infixLevel k)
      && (if leftAssocLevel (infixLevel k) then decide (infixLevel k ≤ level a) else decide (infixLevel k < level a))
      && decide (infixLevel k < level b)
  | .un k a => wellParen a && decide (0 < prefixLevel k) && decide (prefixLevel k < level a)
  | .isNull a => wellParen a && decide (isNullLevel < level a)
  | .inList a _ => wellParen a && decide (inLevel < level a)
  | .between a lo hi =>
      wellParen a && wellParen lo && wellParen hi && decide (betweenLevel < level a) && decide (betweenLevel < level hi)
      && bExpr lo
  | .fn2 _ a b => wellParen a && wellParen b
  | .fn3 _ a b c => wellParen a && wellParen b && wellParen c
  | .caseWhen c v rest => wellParen c && wellParen v && wellParen rest
  | .caseEnd => true
  | .caseElse d => wellParen d
  | .cast a _ => wellParen a
  | .alias _ _ => false

/-- a select-list item: an optional `AS name` around a well-parenthesised expression -/
def wellParenTop : SqlExpr → Bool
  | .alias a _ => wellParen a
  | t => wellParen t

/-! ## the parse -/

inductive Frame
  | inf (l : SqlExpr) (k : String)
  | btw (l lo : SqlExpr)
  | pre (k : String)
  deriving DecidableEq, Repr

def Frame.level : Frame → Nat
  | .inf _ k => infixLevel k
  | .btw _ _ => betweenLevel
  | .pre k => prefixLevel k

def Frame.close : Frame → SqlExpr → SqlExpr
  | .inf l k, r => .bin k l r
  | .btw l lo, r => .between l lo r
  | .pre k, r => .un k r

def closeAll : List Frame → SqlExpr → SqlExpr
  | [], c => c
  | f :: fs, c => closeAll fs (f.close c)

/-- an operator token of level `p` arrives after the complete operand `c` -/
def reduceTo (p : Nat) : List Frame → SqlExpr → Option (List Frame × SqlExpr)
  | [], c => some ([], c)
  | f :: fs, c =>
    if p < f.level then reduceTo p fs (f.close c)
    else if p = f.level then (if leftAssocLevel p then reduceTo p fs (f.close c) else none)
    else some (f :: fs, c)

/-- feed the in-order token stream of `t` to the parser that has the frames `F` pending and expects an operand -/
def feed : SqlExpr → List Frame → Option (List Frame × SqlExpr)
  | .col n, F => some (F, .col n)
  | .lit v, F => some (F, .lit v)
  | .paren a, F =>
    match feed a [] with
    | some (G, c) => some (F, .paren (closeAll G c))
    | none => none
  | .bin k a b, F =>
    match feed a F with
    | none => none
    | some (F1, c1) =>
      match reduceTo (infixLevel k) F1 c1 with
      | none => none
      | some (F2, c2) => feed b (.inf c2 k :: F2)
  | .un k a, F => feed a (.pre k :: F)
  | .isNull a, F =>
    match feed a F with
    | none => none
    | some (F1, c1) =>
      match reduceTo isNullLevel F1 c1 with
      | none => none
      | some (F2, c2) => some (F2, .isNull c2)
  | .inList a vs, F =>
    match feed a F with
    | none => none
    | some (F1, c1) =>
      match reduceTo inLevel F1 c1 with
      | none => none
      | some (F2, c2) => some (F2, .inList c2 vs)
  | .between a lo hi, F =>
    match feed a F with
    | none => none
    | some (F1, c1) =>
      match reduceTo betweenLevel F1 c1 with
      | none => none
      | some (F2, c2) =>
        match feed lo [] with
        | none => none
        | some (G, l) => if bExpr (closeAll G l) then feed hi (.btw c2 (closeAll G l) :: F2) else none
  | .fn2 f a b, F =>
    match feed a [], feed b [] with
    | some (Ga, ca), some (Gb, cb) => some (F, .fn2 f (closeAll Ga ca) (closeAll Gb cb))
    | _, _ => none
  | .fn3 f a b c, F =>
    match feed a [], feed b [], feed c [] with
    | some (Ga, ca), some (Gb, cb), some (Gc, cc) => some (F, .fn3 f (closeAll Ga ca) (closeAll Gb cb) (closeAll Gc cc))
    | _, _, _ => none
  | .caseWhen c v rest, F =>
    match feed c [], feed v [], feed rest [] with
    | some (Gc, cc), some (Gv, cv), some (Gr, cr) => some (F, .caseWhen (closeAll Gc cc) (closeAll Gv cv) (closeAll Gr cr))
    | _, _, _ => none
  | .caseEnd, F => some (F, .caseEnd)
  | .caseElse d, F =>
    match feed d [] with
    | some (G, c) => some (F, .caseElse (closeAll G c))
    | none => none
  | .cast a ty, F =>
    match feed a [] with
    | some (G, c) => some (F, .cast (closeAll G c) ty)
    | none => none
  | .alias _ _, _ => none

/-- the tree the engine evaluates for the rendered text of `t` (`none`: syntax error) -/
def engineTree (t : SqlExpr) : Option SqlExpr :=
  match feed t [] with
  | some (G, c) => some (closeAll G c)
  | none => none

/-- a select-list item whose rendered text *ends* in `AS name` (the alias node is the last token run of
    the item and not enclosed in parentheses, a call or a CASE): the engine reads it as the item's alias -/
def stripTrailingAlias : SqlExpr → Option (SqlExpr × Name)
  | .alias a n => some (a, n)
  | .bin k a b => (stripTrailingAlias b).map fun (b', n) => (.bin k a b', n)
  | .un k a => (stripTrailingAlias a).map fun (a', n) => (.un k a', n)
  | .between a lo hi => (stripTrailingAlias hi).map fun (hi', n) => (.between a lo hi', n)
  | _ => none

/-- … for a select-list item -/
def engineTop (t : SqlExpr) : Option SqlExpr :=
  match stripTrailingAlias t with
  | some (t', n) => (engineTree t').map (.alias · n)
  | none => engineTree t

/-- functions the engine's catalog has (DuckDB has no `ENDSWITH`) -/
def engineHasFn : String → Bool
  | "Anonymous:ENDSWITH" => false
  | _ => true

def fnsOK : SqlExpr → Bool
  | .col _ => true
  | .lit _ => true
  | .paren a => fnsOK a
  | .bin _ a b => fnsOK a && fnsOK b
  | .un _ a => fnsOK a
  | .isNull a => fnsOK a
  | .inList a _ => fnsOK a
  | .between a lo hi => fnsOK a && fnsOK lo && fnsOK hi
  | .fn2 f a b => engineHasFn f && fnsOK a && fnsOK b
  | .fn3 f a b c => engineHasFn f && fnsOK a && fnsOK b && fnsOK c
  | .caseWhen c v rest => fnsOK c && fnsOK v && fnsOK rest
  | .caseEnd => true
  | .caseElse d => fnsOK d
  | .cast a _ => fnsOK a
  | .alias a _ => fnsOK a

/-- every literal leaf is text the engine reads as a literal (a numeric literal whose text is not a number —
    a bare `inf` — is an identifier to the engine: "column not found") -/
def litsOK : SqlExpr → Bool
  | .col _ => true
  | .lit l => l.value?.isSome
  | .paren a => litsOK a
  | .bin _ a b => litsOK a && litsOK b
  | .un _ a => litsOK a
  | .isNull a => litsOK a
  | .inList a ls => litsOK a && ls.all (fun l => l.value?.isSome)
  | .between a lo hi => litsOK a && litsOK lo && litsOK hi
  | .fn2 _ a b => litsOK a && litsOK b
  | .fn3 _ a b c => litsOK a && litsOK b && litsOK c
  | .caseWhen c v rest => litsOK c && litsOK v && litsOK rest
  | .caseEnd => true
  | .caseElse d => litsOK d
  | .cast a _ => litsOK a
  | .alias a _ => litsOK a

/-- what `SELECT <rendered t>` returns for one row (`none`: the engine raises) -/
def engineValue (env : Env) (t : SqlExpr) : Option CVal :=
  match engineTop t with
  | none => none
  | some t' => if fnsOK t' && litsOK t' then some (evalSql env t') else none

/-! ## scope hypotheses (one per root cause), on the user's tree -/

/-- a predicate holds at every node of the user's tree -/
def allNodes (p : PyExpr → Bool) : PyExpr → Bool
  | .col n => p (.col n)
  | .lit v => p (.lit v)
  | .raw s v => p (.raw s v)
  | .arith op a b => p (.arith op a b) && allNodes p a && allNodes p b
  | .arithL op v b => p (.arithL op v b) && allNodes p b
  | .cmp op a b => p (.cmp op a b) && allNodes p a && allNodes p b
  | .cmpL op v b => p (.cmpL op v b) && allNodes p b
  | .logic op a b => p (.logic op a b) && allNodes p a && allNodes p b
  | .logicL op v b => p (.logicL op v b) && allNodes p b
  | .neg a => p (.neg a) && allNodes p a
  | .not a => p (.not a) && allNodes p a
  | .isNull a => p (.isNull a) && allNodes p a
  | .isNotNull a => p (.isNotNull a) && allNodes p a
  | .eqNullSafe a b => p (.eqNullSafe a b) && allNodes p a && allNodes p b
  | .isin a vs => p (.isin a vs) && allNodes p a
  | .between a lo hi => p (.between a lo hi) && allNodes p a && allNodes p lo && allNodes p hi
  | .like a s => p (.like a s) && allNodes p a
  | .strFn f a b => p (.strFn f a b) && allNodes p a && allNodes p b
  | .substr a s l => p (.substr a s l) && allNodes p a && allNodes p s && allNodes p l
  | .when c v rest => p (.when c v rest) && allNodes p c && allNodes p v && allNodes p rest
  | .noElse => p .noElse
  | .otherwise d => p (.otherwise d) && allNodes p d
  | .cast a ty => p (.cast a ty) && allNodes p a
  | .alias a n => p (.alias a n) && allNodes p a

/-- the user-level notion "renders as one unit": a column, a literal, arithmetic, `&`/`|`, unary minus,
    a function call, a CASE, a CAST — not a bare comparison / IS NULL / IN / BETWEEN / LIKE / NOT.
    (A comparison or a reflected `&`/`|` counts when its table entry parenthesises the result.) -/
def atomicP (cfg : Cfg) : PyExpr → Bool
  | .col _ => true
  | .lit _ => true
  | .raw _ _ => true
  | .arith _ _ _ => true
  | .arithL _ _ _ => true
  | .cmp op _ _ => (cfg.cmp op).paren
  | .cmpL op _ _ => (cfg.cmp op.swap).paren
  | .logic _ _ _ => true
  | .logicL op _ _ => (cfg.rlogic op).paren
  | .neg _ => true
  | .not _ => false
  | .isNull _ => false
  | .isNotNull _ => false
  | .eqNullSafe _ _ => cfg.eqNullSafe.paren
  | .isin _ _ => false
  | .between _ _ _ => false
  | .like _ _ => false
  | .strFn _ _ _ => true
  | .substr _ _ _ => true
  | .when _ _ _ => true
  | .noElse => true
  | .otherwise _ => true
  | .cast _ _ => true
  | .alias a _ => atomicP cfg a

/-- operands of arithmetic, comparisons and `eqNullSafe` are atomic -/
def cmpAt (cfg : Cfg) : PyExpr → Bool
  | .arith _ a b => atomicP cfg a && atomicP cfg b
  | .arithL _ _ b => atomicP cfg b
  | .cmp _ a b => atomicP cfg a && atomicP cfg b
  | .cmpL _ _ b => atomicP cfg b
  | .eqNullSafe a b => atomicP cfg a && atomicP cfg b
  | _ => true

/-- the subject of `isNull/isNotNull/isin/between/like` and the bounds of `between` are atomic -/
def subjAt (cfg : Cfg) : PyExpr → Bool
  | .isNull a => atomicP cfg a
  | .isNotNull a => atomicP cfg a
  | .isin a _ => atomicP cfg a
  | .like a _ => atomicP cfg a
  | .between a lo hi => atomicP cfg a && atomicP cfg lo && atomicP cfg hi
  | _ => true

/-- not a reflected `&`/`|` (`True & x`, i.e. `x.__rand__(True)`), looking through aliases -/
def notReflected : PyExpr → Bool
  | .logicL _ _ _ => false
  | .alias a _ => notReflected a
  | _ => true

/-- no operand of `&`/`|` is a reflected `&`/`|` -/
def reflAt : PyExpr → Bool
  | .logic _ a b => notReflected a && notReflected b
  | .logicL _ _ b => notReflected b
  | _ => true

/-- the built expression carries no alias: neither an explicit one nor the automatic one the decorator puts
    on a `when` chain or on a `lit(...)` that is written as a function (NaN) -/
def notAlias (cfg : Cfg) : PyExpr → Bool
  | .alias _ _ => false
  | .when _ _ _ => false
  | .lit v => !fnAliased cfg.lit v
  | .raw s v => !(cfg.coerce s == .litFn && fnAliased cfg.lit v)
  | _ => true

/-- no bound of `between` carries an alias (explicit, or the automatic one of `F.when(...)` / `F.lit(nan)`) -/
def boundAt (cfg : Cfg) : PyExpr → Bool
  | .between _ lo hi => notAlias cfg lo && notAlias cfg hi
  | _ => true

/-- every plain Python value at this node is written as a literal the engine reads back as that value -/
def litAt (cfg : Cfg) : PyExpr → Bool
  | .lit v => readsBack (fnNode cfg.lit v) v
  | .raw s v => readsBack (coerceNode cfg.lit (cfg.coerce s) v) v
  | .arithL _ v _ => readsBack (coerceNode cfg.lit cfg.coInverse v) v
  | .cmpL _ v _ => readsBack (coerceNode cfg.lit cfg.coBinary v) v
  | .logicL _ v _ => readsBack (coerceNode cfg.lit cfg.coInverse v) v
  | .isin _ vs => vs.all (fun v => readsBack (coerceNode cfg.lit cfg.coIsin v) v)
  | .like _ p => readsBack (coerceNode cfg.lit cfg.coLike (.str p)) (.str p)
  | _ => true

/-- the plain Python values written at this node -/
def pyValsAt : PyExpr → List PyVal
  | .lit v => [v]
  | .raw _ v => [v]
  | .arithL _ v _ => [v]
  | .cmpL _ v _ => [v]
  | .logicL _ v _ => [v]
  | .isin _ vs => vs
  | .like _ p => [.str p]
  | _ => []

/-- representation invariant: every float of the node is given by genuine digits -/
def wfAt (n : PyExpr) : Bool := (pyValsAt n).all PyVal.wf
/-- no ±inf at this node -/
def finiteAt (n : PyExpr) : Bool := (pyValsAt n).all PyVal.finite

/-- every ±inf written at this node goes through a coercion that handles ±inf -/
def infAt (cfg : Cfg) : PyExpr → Bool
  | .lit v => infVia cfg.lit .litFn v
  | .raw s v => infVia cfg.lit (cfg.coerce s) v
  | .arithL _ v _ => infVia cfg.lit cfg.coInverse v
  | .cmpL _ v _ => infVia cfg.lit cfg.coBinary v
  | .logicL _ v _ => infVia cfg.lit cfg.coInverse v
  | .isin _ vs => vs.all (infVia cfg.lit cfg.coIsin)
  | _ => true

/-- `infAt` restricted to the occurrences whose coercion satisfies `sel` (only used to *name* what is violated) -/
def infAtSel (sel : Gen.Coerce → Bool) (cfg : Cfg) : PyExpr → Bool
  | .lit v => !sel .litFn || infVia cfg.lit .litFn v
  | .raw s v => !sel (cfg.coerce s) || infVia cfg.lit (cfg.coerce s) v
  | .arithL _ v _ => !sel cfg.coInverse || infVia cfg.lit cfg.coInverse v
  | .cmpL _ v _ => !sel cfg.coBinary || infVia cfg.lit cfg.coBinary v
  | .logicL _ v _ => !sel cfg.coInverse || infVia cfg.lit cfg.coInverse v
  | .isin _ vs => !sel cfg.coIsin || vs.all (infVia cfg.lit cfg.coIsin)
  | _ => true

/-- a plain Python value stands where its `Site` tag says (bookkeeping of the test harness, not a hypothesis
    of any theorem: `build` takes the coercion from the tag) -/
def siteAt : PyExpr → Bool
  | .arith _ a b => (match a with | .raw _ _ => false | _ => true) && (match b with | .raw s _ => s == .binary | _ => true)
  | .cmp _ a b => (match a with | .raw _ _ => false | _ => true) && (match b with | .raw s _ => s == .binary | _ => true)
  | .logic _ a b => (match a with | .raw _ _ => false | _ => true) && (match b with | .raw s _ => s == .binary | _ => true)
  | .eqNullSafe a b => (match a with | .raw _ _ => false | _ => true) && (match b with | .raw s _ => s == .binary | _ => true)
  | .between a lo hi =>
      (match a with | .raw _ _ => false | _ => true)
      && (match lo with | .raw s _ => s == .between | _ => true) && (match hi with | .raw s _ => s == .between | _ => true)
  | .strFn f a b => (match a with | .raw _ _ => false | _ => true) && (match b with | .raw s _ => s == .strFn f | _ => true)
  | .substr a st len =>
      (match a with | .raw _ _ => false | _ => true)
      && (match st with | .raw s _ => s == .substr | _ => true) && (match len with | .raw s _ => s == .substr | _ => true)
  | .when c v _ => (match c with | .raw _ _ => false | _ => true) && (match v with | .raw s _ => s == .when | _ => true)
  | .otherwise d => (match d with | .raw s _ => s == .otherwise | _ => true)
  | .arithL _ _ b => (match b with | .raw _ _ => false | _ => true)
  | .cmpL _ _ b => (match b with | .raw _ _ => false | _ => true)
  | .logicL _ _ b => (match b with | .raw _ _ => false | _ => true)
  | .neg a => (match a with | .raw _ _ => false | _ => true)
  | .not a => (match a with | .raw _ _ => false | _ => true)
  | .isNull a => (match a with | .raw _ _ => false | _ => true)
  | .isNotNull a => (match a with | .raw _ _ => false | _ => true)
  | .isin a _ => (match a with | .raw _ _ => false | _ => true)
  | .like a _ => (match a with | .raw _ _ => false | _ => true)
  | .cast a _ => (match a with | .raw _ _ => false | _ => true)
  | .alias a _ => (match a with | .raw _ _ => false | _ => true)
  | _ => true

def sitesOK (e : PyExpr) : Bool := (match e with | .raw _ _ => false | _ => true) && allNodes siteAt e

def endswithAt : PyExpr → Bool
  | .strFn .endswith _ _ => false
  | _ => true

/-- the source is repaired for the respective cause (read off the generated flags) -/
def fixCmp (cfg : Cfg) : Bool := cfg.operandWrap && wrapOK cfg
def fixSubj (cfg : Cfg) : Bool :=
  cfg.isNull.subjectWrap && cfg.isNotNull.subjectWrap && cfg.isin.subjectWrap && cfg.between.subjectWrap
    && cfg.like.subjectWrap && cfg.betweenBoundsWrap && wrapOK cfg
def fixRefl (cfg : Cfg) : Bool := (cfg.rlogic .and).paren && (cfg.rlogic .or).paren
def fixBound (cfg : Cfg) : Bool := cfg.betweenBoundsUnalias
def fixEndswith (cfg : Cfg) : Bool := decide ((cfg.strFn .endswith).klass ≠ "Anonymous:ENDSWITH")

/-- H_cmpOperandAtomic: `binary_op` parenthesises compound operands, or the program never uses a bare
    predicate / NOT as an operand of arithmetic, a comparison or `eqNullSafe` -/
def H_cmpOperandAtomic (cfg : Cfg) (e : PyExpr) : Bool := fixCmp cfg || allNodes (cmpAt cfg) e

/-- H_predSubjectAtomic: the predicate methods parenthesise a compound subject (and `between` its
    bounds), or the program never applies them to a bare predicate / NOT -/
def H_predSubjectAtomic (cfg : Cfg) (e : PyExpr) : Bool := fixSubj cfg || allNodes (subjAt cfg) e

/-- H_reflectedBoolParen: `__rand__`/`__ror__` pass `paren=True`, or no reflected `&`/`|` is an operand of `&`/`|` -/
def H_reflectedBoolParen (cfg : Cfg) (e : PyExpr) : Bool := fixRefl cfg || allNodes reflAt e

/-- H_betweenBoundUnaliased: `between` un-aliases its bounds, or no bound carries an alias -/
def H_betweenBoundUnaliased (cfg : Cfg) (e : PyExpr) : Bool := fixBound cfg || allNodes (boundAt cfg) e

/-- H_floatLitFinite: every ±inf of the program is written through a coercion whose regenerated chain writes it in a
    way the engine reads back (`infHandledVia`), i.e. per occurrence: the route handles ±inf, or the value is finite.
    (On the pinned tree `Column._lit` — the route of plain operands — writes `CAST('Infinity' AS DOUBLE)`, while
    `functions.lit` — `lit(inf)`, `when(c, inf)`, `.otherwise(inf)` — still writes the *string* 'inf'.)  Every other
    value is read back as itself: `C05_lit_readsBack`; with this hypothesis `allNodes (litAt cfg) e` holds
    (`C05_lits_readBack`). -/
def H_floatLitFinite (cfg : Cfg) (e : PyExpr) : Bool := allNodes (infAt cfg) e

/-- H_endswithFunction: `endswith` goes through the session's engine-specific function, or is not used -/
def H_endswithFunction (cfg : Cfg) (e : PyExpr) : Bool := fixEndswith cfg || allNodes endswithAt e

def inScope (cfg : Cfg) (e : PyExpr) : Bool :=
  H_cmpOperandAtomic cfg e && H_predSubjectAtomic cfg e && H_reflectedBoolParen cfg e
  && H_betweenBoundUnaliased cfg e && H_endswithFunction cfg e && H_floatLitFinite cfg e

/-- names of the violated hypotheses (what the driver reports) -/
def violated (cfg : Cfg) (e : PyExpr) : List String :=
  (if H_cmpOperandAtomic cfg e then [] else ["H_cmpOperandAtomic"])
  ++ (if H_predSubjectAtomic cfg e then [] else ["H_predSubjectAtomic"])
  ++ (if H_reflectedBoolParen cfg e then [] else ["H_reflectedBoolParen"])
  ++ (if H_betweenBoundUnaliased cfg e then [] else ["H_betweenBoundUnaliased"])
  ++ (if H_endswithFunction cfg e then [] else ["H_endswithFunction"])
  -- the finding on record is about the `functions.lit` route; a ±inf mis-written on a plain-operand route gets its
  -- own name, so that it can never hide behind that finding
  ++ (if allNodes (infAtSel (fun k => k == .litFn) cfg) e then [] else ["H_floatLitFinite"])
  ++ (if allNodes (infAtSel (fun k => k != .litFn) cfg) e then [] else ["X_infOperandNotReadBack"])
  -- never on a tree whose chains satisfy `litChainOK` (`C05_lits_readBack`); reported so that a literal which is not
  -- ±inf and is not read back can never hide behind the finding about ±inf
  ++ (if H_floatLitFinite cfg e && !allNodes (litAt cfg) e then ["X_literalNotReadBack"] else [])

end Sqlframe.C05
