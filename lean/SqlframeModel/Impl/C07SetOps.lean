/-
Impl/C07SetOps.lean — set operations (C07).

* the *assumed* engine meaning of the six SQL set operators on row bags (`evalSetop`; positional,
  NULLs equal because `Val` has decidable equality) — trusted like Core/Sql.lean and validated against
  DuckDB by the C07 correspondence stream on every case;
* PySpark's specification as multiplicity functions (`setSpec`) and as tables (`setSpecTable`,
  `byNameSpec`), validated against live PySpark 3.5.9 during construction;
* the hand model of `BaseDataFrame._set_operation`, `union … exceptAll` and `unionByName` on the `DF`
  state of Impl/DataFrame.lean.  Every decision (node class, distinct flag, decorator tag, the two
  projection lists of `unionByName`) is read from `Gen.SetOps` / `Gen.Methods` / `Gen.Operations`.

What is abstracted: CTE *names*.  A frozen CTE is represented by its value (`DF.src`), so the name
de-duplication of `_add_ctes_to_expression` (common ancestors) is not modelled; it is exercised by the
correspondence stream only (both operands derived from one DataFrame).
-/
import SqlframeModel.Impl.C01Scope
import SqlframeModel.Gen.SetOps
namespace Sqlframe
open Gen

/-! ### SQL set operators on bags of rows (assumed engine semantics) -/

/-- INTERSECT ALL: each left row consumes one equal right row -/
def interAll : List Row → List Row → List Row
  | [], _ => []
  | a :: as, B => if a ∈ B then a :: interAll as (B.erase a) else interAll as B

/-- EXCEPT ALL: each right row cancels one equal left row -/
def exceptAllRows : List Row → List Row → List Row
  | A, [] => A
  | A, b :: bs => exceptAllRows (A.erase b) bs

/-- `<left> <KIND> [ALL|DISTINCT] <right>`; `distinct = false` is the ALL form -/
def evalSetop (op : SetKind × Bool) (A B : List Row) : List Row :=
  match op with
  | (.union, false) => A ++ B
  | (.union, true) => dedup (A ++ B)
  | (.intersect, false) => interAll A B
  | (.intersect, true) => dedup (A.filter (fun r => r ∈ B))
  | (.except_, false) => exceptAllRows A B
  | (.except_, true) => dedup (A.filter (fun r => r ∉ B))

/-- a set operator between two evaluated operands: positional, the left operand's column names -/
def setopTable (op : SetKind × Bool) (L R : Table) : Table :=
  { cols := L.cols, rows := evalSetop op L.rows R.rows }

/-- multiplicity of a row in the result as a function of its multiplicities in the operands -/
def sqlMult (op : SetKind × Bool) (a b : Nat) : Nat :=
  match op with
  | (.union, false) => a + b
  | (.union, true) => if a + b > 0 then 1 else 0
  | (.intersect, false) => min a b
  | (.intersect, true) => if min a b > 0 then 1 else 0
  | (.except_, false) => a - b
  | (.except_, true) => if a > 0 ∧ b = 0 then 1 else 0

/-! ### PySpark's specification -/

inductive SetMethod
  | union | unionAll | intersect | intersectAll | exceptAll
  deriving DecidableEq, Repr

def SetMethod.all : List SetMethod := [.union, .unionAll, .intersect, .intersectAll, .exceptAll]

def SetMethod.name : SetMethod → String
  | .union => "union" | .unionAll => "unionAll" | .intersect => "intersect"
  | .intersectAll => "intersectAll" | .exceptAll => "exceptAll"

/-- PySpark: multiplicity of a row in `a.<m>(b)` given its multiplicities in `a` and `b` -/
def setSpec : SetMethod → Nat → Nat → Nat
  | .union, a, b => a + b
  | .unionAll, a, b => a + b
  | .intersect, a, b => if min a b > 0 then 1 else 0
  | .intersectAll, a, b => min a b
  | .exceptAll, a, b => a - b

/-- a bag with prescribed multiplicities: every distinct row of `A ++ B`, `f (count A) (count B)` times -/
def specRows (f : Nat → Nat → Nat) (A B : List Row) : List Row :=
  (dedup (A ++ B)).flatMap (fun r => List.replicate (f (A.count r) (B.count r)) r)

/-- PySpark: positional matching, the left operand's column names -/
def setSpecTable (m : SetMethod) (L R : Table) : Table :=
  { cols := L.cols, rows := specRows (setSpec m) L.rows R.rows }

/-- output columns of `unionByName` -/
def byNameCols (allowMissing : Bool) (l r : List Name) : List Name :=
  if allowMissing then l ++ r.filter (fun c => c ∉ l) else l

/-- a row of a table with columns `cols`, laid out under the output columns `out` (missing → NULL) -/
def padRow (cols out : List Name) (row : Row) : Row :=
  out.map (fun c => if c ∈ cols then lookup cols row c else .null)

/-- PySpark `L.unionByName(R, allowMissingColumns)`: all rows of both sides, matched by name -/
def byNameSpec (allowMissing : Bool) (L R : Table) : Table :=
  let out := byNameCols allowMissing L.cols R.cols
  { cols := out, rows := L.rows.map (padRow L.cols out) ++ R.rows.map (padRow R.cols out) }

/-! ### the implementation model -/

/-- the generated (node class, distinct flag) of each public method; `unionAll` is the class-level
    alias recorded in `Gen.setOpAliases` -/
def SetMethod.op : SetMethod → SetKind × Bool
  | .union => setOp_union
  | .unionAll => setOp_union
  | .intersect => setOp_intersect
  | .intersectAll => setOp_intersectAll
  | .exceptAll => setOp_exceptAll

/-- the generated decorator tag of each public method -/
def SetMethod.tag : SetMethod → Option Op
  | .union => tag_union
  | .unionAll => tag_unionAll
  | .intersect => tag_intersect
  | .intersectAll => tag_intersectAll
  | .exceptAll => tag_exceptAll

/-- what the engine answers to a statement it cannot parse -/
def errTable : Table := { cols := [], rows := [] }

/-- `_set_operation(klass, other, distinct)` run on `self`:
    `other` is frozen into a CTE first; the node is `klass(this = self's open block, expression = other)`;
    sqlglot prints the operands without parentheses, so an ORDER BY / LIMIT left in the receiver's open
    block makes the statement unparsable (`errTable`); the node is frozen into a CTE again and the new
    open block selects the names of the *first* SELECT (`_get_outer_select_columns`), i.e. the left ones. -/
def bodySetOp (op : SetKind × Bool) (other self : DF) : DF :=
  let o := other.wrap
  let T : Table :=
    if self.blk.order = [] ∧ self.blk.limit = none then
      { cols := self.outNames, rows := evalSetop op self.eval.rows o.eval.rows }
    else errTable
  { src := T, blk := { sel := identSel T.cols }, last := self.last }

def Gen.PItem.toItem : PItem → Name × Expr
  | .own n => (n, .col n)
  | .null n => (n, .lit .null)

/-- `unionByName(other, allowMissingColumns)` body: the generated list programs build the two
    projection lists from `self._columns` / `other._columns`; the right side is always re-projected
    (`other.copy()._convert_leaf_to_cte().select(…)`), the left side only when columns may be missing;
    both `select` calls are the public, decorated `select`. -/
def bodyByName (allowMissing : Bool) (other self : DF) : DF :=
  let l := self.outNames.map PItem.own
  let r := other.outNames.map PItem.own
  let st := if allowMissing then byNameMissing l r else byNameStrict l r
  let r_df := other.wrap.apply (.select (st.r_expressions.map PItem.toItem))
  let l_df := if allowMissing then self.wrap.apply (.select (st.l_expressions.map PItem.toItem)) else self
  bodySetOp byNameOp r_df l_df

/-- `a.<m>(b)` -/
def DF.setop (m : SetMethod) (a b : DF) : DF := wrapper m.tag (bodySetOp m.op b) a

/-- `a.unionByName(b, allowMissingColumns)` -/
def DF.unionByName (allowMissing : Bool) (a b : DF) : DF := wrapper tag_unionByName (bodyByName allowMissing b) a

/-! ### programs: nested set operations with further steps -/

inductive Prog
  | base (i : Nat)
  | step (p : Prog) (s : Step)
  | setop (m : SetMethod) (l r : Prog)
  | byName (allowMissing : Bool) (l r : Prog)
  deriving Repr

def Prog.run (env : List Table) : Prog → DF
  | .base i => DF.init (env.getD i errTable)
  | .step p s => (p.run env).apply s
  | .setop m l r => (l.run env).setop m (r.run env)
  | .byName am l r => (l.run env).unionByName am (r.run env)

def Prog.spec (env : List Table) : Prog → Table
  | .base i => env.getD i errTable
  | .step p s => specStep (p.spec env) s
  | .setop m l r => setSpecTable m (l.spec env) (r.spec env)
  | .byName am l r => byNameSpec am (l.spec env) (r.spec env)

/-! ### CTE identities and the name collision in `_add_ctes_to_expression`

CTE names are hashes of the CTE's SQL text, so two DataFrames carry a CTE of the same *name* exactly
when both were built by the same (sub-)program.  Only set-operation CTEs matter here: when `other`
brings a CTE whose name already exists on the receiver, the code makes it unique by adding a WHERE
filter to its body — `cte.this.where(…)` — and a `Union` / `Intersect` / `Except` body has no such
method (AttributeError).  `Gen.cteDedupAssumesSelect` records whether the source still does that. -/

deriving instance DecidableEq for Step
deriving instance DecidableEq for Prog

/-- `union` and `unionAll` build identical SQL text -/
def Prog.norm : Prog → Prog
  | .base i => .base i
  | .step p s => .step p.norm s
  | .setop m l r => .setop (if m = .unionAll then .union else m) l.norm r.norm
  | .byName am l r => .byName am l.norm r.norm

/-- identities of the set-operation CTEs in the WITH list of the DataFrame a program builds -/
def Prog.setopCtes : Prog → List Prog
  | .base _ => []
  | .step p _ => p.setopCtes
  | .setop m l r => l.setopCtes ++ r.setopCtes ++ [(Prog.setop m l r).norm]
  | .byName am l r => l.setopCtes ++ r.setopCtes ++ [(Prog.byName am l r).norm]

/-- some set operation in the program has operands that share a set-operation ancestor -/
def Prog.sharesSetop : Prog → Bool
  | .base _ => false
  | .step p _ => p.sharesSetop
  | .setop _ l r => l.sharesSetop || r.sharesSetop || r.setopCtes.any (fun c => c ∈ l.setopCtes)
  | .byName _ l r => l.sharesSetop || r.sharesSetop || r.setopCtes.any (fun c => c ∈ l.setopCtes)

structure PState where
  df : DF
  ctes : List Prog
  deriving Repr

/-- `_add_ctes_to_expression(self's expression, other's CTEs)` restricted to set-operation CTEs:
    `none` = the AttributeError raised by `cte.this.where` on a set-operation body -/
def addCtes (self other : List Prog) : Option (List Prog) :=
  if cteDedupAssumesSelect && other.any (fun c => c ∈ self) then none else some (self ++ other)

/-- the implementation model with Python exceptions (`none`) -/
def Prog.runM (env : List Table) : Prog → Option PState
  | .base i => some { df := DF.init (env.getD i errTable), ctes := [] }
  | .step p s => (p.runM env).map (fun st => { df := st.df.apply s, ctes := st.ctes })
  | .setop m l r =>
    match l.runM env, r.runM env with
    | some L, some R =>
      (addCtes L.ctes R.ctes).map (fun cs => { df := L.df.setop m R.df, ctes := cs ++ [(Prog.setop m l r).norm] })
    | _, _ => none
  | .byName am l r =>
    match l.runM env, r.runM env with
    | some L, some R =>
      (addCtes L.ctes R.ctes).map (fun cs => { df := L.df.unionByName am R.df, ctes := cs ++ [(Prog.byName am l r).norm] })
    | _, _ => none

/-- **scope hypothesis** `H_setopCteReused`: the source no longer assumes a SELECT body, or the program
    never combines two DataFrames that share a set-operation ancestor -/
def H_setopCteReused (p : Prog) : Prop := cteDedupAssumesSelect = false ∨ p.sharesSetop = false

instance (p : Prog) : Decidable (H_setopCteReused p) := by unfold H_setopCteReused; exact inferInstance

/-- named scope hypotheses violated by a program -/
def violatedC07 (p : Prog) : List String :=
  if decide (H_setopCteReused p) then [] else ["H_setopCteReused"]

def Step.isBagStep : Step → Bool
  | .wher _ => true
  | .select _ => true
  | .distinct => true
  | _ => false

/-- what PySpark requires of a program (union-compatible operands, resolvable column names);
    the further steps are `where` / `select` / `distinct` (bag-determined ones) -/
def Prog.WF (env : List Table) : Prog → Prop
  | .base i => i < env.length ∧ (env.getD i errTable).WF
  | .step p s => p.WF env ∧ s.isBagStep = true ∧ s.WF (p.spec env).cols
  | .setop _ l r => l.WF env ∧ r.WF env ∧ (r.spec env).cols.length = (l.spec env).cols.length
  | .byName am l r => l.WF env ∧ r.WF env ∧
      (am = false → (r.spec env).cols.length = (l.spec env).cols.length ∧ ∀ c ∈ (l.spec env).cols, c ∈ (r.spec env).cols)

instance decProgWF (env : List Table) : (p : Prog) → Decidable (p.WF env)
  | .base i => by unfold Prog.WF; exact inferInstance
  | .step p s => by unfold Prog.WF; exact @instDecidableAnd _ _ (decProgWF env p) _
  | .setop _ l r => by
      unfold Prog.WF; exact @instDecidableAnd _ _ (decProgWF env l) (@instDecidableAnd _ _ (decProgWF env r) _)
  | .byName _ l r => by
      unfold Prog.WF; exact @instDecidableAnd _ _ (decProgWF env l) (@instDecidableAnd _ _ (decProgWF env r) _)

end Sqlframe
