/-
Impl/C09Scope.lean — the named, decidable scope hypotheses of the C09 theorems.  Each is
`Gen.<flag> = <repaired value> ∨ <the input avoids the pattern>` where a regenerated flag decides it, so
that a repair of the source makes the hypothesis true for every input.

  H_noNul          a string cell / literal contains no NUL character (the ENGINE's parser stops at NUL;
                   no flag in sqlframe decides this)
  H_infLiteral     `lit(±inf)` is an untyped string literal (Gen.litInfIsString): `select(lit(inf))` is the str 'inf', a
                   VALUES column that mixes an infinity with other floats cannot be typed by the engine
  H_infOperand     an infinity NOT passed through `lit` (plain operand, nested cell) is written by `_lit` as a typed
                   literal (true of the current source: `Gen.litChain` has an isInf cast)
  H_dictOrder      dict rows are laid out positionally (Gen.dictRowsByKey)
  H_trimmedNames   inferred / listed names are `.strip()`ped (Gen.*NamesStripped)
  H_namesAreFields a list-of-names schema over dict/Row rows is looked up by name in the first row
  H_listFloat      a float literal nested in a list passed to `lit` (no CAST) comes back as Decimal
  H_nanWidth       the NaN literal is CAST('NaN' AS FLOAT): 32 bit
  H_ddlSimple      the DDL string is split on ',' and ' ' (types with commas, `a: int`, double blanks)
  H_floatDigits    a finite float is written with `repr`: without an exponent the ENGINE reads the text as DECIMAL and
                   converts it to DOUBLE through its digits as an integer — exact only while that integer is
                   exactly representable (<= 2^53); beyond, the value may come back a unit or two in the last
                   place off (no flag in sqlframe decides this; the literal would have to carry an exponent)
  H_firstRowTyped  column types are inferred from the FIRST row alone (first element of an array, every field of
                   a Row): a None / empty container there leaves the position untyped — a Row field is then
                   removed from every row by the CAST to the narrower struct type (PySpark merges all rows)
-/
import SqlframeModel.Impl.C09Values
import SqlframeModel.Impl.C09Infer
import SqlframeModel.Impl.C09Time
namespace Sqlframe.C09
open Gen

def H_noNul (s : List Char) : Prop := NoNul s

instance (s : List Char) : Decidable (H_noNul s) := by unfold H_noNul; exact inferInstance

def H_infLiteral (k : PyKind) : Prop := litInfIsString = false ∨ k ≠ .floatInf

instance (k : PyKind) : Decidable (H_infLiteral k) := by unfold H_infLiteral; exact inferInstance

def H_infOperand (k : PyKind) : Prop := typedRight .floatInf (columnLit .floatInf) = true ∨ k ≠ .floatInf

instance (k : PyKind) : Decidable (H_infOperand k) := by unfold H_infOperand; exact inferInstance

/-- a DECIMAL-typed float literal nested in a list comes back as `Decimal` (Gen.toValueDecimalToFloat) -/
def H_listFloat (decimalTyped direct : Bool) : Prop :=
  toValueDecimalToFloat = true ∨ ¬ (decimalTyped = true ∧ direct = false)

instance (a b : Bool) : Decidable (H_listFloat a b) := by unfold H_listFloat; exact inferInstance

/-- the NaN literal is single precision (`Gen.litChain`: `exp.DataType.build("float")`) and drags the
    finite floats of its VALUES column / array down to 24 bits -/
def H_nanWidth (unifiesToNan : Bool) : Prop := nanLitTy = some "double" ∨ unifiesToNan = false

instance (u : Bool) : Decidable (H_nanWidth u) := by unfold H_nanWidth; exact inferInstance

def H_dictOrder {α : Type} (cols : List String) (row : List (String × α)) : Prop :=
  dictRowsByKey = true ∨ row.map (·.1) = cols

instance {α : Type} (cols : List String) (row : List (String × α)) : Decidable (H_dictOrder cols row) := by
  unfold H_dictOrder; exact inferInstance

/-- a float cell whose literal the engine types as DECIMAL has few enough digits to be converted exactly -/
def H_floatDigits (decimalTyped : Bool) (unscaled : Nat) : Prop :=
  decimalTyped = false ∨ unscaled ≤ 9007199254740992

instance (d : Bool) (u : Nat) : Decidable (H_floatDigits d u) := by unfold H_floatDigits; exact inferInstance

/-- the first row shows a type at every position the inference looks at -/
def H_firstRowTyped (v : PyVal) : Prop := (specTy v).isSome = true

instance (v : PyVal) : Decidable (H_firstRowTyped v) := by unfold H_firstRowTyped; exact inferInstance

def allTrimmed (ns : List String) : Prop := ∀ n ∈ ns, trimmed n

instance (ns : List String) : Decidable (allTrimmed ns) := by unfold allTrimmed; exact inferInstance

def simpleDDL (fs : List (String × String)) : Prop :=
  fs ≠ [] ∧ (∀ f ∈ fs, simpleWord f.1.toList ∧ simpleWord f.2.toList) ∧
  isStructSpelling (renderDDL (fs.map (fun f => (f.1.toList, f.2.toList)))) = false

instance (fs : List (String × String)) : Decidable (simpleDDL fs) := by unfold simpleDDL; exact inferInstance

/-- the schema form / first-row shape pairs for which the derived names are the declared names -/
def SchemaInScope : SchemaForm → RowShape → Prop
  | .none, .positional _ => True
  | .none, .keyed ks => inferredNamesStripped = false ∨ allTrimmed ks
  | .names ns, .positional _ => listNamesStripped = false ∨ allTrimmed ns
  | .names ns, .keyed ks => (listNamesStripped = false ∨ allTrimmed ns) ∧ ∀ n ∈ ns, n ∈ ks
  | .ddl fs, _ => simpleDDL fs
  | .dict _, _ => True
  | .structType _, _ => True

instance (f : SchemaForm) (s : RowShape) : Decidable (SchemaInScope f s) := by
  cases f <;> cases s <;> unfold SchemaInScope <;> exact inferInstance

/-- names of the schema hypotheses a (form, shape) pair violates (for the driver / classifier) -/
def schemaViolated (form : SchemaForm) (shape : RowShape) : List String :=
  match form, shape with
  | .none, .keyed ks => if inferredNamesStripped = false ∨ allTrimmed ks then [] else ["H_trimmedNames"]
  | .names ns, .positional _ => if listNamesStripped = false ∨ allTrimmed ns then [] else ["H_trimmedNames"]
  | .names ns, .keyed ks =>
    (if listNamesStripped = false ∨ allTrimmed ns then [] else ["H_trimmedNames"]) ++
    (if ∀ n ∈ ns, n ∈ ks then [] else ["H_namesAreFields"])
  | .ddl fs, _ => if simpleDDL fs then [] else ["H_ddlSimple"]
  | _, _ => []

end Sqlframe.C09
