/-
Impl/C08Window.lean — the meaning of a *resolved* window definition over a Core table
(namespace `Sqlframe.Win`).

A resolved definition (`WinDef`) is what an engine sees after parsing: partition columns, order keys
with explicit direction and null placement, and an optional frame.  Both sides of C08 use this one
evaluator: the Spark specification resolves the user's builder calls the way PySpark does, the
sqlframe model resolves the clause sqlframe emits the way the execution engine (DuckDB) reads it
(Impl/C08Spec.lean).  ASSUMED, and validated by the correspondence stream on every run (DuckDB) and
against live PySpark 3.5 in the thorough tier: that both engines evaluate a resolved definition as
written here —

* partitions: rows with equal partition-key values (NULL is a key value like any other);
* ordering inside a partition by `Core.rowLe` (explicit null placement per key);
* ROWS frames by position, RANGE frames by value offset on a single integer order key, a NULL
  current key having its peer group as offset boundary; `CURRENT ROW` in a RANGE frame = peer group;
* default frame: RANGE UNBOUNDED PRECEDING .. CURRENT ROW (peers included) with an ORDER BY, the whole
  partition without;
* ranking functions and lag/lead look at the whole ordered partition; aggregates, first, last at
  the frame (NULLs skipped by sum/min/max/count, respected by first/last/lag/lead).
-/
import SqlframeModel.Core.Table
namespace Sqlframe.Win

inductive Bound
  | unboundedPreceding
  | unboundedFollowing
  | currentRow
  | preceding (n : Nat)
  | following (n : Nat)
  deriving DecidableEq, Repr, Inhabited

inductive FrameKind | rows | range
  deriving DecidableEq, Repr, Inhabited

structure Frame where
  kind : FrameKind
  lo : Bound
  hi : Bound
  deriving DecidableEq, Repr, Inhabited

structure WinDef where
  part : List Name := []
  order : List OrdKey := []
  frame : Option Frame := none
  deriving DecidableEq, Repr, Inhabited

/-- Spark's (and the SQL standard's) frame when none is written -/
def defaultFrame (order : List OrdKey) : Frame :=
  if order.isEmpty then ⟨.rows, .unboundedPreceding, .unboundedFollowing⟩
  else ⟨.range, .unboundedPreceding, .currentRow⟩

def WinDef.effFrame (w : WinDef) : Frame := w.frame.getD (defaultFrame w.order)

/-! ### partitions and their order -/

/-- rows tagged with their input position -/
def tagRows (rows : List Row) : List (Nat × Row) := (List.range rows.length).zip rows

def partKey (cols : List Name) (pk : List Name) (r : Row) : List Val := pk.map (lookup cols r)

def partitionOf (cols : List Name) (pk : List Name) (tagged : List (Nat × Row)) (r : Row) : List (Nat × Row) :=
  tagged.filter (fun q => decide (partKey cols pk q.2 = partKey cols pk r))

/-- the partition of `r`, in window order (ties in input order; no statement depends on the tie order) -/
def sortedPartition (cols : List Name) (w : WinDef) (tagged : List (Nat × Row)) (r : Row) : List (Nat × Row) :=
  sortBy (fun a b => rowLe cols w.order a.2 b.2) (partitionOf cols w.part tagged r)

/-- `a` sorts strictly before `b` -/
def strictBefore (cols : List Name) (ok : List OrdKey) (a b : Row) : Bool := !(rowLe cols ok b a)

def ordKey (cols : List Name) (ok : List OrdKey) (r : Row) : List Val := ok.map (fun k => lookup cols r k.name)

/-! ### frames -/

def loIdx (n p : Nat) : Bound → Int
  | .unboundedPreceding => 0
  | .currentRow => p
  | .preceding k => (p : Int) - k
  | .following k => (p : Int) + k
  | .unboundedFollowing => n

/-- exclusive upper index -/
def hiIdx (n p : Nat) : Bound → Int
  | .unboundedPreceding => 0
  | .currentRow => (p : Int) + 1
  | .preceding k => (p : Int) - k + 1
  | .following k => (p : Int) + k + 1
  | .unboundedFollowing => n

def rowsFrame (P : List Row) (p : Nat) (lo hi : Bound) : List Row :=
  let s := (loIdx P.length p lo).toNat
  let e := min (hiIdx P.length p hi).toNat P.length
  (P.drop s).take (e - s)

/-- the value a RANGE offset boundary compares with: `d` is the signed offset (negative = PRECEDING) -/
def shifted (k : OrdKey) (a d : Int) : Val := .int (if k.desc then a - d else a + d)

/-- is `q` at or after the lower RANGE boundary of the current row? -/
def rangeLoOk (cols : List Name) (ok : List OrdKey) (cur q : Row) : Bound → Bool
  | .unboundedPreceding => true
  | .unboundedFollowing => false
  | .currentRow => rowLe cols ok cur q
  | b =>
    let d : Int := match b with | .preceding k => -(k : Int) | .following k => k | _ => 0
    match ok.head? with
    | none => true
    | some k =>
      match lookup cols cur k.name with
      | .int a => keyLe k (shifted k a d) (lookup cols q k.name)
      | _ => rowLe cols ok cur q

/-- is `q` at or before the upper RANGE boundary of the current row? -/
def rangeHiOk (cols : List Name) (ok : List OrdKey) (cur q : Row) : Bound → Bool
  | .unboundedFollowing => true
  | .unboundedPreceding => false
  | .currentRow => rowLe cols ok q cur
  | b =>
    let d : Int := match b with | .preceding k => -(k : Int) | .following k => k | _ => 0
    match ok.head? with
    | none => true
    | some k =>
      match lookup cols cur k.name with
      | .int a => keyLe k (lookup cols q k.name) (shifted k a d)
      | _ => rowLe cols ok q cur

def rangeFrame (cols : List Name) (ok : List OrdKey) (P : List Row) (cur : Row) (lo hi : Bound) : List Row :=
  P.filter (fun q => rangeLoOk cols ok cur q lo && rangeHiOk cols ok cur q hi)

/-- the frame of the row at position `p` of the ordered partition `P` -/
def frameRows (cols : List Name) (w : WinDef) (P : List Row) (p : Nat) : List Row :=
  let f := w.effFrame
  match f.kind with
  | .rows => rowsFrame P p f.lo f.hi
  | .range => rangeFrame cols w.order P (P.getD p []) f.lo f.hi

/-! ### functions -/

inductive WFn
  | rowNumber
  | rank
  | denseRank
  | ntile (n : Nat)
  | lag (c : Name) (off : Int) (dflt : Val)
  | lead (c : Name) (off : Int) (dflt : Val)
  | sum (c : Name)
  | min (c : Name)
  | max (c : Name)
  | count (c : Name)
  | first (c : Name)
  | last (c : Name)
  deriving DecidableEq, Repr, Inhabited

/-- functions whose value is a ratio (kept exact as numerator / denominator) -/
inductive RFn
  | percentRank
  | cumeDist
  | avg (c : Name)
  deriving DecidableEq, Repr, Inhabited

def rankOf (cols : List Name) (ok : List OrdKey) (P : List Row) (cur : Row) : Nat :=
  1 + P.countP (fun q => strictBefore cols ok q cur)

def denseRankOf (cols : List Name) (ok : List OrdKey) (P : List Row) (cur : Row) : Nat :=
  1 + (dedup ((P.filter (fun q => strictBefore cols ok q cur)).map (ordKey cols ok))).length

/-- Spark's NTILE: `n` buckets, the first `N % n` of them one row larger -/
def ntileOf (n N p : Nat) : Nat :=
  let base := N / n
  let rem := N % n
  if p < rem * (base + 1) then p / (base + 1) + 1
  else (p - rem * (base + 1)) / base + rem + 1

def nonNull (vs : List Val) : List Val := vs.filter (fun v => decide (v ≠ .null))

def sumVals (vs : List Val) : Val :=
  match nonNull vs with
  | [] => .null
  | xs => .int (xs.foldl (fun acc v => match v with | .int i => acc + i | _ => acc) 0)

def minVals (vs : List Val) : Val :=
  match nonNull vs with
  | [] => .null
  | x :: xs => xs.foldl (fun m v => if v.le m then v else m) x

def maxVals (vs : List Val) : Val :=
  match nonNull vs with
  | [] => .null
  | x :: xs => xs.foldl (fun m v => if m.le v then v else m) x

def countVals (vs : List Val) : Val := .int (nonNull vs).length

def offsetVal (cols : List Name) (P : List Row) (j : Int) (c : Name) (dflt : Val) : Val :=
  if 0 ≤ j ∧ j < P.length then lookup cols (P.getD j.toNat []) c else dflt

/-- value of `fn` for the row at position `p` of its ordered partition `P` -/
def evalFn (cols : List Name) (w : WinDef) (fn : WFn) (P : List Row) (p : Nat) : Val :=
  let cur := P.getD p []
  match fn with
  | .rowNumber => .int ((p : Int) + 1)
  | .rank => .int (rankOf cols w.order P cur)
  | .denseRank => .int (denseRankOf cols w.order P cur)
  | .ntile n => .int (ntileOf n P.length p)
  | .lag c off d => offsetVal cols P ((p : Int) - off) c d
  | .lead c off d => offsetVal cols P ((p : Int) + off) c d
  | .sum c => sumVals ((frameRows cols w P p).map (fun r => lookup cols r c))
  | .min c => minVals ((frameRows cols w P p).map (fun r => lookup cols r c))
  | .max c => maxVals ((frameRows cols w P p).map (fun r => lookup cols r c))
  | .count c => countVals ((frameRows cols w P p).map (fun r => lookup cols r c))
  | .first c => ((frameRows cols w P p).map (fun r => lookup cols r c)).head?.getD .null
  | .last c => ((frameRows cols w P p).map (fun r => lookup cols r c)).getLast?.getD .null

/-- (numerator, denominator); `none` = NULL -/
def evalRatio (cols : List Name) (w : WinDef) (fn : RFn) (P : List Row) (p : Nat) : Option (Int × Nat) :=
  let cur := P.getD p []
  match fn with
  | .percentRank => if P.length ≤ 1 then some (0, 1) else some (((rankOf cols w.order P cur : Nat) : Int) - 1, P.length - 1)
  | .cumeDist => some ((P.countP (fun q => rowLe cols w.order q cur) : Nat), P.length)
  | .avg c =>
    let vs := nonNull ((frameRows cols w P p).map (fun r => lookup cols r c))
    match sumVals vs with
    | .int s => some (s, vs.length)
    | _ => none

/-- position of the row tagged `i` in its ordered partition -/
def posOf (i : Nat) (sp : List (Nat × Row)) : Nat := (sp.map (·.1)).idxOf i

/-- the window column: one value per input row, in input order -/
def windowColumn (T : Table) (w : WinDef) (fn : WFn) : List Val :=
  let tg := tagRows T.rows
  tg.map (fun ir =>
    let sp := sortedPartition T.cols w tg ir.2
    evalFn T.cols w fn (sp.map (·.2)) (posOf ir.1 sp))

def ratioColumn (T : Table) (w : WinDef) (fn : RFn) : List (Option (Int × Nat)) :=
  let tg := tagRows T.rows
  tg.map (fun ir =>
    let sp := sortedPartition T.cols w tg ir.2
    evalRatio T.cols w fn (sp.map (·.2)) (posOf ir.1 sp))

/-- `df.withColumn(name, fn.over(w))` for a fresh name: the column is appended, nothing else moves -/
def withWindowColumn (T : Table) (name : Name) (w : WinDef) (fn : WFn) : Table :=
  { cols := T.cols ++ [name], rows := List.zipWith (fun r v => r ++ [v]) T.rows (windowColumn T w fn) }

/-! ### when the value is determined by the data (not by the order of ties) -/

/-- no two rows of a partition are peers (equal on every order key) -/
def orderUnique (cols : List Name) (w : WinDef) (rows : List Row) : Bool :=
  let tg := tagRows rows
  tg.all (fun a => tg.all (fun b => a.1 == b.1 || !(decide (partKey cols w.part a.2 = partKey cols w.part b.2)) ||
    !(decide (ordKey cols w.order a.2 = ordKey cols w.order b.2))))

end Sqlframe.Win
