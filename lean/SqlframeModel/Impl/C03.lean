/-
Impl/C03.lean — CTE-chain model for "the SQL text is self-contained": names and references only.

A DataFrame's statement is `WITH c₁ AS (…), …, cₙ AS (…) <open block>`.  The model keeps, per CTE, its
name and the names its body refers to, plus the references of the open block.  It follows
`_convert_leaf_to_cte` (`wrap`), `_add_ctes_to_expression` (`addCtes`, incl. rename-on-clash with the
`replaced_cte_names` map applied to later incoming CTEs), `join`, `_set_operation`, and the final
`_replace_cte_names_with_hashes` (`rename`).  CTE names are content hashes in the real code; the model
takes the hash as an abstract supply of names and states what it needs of it (freshness / injectivity)
as explicit hypotheses, which the harness checks on every generated statement.
-/
namespace Sqlframe

structure Cte where
  name : Nat
  refs : List Nat
  deriving Repr, DecidableEq

abbrev Chain := List Cte

def cnames (c : Chain) : List Nat := c.map (·.name)

/-- every CTE refers only to names defined *earlier* (`seen`: names defined so far) -/
def closedFrom (seen : List Nat) : Chain → Prop
  | [] => True
  | c :: cs => (∀ r ∈ c.refs, r ∈ seen) ∧ closedFrom (seen ++ [c.name]) cs

/-- self-contained: no name defined twice, every referenced CTE defined earlier -/
def CU (c : Chain) : Prop := (cnames c).Nodup ∧ closedFrom [] c

structure NDF where
  ctes : Chain
  open_ : List Nat        -- CTE names the open (final) block refers to
  deriving Repr

def NInv (d : NDF) : Prop := CU d.ctes ∧ ∀ r ∈ d.open_, r ∈ cnames d.ctes

/-- `_convert_leaf_to_cte`: the open block becomes a CTE named `n`, the new open block selects from it -/
def NDF.wrap (d : NDF) (n : Nat) : NDF := { ctes := d.ctes ++ [{ name := n, refs := d.open_ }], open_ := [n] }

def lookupRep (m : List (Nat × Nat)) (r : Nat) : Nat :=
  match m.find? (fun p => p.1 = r) with | some p => p.2 | none => r

/-- `_add_ctes_to_expression`: append the incoming CTEs; one whose name is taken gets a fresh name
    (`fresh`: the salted re-hash), and later incoming CTEs have their references rewritten (`replaced_cte_names`). -/
def addCtes : Chain → Chain → List (Nat × Nat) → List Nat → Chain × List (Nat × Nat)
  | ex, [], rep, _ => (ex, rep)
  | ex, c :: cs, rep, fresh =>
    let c' : Cte := { c with refs := c.refs.map (lookupRep rep) }
    if c.name ∈ cnames ex then
      match fresh with
      | f :: fs => addCtes (ex ++ [{ c' with name := f }]) cs ((c.name, f) :: rep) fs
      | [] => (ex, rep)   -- unreachable when enough fresh names are supplied (hypothesis of the theorems)
    else addCtes (ex ++ [c']) cs rep fresh

/-- `join`: wrap the right side, merge its chain into the left one, the open block refers to both -/
def NDF.join (l r : NDF) (n : Nat) (fresh : List Nat) : NDF :=
  let r' := r.wrap n
  let (ctes, rep) := addCtes l.ctes r'.ctes [] fresh
  { ctes := ctes, open_ := l.open_ ++ [lookupRep rep n] }

/-- `_set_operation`: same merge, but the right operand keeps selecting from its *original* last CTE name
    (`other_df.expression` is used as is): when that name clashed, it now denotes the left side's CTE of the
    same name (same content hash); then the set operation itself is wrapped into CTE `m` -/
def NDF.setopCore (l r : NDF) (n : Nat) (fresh : List Nat) : NDF :=
  let r' := r.wrap n
  let (ctes, _) := addCtes l.ctes r'.ctes [] fresh
  { ctes := ctes, open_ := l.open_ ++ [n] }

def NDF.setop (l r : NDF) (n m : Nat) (fresh : List Nat) : NDF := (NDF.setopCore l r n fresh).wrap m

/-- `_replace_cte_names_with_hashes`: every name (definition and references) goes through `ρ` -/
def renameChain (ρ : Nat → Nat) (c : Chain) : Chain := c.map (fun x => { name := ρ x.name, refs := x.refs.map ρ })

/-- programs: how a DataFrame was built, as far as the CTE structure is concerned -/
inductive Prog
  | base (n : Nat)                          -- createDataFrame, wrapped on first use under name n
  | wrap (p : Prog) (n : Nat)
  | join (l r : Prog) (n : Nat) (fresh : List Nat)
  | setop (l r : Prog) (n m : Nat) (fresh : List Nat)
  deriving Repr

def Prog.build : Prog → NDF
  | .base n => ({ ctes := [], open_ := [] } : NDF).wrap n
  | .wrap p n => p.build.wrap n
  | .join l r n fresh => NDF.join l.build r.build n fresh
  | .setop l r n m fresh => NDF.setop l.build r.build n m fresh

end Sqlframe
