/-
Impl/C18Columns.lean — objects that outlive one statement: Column objects and DataFrames the user holds, and the
builder objects the session hands out (property C18).

A `Column` is a Python object around a sqlglot expression tree.  The user may keep one in a variable
(`BIG = F.col("r.v") > 15`, `c = df["k"]`) and hand it to several pipelines of the same session.  `normalize`
rewrites identifiers *in place*; whether the user's object or a copy is rewritten is decided by the two
functions every DataFrame method goes through (`_ensure_and_normalize_col` for where / withColumn / …,
`_ensure_and_normalize_cols` for select / join / orderBy / groupBy / …) — regenerated as
`Gen.sessNormColCopies`, `Gen.sessNormColsCopies`, `Gen.sessColumnCopyDeep`.

The model: a heap of held Column objects (object ↦ the identifiers of its tree, in `find_all` order); an
`apply` event normalises a list of identifier references — into held objects or fresh — against a CTE chain,
and writes the results back into the heap when the path does not copy.

The same heap carries two more kinds of object, whose state is a log of edits:
* a DataFrame the user keeps (`home = visits.where(…)`) while other work derives siblings from it
  (`home.distinct()`): the method body receives the receiver itself whenever the `@operation` wrapper did not
  first move it into a new CTE, so a sqlglot builder call with `copy=False` (or a direct `.set`) on
  `self.expression` edits the kept object — regenerated as `Gen.sessInPlaceBuilderMethods`;
* the builder objects behind `session.read`, `df.write`, `df.na`, `df.stat`: `format` / `option` / `mode` store
  state on the object, so the accessor has to hand out a new object at every access — regenerated as
  `Gen.sessReadFresh`, `Gen.sessWriteFresh`, `Gen.sessNaFresh`, `Gen.sessStatFresh`.
Everything else is the session model of Impl/C18Session.lean.
-/
import SqlframeModel.Impl.C18Session
namespace Sqlframe.Sess
open Sqlframe Sqlframe.Gen

/-- the identifiers of every Column object the user holds -/
abbrev Heap := List (List Name)

/-- one identifier handed to `normalize`: the `idx`-th identifier of held object `obj`, or one of a Column
    built for this call -/
inductive Ref
  | held (obj idx : Nat)
  | fresh (n : Name)
  deriving DecidableEq, Repr

inductive NormPath
  | single      -- `_ensure_and_normalize_col`
  | multi       -- `_ensure_and_normalize_cols`
  deriving DecidableEq, Repr

/-- does the path hand `normalize` a (deep) copy of the caller's Column?  (regenerated) -/
def pathCopies : NormPath → Bool
  | .single => sessNormColCopies && sessColumnCopyDeep
  | .multi => sessNormColsCopies && sessColumnCopyDeep

def deref (h : Heap) : Ref → Name
  | .held o i => (h.getD o []).getD i ""
  | .fresh n => n

def setAt {α : Type} : List α → Nat → α → List α
  | [], _, _ => []
  | _ :: t, 0, v => v :: t
  | a :: t, n + 1, v => a :: setAt t n v

/-- write one result back into the object the identifier belongs to -/
def writeRef (h : Heap) : Ref → Obs → Heap
  | .held o i, .ident n => setAt h o (setAt (h.getD o []) i n)
  | _, _ => h

/-- `normalize` over the references, one after the other, on the object itself: every identifier is read from
    the heap as it is *now* and its replacement is written back -/
def normInPlace (σ : Session) (ctx : List CteO) (joined : List Name) : Heap → List Ref → List Obs × Heap
  | h, [] => ([], h)
  | h, r :: rest =>
    let o := resolveIdentR σ ctx joined (deref h r)
    let (os, h') := normInPlace σ ctx joined (writeRef h r o) rest
    (o :: os, h')

/-- `normalize` over a copy: the heap is only read -/
def normOnCopy (σ : Session) (ctx : List CteO) (joined : List Name) (h : Heap) (refs : List Ref) : List Obs :=
  refs.map (fun r => resolveIdentR σ ctx joined (deref h r))

inductive Accessor | read | write | na | stat deriving DecidableEq, Repr

/-- a place where the code works either on the very object that is kept, or on a copy / a new object -/
inductive Site
  | builder (method : String)    -- the sqlglot builder call(s) of this DataFrame method on `self.expression`
  | accessor (a : Accessor)      -- the object this accessor hands out
  deriving DecidableEq, Repr

/-- does the site edit the kept object itself?  (regenerated) -/
def siteInPlace : Site → Bool
  | .builder m => sessInPlaceBuilderMethods.contains m
  | .accessor .read => !sessReadFresh
  | .accessor .write => !sessWriteFresh
  | .accessor .na => !sessNaFresh
  | .accessor .stat => !sessStatFresh

/-- append one edit to the log of object `o` -/
def logEdit (h : Heap) (o : Nat) (token : Name) : Heap := setAt h o (h.getD o [] ++ [token])

inductive CEv
  | base (e : Ev)
  /-- a statement (of P or of other work) edits object `obj` at `site`; `shielded`: the `@operation` wrapper gave
      the method body a new tree (the receiver had been moved into a new CTE first) -/
  | edit (own : Bool) (site : Site) (obj : Nat) (token : Name) (shielded : Bool)
  /-- a statement uses object `obj` (collects a kept DataFrame, loads through the reader it was handed);
      `extra`: what this very call chain set on the object before using it -/
  | use (own : Bool) (obj : Nat) (extra : List Name)
  /-- a statement of P (`own`) or of other work hands these identifiers to `normalize` on path `path`,
      against an expression whose CTE chain is `ctx` -/
  | apply (own : Bool) (path : NormPath) (refs : List Ref) (ctx : List CteO) (joined : List Name)
  deriving Repr

/-- the session after one base event -/
def stepEv (σ : Session) : Ev → Session
  | .step _ st => applyStep σ st
  | _ => σ

/-- what P observes of one base event -/
def obsEv (σ : Session) : Ev → List Obs
  | .step _ _ => []
  | .query ctx j ident => [resolveIdentR σ ctx j ident]
  | .readView n => [.viewCols (colsOf σ.catalogCols n)]
  | .readSql srcs cols => [.resolved (resolveSql σ srcs cols)]
  | .observe ts => [.state ts]

/-- which parts of the code work on copies: `cp` per normalisation path, `ip` per edit site
    (`pathCopies` / `siteInPlace` for the code that exists) -/
structure Copying where
  cp : NormPath → Bool
  ip : Site → Bool

def Copying.real : Copying := ⟨pathCopies, siteInPlace⟩

/-- P's observations and the final heap along a history -/
def runC (k : Copying) (σ : Session) (h : Heap) : List CEv → List Obs × Heap
  | [] => ([], h)
  | .base e :: r =>
    let (os, h') := runC k (stepEv σ e) h r
    (obsEv σ e ++ os, h')
  | .edit _ site o token shielded :: r =>
    runC k σ (if k.ip site && !shielded then logEdit h o token else h) r
  | .use own o extra :: r =>
    let (os, h') := runC k σ h r
    ((if own then [Obs.state (h.getD o [] ++ extra)] else []) ++ os, h')
  | .apply own p refs ctx j :: r =>
    let (here, h₁) := if k.cp p then (normOnCopy σ ctx j h refs, h) else normInPlace σ ctx j h refs
    let (os, h') := runC k σ h₁ r
    ((if own then here else []) ++ os, h')

def outsC (k : Copying) (σ : Session) (h : Heap) (I : List CEv) : List Obs := (runC k σ h I).1
def heapAfter (k : Copying) (σ : Session) (h : Heap) (I : List CEv) : Heap := (runC k σ h I).2

/-- the heap after every `apply` / `edit` event (what the driver reports) -/
def heapsC (k : Copying) (σ : Session) (h : Heap) : List CEv → List Heap
  | [] => []
  | .base e :: r => heapsC k (stepEv σ e) h r
  | .edit _ site o token shielded :: r =>
    let h₁ := if k.ip site && !shielded then logEdit h o token else h
    h₁ :: heapsC k σ h₁ r
  | .use _ _ _ :: r => heapsC k σ h r
  | .apply _ p refs ctx j :: r =>
    let h₁ := if k.cp p then h else (normInPlace σ ctx j h refs).2
    h₁ :: heapsC k σ h₁ r

/-- P alone: the steps and the applications of other work removed -/
def onlyOwnC : List CEv → List CEv
  | [] => []
  | .base (.step false _) :: r => onlyOwnC r
  | .apply false _ _ _ _ :: r => onlyOwnC r
  | .edit false _ _ _ _ :: r => onlyOwnC r
  | .use false _ _ :: r => onlyOwnC r
  | e :: r => e :: onlyOwnC r

/-- with a heap that never changes, a history is a history of the session model: P's applications become
    queries for the identifiers the references stand for, the applications of other work disappear -/
def lower (h : Heap) : List CEv → List Ev
  | [] => []
  | .base e :: r => e :: lower h r
  | .apply true _ refs ctx j :: r => refs.map (fun rf => Ev.query ctx j (deref h rf)) ++ lower h r
  | .apply false _ _ _ _ :: r => lower h r
  | .edit _ _ _ _ _ :: r => lower h r
  | .use true o extra :: r => Ev.observe (h.getD o [] ++ extra) :: lower h r
  | .use false _ _ :: r => lower h r

/-- H_columnsFresh-style bookkeeping for the driver: does any application touch a held object? -/
def touchesHeld : List CEv → Bool
  | [] => false
  | .apply _ _ refs _ _ :: r => refs.any (fun rf => match rf with | .held _ _ => true | _ => false) || touchesHeld r
  | _ :: r => touchesHeld r

end Sqlframe.Sess
