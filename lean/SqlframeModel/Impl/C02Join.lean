/-
Impl/C02Join.lean — joins: (1) the *assumed* meaning of one SQL join (`joinPairs`, `joinTables`; trusted
base, validated against DuckDB by the C02 correspondence stream), (2) PySpark's specification of
`df1.join(df2, on, how)` for two tables (`joinSpecNames`, `joinSpecExpr`, `specKindOf`; validated against live
PySpark 3.5.9, tools/oracle/c02_pyspark.json), (3) the pure list code of `BaseDataFrame.join`
(sqlframe/base/dataframe.py ~1040–1125) and `_resolve_ambiguous_columns` (~801–847) around the *generated*
decisions of `Gen.Joins`, and (4) the join block those functions build for two frozen inputs, as a C01 `DF`.
The symbolic whole-program model (Impl/C02Prog.lean) calls the same functions.
-/
import SqlframeModel.Impl.DataFrame
import SqlframeModel.Gen.Joins
namespace Sqlframe
open Gen

inductive JoinKind
  | inner | cross | leftOuter | rightOuter | fullOuter | leftSemi | leftAnti
  deriving DecidableEq, Repr, Inhabited

def JoinKind.all : List JoinKind := [.inner, .cross, .leftOuter, .rightOuter, .fullOuter, .leftSemi, .leftAnti]

/-- does the join make the right table's columns visible? -/
def JoinKind.keepsRight : JoinKind → Bool
  | .leftSemi | .leftAnti => false
  | _ => true

/-! ### (1) one SQL join (assumed engine semantics) -/

/-- a joined row before flattening: the left row and the right row, `none` = padded with NULLs -/
abbrev Pair := Option Row × Option Row

/-- `L <kind> JOIN R ON m` as a bag of pairs (the order is the nested-loop order; only the bag matters) -/
def joinPairs (kind : JoinKind) (m : Row → Row → Bool) (ls rs : List Row) : List Pair :=
  let matched : List Pair := ls.flatMap (fun l => (rs.filter (m l)).map (fun r => (some l, some r)))
  let lun : List Pair := (ls.filter (fun l => !(rs.any (m l)))).map (fun l => (some l, none))
  let run : List Pair := (rs.filter (fun r => !(ls.any (fun l => m l r)))).map (fun r => (none, some r))
  match kind with
  | .inner => matched
  | .cross => ls.flatMap (fun l => rs.map (fun r => (some l, some r)))
  | .leftOuter => matched ++ lun
  | .rightOuter => matched ++ run
  | .fullOuter => matched ++ lun ++ run
  | .leftSemi => (ls.filter (fun l => rs.any (m l))).map (fun l => (some l, none))
  | .leftAnti => lun

def nulls (n : Nat) : Row := List.replicate n Val.null

/-- the row the engine hands to SELECT / WHERE -/
def Pair.flat (kind : JoinKind) (nl nr : Nat) (p : Pair) : Row :=
  if kind.keepsRight then p.1.getD (nulls nl) ++ p.2.getD (nulls nr) else p.1.getD (nulls nl)

/-- does the ON clause hold on a combined row? (no ON clause = always) -/
def onHolds (env : List Name) (on : Option Expr) (row : Row) : Bool :=
  match on with
  | none => true
  | some e => isTrue (eval env row e)

/-- the FROM-clause value `L <kind> JOIN R [ON on]`; both inputs carry (qualified) column names -/
def joinTables (kind : JoinKind) (on : Option Expr) (L R : Table) : Table :=
  let env := L.cols ++ R.cols
  { cols := if kind.keepsRight then env else L.cols,
    rows := (joinPairs kind (fun l r => onHolds env on (l ++ r)) L.rows R.rows).map (Pair.flat kind L.cols.length R.cols.length) }

/-- how sqlglot + DuckDB read the `join_type=` string (assumed; exercised by the stream) -/
def kindOfJoinType : String → Option JoinKind
  | "inner" => some .inner
  | "cross" => some .cross
  | "left outer" => some .leftOuter
  | "right outer" => some .rightOuter
  | "full outer" => some .fullOuter
  | "left semi" => some .leftSemi
  | "left anti" => some .leftAnti
  | _ => none

/-- the join-type string `join` produces for each kind (see `C02_how`) -/
def JoinKind.jt : JoinKind → String
  | .inner => "inner"
  | .cross => "cross"
  | .leftOuter => "left outer"
  | .rightOuter => "right outer"
  | .fullOuter => "full outer"
  | .leftSemi => "left semi"
  | .leftAnti => "left anti"

/-- the `side` sqlglot records for a join built from that string -/
def sideOfJoinType : String → String
  | "left outer" => "left"
  | "right outer" => "right"
  | "full outer" => "full"
  | "left semi" => "left"
  | "left anti" => "left"
  | _ => ""

/-! ### (2) PySpark's specification -/

/-- every documented spelling of `how` and the join PySpark performs for it (JoinType.apply) -/
def specKindTable : List (String × JoinKind) := [
  ("inner", .inner), ("cross", .cross),
  ("outer", .fullOuter), ("full", .fullOuter), ("fullouter", .fullOuter), ("full_outer", .fullOuter),
  ("left", .leftOuter), ("leftouter", .leftOuter), ("left_outer", .leftOuter),
  ("right", .rightOuter), ("rightouter", .rightOuter), ("right_outer", .rightOuter),
  ("semi", .leftSemi), ("leftsemi", .leftSemi), ("left_semi", .leftSemi),
  ("anti", .leftAnti), ("leftanti", .leftAnti), ("left_anti", .leftAnti)]

/-- `JoinType.apply` first does `typ.toLowerCase(Locale.ROOT).replace("_", "")`. ASCII lower-casing is the model of
    both Java's and Python's lower-casing here (shared primitive `Gen.strLower`: the only non-ASCII character that
    lower-cases to an ASCII letter is U+212A → `k`, and no spelling contains a `k`). -/
def specCanon (how : String) : String := strRemoveChar '_' (strLower how)

/-- the `match` of `JoinType.apply` on the canonical string -/
def specKindCanon : List (String × JoinKind) := [
  ("inner", .inner), ("outer", .fullOuter), ("full", .fullOuter), ("fullouter", .fullOuter),
  ("leftouter", .leftOuter), ("left", .leftOuter), ("rightouter", .rightOuter), ("right", .rightOuter),
  ("leftsemi", .leftSemi), ("semi", .leftSemi), ("leftanti", .leftAnti), ("anti", .leftAnti), ("cross", .cross)]

/-- the join PySpark performs for ANY string given as `how` (`none`: PySpark raises "Unsupported join type") -/
def specKindOf (how : String) : Option JoinKind := (specKindCanon.find? (·.1 = specCanon how)).map (·.2)

/-- PySpark runs a cross join that has a condition as an inner join -/
def specKindWithOn (k : JoinKind) : JoinKind := if k = .cross then .inner else k

/-- `=` is TRUE (never for a NULL operand) -/
def eqTrue (a b : Val) : Bool := isTrue (binSem .eq a b)

def coalesce2 (a b : Val) : Val := if a = .null then b else a

/-- USING-style key match of a name-join -/
def keyMatch (lc rc keys : List Name) (l r : Row) : Bool :=
  keys.all (fun k => eqTrue (lookup lc l k) (lookup rc r k))

/-- remove the first column called `k` (USING takes the first attribute with that name as the key) -/
def eraseKey {α} (k : Name) : List (Name × α) → List (Name × α)
  | [] => []
  | cv :: rest => if cv.1 = k then rest else cv :: eraseKey k rest

/-- the non-key columns of one side, by position: everything except the chosen key instances -/
def restOf {α} (keys : List Name) (cvs : List (Name × α)) : List (Name × α) :=
  keys.foldl (fun acc k => eraseKey k acc) cvs

def restCols (cols keys : List Name) : List Name := (restOf keys (cols.zip cols)).map (·.1)

/-- values of the non-key columns of one side (`none` side = NULLs) -/
def restVals (cols keys : List Name) (row : Option Row) : Row :=
  (restOf keys (cols.zip (row.getD (nulls cols.length)))).map (·.2)

/-- the key value PySpark outputs: the left key, the right key for a right join, COALESCE for a full join -/
def specKeyVal (kind : JoinKind) (lc rc : List Name) (p : Pair) (k : Name) : Val :=
  let lv := lookup lc (p.1.getD []) k
  let rv := lookup rc (p.2.getD []) k
  match kind with
  | .rightOuter => rv
  | .fullOuter => coalesce2 lv rv
  | _ => lv

/-- `L.join(R, on=keys, how)`: key columns first, only keys de-duplicated, left side only for semi/anti -/
def joinSpecNames (kind : JoinKind) (keys : List Name) (L R : Table) : Table :=
  let ps := joinPairs kind (keyMatch L.cols R.cols keys) L.rows R.rows
  { cols := keys ++ restCols L.cols keys ++ (if kind.keepsRight then restCols R.cols keys else []),
    rows := ps.map (fun p => keys.map (specKeyVal kind L.cols R.cols p) ++ restVals L.cols keys p.1 ++
      (if kind.keepsRight then restVals R.cols keys p.2 else [])) }

/-- `L.join(R, on=<condition>, how)`: left columns then right columns, duplicates kept -/
def joinSpecExpr (kind : JoinKind) (cond : Row → Row → Bool) (L R : Table) : Table :=
  { cols := if kind.keepsRight then L.cols ++ R.cols else L.cols,
    rows := (joinPairs kind cond L.rows R.rows).map (Pair.flat kind L.cols.length R.cols.length) }

/-! ### (3) the implementation's pure list code -/

/-- `how` as `join` uses it: the two rewrites, then JOIN_TYPE_MAPPING and `.replace("_", " ")` -/
def joinTypeFor (onNone : Bool) (how : String) : String := joinTypeOf (rewriteHow onNone how)

def normaliseHow (onNone : Bool) (how : String) : Option JoinKind := kindOfJoinType (joinTypeFor onNone how)

def qual (t c : Name) : Name := t ++ "." ++ c

/-- a frozen CTE as a FROM-clause item: its columns qualified with its name -/
def qtable (t : Name) (T : Table) : Table := { cols := T.cols.map (qual t), rows := T.rows }

def sideCols (selfCols otherCols : List Name) : Side → List Name
  | .self => selfCols
  | .other => otherCols

/-- `select_columns = self_columns if join_type in [...] else self_columns + other_columns` -/
def selectColumns (jt : String) (selfCols otherCols : List Name) : List Name :=
  (if jt ∈ leftOnlyJoinTypes then leftOnlyKeeps else selectColumnsOrder).flatMap (sideCols selfCols otherCols)

/-- what `join` hands to `select`: a name still to be resolved, or a ready COALESCE item -/
inductive SelArg
  | name (c : Name)
  | coalesce (t1 t2 : Name) (k : Name) (alias : Name)
  deriving Repr, DecidableEq

/-- one key of a name-join: (key, CTE of the left column, CTE of the right column) -/
abbrev KeyPair := Name × Name × Name

def sideCte (p : KeyPair) : Side → Name
  | .self => p.2.1
  | .other => p.2.2

/-- `join_column_names`: COALESCE(left, right) AS key for the generated join type, else the key's name -/
def keyArg (jt : String) (p : KeyPair) : SelArg :=
  if coalesceJoinType = some jt then
    match coalesceArgs with
    | [s1, s2] => .coalesce (sideCte p s1) (sideCte p s2) p.1 p.1
    | _ => .name p.1
  else .name p.1

/-! The code names a column in two ways: `Column.alias_or_name` (quote-preserving: a name that is not a plain identifier
is rendered with the input dialect's quotes, `` `order id` ``) and `expression.alias_or_name` (sqlglot's plain name).
Which rendering each site of the name-join branch uses is regenerated (`Gen.selectNameRender`, `Gen.keyNameRender`,
`Gen.dedupKeyRender`); what needs quotes (`needsQuote`) is hand-modelled and compared with the running code. -/

/-- characters the input dialect's tokenizer keeps inside a bare identifier -/
def identChar (c : Char) : Bool := c.isAlphanum || c == '_' || c.toNat ≥ 128

def needsQuote (n : Name) : Bool := !(n.toList.all identChar)

/-- `quote_preserving_alias_or_name` -/
def quoteName (n : Name) : String := if needsQuote n then "`" ++ n ++ "`" else n

def Gen.Render.apply : Render → Name → String
  | .quoted => quoteName
  | .plain => fun n => n

/-- the strings a select column's name is compared with by the de-duplication of the name-join branch: the entries of
    `join_column_names` as listed (a COALESCE item by the quote-preserving rendering of its alias), or — when the source
    builds the list from `join_column_pairs` — the generated rendering of the left key column -/
def dedupKeyNames (jt : String) (pairs : List KeyPair) : List String :=
  match dedupKeyRender with
  | some r => pairs.map (fun p => r.apply p.1)
  | none => pairs.map (fun p => if coalesceJoinType = some jt then quoteName p.1 else keyNameRender.apply p.1)

/-- name-join branch of `join`: keys first, the remaining select columns with the key names filtered out -/
def nameJoinArgs (jt : String) (selfCols otherCols : List Name) (pairs : List KeyPair) : List SelArg :=
  let keyNames := dedupKeyNames jt pairs
  let sc := selectColumns jt selfCols otherCols
  let rest := if dedupKeysOnly then sc.filter (fun c => selectNameRender.apply c ∉ keyNames) else sc
  let keyArgs := pairs.map (keyArg jt)
  if keysFirst then keyArgs ++ rest.map .name else rest.map .name ++ keyArgs

/-- expression-join / cross branch: every select column by name, duplicates kept -/
def exprJoinArgs (jt : String) (selfCols otherCols : List Name) : List SelArg :=
  (selectColumns jt selfCols otherCols).map .name

/-- ON clause of a name-join: AND of `left.k = right.k` (functools.reduce over `&`) -/
def keyEqExpr (p : KeyPair) : Expr := .bin .eq (.col (qual p.2.1 p.1)) (.col (qual p.2.2 p.1))

def nameJoinOn : List KeyPair → Option Expr
  | [] => none
  | p :: ps => some (ps.foldl (fun acc q => .bin .and acc (keyEqExpr q)) (keyEqExpr p))

/-- `_handle_join_column_names_only`: the left column comes from the first candidate CTE having the key;
    `none` = ValueError("Column does not exist in any of the tables") -/
def keyPairs (cands : List (Name × List Name)) (right : Name) : List Name → Option (List KeyPair)
  | [] => some []
  | k :: ks =>
    match (if keyLeftmostFirst then cands else cands.reverse).find? (fun t => keyLookupRender.apply k ∈ t.2), keyPairs cands right ks with
    | some t, some ps => some ((k, t.1, right) :: ps)
    | _, _ => none

/-! `_resolve_ambiguous_columns`: an unqualified name goes to the CTEs of the FROM/JOIN list that have the
column, walked left to right (or in reverse); the n-th occurrence of the same name takes the n-th such CTE,
staying on the last one when they run out. -/

def candidates (tables : List (Name × List Name)) (c : Name) : List Name :=
  (tables.filter (fun t => c ∈ t.2)).map (·.1)

def pickCte (cands : List Name) (prev : Nat) : Option Name := cands[min prev (cands.length - 1)]?

/-- `tables`: the join tables in walk order; `before`: the names resolved earlier in the same call -/
def resolveName (tables : List (Name × List Name)) (before : List Name) (c : Name) : Expr :=
  match pickCte (candidates tables c) (before.count c) with
  | some t => .col (qual t c)
  | none => .col c

def resolveArgs (tables : List (Name × List Name)) : List Name → List SelArg → List (Name × Expr)
  | _, [] => []
  | before, .name c :: rest => (c, resolveName tables before c) :: resolveArgs tables (before ++ [c]) rest
  | before, .coalesce t1 t2 k a :: rest =>
      (a, Expr.ite (.isNull (.col (qual t1 k))) (.col (qual t2 k)) (.col (qual t1 k))) :: resolveArgs tables before rest

/-- the walk order of `_resolve_ambiguous_columns` for a block whose first join has that type -/
def walkOrder (firstJt : String) (tables : List (Name × List Name)) : List (Name × List Name) :=
  if resolveReversed (sideOfJoinType firstJt) then tables.reverse else tables

/-! ### (4) the join block for two frozen inputs -/

/-- `l.join(r, on=keys, how)` for two frozen CTEs named `lt`, `rt` (as a C01 `DF`: FROM-value, open block, last_op) -/
def joinDFNames (jt : String) (kind : JoinKind) (lt rt : Name) (keys : List Name) (L R : Table) : Option DF :=
  match keyPairs [(lt, L.cols)] rt keys with
  | none => none
  | some pairs =>
    let tables := [(lt, L.cols), (rt, R.cols)]
    some { src := joinTables kind (nameJoinOn pairs) (qtable lt L) (qtable rt R),
           blk := { sel := resolveArgs (walkOrder jt tables) [] (nameJoinArgs jt L.cols R.cols pairs) },
           last := .from_ }

/-- `l.join(r, on=<resolved condition>, how)` / `crossJoin` -/
def joinDFExpr (jt : String) (kind : JoinKind) (lt rt : Name) (on : Option Expr) (L R : Table) : DF :=
  let tables := [(lt, L.cols), (rt, R.cols)]
  { src := joinTables kind on (qtable lt L) (qtable rt R),
    blk := { sel := resolveArgs (walkOrder jt tables) [] (exprJoinArgs jt L.cols R.cols) },
    last := .from_ }

end Sqlframe
