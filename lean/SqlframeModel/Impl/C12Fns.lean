/-
Impl/C12Fns.lean — per-engine FUNCTION decisions of sqlframe, over the decisions regenerated into Gen/EngineFns.lean.

  * time formats   `_BaseSession.default_time_format / format_time / format_execution_time`: which of the session's three
                   dialects each helper reads / writes a format in (generated roles), over a model of sqlglot's `format_time`
                   (greedy longest-match rewriting of format elements, `fmtTime`) and sqlglot's per-dialect tables
                   (Impl/C12TimeTables.lean, third party);  `try_to_timestamp`: which helper spells the literal each engine gets;
  * overlay        the CONCAT/SUBSTRING emulation (`overlay_from_substr`, pieces and `len` decision generated) against the
                   native OVERLAY the other engines run (ASSUMED: its SQL-standard definition), NULLs included;
  * sequence       the step each engine's rendering uses when the caller gives none, against Spark's rule;
  * regexp_replace which renderings carry the 'g' option, against the ASSUMED first-match-only engines.

ASSUMED engine primitives (trusted base, compared with DuckDB / the oracle by the check where DuckDB has them):
  SUBSTRING(s, start, len) keeps the characters at positions [start, start+len) ∩ [1, ∞);
  OVERLAY(s PLACING r FROM p FOR l) = SUBSTRING(s, 1, p-1) || r || SUBSTRING(s FROM p+l), NULL if any operand is NULL;
  CONCAT skips NULL operands on DuckDB (and only there); `||` never does;
  GENERATE_SERIES / GENERATE_ARRAY(a, b, ±1) is inclusive and empty when the step points away from b; Spark's SEQUENCE(a, b)
  counts towards b;  REGEXP_REPLACE without the 'g' option replaces only the first match on DuckDB and Postgres, every match elsewhere.
-/
import SqlframeModel.Gen.EngineFns
import SqlframeModel.Impl.C12Names
import SqlframeModel.Impl.C12TimeTables
import SqlframeModel.Impl.C12Round
namespace Sqlframe.C12
open Sqlframe.Gen

/-! ### sqlglot's `format_time` (third party, modelled) -/

abbrev Tbl := List (List Char × List Char)

/-- the longest key of the table that is a prefix of `s` (the first one among equally long keys) -/
def betterThan (best : Option (List Char × List Char)) (n : Nat) : Bool :=
  match best with
  | none => true
  | some b => decide (b.1.length < n)

def longestMatch (tbl : Tbl) (s : List Char) : Option (List Char × List Char) :=
  tbl.foldl (fun best kv =>
    if !kv.1.isEmpty && kv.1.isPrefixOf s && betterThan best kv.1.length then some kv else best) none

/-- rewrite every maximal format element by its table entry, copy everything else (`fuel` bounds the recursion) -/
def fmtTimeAux (tbl : Tbl) : Nat → List Char → List Char
  | 0, _ => []
  | _ + 1, [] => []
  | fuel + 1, c :: rest =>
    match longestMatch tbl (c :: rest) with
    | some (k, v) => v ++ fmtTimeAux tbl fuel ((c :: rest).drop k.length)
    | none => c :: fmtTimeAux tbl fuel rest

def fmtTime (tbl : Tbl) (s : List Char) : List Char := fmtTimeAux tbl s.length s

def tblOf (t : List (String × String)) : Tbl := t.map (fun kv => (kv.1.toList, kv.2.toList))

/-- `{v: k for k, v in mapping.items()}`: one entry per value, the LAST key wins, first-insertion order of the values -/
def inverseOf (tbl : Tbl) : Tbl :=
  tbl.foldl (fun acc kv =>
    if acc.any (fun e => e.1 == kv.2) then acc.map (fun e => if e.1 == kv.2 then (e.1, kv.1) else e)
    else acc ++ [(kv.2, kv.1)]) []

/-- `Dialect.format_time`: a format in the dialect's own language -> strftime -/
def readFormat (dialect : String) (s : List Char) : List Char := fmtTime (tblOf (timeMappingOf dialect)) s

/-- `Generator.format_time`: strftime -> the dialect's own language -/
def writeFormat (dialect : String) (s : List Char) : List Char := fmtTime (inverseOf (tblOf (timeMappingOf dialect))) s

/-! ### the session's time-format helpers (roles generated) -/

/-- `session.default_time_format` -/
def defaultTimeFormat (d : Dialects) : List Char := (timeFormatOf (d.get defaultTimeFormatRole)).toList

/-- `session.format_time(value)`: the format as a strftime string (sqlglot's internal form) -/
def formatTime (d : Dialects) (value : Option (List Char)) : List Char :=
  readFormat (d.get formatTimeReadRole) (value.getD (defaultTimeFormat d))

/-- `session.format_execution_time(value)`: the literal text handed to an engine function that takes a format -/
def formatExecutionTime (d : Dialects) : Option (List Char) → List Char
  | none => (timeFormatOf (d.get execTimeDefaultRole)).toList
  | some v => writeFormat (d.get execTimeWriteRole) (readFormat (d.get execTimeReadRole) v)

/-- what the engine behind a session understands by a format literal (as strftime) -/
def engineReads (d : Dialects) (literal : List Char) : List Char := readFormat d.execution literal

/-- what PySpark understands by a format (Spark's own language) -/
def sparkReads (fmt : Option (List Char)) : List Char := readFormat "spark" (fmt.getD (timeFormatOf "spark").toList)

def tryToTimestampHelper (engine : String) : Option FormatHelper :=
  (tryToTimestampRows.find? (·.1 = engine)).map (·.2.2)

/-- the format literal in the statement `try_to_timestamp(col[, format])` sends on an engine's session -/
def tryToTimestampLiteral (engine : String) (d : Dialects) (fmt : Option (List Char)) : Option (List Char) :=
  (tryToTimestampHelper engine).map fun
    | .formatTime => formatTime d fmt
    | .formatExecutionTime => formatExecutionTime d fmt

/-! ### strings and SQL SUBSTRING (ASSUMED primitive) -/

abbrev Str := List Char

/-- SUBSTRING(s, start, len): the characters at positions [start, start+len) that exist (positions count from 1) -/
def sqlSubstr (s : Str) (start len : Int) : Str :=
  if len ≤ 0 then [] else
  let lo := if start < 1 then 1 else start
  (s.drop (lo - 1).toNat).take (start + len - lo).toNat

/-- SUBSTRING(s FROM start) -/
def sqlSubstrFrom (s : Str) (start : Int) : Str := s.drop ((if start < 1 then 1 else start) - 1).toNat

/-- ASSUMED: the native OVERLAY(s PLACING r FROM p FOR l) (SQL standard; Spark's definition) on non-NULL operands -/
def nativeOverlay (s r : Str) (p l : Int) : Str := sqlSubstr s 1 (p - 1) ++ r ++ sqlSubstrFrom s (p + l)

/-! ### overlay -/

/-- `overlay_from_substr` on non-NULL operands: the three generated pieces; `len?` is the caller's len (none: omitted) -/
def emulOverlayCore (form : ArgForm) (s r : Str) (p : Int) (lenVal : Int) : Str :=
  let L : Int := if overlayEmulKeepsLen form then lenVal else r.length
  sqlSubstr s 1 (p + overlayHeadLenOffset) ++ r ++ sqlSubstr s (p + L + overlayTailStartOffset) s.length

/-- the native branch on non-NULL operands -/
def nativeOverlayCore (form : ArgForm) (s r : Str) (p : Int) (lenVal : Int) : Str :=
  nativeOverlay s r p (if overlayNativeHasFor form then lenVal else r.length)

/-- PySpark: overlay(src, replace, pos[, len]); len defaults to the length of replace -/
def overlaySpecCore (form : ArgForm) (s r : Str) (p : Int) (lenVal : Int) : Str :=
  nativeOverlay s r p (match form with | .omitted => r.length | _ => lenVal)

/-- ASSUMED: the engine's CONCAT(...) skips NULL operands (DuckDB) instead of returning NULL -/
def concatSkipsNull : String → Bool
  | "duckdb" => true
  | _ => false

def overlayIsEmulated (engine : String) : Bool :=
  match overlayEmulated.find? (·.1 = engine) with
  | some p => p.2
  | none => false

/-- the operands of one row: NULL = none; `len` is looked at only when the caller passed one -/
structure OverlayRow where
  src : Option Str
  rep : Option Str
  pos : Option Int
  len : Option Int
  deriving DecidableEq, Repr

def OverlayRow.allPresent (form : ArgForm) (x : OverlayRow) : Bool :=
  x.src.isSome && x.rep.isSome && x.pos.isSome && (form == .omitted || x.len.isSome)

/-- NULL-propagating evaluation (`||`, native OVERLAY, SUBSTRING, +, LENGTH are all strict) -/
def strictOverlay (f : Str → Str → Int → Int → Str) (form : ArgForm) (x : OverlayRow) : Option Str :=
  match x.src, x.rep, x.pos with
  | some s, some r, some p =>
    match form with
    | .omitted => some (f s r p 0)
    | _ => x.len.map (f s r p)
  | _, _, _ => none

/-- DuckDB's `CONCAT(head, rep, tail)`: each piece is NULL when one of its own operands is, and NULL pieces are skipped -/
def skippingOverlay (form : ArgForm) (x : OverlayRow) : Option Str :=
  let head : Option Str := match x.src, x.pos with
    | some s, some p => some (sqlSubstr s 1 (p + overlayHeadLenOffset))
    | _, _ => none
  let lenV : Option Int := if overlayEmulKeepsLen form then x.len else x.rep.map (fun r => (r.length : Int))
  let tail : Option Str := match x.src, x.pos, lenV with
    | some s, some p, some l => some (sqlSubstr s (p + l + overlayTailStartOffset) s.length)
    | _, _, _ => none
  some ((head.getD []) ++ (x.rep.getD []) ++ (tail.getD []))

/-- `F.overlay(...)` as the engine evaluates the statement its session sends -/
def sqlframeOverlay (engine : String) (form : ArgForm) (x : OverlayRow) : Option Str :=
  if overlayIsEmulated engine then
    (if concatSkipsNull engine then skippingOverlay form x else strictOverlay (emulOverlayCore form) form x)
  else strictOverlay (nativeOverlayCore form) form x

/-- PySpark's value -/
def overlaySpec (form : ArgForm) (x : OverlayRow) : Option Str := strictOverlay (overlaySpecCore form) form x

/-- the domain the documented semantics covers: positions from 1, lengths from 0 -/
def OverlayRow.inDomain (x : OverlayRow) : Prop :=
  (∀ p, x.pos = some p → 1 ≤ p) ∧ (∀ l, x.len = some l → 0 ≤ l)

def OverlayRow.inDomainB (x : OverlayRow) : Bool :=
  (match x.pos with | some p => decide (1 ≤ p) | none => true) && (match x.len with | some l => decide (0 ≤ l) | none => true)

theorem OverlayRow.inDomain_iff (x : OverlayRow) : x.inDomain ↔ x.inDomainB = true := by
  unfold OverlayRow.inDomain OverlayRow.inDomainB
  cases x.pos <;> cases x.len <;> simp

instance (x : OverlayRow) : Decidable x.inDomain := decidable_of_iff _ (OverlayRow.inDomain_iff x).symm

/-! ### sequence -/

def rangeUp (a : Int) : Nat → List Int
  | 0 => []
  | n + 1 => a :: rangeUp (a + 1) n

def rangeDown (a : Int) : Nat → List Int
  | 0 => []
  | n + 1 => a :: rangeDown (a - 1) n

/-- ASSUMED: GENERATE_SERIES / GENERATE_ARRAY(a, b, step) for a unit step: inclusive, empty when the step points away from b -/
def genSeries (a b step : Int) : List Int :=
  if step = 1 then (if a ≤ b then rangeUp a (b - a + 1).toNat else [])
  else if step = -1 then (if b ≤ a then rangeDown a (a - b + 1).toNat else [])
  else []

/-- Spark: "if step is not set, incrementing by 1 if start is less than or equal to stop, otherwise -1" -/
def sparkSequence (a b : Int) : List Int :=
  if a ≤ b then rangeUp a (b - a + 1).toNat else rangeDown a (a - b + 1).toNat

def seqRuleOf (engine : String) : Option StepRule := (seqNoStepRule.find? (·.1 = engine)).map (·.2)

/-- `F.sequence(start, stop)` (no step) as the engine evaluates the statement; `.native` = the engine's own SEQUENCE (Spark's rule) -/
def sqlframeSequence (rule : StepRule) (a b : Int) : List Int :=
  match rule with
  | .direction => genSeries a b (if a ≤ b then 1 else -1)
  | .const k => genSeries a b k
  | .native => sparkSequence a b

/-- the engines whose rendering of sequence() is an array expression the model covers -/
def sequenceEngines : List String := ["duckdb", "bigquery", "spark", "databricks"]

/-! ### regexp_replace -/

/-- a subject string cut at the matches of the pattern -/
inductive Piece | hit | ch (c : Char) deriving DecidableEq, Repr
/-- the result: characters, replaced matches, matches left alone -/
inductive Out | ch (c : Char) | replaced | kept deriving DecidableEq, Repr

def replaceAll : List Piece → List Out
  | [] => []
  | .hit :: ps => .replaced :: replaceAll ps
  | .ch c :: ps => .ch c :: replaceAll ps

def keepAll : List Piece → List Out
  | [] => []
  | .hit :: ps => .kept :: keepAll ps
  | .ch c :: ps => .ch c :: keepAll ps

def replaceFirst : List Piece → List Out
  | [] => []
  | .hit :: ps => .replaced :: keepAll ps
  | .ch c :: ps => .ch c :: replaceFirst ps

def hits : List Piece → Nat
  | [] => 0
  | .hit :: ps => hits ps + 1
  | .ch _ :: ps => hits ps

/-- ASSUMED: REGEXP_REPLACE without the 'g' option replaces only the first match -/
def regexpFirstOnly : String → Bool
  | "duckdb" => true
  | "postgres" => true
  | _ => false

def regexpRowOf (engine : String) : Option RegexpRow := regexpReplaceRows.find? (·.engine = engine)

/-- `F.regexp_replace(str, pattern, replacement[, position = 1])` as the engine evaluates the statement -/
def sqlframeRegexpReplace (engine : String) (posGiven : Bool) (ps : List Piece) : List Out :=
  match regexpRowOf engine with
  | none => []
  | some r =>
    let g := if posGiven then r.gWithPos else r.gNoPos
    if regexpFirstOnly engine && !g then replaceFirst ps else replaceAll ps

/-! ### rint -/

def rintRuleOf (engine : String) : Option RintRule := (rintRules.find? (·.1 = engine)).map (·.2)

/-- `F.rint(col)` over the double h/2 as the engine evaluates its statement.  ASSUMED: ROUND_EVEN(x, 0) and the native RINT round
    ties to even; `round(col, 0)` (functions.round, with its generated Postgres NUMERIC cast) rounds ties away from zero on
    every engine (`sqlframeRound`'s primitive table, Impl/C12Round.lean) -/
def sqlframeRint (rule : RintRule) (h : Int) : Int :=
  match rule with
  | .roundEven => halfEven h
  | .native => halfEven h
  | .fromRound => halfAway h

/-- PySpark: rint() is Java's Math.rint — ties to even -/
def sparkRint (h : Int) : Int := halfEven h

end Sqlframe.C12
