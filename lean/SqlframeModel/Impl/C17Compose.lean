/-
Impl/C17Compose.lean — compositions sqlframe itself builds around engine functions, beyond the index/argument
arithmetic of Impl/C17.lean.  Every decision comes from Gen/EmulCompose.lean (regenerated from the source):

* `levenshtein(l, r, threshold)`   the CASE around the engine's distance (default body of functions.py)
* `format_string(fmt, *cols)`      `format_string_with_pipes`: split on the placeholders, splice with `||`
* `nanvl`, `dayofweek`             CASE emulation / index base
* `Column.when` / `Column.otherwise` on columns that are KEPT AND REUSED: an object heap of CASE nodes with the
  copy discipline of the two methods as generated flags, next to PySpark's meaning (columns are immutable values)

`duck…` = engine primitive with an assumed meaning (validated by stream B), `emul…` = what sqlframe composes,
`spark…` = Spark 3.5's value (validated against recorded / live PySpark).
-/
import SqlframeModel.Gen.EmulCompose
namespace Sqlframe.C17
open Sqlframe.Gen.Emul

-- ------------------------------------------------------------------------------------------------
-- levenshtein with a threshold
-- ------------------------------------------------------------------------------------------------

/-- one row of the edit-distance table from the previous one -/
def levRow (c : Char) : List Char → List Nat → Nat → List Nat
  | cb :: bs, p0 :: p1 :: ps, left =>
    let v := Nat.min (Nat.min (p1 + 1) (left + 1)) (p0 + (if c = cb then 0 else 1))
    v :: levRow c bs (p1 :: ps) v
  | _, _, _ => []

def levStep (b : List Char) (prev : List Nat) (c : Char) : List Nat :=
  let first := prev.headD 0 + 1
  first :: levRow c b prev first

/-- DuckDB `LEVENSHTEIN(a, b)`: the edit distance (insert / delete / substitute, unit costs) -/
def duckLevenshtein (a b : List Char) : Nat := (a.foldl (levStep b) (List.range (b.length + 1))).getLastD 0

/-- a sqlglot comparison class applied to two integers -/
def cmpOf (name : String) (a b : Int) : Bool :=
  if name == "LTE" then decide (a ≤ b) else if name == "LT" then decide (a < b)
  else if name == "GTE" then decide (b ≤ a) else if name == "GT" then decide (b < a)
  else if name == "EQ" then decide (a = b) else if name == "NEQ" then decide (a ≠ b) else false

def levOperand (name : String) (d : Option Int) (th : Int) : Option Int :=
  if name == "threshold" then some th else if name == "distance" then d else none

/-- `CASE WHEN <l> <cmp> <r> THEN <then> ELSE <else> END` around the distance `d` (NULL when an input is NULL);
    a comparison with NULL is not true, so the ELSE arm answers -/
def emulLevenshteinWith (cmp l r thn : String) (els : Int) (d : Option Int) (t : Option Int) : Option Int :=
  match t with
  | none => d
  | some th =>
    match levOperand l d th, levOperand r d th with
    | some a, some b => if cmpOf cmp a b then levOperand thn d th else some els
    | _, _ => some els

def emulLevenshtein := emulLevenshteinWith levThresholdCmp levThresholdLeft levThresholdRight levThresholdThen levThresholdElse

/-- Spark 3.5 `levenshtein(l, r[, threshold])`: NULL for a NULL input; the distance when it is ≤ threshold, else -1 -/
def sparkLevenshtein (d : Option Int) (t : Option Int) : Option Int :=
  match d, t with
  | none, _ => none
  | some d, none => some d
  | some d, some th => some (if d ≤ th then d else -1)

/-- both inputs are non-NULL, or no threshold is given (the CASE has no arm for a NULL distance) -/
def H_levenshteinNullInput (d : Option Int) (t : Option Int) : Prop := d.isSome ∨ t.isNone
instance (d t : Option Int) : Decidable (H_levenshteinNullInput d t) := by unfold H_levenshteinNullInput; exact inferInstance

-- ------------------------------------------------------------------------------------------------
-- format_string on DuckDB
-- ------------------------------------------------------------------------------------------------

def consHead (c : Char) : List (List Char) → List (List Char)
  | [] => [[c]]
  | h :: t => (c :: h) :: t

/-- `format.replace("%d", "%s").split("%s")`: the text segments between the placeholders `%x`, x ∈ letters
    (always at least one segment) -/
def splitFmtWith (letters : List Char) : List Char → List (List Char)
  | [] => [[]]
  | [c] => [[c]]
  | c :: d :: rest' =>
    if c = '%' ∧ d ∈ letters then [] :: splitFmtWith letters rest' else consHead c (splitFmtWith letters (d :: rest'))

def splitFmt := splitFmtWith fmtPlaceholderLetters

def renderPieces (ps : List FmtPiece) (seg : List Char) (arg : List Char) : List Char :=
  ps.flatMap (fun p => match p with | .seg => seg | .arg => arg)

/-- the loop `for i, value in enumerate(values[1:], start=1)` -/
def fmtLoopWith (last mid : List FmtPiece) (cols : List (List Char)) : Nat → List (List Char) → List Char → Option (List Char)
  | _, [], acc => some acc
  | i, v :: vs, acc =>
    if i = cols.length then fmtLoopWith last mid cols (i + 1) vs (acc ++ renderPieces last v [])
    else match cols[i]? with
      | some a => fmtLoopWith last mid cols (i + 1) vs (acc ++ renderPieces mid v a)
      | none => none   -- cols[i]: IndexError

/-- `format_string_with_pipes` on already split segments; `none` = the call raises -/
def emulFormatValuesWith (arity : Nat) (init last mid : List FmtPiece) (values cols : List (List Char)) : Option (List Char) :=
  if values.length ≠ cols.length + arity then none
  else match values, cols with
    | v0 :: vs, c0 :: _ => fmtLoopWith last mid cols 1 vs (renderPieces init v0 c0)
    | _, _ => none     -- values[0] / cols[0]: IndexError

def emulFormatValues := emulFormatValuesWith fmtArityOffset fmtInit fmtLast fmtMid

/-- `format_string(fmt, *cols)` on DuckDB, the columns already rendered as text -/
def emulFormat (fmt : List Char) (cols : List (List Char)) : Option (List Char) := emulFormatValues (splitFmt fmt) cols

/-- seg₀ arg₀ seg₁ arg₁ … : the text the segments and arguments make, in order -/
def interleave : List (List Char) → List (List Char) → List Char
  | [], _ => []
  | s :: ss, [] => s ++ interleave ss []
  | s :: ss, a :: as => s ++ a ++ interleave ss as

/-- the format string with these segments and placeholder letters -/
def joinFmt : List (List Char) → List Char → List Char
  | [], _ => []
  | [s], _ => s
  | s :: ss, [] => s ++ joinFmt ss []
  | s :: s' :: ss, k :: ks => s ++ '%' :: k :: joinFmt (s' :: ss) ks

/-- Spark (java.util.Formatter) on the formats this model speaks about: `%s` / `%d` take the next argument, `%%` is a
    percent sign, surplus arguments are ignored; any other conversion, or a missing argument: `none` (not modelled) -/
def sparkFormat : List Char → List (List Char) → Option (List Char)
  | [], _ => some []
  | [c], _ => if c = '%' then none else some [c]
  | c :: d :: rest', args =>
    if c = '%' then
      (if d = 's' ∨ d = 'd' then
        (match args with
         | a :: as => (sparkFormat rest' as).map (a ++ ·)
         | [] => none)
       else if d = '%' then (sparkFormat rest' args).map ('%' :: ·)
       else none)
    else (sparkFormat (d :: rest') args).map (c :: ·)

/-- every `%` of the format starts a plain placeholder `%s` / `%d` -/
def plainFmt : List Char → Bool
  | [] => true
  | [c] => c ≠ '%'
  | c :: d :: rest' => if c = '%' then (d = 's' ∨ d = 'd') && plainFmt rest' else plainFmt (d :: rest')

/-- the format consists of text and plain `%s` / `%d` placeholders, one per argument, at least one -/
def H_formatPlainPlaceholders (fmt : List Char) (cols : List (List Char)) : Prop :=
  plainFmt fmt = true ∧ (splitFmtWith ['d', 's'] fmt).length = cols.length + 1 ∧ cols ≠ []
instance (fmt : List Char) (cols : List (List Char)) : Decidable (H_formatPlainPlaceholders fmt cols) := by
  unfold H_formatPlainPlaceholders; exact inferInstance

-- ------------------------------------------------------------------------------------------------
-- nanvl, dayofweek
-- ------------------------------------------------------------------------------------------------

/-- `nanvl_as_case`: CASE WHEN [NOT] isnan(tested) THEN then ELSE else END; isnan(NULL) is NULL, which is not true -/
def emulNanvlWith {α : Type} (negated : Bool) (tested thn els : String) (nan : α → Bool) (c1 c2 : Option α) : Option α :=
  let pickc (n : String) : Option α := if n == "col1" then c1 else c2
  let cond : Bool := match pickc tested with | some v => (if negated then !nan v else nan v) | none => false
  if cond then pickc thn else pickc els

def emulNanvl {α : Type} := @emulNanvlWith α nanvlNegated nanvlTested nanvlThen nanvlElse

/-- Spark `nanvl(a, b)`: a unless it is NaN, then b; NULL for a NULL a -/
def sparkNanvl {α : Type} (nan : α → Bool) (c1 c2 : Option α) : Option α :=
  match c1 with | none => none | some v => if nan v then c2 else some v

/-- the first argument of nanvl is not NULL (the CASE has no arm that keeps a NULL) -/
def H_nanvlNullInput {α : Type} (c1 : Option α) : Prop := c1.isSome = true
instance {α : Type} (c1 : Option α) : Decidable (H_nanvlNullInput c1) := by unfold H_nanvlNullInput; exact inferInstance

/-- DuckDB `DAYOFWEEK(d)` on a day number (proleptic Gregorian ordinal, Monday 0001-01-01 = 1): Sunday = 0 … Saturday = 6 -/
def duckDayOfWeek (ordinal : Int) : Int := ordinal % 7
def emulDayOfWeek (ordinal : Int) : Int := duckDayOfWeek ordinal + dayofweekDuckAddend
/-- Spark `dayofweek`: Sunday = 1 … Saturday = 7 -/
def sparkDayOfWeek (ordinal : Int) : Int := ordinal % 7 + 1

-- ------------------------------------------------------------------------------------------------
-- Column.when / Column.otherwise on columns that are kept and reused
-- ------------------------------------------------------------------------------------------------

inductive Cmp | gt | lt | ge | le | eq | ne
  deriving DecidableEq, Repr

def Cmp.eval : Cmp → Int → Int → Bool
  | .gt, a, b => decide (b < a) | .lt, a, b => decide (a < b) | .ge, a, b => decide (b ≤ a)
  | .le, a, b => decide (a ≤ b) | .eq, a, b => decide (a = b) | .ne, a, b => decide (a ≠ b)

/-- `WHEN x <cmp> k THEN v` -/
structure Branch where
  cmp : Cmp
  k : Int
  v : Int
  deriving DecidableEq, Repr

/-- a CASE node: the WHEN branches in order and the optional ELSE -/
structure CaseObj where
  ifs : List Branch
  dflt : Option Int
  deriving DecidableEq, Repr

/-- a comparison with a NULL x is not true -/
def Branch.holds (b : Branch) (x : Option Int) : Bool := match x with | some v => b.cmp.eval v b.k | none => false

/-- CASE: the value of the first branch whose condition is true, else ELSE, else NULL -/
def CaseObj.eval (c : CaseObj) (x : Option Int) : Option Int :=
  match c.ifs.find? (·.holds x) with | some b => some b.v | none => c.dflt

/-- an operator / function applied on top of a column -/
inductive UOp | neg | add (k : Int) | mul (k : Int) | abs | coalesce (k : Int) | ident
  deriving DecidableEq, Repr

def UOp.eval : UOp → Option Int → Option Int
  | .neg, v => v.map (- ·) | .add k, v => v.map (· + k) | .mul k, v => v.map (· * k)
  | .abs, v => v.map (fun i => (i.natAbs : Int)) | .coalesce k, v => some (v.getD k) | .ident, v => v

/-- one statement of a column program: `bᵢ = F.when(c, v)`, `bᵢ = bⱼ.when(c, v)`, `bᵢ = bⱼ.otherwise(v)`, `bᵢ = op(bⱼ)` -/
inductive Step
  | start (b : Branch)
  | when (on : Nat) (b : Branch)
  | otherwise (on : Nat) (v : Int)
  | un (on : Nat) (op : UOp)
  deriving DecidableEq, Repr

/-- PySpark: a column is an immutable value -/
inductive PExpr
  | case (c : CaseObj)
  | un (op : UOp) (e : PExpr)
  deriving DecidableEq, Repr

def PExpr.eval : PExpr → Option Int → Option Int
  | .case c, x => c.eval x
  | .un op e, x => op.eval (e.eval x)

def addBranch (c : CaseObj) (b : Branch) : CaseObj := { c with ifs := c.ifs ++ [b] }
def setDefault (c : CaseObj) (v : Int) : CaseObj := { c with dflt := some v }

/-- the specification: every binding denotes the value its defining expression has -/
def pstep (bs : List PExpr) : Step → List PExpr
  | .start b => bs ++ [.case ⟨[b], none⟩]
  | .when on b =>
    match bs[on]? with
    | some (.case c) => bs ++ [.case (addBranch c b)]
    | _ => bs ++ [.case ⟨[b], none⟩]
  | .otherwise on v =>
    match bs[on]? with
    | some (.case c) => bs ++ [.case (setDefault c v)]
    | some e => bs ++ [e]
    | none => bs
  | .un on op =>
    match bs[on]? with
    | some e => bs ++ [.un op e]
    | none => bs

def prun (prog : List Step) : List PExpr := prog.foldl pstep []

/-- sqlframe: a column wraps a sqlglot tree; CASE nodes are mutable objects on a heap, trees refer to them -/
inductive HExpr
  | case (id : Nat)
  | un (op : UOp) (e : HExpr)
  deriving DecidableEq, Repr

structure HSt where
  heap : List CaseObj
  binds : List HExpr
  deriving Repr

/-- `wc` / `oc`: Column.when / Column.otherwise work on a copy of the receiver (the generated flags).  Without the copy
    the receiver's own CASE object is written and the result wraps that same object. -/
def hstep (wc oc : Bool) (s : HSt) : Step → HSt
  | .start b => ⟨s.heap ++ [⟨[b], none⟩], s.binds ++ [.case s.heap.length]⟩
  | .when on b =>
    match s.binds[on]? with
    | some (.case id) =>
      (match s.heap[id]? with
       | some c =>
         if wc then ⟨s.heap ++ [addBranch c b], s.binds ++ [.case s.heap.length]⟩
         else ⟨s.heap.set id (addBranch c b), s.binds ++ [.case id]⟩
       | none => ⟨s.heap ++ [⟨[b], none⟩], s.binds ++ [.case s.heap.length]⟩)
    | _ => ⟨s.heap ++ [⟨[b], none⟩], s.binds ++ [.case s.heap.length]⟩   -- not a CASE: `return column_with_if`
  | .otherwise on v =>
    match s.binds[on]? with
    | some (.case id) =>
      (match s.heap[id]? with
       | some c =>
         if oc then ⟨s.heap ++ [setDefault c v], s.binds ++ [.case s.heap.length]⟩
         else ⟨s.heap.set id (setDefault c v), s.binds ++ [.case id]⟩
       | none => ⟨s.heap ++ [⟨[], some v⟩], s.binds ++ [.case s.heap.length]⟩)
    | some e => ⟨s.heap, s.binds ++ [e]⟩
    | none => s
  | .un on op =>
    match s.binds[on]? with
    | some e => ⟨s.heap, s.binds ++ [.un op e]⟩   -- the new tree REFERS to the receiver's nodes (no copy)
    | none => s

def hrunWith (wc oc : Bool) (prog : List Step) : HSt := prog.foldl (hstep wc oc) ⟨[], []⟩
def hrun := hrunWith whenCopiesReceiver otherwiseCopiesReceiver

/-- what a tree means when it is finally rendered: the CASE objects as they are THEN -/
def resolve (heap : List CaseObj) : HExpr → PExpr
  | .case id => .case (heap[id]?.getD ⟨[], none⟩)
  | .un op e => .un op (resolve heap e)

def HSt.view (s : HSt) : List PExpr := s.binds.map (resolve s.heap)

/-- every CASE reference of the tree points into the heap -/
def HExpr.wf (n : Nat) : HExpr → Prop
  | .case id => id < n
  | .un _ e => e.wf n

def HSt.wf (s : HSt) : Prop := ∀ e ∈ s.binds, e.wf s.heap.length

/-- values of every binding on every row: what `select(*bindings)` returns -/
def evalAll (bs : List PExpr) (rows : List (Option Int)) : List (List (Option Int)) := bs.map (fun e => rows.map e.eval)

/-- the methods of the PySpark Column API that derive a column from the receiver -/
def columnApi : List String := [
  "when", "otherwise", "alias", "cast", "asc", "desc", "asc_nulls_last", "desc_nulls_first", "isNull", "isNotNull",
  "eqNullSafe", "startswith", "endswith", "rlike", "like", "ilike", "substr", "isin", "between", "over", "getItem",
  "getField", "binary_op", "inverse_binary_op", "unary_op", "__add__", "__sub__", "__mul__", "__truediv__", "__neg__",
  "__invert__", "__and__", "__or__", "__eq__", "__ne__", "__lt__", "__le__", "__gt__", "__ge__", "__mod__", "__pow__", "copy"]

end Sqlframe.C17
