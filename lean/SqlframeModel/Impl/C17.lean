/-
Impl/C17.lean — sqlframe's OWN emulations on DuckDB (function_alternatives.py and the index/argument
arithmetic inside functions.py / column.py), built from engine primitives.

* `duck…`  : engine primitives with their ASSUMED meaning (DuckDB 1.2.2; validated by stream B of the check)
* `emul…`  : the emulation as sqlframe composes it, with every constant taken from `Gen.Emul` (regenerated)
* `spark…` : the specification, Spark 3.5's value (validated against recorded/live PySpark by stream C)
Values of functions that are passed through to the engine or to sqlglot's function mapping are NOT modelled.
-/
import SqlframeModel.Gen.Emulations
namespace Sqlframe.C17
open Sqlframe.Gen.Emul

-- ------------------------------------------------------------------------------------------------
-- engine primitives (assumed meaning)
-- ------------------------------------------------------------------------------------------------

def fact : Nat → Nat
  | 0 => 1
  | n + 1 => (n + 1) * fact n

/-- DuckDB `FACTORIAL(n)` on a non-negative integer -/
def duckFactorial (n : Nat) : Nat := fact n

/-- DuckDB `xs[i]`: 1-based, negative counts from the end, NULL outside (and for 0) -/
def duckIndex (xs : List Int) (i : Int) : Option Int :=
  if 0 < i then xs[i.toNat - 1]?
  else if i < 0 then (if (-i).toNat ≤ xs.length then xs[xs.length - (-i).toNat]? else none)
  else none

/-- sqlglot renders a Spark-dialect Bracket index `k` for DuckDB as `k + 1` (index offset 0 -> 1) -/
def sqlglotBracketOffset : Int := 1

/-- DuckDB `LIST_SLICE(xs, b, e)`: 1-based, both ends inclusive; a negative bound counts from the end
    (-1 = last element); `b = 0` behaves like 1 -/
def duckListSlice (xs : List Int) (b e : Int) : List Int :=
  let n : Int := xs.length
  let b' := if b < 0 then n + b + 1 else if b = 0 then 1 else b
  let e' := if e < 0 then n + e + 1 else e
  let b'' := if b' < 1 then 1 else b'
  (xs.drop (b'' - 1).toNat).take (e' - b'' + 1).toNat

/-- DuckDB `ARRAY_POSITION(xs, v)` (= list_position): 1-based index of the first occurrence, NULL when absent -/
def duckListPosition : List Int → Int → Option Nat
  | [], _ => none
  | x :: xs, v => if x = v then some 1 else (duckListPosition xs v).map (· + 1)

/-- DuckDB `GENERATE_SERIES(a, b, s)`: a, a+s, … while not past b (inclusive); empty when s points away from b -/
def duckGenerateSeries (a b s : Int) : List Int :=
  if 0 < s then (if a ≤ b then (List.range (((b - a) / s).toNat + 1)).map (fun (i : Nat) => a + (Int.ofNat i) * s) else [])
  else if s < 0 then (if b ≤ a then (List.range (((a - b) / (-s)).toNat + 1)).map (fun (i : Nat) => a + (Int.ofNat i) * s) else [])
  else []

/-- DuckDB `ROUND(x, 0)` on the rational x = n / d (d > 0): nearest integer, ties AWAY from zero -/
def duckRound0 (n : Int) (d : Int) : Int :=
  let f := n / d          -- floor (Int.ediv with d > 0)
  let m := n % d          -- 0 ≤ m < d
  if 2 * m < d then f else if d < 2 * m then f + 1 else (if 0 ≤ n then f + 1 else f)

/-- DuckDB `SUBSTRING(s, start, len)` for start ≥ 1 and len ≥ 0 (characters) -/
def duckSubstring (s : List Char) (start len : Int) : List Char :=
  (s.drop (start - 1).toNat).take len.toNat

/-- DuckDB `ROUND_EVEN(x, 0)` on x = n / d: nearest integer, ties to even -/
def duckRoundEven0 (n : Int) (d : Int) : Int :=
  let f := n / d
  let m := n % d
  if 2 * m < d then f else if d < 2 * m then f + 1 else (if f % 2 = 0 then f else f + 1)

/-- DuckDB `COALESCE(x, d)` -/
def duckCoalesce {α : Type} (x : Option α) (d : α) : Option α := some (x.getD d)

-- ------------------------------------------------------------------------------------------------
-- Spark 3.5 specifications (ANSI off)
-- ------------------------------------------------------------------------------------------------

/-- `factorial(n)`: n! for 0 ≤ n ≤ 20, NULL otherwise -/
def sparkFactorial (n : Int) : Option Nat := if 0 ≤ n ∧ n ≤ 20 then some (fact n.toNat) else none

/-- `element_at(xs, k)`, k ≠ 0: 1-based, negative from the end, NULL outside -/
def sparkElementAt (xs : List Int) (k : Int) : Option Int :=
  if 0 < k then xs[k.toNat - 1]?
  else if (-k).toNat ≤ xs.length then xs[xs.length - (-k).toNat]? else none

/-- `col.getItem(k)` / `col[k]`, k ≥ 0: 0-based, NULL outside -/
def sparkGetItem (xs : List Int) (k : Int) : Option Int := xs[k.toNat]?

/-- `slice(xs, start, length)`, start ≠ 0, length ≥ 0 -/
def sparkSlice (xs : List Int) (s l : Int) : List Int :=
  if 0 < s then (xs.drop (s - 1).toNat).take l.toNat
  else if (-s).toNat ≤ xs.length then (xs.drop (xs.length - (-s).toNat)).take l.toNat else []

/-- `array_position(xs, v)`: 1-based index of the first occurrence, 0 when absent; NULL for a NULL array -/
def sparkArrayPosition (xs : Option (List Int)) (v : Int) : Option Int :=
  xs.map (fun l => ((duckListPosition l v).map Int.ofNat).getD 0)

/-- `sequence(a, b[, step])`: the default step is 1 when a ≤ b and -1 otherwise -/
def sparkSequence (a b : Int) (step : Option Int) : List Int :=
  duckGenerateSeries a b (step.getD (if a ≤ b then 1 else -1))

/-- `rint(x)` on x = n / d: nearest integer, ties to EVEN (java.lang.Math.rint) -/
def sparkRint (n : Int) (d : Int) : Int :=
  let f := n / d
  let m := n % d
  if 2 * m < d then f else if d < 2 * m then f + 1 else (if f % 2 = 0 then f else f + 1)

/-- `overlay(src, replace, pos[, len])`, pos ≥ 1: len defaults to the length of `replace` -/
def sparkOverlay (s r : List Char) (pos : Int) (len : Option Int) : List Char :=
  let l := len.getD r.length
  s.take (pos - 1).toNat ++ r ++ s.drop ((pos - 1).toNat + l.toNat)

/-- `date_add(d, n)` / `date_sub(d, n)` on day numbers -/
def sparkDateAdd (d n : Int) : Int := d + n
def sparkDateSub (d n : Int) : Int := d - n

-- ------------------------------------------------------------------------------------------------
-- the emulations (constants from Gen.Emul)
-- ------------------------------------------------------------------------------------------------

/-- `factorial_ensure_int`: FACTORIAL(CAST(col AS INT)) -/
def emulFactorial (n : Nat) : Option Nat := some (duckFactorial n)

/-- `factorial_from_case_statement` (BigQuery): first matching row of the CASE table, else NULL -/
def emulFactorialCase (n : Nat) : Option Nat := (factorialTable.find? (·.1 == n)).map (·.2)

/-- `element_at_using_brackets` with a literal index: Bracket(col, k + elementAtShift), rendered with sqlglot's offset -/
def emulElementAtWith (shift : Int) (xs : List Int) (k : Int) : Option Int :=
  duckIndex xs (k + shift + sqlglotBracketOffset)
def emulElementAt := emulElementAtWith elementAtShift
def emulTryElementAt := emulElementAtWith tryElementAtShift

/-- `Column.getItem(k)` with a literal k: element_at(self, k + getItemShift) -/
def emulGetItem (xs : List Int) (k : Int) : Option Int := emulElementAt xs (k + getItemShift)

/-- `slice_as_list_slice`: LIST_SLICE(x, start, start + length + offset) -/
def emulSliceWith (offset : Int) (xs : List Int) (s l : Int) : List Int := duckListSlice xs s (s + l + offset)
def emulSlice := emulSliceWith sliceEndOffset

/-- `array_position`: COALESCE(ARRAY_POSITION(col, v), default) — a NULL array makes ARRAY_POSITION NULL —
    optionally wrapped in `CASE WHEN col IS NOT NULL THEN … END` (generated flag) -/
def emulArrayPositionWith (guards : Bool) (xs : Option (List Int)) (v : Int) : Option Int :=
  if guards && xs.isNone then none
  else duckCoalesce ((xs.bind (fun l => duckListPosition l v)).map Int.ofNat) arrayPositionDefault
def emulArrayPosition := emulArrayPositionWith arrayPositionGuardsNull

/-- `sequence_from_generate_series`: GENERATE_SERIES(start, stop, step or default) -/
def emulSequenceWith (dflt : Int → Int → Int) (a b : Int) (step : Option Int) : List Int :=
  duckGenerateSeries a b (step.getD (dflt a b))
def emulSequence := emulSequenceWith sequenceDefaultStep

/-- `rint` on DuckDB: ROUND(col, 0) (`rint_from_round`) or ROUND_EVEN(col, 0), as generated -/
def emulRintWith (fnName : String) (n d : Int) : Int := if fnName == "ROUND_EVEN" then duckRoundEven0 n d else duckRound0 n d
def emulRint := emulRintWith rintDuckFunction

/-- `overlay_from_substr` -/
def lin3 (c : Int × Int × Int) (pos len : Int) : Int := c.1 * pos + c.2.1 * len + c.2.2
def emulOverlay (s r : List Char) (pos : Int) (len : Option Int) : List Char :=
  let l : Int := len.getD r.length
  duckSubstring s overlayHeadStart (lin3 overlayHeadLen pos l) ++ r ++
    duckSubstring s (lin3 overlayTailStart pos l) s.length

/-- `date_add(col, n)` with an int n: negative n becomes date_sub(col, n * flip), which subtracts -/
def emulDateAdd (d n : Int) : Int := if n < 0 then d - n * dateAddFlip else d + n
def emulDateSub (d n : Int) : Int := if n < 0 then d + n * dateSubFlip else d - n

/-- `array_min_from_sort` / `array_max_from_sort`: element_at(array_sort(col), k) on an already sorted list -/
def emulArrayMinSorted (sorted : List Int) : Option Int := emulElementAt sorted arrayMinIndex
def emulArrayMaxSorted (sorted : List Int) : Option Int := emulElementAt sorted arrayMaxIndex

/-- argument re-orderings: which Python parameter reaches which slot of the sqlglot node -/
def pick (env : List (String × α)) (name : String) (dflt : α) : α := ((env.find? (·.1 == name)).map (·.2)).getD dflt

/-- `locate(substr, str[, pos])` -> StrPosition(this, substr, position) -> engine `strpos(this, substr[, position])` -/
def emulLocate {α β : Type} (strpos : α → α → Option β → γ) (dflt : α) (substr str : α) (pos : Option β) : γ :=
  let env := [("substr", substr), ("str", str)]
  strpos (pick env locateThis dflt) (pick env locateSubstr dflt) (if locatePosition == "pos" then pos else none)

/-- `instr(col, substr)` -/
def emulInstr {α : Type} (strpos : α → α → γ) (dflt : α) (col substr : α) : γ :=
  let env := [("col", col), ("substr", substr)]
  strpos (pick env instrThis dflt) (pick env instrSubstr dflt)

/-- `lpad(col, len, pad)` / `rpad` -> Pad(this, expression, fill_pattern, is_left) -/
def emulPad {σ : Type} (padFn : Bool → σ → Int → σ → σ) (this len fill : String) (isLeft : Bool) (dS : σ) (col : σ) (n : Int) (p : σ) : σ :=
  let envS := [("col", col), ("pad", p)]
  let envI := [("len", n)]
  padFn isLeft (pick envS this dS) (pick envI len 0) (pick envS fill dS)

/-- log1p / expm1 as expression shapes over an abstract real field -/
structure RealOps (R : Type) where
  ln : R → R
  exp : R → R
  add : R → R → R
  ofInt : Int → R
  add_comm : ∀ a b, add a b = add b a

def emulLog1p {R : Type} (o : RealOps R) (x : R) : R := o.ln (o.add x (o.ofInt log1pAddend))
def sparkLog1p {R : Type} (o : RealOps R) (x : R) : R := o.ln (o.add (o.ofInt 1) x)
def emulExpm1 {R : Type} (o : RealOps R) (x : R) : R := o.add (o.exp x) (o.ofInt expm1Addend)
def sparkExpm1 {R : Type} (o : RealOps R) (x : R) : R := o.add (o.exp x) (o.ofInt (-1))

-- ------------------------------------------------------------------------------------------------
-- dispatch
-- ------------------------------------------------------------------------------------------------

/-- what the generated table says a function runs on an engine (`none` = the default body) -/
def implOf (fn engine : String) : Option String :=
  (dispatch.find? (fun r => r.1 == fn && r.2.1 == engine)).map (·.2.2)

/-- the DuckDB emulations this file models, with the alternative each must be dispatched to -/
def modelled : List (String × String) := [
  ("factorial", "factorial_ensure_int"), ("element_at", "element_at_using_brackets"),
  ("slice", "slice_as_list_slice"), ("sequence", "sequence_from_generate_series"),
  ("rint", "rint_from_round"), ("rint", "inline"), ("log1p", "log1p_from_log"), ("expm1", "expm1_from_exp"),
  ("overlay", "overlay_from_substr"), ("array_min", "array_min_from_sort"), ("array_max", "array_max_from_sort"),
  ("try_element_at", "inline"),
  -- Impl/C17Compose.lean
  ("format_string", "format_string_with_pipes"), ("nanvl", "nanvl_as_case"), ("dayofweek", "inline")]

/-- modelled emulations that live in the default body (no engine branch for DuckDB) -/
def modelledDefault : List String := ["array_position", "date_add", "date_sub", "locate", "instr", "lpad", "rpad", "substring", "soundex", "levenshtein"]

/-- DuckDB emulations that are NOT modelled here: compared by value only (stream C), never claimed as proved -/
def unmodelled : List String := [
  "e", "skewness", "kurtosis", "collect_set", "first", "isnull", "percentile_approx", "rand",
  "to_timestamp", "last_day", "sha2", "base64", "decode", "split", "regexp_replace", "array_append",
  "create_map", "arrays_overlap", "array_remove", "array_union", "to_json", "any_value", "day", "endswith", "regexp",
  "replace", "to_timestamp_ntz", "to_unix_timestamp", "try_to_timestamp", "unix_micros", "unix_millis"]

/-- every DuckDB row of the generated dispatch table is accounted for -/
def duckRowOk (r : String × String × String) : Bool :=
  r.2.1 != "duckdb" || r.2.2 == "unsupported" || modelled.contains (r.1, r.2.2) || unmodelled.contains r.1

-- named scope hypotheses (root causes of the open findings) --------------------------------------

/-- the LIST_SLICE end is the last element wanted (`start + length - 1`) -/
def H_sliceEnd : Prop := sliceEndOffset = -1
/-- a negative start lies inside the list and its window ends before the list does
    (LIST_SLICE's end `start + length + offset` is then still a from-the-end index) -/
def H_sliceNegativeStart (n s l : Int) : Prop := 0 < s ∨ (-s ≤ n ∧ s + l + sliceEndOffset < 0)
/-- a step is given, or the default step is Spark's (1 ascending, -1 descending) for these bounds -/
def H_sequenceDefaultStep (a b : Int) (step : Option Int) : Prop :=
  step.isSome ∨ sequenceDefaultStep a b = (if a ≤ b then 1 else -1)
/-- DuckDB rounds ties to even, or the argument of rint is not exactly half-way between two integers -/
def H_rintTies (n d : Int) : Prop := rintDuckFunction = "ROUND_EVEN" ∨ 2 * (n % d) ≠ d
/-- the emulation tests the array for NULL, or array_position is not applied to a NULL array -/
def H_arrayPositionNullArray (xs : Option (List Int)) : Prop := arrayPositionGuardsNull = true ∨ xs.isSome

instance : Decidable H_sliceEnd := by unfold H_sliceEnd; exact inferInstance
instance (n s l : Int) : Decidable (H_sliceNegativeStart n s l) := by unfold H_sliceNegativeStart; exact inferInstance
instance (a b : Int) (s : Option Int) : Decidable (H_sequenceDefaultStep a b s) := by unfold H_sequenceDefaultStep; exact inferInstance
instance (n d : Int) : Decidable (H_rintTies n d) := by unfold H_rintTies; exact inferInstance
instance (xs : Option (List Int)) : Decidable (H_arrayPositionNullArray xs) := by unfold H_arrayPositionNullArray; exact inferInstance

end Sqlframe.C17
