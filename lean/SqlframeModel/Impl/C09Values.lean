/-
Impl/C09Values.lean — hand model of the value path of `createDataFrame` / `lit` over the regenerated
decisions `Gen.Values` (sqlframe/base/session.py, functions.py, column.py, util.py).

Modelled (sqlframe's own decisions):
  * `inferType`      — `get_default_data_type`: the first entry of `Gen.inferChain` whose classes the value
                        is an instance of (Python's `isinstance`, so ORDER matters: bool ⊂ int,
                        datetime ⊂ date, Row ⊂ tuple)
  * `litOf`          — `functions.lit` then `Column._lit` (`Gen.litChain`) then `exp.convert`
  * `autoNames`, `derivedNames`, the DDL-string splitter — which column names the five schema forms give
  * `dictRowCells`   — how a dict row becomes a VALUES tuple
  * `renderInt` / `readInt` — the integer literal text and the engine's reading of it under CAST AS BIGINT
Assumed (third party, validated by the correspondence stream on every run):
  * Python's class hierarchy (`PyKind.classes`), `sqlglot.exp.convert`'s literal per Python type
    (`convertClass`), sqlglot's rendering of integers (`str(int)`), DuckDB's integer reading.
NOT decided here: the lexical form of float / date / timestamp / bytes literals (sqlglot + the engine);
the model only says which *kind* of literal and which CAST sqlframe picks for them.
-/
import SqlframeModel.Gen.Values
import SqlframeModel.Impl.C09Lex
namespace Sqlframe.C09
open Gen

/-- the Python value kinds the property ranges over (floats split by the cases the code distinguishes) -/
inductive PyKind
  | none | bool | int | floatFinite | floatNan | floatInf | str | bytes | date | datetimeNaive | datetimeTz
  | list | set | tuple | dict | row
  deriving DecidableEq, Repr

def PyKind.all : List PyKind :=
  [.none, .bool, .int, .floatFinite, .floatNan, .floatInf, .str, .bytes, .date, .datetimeNaive, .datetimeTz,
   .list, .set, .tuple, .dict, .row]

/-- the classes (among those the chains test) a value of this kind is an `isinstance` of -/
def PyKind.classes : PyKind → List String
  | .none => []
  | .bool => ["bool", "int"]
  | .int => ["int"]
  | .floatFinite => ["float"]
  | .floatNan => ["float"]
  | .floatInf => ["float"]
  | .str => ["str"]
  | .bytes => ["bytes"]
  | .date => ["datetime.date"]
  | .datetimeNaive => ["datetime.datetime", "datetime.date"]
  | .datetimeTz => ["datetime.datetime", "datetime.date"]
  | .list => ["list"]
  | .set => ["set"]
  | .tuple => ["tuple"]
  | .dict => ["dict"]
  | .row => ["Row", "tuple"]

def isInst (k : PyKind) (cls : List String) : Bool := cls.any (fun c => k.classes.contains c)

/-- `get_default_data_type` on the outermost constructor: the Spark type name (element types of
    containers are inferred by the same function recursively) -/
def inferType (k : PyKind) : Option String :=
  match inferChain.find? (fun e => isInst k e.1) with
  | some (_, .prim t) => some t
  | some (_, .tzSplit aware naive) => some (if k = .datetimeTz then aware else naive)
  | some (_, .structOf) => some "struct"
  | some (_, .mapOf) => some "map"
  | some (_, .arrayOf) => some "array"
  | none => none

/-- PySpark's inference for the same kinds (`_infer_type`); both datetime flavours are its one timestamp type -/
def specType : PyKind → Option String
  | .none => none
  | .bool => some "boolean"
  | .int => some "bigint"
  | .floatFinite => some "double"
  | .floatNan => some "double"
  | .floatInf => some "double"
  | .str => some "string"
  | .bytes => some "binary"
  | .date => some "date"
  | .datetimeNaive => some "timestamp"
  | .datetimeTz => some "timestamp"
  | .list => some "array"
  | .set => some "array"
  | .tuple => some "array"   -- as far as sqlframe supports plain tuples as cells: out of the property's value set
  | .dict => some "map"
  | .row => some "struct"

/-- `timestamptz` and `timestamp` are the same PySpark type (`TimestampType`, an instant) -/
def tyFamily (t : String) : String := if t = "timestamptz" then "timestamp" else t

-- ------------------------------------------------------------------------------------------------
-- literals
-- ------------------------------------------------------------------------------------------------

/-- the kinds of literal expression sqlframe hands to the generator -/
inductive LitClass
  | null | boolean | number | string | binary | dateCast
  | castStr (ty : String)      -- CAST('<text>' AS ty)
  | array | tuple | struct | varmap
  deriving DecidableEq, Repr

/-- `sqlglot.exp.convert` (assumed; compared with the real AST by the stream) -/
def convertClass : PyKind → LitClass
  | .none => .null
  | .bool => .boolean
  | .int => .number
  | .floatFinite => .number
  | .floatNan => .null          -- sqlglot's `convert` turns a NaN into NULL
  | .floatInf => .number        -- the bare word `inf`: not a number for the engine
  | .str => .string
  | .bytes => .binary
  | .date => .dateCast
  | .datetimeNaive => .castStr "DATETIME"
  | .datetimeTz => .castStr "DATETIME"
  | .list => .array
  | .set => .array
  | .tuple => .tuple
  | .dict => .varmap
  | .row => .tuple

def litCondHolds (k : PyKind) : LitCond → Bool
  | .always => true
  | .isNan => k = .floatNan
  | .isInf => k = .floatInf

/-- `Column._lit` -/
def columnLit (k : PyKind) : LitClass :=
  match litChain.find? (fun e => isInst k e.1 && litCondHolds k e.2.1) with
  | some (_, _, .struct) => .struct
  | some (_, _, .array) => .array
  | some (_, _, .tuple) => .tuple
  | some (_, _, .varmap) => .varmap
  | some (_, _, .nanCast ty) => .castStr ty
  | some (_, _, .infCast _ _ ty) => .castStr ty
  | some (_, _, .tsCast naive aware) => .castStr (if k = .datetimeTz then aware else naive)
  | some (_, _, .convert) => convertClass k
  | none => convertClass k

/-- `functions.lit` (what `createDataFrame` applies to every cell, and what the user calls) -/
def litOf (k : PyKind) : LitClass :=
  if k = .str && litStrIsStringLiteral then .string
  else if k = .floatInf && litInfIsString then .string
  else if k = .floatNan && litNanCast.isSome then .castStr (litNanCast.getD "")
  else columnLit k

/-- implicit conversion of a Python operand (`col('f') < x`): `Column(x)` = `_lit` without `lit`'s own cases -/
def operandLit (k : PyKind) : LitClass := columnLit k

/-- does the engine read a literal of this class, standing alone, as a value of the kind's own type? -/
def typedRight : PyKind → LitClass → Bool
  | .none, .null => true
  | .bool, .boolean => true
  | .int, .number => true
  | .floatFinite, .number => true
  | .floatNan, .castStr ty => ty = "float" || ty = "double"
  | .floatInf, .castStr ty => ty = "float" || ty = "double"
  | .str, .string => true
  | .bytes, .binary => true
  | .date, .dateCast => true
  | .datetimeNaive, .castStr ty => ty = "TIMESTAMP"
  | .datetimeTz, .castStr ty => ty = "TIMESTAMPTZ"
  | .list, .array => true
  | .set, .array => true
  | .row, .struct => true
  | .dict, .varmap => true
  | _, _ => false

/-- the Python type a finite float literal comes back as.  `decimalTyped`: the engine types the literal
    text as DECIMAL (no exponent in `repr`) — a lexical fact decided outside this model; `direct`: the
    value is a direct cell of a Row (`_create_row` turns Decimal into float there) -/
inductive BackTy | float | decimal deriving DecidableEq, Repr

def floatBack (decimalTyped direct : Bool) : BackTy :=
  if decimalTyped && !(direct || toValueDecimalToFloat) then .decimal else .float

/-- the type of the NaN literal `CAST('NaN' AS ty)` (from `Gen.litChain`) -/
def nanLitTy : Option String :=
  match litChain.find? (fun e => e.2.1 = .isNan) with
  | some (_, _, .nanCast ty) => some ty
  | _ => none

/-- the texts `_lit` writes for +inf / -inf inside its CAST (from `Gen.litChain`) -/
def infLitTexts : Option (String × String) :=
  match litChain.find? (fun e => e.2.1 = .isInf) with
  | some (_, _, .infCast pos neg _) => some (pos, neg)
  | _ => none

/-- the engine's reading of a text under CAST(… AS DOUBLE) as an infinity: `some false` = +inf, `some true` = -inf
    (spellings DuckDB accepts, compared without case: assumed, validated by the stream on every infinity) -/
def readInfText (s : String) : Option Bool :=
  let l := s.toList.map Char.toLower
  if l = "inf".toList ∨ l = "infinity".toList ∨ l = "+inf".toList ∨ l = "+infinity".toList then some false
  else if l = "-inf".toList ∨ l = "-infinity".toList then some true
  else none

/-- is the literal `_lit` writes for an infinity (nested cells, plain operands) typed DOUBLE by the engine, so that
    it pulls the float literals it shares an array / VALUES column with to DOUBLE? -/
def infNestedDouble : Bool := typedRight .floatInf (columnLit .floatInf)

/-- significand bits the engine keeps for the finite floats of a VALUES column / array literal.
    `unifiesToNan`: the group contains a NaN literal and no DOUBLE-typed literal, so the engine unifies
    the group to the NaN literal's type (engine typing rule: assumed, validated by the stream) -/
def groupFloatBits (unifiesToNan : Bool) : Nat :=
  if unifiesToNan && nanLitTy == some "float" then 24 else 53

/-- the select item of a column whose type is known: is there a CAST to that type? -/
def columnHasCast (typed : Bool) : Bool := typed && castTypedColumns

-- ------------------------------------------------------------------------------------------------
-- integers
-- ------------------------------------------------------------------------------------------------

/-- `str(int)`: what `exp.convert(i)` puts into the statement -/
def renderInt (i : Int) : List Char :=
  if i < 0 then '-' :: Nat.toDigits 10 i.natAbs else Nat.toDigits 10 i.natAbs

def readNat (ds : List Char) : Option Nat :=
  if ds ≠ [] ∧ ds.all Char.isDigit then some (Nat.ofDigitChars 10 ds 0) else none

/-- the engine's reading of an integer literal (`-` is a prefix operator on a non-negative literal) -/
def readIntText : List Char → Option Int
  | [] => none
  | c :: ds => if c = '-' then (readNat ds).map (fun n => -(n : Int)) else (readNat (c :: ds)).map (fun n => (n : Int))

def inInt64 (i : Int) : Prop := -9223372036854775808 ≤ i ∧ i ≤ 9223372036854775807

instance (i : Int) : Decidable (inInt64 i) := by unfold inInt64; exact inferInstance

/-- CAST(<literal> AS BIGINT): the value when it fits, an error otherwise -/
def readInt (text : List Char) : Option Int :=
  match readIntText text with
  | some i => if inInt64 i then some i else none
  | none => none

-- ------------------------------------------------------------------------------------------------
-- scalar cells whose literal text is decided by sqlframe + this model
-- ------------------------------------------------------------------------------------------------

inductive Scalar
  | none | bool (b : Bool) | int (i : Int) | str (s : List Char)
  deriving DecidableEq, Repr

inductive ColTy | boolean | bigint | string
  deriving DecidableEq, Repr

/-- the literal text in the statement (NULL / TRUE / FALSE are sqlglot's spellings: assumed, validated) -/
def Scalar.text : Scalar → List Char
  | .none => ['N', 'U', 'L', 'L']
  | .bool true => ['T', 'R', 'U', 'E']
  | .bool false => ['F', 'A', 'L', 'S', 'E']
  | .int i => renderInt i
  | .str s => quote s

/-- the value of `CAST(<literal text> AS ty)`; `none` = the engine raises -/
def readAs (ty : ColTy) (text : List Char) : Option Scalar :=
  if text = ['N', 'U', 'L', 'L'] then some .none
  else match ty with
    | .boolean =>
      if text = ['T', 'R', 'U', 'E'] then some (.bool true)
      else if text = ['F', 'A', 'L', 'S', 'E'] then some (.bool false) else none
    | .bigint => (readInt text).map .int
    | .string => (unquote text).map .str

/-- the column type `createDataFrame` infers for the value (PySpark's too) -/
def Scalar.fits : Scalar → ColTy → Prop
  | .none, _ => True
  | .bool _, .boolean => True
  | .int _, .bigint => True
  | .str _, .string => True
  | _, _ => False

-- ------------------------------------------------------------------------------------------------
-- column names for the schema forms
-- ------------------------------------------------------------------------------------------------

def isWs (c : Char) : Bool := c = ' ' || c = '\t' || c = '\n' || c = '\r' || c = '\x0b' || c = '\x0c'

/-- Python's `str.strip()` (on the whitespace characters the generator uses) -/
def strip (l : List Char) : List Char := ((l.dropWhile isWs).reverse.dropWhile isWs).reverse

def stripS (s : String) : String := String.ofList (strip s.toList)

/-- Python's `str.split(sep)` for a one-character separator -/
def splitOn (sep : Char) : List Char → List (List Char)
  | [] => [[]]
  | c :: cs =>
    if c = sep then [] :: splitOn sep cs
    else match splitOn sep cs with
      | [] => [[c]]
      | p :: ps => (c :: p) :: ps

def structPrefix : List Char := "struct<".toList

/-- one `name type` field: split on the separator, take the two indexed words; `none` = IndexError -/
def parseField (x : List Char) : Option (List Char × List Char) :=
  match (splitOn ddlNameTypeSep x)[ddlNameIdx]?, (splitOn ddlNameTypeSep x)[ddlTypeIdx]? with
  | some n, some t => some (strip n, strip t)
  | _, _ => none

/-- the `struct<a:int,…>` spelling is parsed on ':' by a branch of its own — outside the model -/
def isStructSpelling (text : List Char) : Bool := structPrefix.isPrefixOf text && text.getLast? == some '>'

/-- the `str` branch of `get_column_mapping_from_schema_input`, in its branch order: (name, type text)
    per field; `none` = the code raises or takes the struct spelling -/
def ddlFields (text : List Char) : Option (List (List Char × List Char)) :=
  let parts := (splitOn ddlFieldSep text).map strip
  if parts.length = 1 ∧ (splitOn ddlNameTypeSep (parts.headD [])).length = 1 then
    some [(ddlSingleTokenName.toList, strip (parts.headD []))]
  else if isStructSpelling text then none
  else parts.mapM parseField

/-- the DDL text a user writes for simple fields: `name type, name type, …` -/
def renderField (f : List Char × List Char) : List Char := f.1 ++ ' ' :: f.2

def renderDDL : List (List Char × List Char) → List Char
  | [] => []
  | [f] => renderField f
  | f :: g :: rest => renderField f ++ ',' :: ' ' :: renderDDL (g :: rest)

/-- what the first data row looks like -/
inductive RowShape
  | positional (n : Nat)            -- tuple / list with n cells
  | keyed (keys : List String)      -- dict keys or Row fields, in their own order
  deriving DecidableEq, Repr

inductive SchemaForm
  | none
  | names (ns : List String)
  | ddl (fields : List (String × String))        -- written as `renderDDL`
  | dict (fields : List (String × String))
  | structType (fields : List (String × String))
  deriving DecidableEq, Repr

def autoNames (n : Nat) : List String :=
  (List.range (autoNameCount n)).map (fun i => autoNamePrefix ++ toString (i + autoNameStart))

/-- PySpark's auto names: `_1 … _n` -/
def specAutoNames (n : Nat) : List String := (List.range n).map (fun i => "_" ++ toString (i + 1))

/-- column names `createDataFrame` ends up with; `none` = it raises -/
def derivedNames (form : SchemaForm) (shape : RowShape) : Option (List String) :=
  match form with
  | .none =>
    match shape with
    | .positional n => some (autoNames n)
    | .keyed ks =>
      -- the names are the (stripped) keys; the first row is then looked up by these names: KeyError
      let ns' := if inferredNamesStripped then ks.map stripS else ks
      if ns'.all (fun n => ks.contains n) then some ns' else none
  | .names ns =>
    let ns' := if listNamesStripped then ns.map stripS else ns
    match shape with
    | .positional _ => some ns'
    | .keyed ks => if ns'.all (fun n => ks.contains n) then some ns' else none   -- `sample_row[name]`: KeyError
  | .ddl fs =>
    (ddlFields (renderDDL (fs.map (fun f => (f.1.toList, f.2.toList))))).map (fun l => l.map (fun f => String.ofList f.1))
  | .dict fs => some (fs.map (·.1))
  | .structType fs => some (fs.map (·.1))

/-- the names the user declared (PySpark keeps them as written) -/
def specNames (form : SchemaForm) (shape : RowShape) : List String :=
  match form with
  | .none => match shape with | .positional n => specAutoNames n | .keyed ks => ks
  | .names ns => ns
  | .ddl fs => fs.map (·.1)
  | .dict fs => fs.map (·.1)
  | .structType fs => fs.map (·.1)

/-- a name / type text the DDL splitter can take: non-empty, no whitespace, no comma -/
def simpleWord (w : List Char) : Prop := w ≠ [] ∧ ∀ c ∈ w, isWs c = false ∧ c ≠ ','

instance (w : List Char) : Decidable (simpleWord w) := by unfold simpleWord; exact inferInstance

def trimmed (s : String) : Prop := strip s.toList = s.toList

instance (s : String) : Decidable (trimmed s) := by unfold trimmed; exact inferInstance

-- ------------------------------------------------------------------------------------------------
-- dict rows
-- ------------------------------------------------------------------------------------------------

/-- the VALUES tuple built for a dict row (`row.values()`: positional, unless repaired) -/
def dictRowCells {α : Type} (cols : List String) (row : List (String × α)) : List (Option α) :=
  if dictRowsByKey then cols.map (fun c => row.lookup c) else row.map (fun kv => some kv.2)

/-- PySpark: a dict row is read by key -/
def specDictRowCells {α : Type} (cols : List String) (row : List (String × α)) : List (Option α) :=
  cols.map (fun c => row.lookup c)

end Sqlframe.C09
