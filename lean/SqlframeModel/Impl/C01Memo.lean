/-
Impl/C01Memo.lean — process-level state behind the column list, and chains run one after another in one interpreter.

Every select-family body asks `_get_outer_select_columns(self.expression)` for the columns of the open block and builds
its projection from the answer.  dataframe.py computes the answer anew each time; `withColumns` then writes its new items
*into the list it was handed*.  Both facts are regenerated (`Gen.outerColsMemoised`, `Gen.withColumnsMutatesOuterCols`).
Were the helper memoised (sqlglot expressions hash and compare by content, and CTE names are content hashes, so an equal
prefix of equal steps over an equal source gives an equal key), the list `withColumns` wrote into would be the remembered
one, and every later chain reaching a content-identical block would be handed the foreign items.

Model: `Memo` holds the entries written that way (an untouched remembered entry equals the recomputed one, so it is not
kept); `colsAt` is what a body is handed; `applyWith look` is `DF.apply` with every body reading `look` instead of
recomputing; `stepM` threads the memo through one public call, `runHistory` through any sequence of calls on any
DataFrames, `runScenario` through several chains over one source.  Flags are parameters, so that the theorems
(Lemmas/C01Memo.lean) say *which* combination is sound, and are then instantiated with the regenerated values.
-/
import SqlframeModel.Impl.C01Scope
import SqlframeModel.Gen.C01Bodies
namespace Sqlframe
open Gen

abbrev Cols := List (Name × Expr)

/-- what identifies an open block to a content-keyed cache: the value it reads and its clauses -/
abbrev MemoKey := Table × Block

abbrev Memo := List (MemoKey × Cols)

def DF.key (d : DF) : MemoKey := (d.src, d.blk)

/-- what `_get_outer_select_columns(self.expression)` computes: `col(name)` for every item of the open select list -/
def freshCols (d : DF) : Cols := identSel d.outNames

/-- what a body is handed when it asks for the column list -/
def colsAt (memo : Bool) (M : Memo) (d : DF) : Cols :=
  if memo then (M.lookup d.key).getD (freshCols d) else freshCols d

/-! ### the projection lists, built from the list the body was handed -/

/-- `withColumns`: `select_columns = existing_cols; select_columns[i] = value.alias(name)` / `.append(...)` -/
def withColItemsC (cols : Cols) (n : Name) (e : Expr) : Cols :=
  if n ∈ cols.map (·.1) then cols.map (fun it => if it.1 = n then (n, e) else it) else cols ++ [(n, e)]

/-- `withColumnRenamed`: `column.alias(new)` for the matching entry -/
def renameItemsC (cols : Cols) (a b : Name) : Cols := cols.map (fun it => (if it.1 = a then b else it.1, it.2))

/-- `drop`: the entries whose name is not dropped -/
def dropItemsC (cols : Cols) (ns : List Name) : Cols := cols.filter (fun it => it.1 ∉ ns)

/-- `fillna`: `{**all_column_mapping, **null_replacement_mapping}` read in the order of `all_columns` -/
def fillItemsC (cols : Cols) (v : Val) (sub : List Name) : Cols :=
  cols.map (fun it => if it.1 ∈ sub then (it.1, Expr.ite (.isNull (.col it.1)) (.lit v) (.col it.1)) else it)

def replaceItemsC (cols : Cols) (pairs : List (Val × Val)) (sub : List Name) : Cols :=
  cols.map (fun it => if it.1 ∈ sub then (it.1, replaceExpr it.1 pairs) else it)

/-- the DataFrame `operation.wrapper` hands to the method body -/
def entered (tag : Option Op) (d : DF) : DF :=
  match tag with
  | none => d
  | some op =>
    let d := if initCond d.last then { d.wrap with last := initReset } else d
    if wrapCond d.last (newOp op d.last) then d.wrap else d

/-- `DF.apply` with every body reading the column list through `look` (`toDF` re-aliases the select list positionally and
    `unpivot` is given its columns: neither consults the helper in a way that can meet a foreign entry) -/
def DF.applyWith (look : DF → Cols) (d : DF) : Step → DF
  | .wher p => wrapper tag_where (bodyWhere p) d
  | .select items => wrapper tag_select (bodySelect items) d
  | .withColumn n e => wrapper tag_withColumn (fun d => bodySelect (withColItemsC (look d) n e) d) d
  | .withColumnRenamed a b => wrapper tag_withColumnRenamed (fun d => bodySelect (renameItemsC (look d) a b) d) d
  | .drop ns =>
      wrapper tag_drop
        (fun d => wrapper tag_select (fun d' => bodySelectNoAppend dropSelectAppend (dropItemsC (look d) ns) d') d) d
  | .distinct => wrapper tag_distinct bodyDistinct d
  | .orderBy keys => wrapper tag_orderBy (bodyOrderBy keys) d
  | .limit n => wrapper tag_limit (bodyLimit n) d
  | .fillna v sub =>
      wrapper tag_fillna (fun d => wrapper tag_select (fun d' => bodySelect (fillItemsC (look d) v sub) d') d) d
  | .replace pairs sub =>
      wrapper tag_replace (fun d => wrapper tag_select (fun d' => bodySelect (replaceItemsC (look d) pairs sub) d') d) d
  | .toDF names => wrapper tag_toDF (fun d => { d with blk := { d.blk with sel := toDFItems d.blk.sel names } }) d
  | .dropna howAll thresh sub =>
      wrapper tag_dropna
        (fun d =>
          let all := look d
          let d1 := wrapper tag_select (bodySelectNoAppend true [("num_nulls", numNullsExpr sub)]) d
          let d2 := wrapper tag_where (bodyWhere (.bin .lt (.col "num_nulls") (.lit (.int (dropnaMin howAll thresh sub.length))))) d1
          wrapper tag_select (bodySelect all) d2) d
  | .unpivot ids vals var val => d.apply (.unpivot ids vals var val)

/-- one public call in a process whose memo is `M`: the result, and the memo afterwards (only `withColumns` writes) -/
def stepM (memo inpl : Bool) (M : Memo) (d : DF) (s : Step) : DF × Memo :=
  let look := colsAt memo M
  (d.applyWith look s,
   match s with
   | .withColumn n e =>
       if memo && inpl then
         let d0 := entered tag_withColumn d
         (d0.key, withColItemsC (look d0) n e) :: M
       else M
   | _ => M)

/-- any sequence of public calls, each on whatever DataFrame the program holds at that point -/
def runHistory (memo inpl : Bool) : Memo → List (DF × Step) → List DF
  | _, [] => []
  | M, (d, s) :: rest =>
    let r := stepM memo inpl M d s
    r.1 :: runHistory memo inpl r.2 rest

/-- one chain, threading the memo -/
def runChainM (memo inpl : Bool) : Memo → DF → List Step → DF × Memo
  | M, d, [] => (d, M)
  | M, d, s :: ss =>
    let r := stepM memo inpl M d s
    runChainM memo inpl r.2 r.1 ss

/-- several chains over one source, one after another in one interpreter: the table each returns -/
def runScenarioFrom (memo inpl : Bool) (T : Table) : Memo → List (List Step) → List Table
  | _, [] => []
  | M, c :: cs =>
    let r := runChainM memo inpl M (DF.init T) c
    r.1.eval :: runScenarioFrom memo inpl T r.2 cs

def runScenario (memo inpl : Bool) (T : Table) (chains : List (List Step)) : List Table :=
  runScenarioFrom memo inpl T [] chains

/-- the scenario as the source has it now -/
def runScenarioGen (T : Table) (chains : List (List Step)) : List Table :=
  runScenario outerColsMemoised withColumnsMutatesOuterCols T chains

end Sqlframe
