/-
Impl/C13Views.lean — model of temp views and `session.sql` (property C13).

What is modelled (the code that exists, defects included):

* a small query language: `Body` = relational-algebra tree over named sources (`scan`), literal tables
  (`lit`, the inlined VALUES of `createDataFrame`), unary operators (alias qualification, `*`, WHERE,
  select list, GROUP BY/aggregates, DISTINCT) and binary operators (cross product = JOIN … ON as a
  filter over it, UNION ALL, the DataFrame-level `join(on=k)`); a `Query` is a list of named CTE
  bodies plus a final body; a subquery is a nested `Body`;
* the engine's meaning of a WITH list (`resolveFuel` / `Evaluates`): every reference resolves *by name*
  to the CTE of that name wherever it stands in the list (DuckDB binds the whole WITH list first; a
  forward reference is legal), otherwise to a base table of the database — this is how the statement
  `session.sql` *builds* is read; the statement the user *wrote* is read the way Spark reads it
  (`evalLex`: a CTE is visible to later definitions and to the main query only);
* `session.temp_views` (`Registry`: normalised name ↦ frozen frame + the column list the catalog holds),
  `createOrReplaceTempView` (`register`), `reader.table` (`tableLookup`), the splice of `session.sql`
  (`splice`), all parameterised by the decisions regenerated from the source (`Gen.Views`);
* the specification `withViews` (“bind”): a view name denotes a table holding the registered frame's rows.

Parsing and qualifying the user's SQL is sqlglot's; the statement enters the model as the parsed `Query`
(every column reference qualified by its source alias, `a.c`).
-/
import SqlframeModel.Core.Sql
import SqlframeModel.Gen.Views
namespace Sqlframe.Views
open Sqlframe Sqlframe.Gen

/-! ### operators on evaluated tables -/

inductive AggFn | countStar | count | sum | min | max
  deriving DecidableEq, Repr

inductive UnOp
  | qual (a : Name)                         -- `AS a`: every column c becomes `a.c`
  | star                                    -- `SELECT *`: qualifiers dropped
  | filter (p : Expr)                       -- WHERE / ON
  | project (items : List (Name × Expr))    -- select list
  | agg (keys : List (Name × Name)) (aggs : List (Name × AggFn × Name))   -- GROUP BY keys, aggregates
  | distinct
  | keep (cs : List Name)                   -- the columns the catalog *believes* the source has (stale schema)
  | byName                                  -- `SELECT c1, …, cn FROM cte`: the identity select, columns read *by name*
  | sort (keys : List OrdKey)               -- ORDER BY (DataFrame `orderBy`; the row list of a table is ordered)
  | limit (n : Nat)                         -- LIMIT
  deriving DecidableEq, Repr

inductive BinOp2
  | cross | unionAll | joinUsing (k : Name)
  deriving DecidableEq, Repr

def qualName (a c : Name) : Name := a ++ "." ++ c

def dropQual : List Char → List Char
  | [] => []
  | c :: cs => if c = '.' then cs else dropQual cs

/-- `a.c` ↦ `c` (names without a qualifier are unchanged) -/
def unqualName (s : Name) : Name := if s.toList.contains '.' then String.ofList (dropQual s.toList) else s

def refsIn (cols : List Name) (e : Expr) : Bool := e.refs.all (fun n => cols.contains n)

/-- values of column `c` in the rows -/
def colVals (cols : List Name) (rows : List Row) (c : Name) : List Val := rows.map (fun r => lookup cols r c)

def aggVal (f : AggFn) (cols : List Name) (rows : List Row) (c : Name) : Val :=
  let vs := (colVals cols rows c).filter (· ≠ .null)
  match f with
  | .countStar => .int rows.length
  | .count => .int vs.length
  | .sum => match vs with
    | [] => .null
    | _ => .int (vs.foldl (fun acc v => match v with | .int i => acc + i | _ => acc) 0)
  | .min => match vs with
    | [] => .null
    | v :: rest => rest.foldl (fun m x => if x.le m then x else m) v
  | .max => match vs with
    | [] => .null
    | v :: rest => rest.foldl (fun m x => if m.le x then x else m) v

def aggTable (T : Table) (keys : List (Name × Name)) (aggs : List (Name × AggFn × Name)) : Table :=
  let keyOf (r : Row) : Row := keys.map (fun k => lookup T.cols r k.2)
  let groups : List Row := if keys.isEmpty then [[]] else dedup (T.rows.map keyOf)
  { cols := keys.map (·.1) ++ aggs.map (·.1),
    rows := groups.map (fun g =>
      let members := if keys.isEmpty then T.rows else T.rows.filter (fun r => keyOf r = g)
      g ++ aggs.map (fun a => aggVal a.2.1 T.cols members a.2.2)) }

def UnOp.apply : UnOp → Table → Option Table
  | .qual a, T => some { T with cols := T.cols.map (qualName a) }
  | .star, T => some { T with cols := T.cols.map unqualName }
  | .filter p, T => if refsIn T.cols p then some (T.filter p) else none
  | .project items, T => if items.all (fun it => refsIn T.cols it.2) then some (T.project items) else none
  | .agg keys aggs, T =>
    if keys.all (fun k => T.cols.contains k.2) && aggs.all (fun a => a.2.1 = .countStar || T.cols.contains a.2.2)
    then some (aggTable T keys aggs) else none
  | .distinct, T => some T.distinct
  | .keep cs, T => some (T.project ((cs.filter (fun c => T.cols.contains c)).map (fun c => (c, Expr.col c))))
  | .byName, T => some { cols := T.cols, rows := T.rows.map (fun r => T.cols.map (fun c => lookup T.cols r c)) }
  | .sort keys, T => if keys.all (fun k => T.cols.contains k.name) then some (T.sort keys) else none
  | .limit n, T => some (T.limit n)

def removeCol (cols : List Name) (r : Row) (k : Name) : Row :=
  (cols.zip r).filterMap (fun cv => if cv.1 = k then none else some cv.2)

def BinOp2.apply : BinOp2 → Table → Table → Option Table
  | .cross, L, R => some { cols := L.cols ++ R.cols, rows := L.rows.flatMap (fun l => R.rows.map (fun r => l ++ r)) }
  | .unionAll, L, R => if L.cols.length = R.cols.length then some { cols := L.cols, rows := L.rows ++ R.rows } else none
  | .joinUsing k, L, R =>
    if L.cols.contains k && R.cols.contains k then
      some { cols := k :: (L.cols.filter (· ≠ k) ++ R.cols.filter (· ≠ k)),
             rows := L.rows.flatMap (fun l => (R.rows.filter (fun r =>
                        lookup L.cols l k ≠ .null ∧ lookup L.cols l k = lookup R.cols r k)).map
                      (fun r => lookup L.cols l k :: (removeCol L.cols l k ++ removeCol R.cols r k))) }
    else none

/-! ### bodies and queries -/

inductive Body
  | lit (T : Table)
  | scan (n : Name)
  | un (op : UnOp) (b : Body)
  | bin (op : BinOp2) (l r : Body)
  deriving DecidableEq, Repr

abbrev CTE := Name × Body

structure Query where
  ctes : List CTE
  final : Body
  deriving DecidableEq, Repr

/-- meaning of a body given the meaning of the names it scans (`none` = the engine raises) -/
def evalBody (res : Name → Option Table) : Body → Option Table
  | .lit T => some T
  | .scan n => res n
  | .un op b => (evalBody res b).bind op.apply
  | .bin op l r => (evalBody res l).bind (fun L => (evalBody res r).bind (fun R => op.apply L R))

def Body.refs : Body → List Name
  | .lit _ => []
  | .scan n => [n]
  | .un _ b => b.refs
  | .bin _ l r => l.refs ++ r.refs

def Body.rename (ρ : Name → Name) : Body → Body
  | .lit T => .lit T
  | .scan n => .scan (ρ n)
  | .un op b => .un op (b.rename ρ)
  | .bin op l r => .bin op (l.rename ρ) (r.rename ρ)

/-- first binding of a name in an association list -/
def assoc {β : Type} : List (Name × β) → Name → Option β
  | [], _ => none
  | (k, v) :: rest, n => if k = n then some v else assoc rest n

def names {β : Type} (l : List (Name × β)) : List Name := l.map (·.1)

abbrev Db := Name → Option Table

/-- The engine's resolution of a name inside a statement `WITH ctes …`, by name, with `fuel` levels of
    CTE unfolding (a reference cycle never evaluates). -/
def resolveFuel (db : Db) (ctes : List CTE) : Nat → Name → Option Table
  | 0, n => match assoc ctes n with | some _ => none | none => db n
  | f + 1, n => match assoc ctes n with
    | some b => evalBody (resolveFuel db ctes f) b
    | none => db n

def evalQueryFuel (db : Db) (q : Query) (f : Nat) : Option Table := evalBody (resolveFuel db q.ctes f) q.final

/-- big-step meaning: some amount of unfolding yields `T` -/
def Evaluates (db : Db) (q : Query) (T : Table) : Prop := ∃ f, evalQueryFuel db q f = some T

/-- executable evaluation used by the driver (fuel = number of CTEs + 1 suffices for acyclic lists) -/
def evalQuery (db : Db) (q : Query) : Option Table := evalQueryFuel db q (q.ctes.length + 1)

/-! ### Spark's meaning of a WITH list (the specification side)

A CTE is visible to the CTE definitions that *follow* it and to the main query, and nowhere else: inside
its own definition and inside earlier definitions its name still means whatever it meant outside (a temp
view, a table).  For a list without self / forward references this is the engine's name-based reading
(`C13_lexical_nameBased`). -/

/-- the environment after one CTE definition -/
def bindCte (env : Db) (c : CTE) : Db := fun n => if n = c.1 then evalBody env c.2 else env n

/-- the environment the main query sees -/
def lexEnv (db : Db) (ctes : List CTE) : Db := ctes.foldl bindCte db

def evalLex (db : Db) (q : Query) : Option Table := evalBody (lexEnv db q.ctes) q.final

/-- CTE names in scope inside the definition of the CTE named `n`: those defined before it -/
def scopeBefore (ctes : List CTE) (n : Name) : List Name := names (ctes.takeWhile (fun c => c.1 ≠ n))

/-! ### frames (DataFrames as the splice sees them) -/

/-- a DataFrame: its CTE chain and the open leaf select -/
structure Frame where
  ctes : List CTE
  leaf : Body
  deriving DecidableEq, Repr

def Frame.query (fr : Frame) : Query := ⟨fr.ctes, fr.leaf⟩

/-- how a new CTE is named from the expression it closes (content hash in the code) -/
abbrev Namer := List CTE → Body → Name

/-- the argument of the leaf SELECT an operator of the model lives in (sqlglot's `args` key) -/
def UnOp.clause : UnOp → String
  | .qual _ => "from"
  | .star => "expressions"
  | .filter _ => "where"
  | .project _ => "expressions"
  | .agg _ _ => "group"
  | .distinct => "distinct"
  | .keep _ => "expressions"
  | .byName => "expressions"
  | .sort _ => "order"
  | .limit _ => "limit"

/-- `_create_cte_from_expression` copies the leaf SELECT and clears the arguments listed in
    `Gen.cteClearedArgs` (in the code: only its WITH list, which moves to the new statement) before it
    becomes the CTE body: the outermost operators living in a cleared argument are lost -/
def movedLeaf : Body → Body
  | .un op b => if cteClearedArgs.contains op.clause then movedLeaf b else .un op b
  | b => b

/-- `_convert_leaf_to_cte`: the new WITH list starts with the frame's own (`expression.ctes + [cte]`) -/
def keptChain (ctes : List CTE) : List CTE := if wrapKeepsChain then ctes else []

/-- `_convert_leaf_to_cte`: the leaf becomes the last CTE; the new leaf is the identity select over it
    (`SELECT <outer column names> FROM <cte>`: columns are read back by name, so a duplicated output
    name yields the first such column twice) -/
def wrap (nm : Namer) (fr : Frame) : Frame :=
  { ctes := keptChain fr.ctes ++ [(nm fr.ctes fr.leaf, movedLeaf fr.leaf)], leaf := .un .byName (.scan (nm fr.ctes fr.leaf)) }

/-- a frame whose leaf is the identity select over its last CTE -/
def Frame.Wrapped (fr : Frame) : Prop := ∃ n b, fr.ctes.getLast? = some (n, b) ∧ fr.leaf = .un .byName (.scan n)

def Frame.lastName (fr : Frame) : Option Name := fr.ctes.getLast?.map (·.1)
def Frame.firstName (fr : Frame) : Option Name := fr.ctes.head?.map (·.1)

/-- DataFrame-level transformation (where / select / distinct / groupBy-agg / orderBy / limit): one more operator on the leaf -/
def transform (fr : Frame) (op : UnOp) : Frame := { fr with leaf := .un op fr.leaf }

/-! ### registry -/

structure Entry where
  frame : Frame
  /-- output columns of the frame when it was registered -/
  cols : List Name
  /-- columns the session catalog holds for the name (`catalog.add_table`) -/
  schemaCols : List Name
  deriving DecidableEq, Repr

abbrev Registry := List (Name × Entry)

def Entry.stale (e : Entry) : Bool := e.schemaCols ≠ e.cols

def storeFrame (nm : Namer) (fr : Frame) : Frame :=
  match viewStores with
  | .wrappedCopy => wrap nm fr
  | .copyOnly => fr
  | .self => fr

def regKey (norm : Name → Name) (name : Name) : Name := if viewNormalizesName then norm name else name

def setAssoc {β : Type} (l : List (Name × β)) (k : Name) (v : β) : List (Name × β) :=
  (k, v) :: l.filter (fun kv => kv.1 ≠ k)

/-- `df.createOrReplaceTempView(name)`; `cols` = the frame's output columns -/
def register (nm : Namer) (norm : Name → Name) (reg : Registry) (name : Name) (fr : Frame) (cols : List Name) : Registry :=
  let key := regKey norm name
  let schemaCols := match assoc reg key with
    | some old => if viewSchemaKeptOnReregister then old.schemaCols else cols
    | none => cols
  setAssoc reg key { frame := storeFrame nm fr, cols := cols, schemaCols := schemaCols }

def tableKey (norm : Name → Name) (name : Name) : Name := if tableNormalizesName then norm name else name

/-- `session.table(name)`: the registered frame when there is one -/
def tableLookup (norm : Name → Name) (reg : Registry) (name : Name) : Option Frame :=
  if tableChecksViewsFirst then (assoc reg (tableKey norm name)).map (·.frame) else none

/-- `session.table(name)` for a name that is no view: `SELECT <the table's columns> FROM name` (the column list
    is the engine catalog's at that moment; an unknown table is an error) -/
def baseFrame (db : Db) (name : Name) : Frame :=
  match db name with
  | some T => ⟨[], .un (.project (identSel T.cols)) (.scan name)⟩
  | none => ⟨[], .scan name⟩

/-- `session.table(name)` as a frame: the view, else a read of the base table -/
def tableFrame (norm : Name → Name) (db : Db) (reg : Registry) (name : Name) : Frame :=
  (tableLookup norm reg name).getD (baseFrame db name)

/-! ### the splice of `session.sql` -/

structure SpliceCfg where
  append : ViewAppendCond
  target : ViewCteTarget
  pos : ViewAddPos
  skipBound : Bool
  deriving DecidableEq, Repr

/-- the configuration regenerated from the source -/
def genCfg : SpliceCfg := ⟨spliceAppend, spliceTarget, spliceAddPos, spliceSkipsCteBound⟩

def viewTarget (t : ViewCteTarget) (fr : Frame) : Option Name :=
  match t with
  | .last => fr.lastName
  | .first => fr.firstName

/-- is this reference treated as a view reference? -/
def viewOf (cfg : SpliceCfg) (norm : Name → Name) (reg : Registry) (users : List Name) (n : Name) : Option Entry :=
  if cfg.skipBound && users.contains n then none else assoc reg (norm n)

/-- the renaming the splice applies to table references -/
def spliceRho (cfg : SpliceCfg) (norm : Name → Name) (reg : Registry) (users : List Name) (n : Name) : Name :=
  match viewOf cfg norm reg users n with
  | some e => (viewTarget cfg.target e.frame).getD n
  | none => n

def ctesToAdd (c : ViewAppendCond) (existing : List CTE) (chain : List CTE) : List CTE :=
  match c with
  | .ifAbsent => chain.filter (fun cte => !(names existing).contains cte.1)
  | .always => chain
  | .never => []

def addCtes (cfg : SpliceCfg) (existing chain : List CTE) : List CTE :=
  match cfg.pos with
  | .append => existing ++ ctesToAdd cfg.append existing chain
  | .prepend => ctesToAdd cfg.append existing chain ++ existing

def Query.refs (q : Query) : List Name := q.final.refs ++ q.ctes.flatMap (fun c => c.2.refs)

/-- The table references `session.sql` treats as view references, as registry entries in traversal order.
    Every reference is judged in its own scope (`traverse_scope`): in the main query all CTEs of the
    statement are visible, inside the definition of a CTE only the CTEs defined before it. -/
def viewRefs (cfg : SpliceCfg) (norm : Name → Name) (reg : Registry) (q : Query) : List Entry :=
  q.final.refs.filterMap (viewOf cfg norm reg (names q.ctes))
  ++ q.ctes.flatMap (fun c => c.2.refs.filterMap (viewOf cfg norm reg (scopeBefore q.ctes c.1)))

/-- one pass over the view references: the view chains are added to the WITH list -/
def addChains (cfg : SpliceCfg) : List Entry → List CTE → List CTE
  | [], cs => cs
  | e :: es, cs => addChains cfg es (addCtes cfg cs e.frame.ctes)

/-- static output column names of a body, given those of the names it scans (what sqlglot's `qualify`
    knows when it expands `*`); `none` = unknown -/
def Body.staticCols (colsOf : Name → Option (List Name)) : Body → Option (List Name)
  | .lit T => some T.cols
  | .scan n => colsOf n
  | .un op b =>
    match op with
    | .qual a => (b.staticCols colsOf).map (fun cs => cs.map (qualName a))
    | .star => (b.staticCols colsOf).map (fun cs => cs.map unqualName)
    | .project items => some (items.map (·.1))
    | .agg keys aggs => some (keys.map (·.1) ++ aggs.map (·.1))
    | .keep cs => (b.staticCols colsOf).map (fun have_ => cs.filter (fun c => have_.contains c))
    | _ => b.staticCols colsOf
  | .bin op l r =>
    match op with
    | .cross => match l.staticCols colsOf, r.staticCols colsOf with
      | some x, some y => some (x ++ y)
      | _, _ => none
    | .unionAll => l.staticCols colsOf
    | .joinUsing k => match l.staticCols colsOf, r.staticCols colsOf with
      | some x, some y => some (k :: (x.filter (· ≠ k) ++ y.filter (· ≠ k)))
      | _, _ => none

/-- column names `qualify` attributes to a name of the statement: a CTE of the statement (by its select
    list), else a registered view (by the catalog's list); base tables are unknown to the catalog -/
def stmtCols (norm : Name → Name) (reg : Registry) (ctes : List CTE) : Nat → Name → Option (List Name)
  | 0, _ => none
  | f + 1, n => match assoc ctes n with
    | some b => b.staticCols (stmtCols norm reg ctes f)
    | none => (assoc reg (norm n)).map (·.schemaCols)

/-! `SELECT *` is expanded by sqlglot's `qualify` before the splice.  The expansion lists the columns of
    named tables / CTEs *before* those of derived tables (subqueries) whatever their order in FROM, so
    `SELECT * FROM (…) AS q CROSS JOIN c` yields c's columns first (third-party behaviour, reproduced). -/

def isTableSrc : Body → Bool
  | .un (.qual _) (.scan _) => true
  | .un (.keep _) (.un (.qual _) (.scan _)) => true
  | _ => false

def isSubSrc : Body → Bool
  | .un (.qual _) (.scan _) => false
  | .un (.qual _) _ => true
  | _ => false

/-- a FROM list `subquery, table` under optional WHERE/ON filters -/
def needsSwap : Body → Bool
  | .un (.filter _) b => needsSwap b
  | .bin .cross l r => isSubSrc l && isTableSrc r
  | _ => false

def swapSubFirst : Body → Body
  | .un (.filter p) b => .un (.filter p) (swapSubFirst b)
  | .bin .cross l r => if isSubSrc l && isTableSrc r then .bin .cross r l else .bin .cross l r
  | b => b

/-- does the body contain a `*` whose expansion is reordered? -/
def starSwaps : Body → Bool
  | .lit _ => false
  | .scan _ => false
  | .un op b => (match op with | .star => needsSwap b | _ => false) || starSwaps b
  | .bin _ l r => starSwaps l || starSwaps r

/-- Select list `qualify` writes for `*` over sources that the splice then re-points: a view whose catalog
    columns are stale, or a CTE of the statement that is named like a view (`ucols` = that CTE's columns). -/
def staleStarItems (cfg : SpliceCfg) (norm : Name → Name) (reg : Registry) (users : List Name)
    (ucols : Name → Option (List Name)) : Body → Option (List (Name × Expr))
  | .un (.qual a) (.scan n) =>
    match viewOf cfg norm reg users n with
    | some e =>
      let cols := if users.contains n then (ucols n).getD e.schemaCols else e.schemaCols
      some (cols.map (fun c => (c, Expr.col (qualName a c))))
    | none => (ucols n).map (fun cols => cols.map (fun c => (c, Expr.col (qualName a c))))
  | .un (.qual a) b =>
    (b.staticCols ucols).map (fun cols => cols.map (fun c => (c, Expr.col (qualName a c))))
  | .un (.filter _) b => staleStarItems cfg norm reg users ucols b
  | .bin .cross l r =>
    match staleStarItems cfg norm reg users ucols l, staleStarItems cfg norm reg users ucols r with
    | some x, some y => some (if isSubSrc l && isTableSrc r then y ++ x else x ++ y)
    | _, _ => none
  | _ => none

/-- does the body scan a view with stale catalog columns, or a statement CTE that is treated as a view? -/
def hasStale (cfg : SpliceCfg) (norm : Name → Name) (reg : Registry) (users : List Name) (b : Body) : Bool :=
  b.refs.any (fun n => match viewOf cfg norm reg users n with | some e => e.stale || users.contains n | none => false)

/-- the rewrite of one body: references renamed; a view with stale catalog columns is seen through them -/
def spliceBody (cfg : SpliceCfg) (norm : Name → Name) (reg : Registry) (users : List Name)
    (ucols : Name → Option (List Name)) : Body → Body
  | .lit T => .lit T
  | .scan n => .scan (spliceRho cfg norm reg users n)
  | .un op b =>
    let b' := spliceBody cfg norm reg users ucols b
    match op, b with
    | .qual a, .scan n =>
      match viewOf cfg norm reg users n with
      | some e => if e.stale && !users.contains n then .un (.keep (e.schemaCols.map (qualName a))) (.un (.qual a) b') else .un (.qual a) b'
      | none => .un (.qual a) b'
    | .star, _ =>
      if hasStale cfg norm reg users b then
        match staleStarItems cfg norm reg users ucols b with
        | some items => .un (.project items) b'
        | none => .un .star (swapSubFirst b')
      else .un .star (swapSubFirst b')
    | _, _ => .un op b'
  | .bin op l r => .bin op (spliceBody cfg norm reg users ucols l) (spliceBody cfg norm reg users ucols r)

/-- `session.sql`: the statement after the view splice -/
def spliceWith (cfg : SpliceCfg) (norm : Name → Name) (reg : Registry) (q : Query) : Query :=
  let users := names q.ctes
  let ucols := stmtCols norm reg q.ctes (q.ctes.length + 1)
  let ctes' := addChains cfg (viewRefs cfg norm reg q) q.ctes
  -- only the statement's own bodies are rewritten (each in its own scope); the view chains are added as they are
  { ctes := ctes'.map (fun c => if users.contains c.1 then (c.1, spliceBody cfg norm reg (scopeBefore q.ctes c.1) ucols c.2) else c),
    final := spliceBody cfg norm reg users ucols q.final }

def splice (norm : Name → Name) (reg : Registry) (q : Query) : Query := spliceWith genCfg norm reg q

/-- the frame `session.sql(q)` returns -/
def sqlFrame (nm : Namer) (norm : Name → Name) (reg : Registry) (q : Query) : Frame :=
  let s := splice norm reg q
  if sqlWrapsResult then wrap nm ⟨s.ctes, s.final⟩ else ⟨s.ctes, s.final⟩

/-! `qualify` validates every column reference of the statement — also inside CTEs nobody uses — against the
    catalog's column lists, at `session.sql` time.  With stale lists this can fail although the statement
    is fine; the check is modelled by evaluating every body over *empty tables with the catalog's columns*
    in place of the stale views. -/

def schemaBody (cfg : SpliceCfg) (norm : Name → Name) (reg : Registry) (users : List Name)
    (ucols : Name → Option (List Name)) : Body → Body
  | .lit T => .lit T
  | .scan n => if users.contains n then .scan n else .scan (spliceRho cfg norm reg users n)   -- qualify runs before the splice: a CTE of the statement is still itself
  | .un op b =>
    let b' := schemaBody cfg norm reg users ucols b
    match op, b with
    | .qual a, .scan n =>
      match viewOf cfg norm reg users n with
      | some e => if e.stale && !users.contains n then .lit ⟨e.schemaCols.map (qualName a), []⟩ else .un (.qual a) b'
      | none => .un (.qual a) b'
    | .star, _ =>
      if hasStale cfg norm reg users b then
        match staleStarItems cfg norm reg users ucols b with
        | some items => .un (.project items) b'
        | none => .un .star b'
      else .un .star b'
    | _, _ => .un op b'
  | .bin op l r => .bin op (schemaBody cfg norm reg users ucols l) (schemaBody cfg norm reg users ucols r)

/-- does the statement reference a view whose catalog columns are stale? -/
def anyStale (norm : Name → Name) (reg : Registry) (q : Query) : Bool :=
  (viewRefs genCfg norm reg q).any (fun e => e.stale)

def qualifyFails (db : Db) (norm : Name → Name) (reg : Registry) (q : Query) : Bool :=
  let users := names q.ctes
  if anyStale norm reg q then
    let ucols := stmtCols norm reg q.ctes (q.ctes.length + 1)
    let ctes' := (addChains genCfg (viewRefs genCfg norm reg q) q.ctes).map
      (fun c => if users.contains c.1 then (c.1, schemaBody genCfg norm reg (scopeBefore q.ctes c.1) ucols c.2) else c)
    let fuel := ctes'.length + 1
    users.any (fun u => (resolveFuel db ctes' fuel u).isNone)
      || (evalBody (resolveFuel db ctes' fuel) (schemaBody genCfg norm reg users ucols q.final)).isNone
  else false

/-- a frame whose execution fails (the statement was rejected when it was built) -/
def failFrame : Frame := ⟨[], .scan "⊥"⟩

/-- `session.sql(q)` including qualify's eager column check -/
def sqlFrameChecked (nm : Namer) (norm : Name → Name) (db : Db) (reg : Registry) (q : Query) : Frame :=
  if qualifyFails db norm reg q then failFrame else sqlFrame nm norm reg q

/-- Executing a frame: the CTE names are rewritten to content hashes of the bodies first
    (`_replace_cte_names_with_hashes`), so two CTEs with the same text collide (“Duplicate CTE name”)
    unless the renaming keeps a CTE's own name when its hash is taken (`Gen.rehashKeepsUniqueNames`). -/
def distinctBodies (ctes : List CTE) : Bool := decide ((ctes.map (·.2)).Nodup)

def execFrame (db : Db) (fr : Frame) : Option Table :=
  if rehashKeepsUniqueNames || distinctBodies fr.ctes then evalQuery db fr.query else none

/-! ### the specification -/

/-- “bind”: the database in which every registered view name denotes a table holding the frame's rows
    (`vals`); other names denote what they denoted before -/
def withViews (norm : Name → Name) (reg : Registry) (vals : Name → Option Table) (db : Db) : Db :=
  fun n => match assoc reg (norm n) with
    | some _ => vals (norm n)
    | none => db n

/-- `vals` is the meaning of the registered frames -/
def ViewVals (db : Db) (reg : Registry) (vals : Name → Option Table) : Prop :=
  ∀ k e, assoc reg k = some e → ∀ T, vals k = some T ↔ Evaluates db e.frame.query T

/-! ### histories -/

inductive Ev
  | create (T : Table)
  | register (name : Name) (i : Nat)
  | table (name : Name)
  | sql (q : Query)
  | transform (i : Nat) (op : UnOp)
  | joinBack (i : Nat) (name : Name) (k : Name)
  deriving Repr

structure St where
  reg : Registry
  frames : List Frame
  deriving Repr

/-- merge the right frame's chain into the left one's (`_add_ctes_to_expression`): a CTE already present
    with the same body is shared, a name clash with a different body is renamed apart -/
def mergeChains (l : List CTE) : List CTE → List (Name × Name) → List CTE × List (Name × Name)
  | [], ren => (l, ren)
  | (n, b) :: rest, ren =>
    let b' := b.rename (fun x => (assoc ren x).getD x)
    match assoc l n with
    | some b0 =>
      if b0 = b' then mergeChains l rest ren
      else
        let n' := n ++ "~" ++ toString l.length
        mergeChains (l ++ [(n', b')]) rest ((n, n') :: ren)
    | none => mergeChains (l ++ [(n, b')]) rest ren

def joinFrames (nm : Namer) (k : Name) (l r : Frame) : Frame :=
  let l := wrap nm l
  let r := wrap nm r
  let (cs, ren) := mergeChains l.ctes r.ctes []
  { ctes := cs, leaf := .bin (.joinUsing k) l.leaf (r.leaf.rename (fun x => (assoc ren x).getD x)) }

/-- static output columns of a frame are those of its value (used for `catalog.add_table`) -/
def frameCols (db : Db) (fr : Frame) : List Name :=
  match evalQuery db fr.query with
  | some T => T.cols
  | none => []

def step (nm : Namer) (norm : Name → Name) (db : Db) (σ : St) : Ev → St
  | .create T => { σ with frames := σ.frames ++ [⟨[], .lit T⟩] }
  | .register name i =>
    match σ.frames[i]? with
    | some fr => { σ with reg := register nm norm σ.reg name fr (frameCols db fr) }
    | none => σ
  | .table name => { σ with frames := σ.frames ++ [tableFrame norm db σ.reg name] }
  | .sql q => { σ with frames := σ.frames ++ [sqlFrameChecked nm norm db σ.reg q] }
  | .transform i op =>
    match σ.frames[i]? with
    | some fr => { σ with frames := σ.frames ++ [transform fr op] }
    | none => σ
  | .joinBack i name k =>
    match σ.frames[i]? with
    | some fr => { σ with frames := σ.frames ++ [joinFrames nm k fr (tableFrame norm db σ.reg name)] }
    | none => σ

def run (nm : Namer) (norm : Name → Name) (db : Db) : St → List Ev → St
  | σ, [] => σ
  | σ, e :: es => run nm norm db (step nm norm db σ e) es

end Sqlframe.Views
