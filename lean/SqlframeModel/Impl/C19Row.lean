/-
Impl/C19Row.lean — two hand transcriptions of `Row` and of the DataFrame assertion helpers, kept textually apart:
  namespace Sf : sqlframe/base/types.py (Row, _create_row) and sqlframe/testing/utils.py
  namespace Ps : pyspark/sql/types.py (Row, _create_row) and pyspark/testing/utils.py   (installed 3.5.9)
over a shared model of the Python values they handle (namespace Py: tuple indexing, ==, <, list.index, dict(zip)).
Sf branches on the decisions extracted into Gen/RowCompat.lean.

Values: None, int, str, float, decimal.Decimal, list, dict (str keys), Row (a tuple subclass with an optional
`__fields__`).  Floats/Decimals carry their value in units of 10⁻⁹ (`num`) and their Python repr; nothing about
floating point is proved — closeness in the helpers is an abstract predicate.
-/
import SqlframeModel.Gen.RowCompat
namespace Sqlframe.C19
open Sqlframe.Gen.RowCompat

mutual
inductive Val
  | none
  | int (i : Int)
  | str (s : String)
  | flt (num : Int) (repr : String)
  | dec (num : Int) (repr : String) (frepr : String)    -- Decimal: value, repr(x), repr(float(x))
  | list (xs : Vals)
  | dict (ks : List String) (vs : Vals)
  | row (hasFields : Bool) (fields : Vals) (vs : Vals)   -- `fields` = `__fields__` (a list, or the Row class called)
inductive Vals
  | nil
  | cons (v : Val) (vs : Vals)
end

instance : Inhabited Val := ⟨.none⟩
instance : Inhabited Vals := ⟨.nil⟩

def Vals.toList : Vals → List Val
  | .nil => []
  | .cons v vs => v :: vs.toList

def Vals.ofList : List Val → Vals
  | [] => .nil
  | v :: vs => .cons v (Vals.ofList vs)

def Vals.length : Vals → Nat
  | .nil => 0
  | .cons _ vs => vs.length + 1

def Vals.get? : Vals → Nat → Option Val
  | .nil, _ => none
  | .cons v _, 0 => some v
  | .cons _ vs, n + 1 => vs.get? n

def Vals.isEmpty : Vals → Bool
  | .nil => true
  | _ => false

inductive Err
  | rowError        -- sqlframe.base.exceptions.RowError
  | psValueError    -- pyspark.errors.PySparkValueError
  | psTypeError     -- pyspark.errors.PySparkTypeError
  | keyError | indexError | attributeError | typeError | runtimeError | valueError
  deriving DecidableEq, Repr, Inhabited

/-- a regenerated exception class as an outcome (`domainError` is sqlframe's own RowError) -/
def Err.ofExc : Exc → Err
  | .attributeError => .attributeError
  | .keyError => .keyError
  | .indexError => .indexError
  | .valueError => .valueError
  | .typeError => .typeError
  | .runtimeError => .runtimeError
  | .domainError => .rowError

/-- the packages' own error classes are identified ("raises in the same situations") -/
def Err.abs : Err → Err
  | .psValueError => .rowError
  | .psTypeError => .rowError
  | e => e

inductive Out
  | val (v : Val)
  | b (x : Bool)
  | n (i : Int)
  | s (x : String)
  | err (e : Err)
  | tup (vs : Vals)     -- a plain tuple (what slicing a Row gives)
  | callable            -- a bound method found on the class before `__getattr__` is asked
  deriving Inhabited

def Out.abs : Out → Out
  | .err e => .err e.abs
  | o => o

/-! ### Python core (interpreter semantics shared by both packages) -/
namespace Py

/-- floats and Decimals are given in units of 1/scale -/
def scale : Int := 1000000000

-- `==`
mutual
def eq : Val → Val → Bool
  | .none, .none => true
  | .int a, .int b => a == b
  | .int a, .flt b _ => a * scale == b
  | .flt a _, .int b => a == b * scale
  | .int a, .dec b _ _ => a * scale == b
  | .dec a _ _, .int b => a == b * scale
  | .str a, .str b => a == b
  | .flt a _, .flt b _ => a == b
  | .flt a _, .dec b _ _ => a == b
  | .dec a _ _, .flt b _ => a == b
  | .dec a _ _, .dec b _ _ => a == b
  | .list xs, .list ys => eqs xs ys
  | .dict k1 v1, .dict k2 v2 => k1.length == k2.length && dictSub k1 v1 k2 v2
  | .row _ _ xs, .row _ _ ys => eqs xs ys          -- tuple equality; `__fields__` plays no part
  | _, _ => false
def eqs : Vals → Vals → Bool
  | .nil, .nil => true
  | .cons a as, .cons b bs => eq a b && eqs as bs
  | _, _ => false
/-- every key of the first dict is in the second with an equal value -/
def dictSub : List String → Vals → List String → Vals → Bool
  | k :: ks, .cons v vs, k2, v2 =>
    (match lookup k k2 v2 with
     | some w => eq v w
     | Option.none => false) && dictSub ks vs k2 v2
  | _, _, _, _ => true
def lookup : String → List String → Vals → Option Val
  | k, k' :: ks, .cons v vs => if k = k' then some v else lookup k ks vs
  | _, _, _ => Option.none
end

/-- `<` on two values: `none` = TypeError -/
def ltScalar : Val → Val → Option Bool
  | .int a, .int b => some (a < b)
  | .int a, .flt b _ => some (a * scale < b)
  | .flt a _, .int b => some (a < b * scale)
  | .flt a _, .flt b _ => some (a < b)
  | .dec a _ _, .dec b _ _ => some (a < b)
  | .dec a _ _, .flt b _ => some (a < b)
  | .flt a _, .dec b _ _ => some (a < b)
  | .dec a _ _, .int b => some (a < b * scale)
  | .int a, .dec b _ _ => some (a * scale < b)
  | .str a, .str b => some (a < b)
  | _, _ => Option.none

/-- tuple `<`: first differing position decides; a proper prefix is smaller -/
def ltTuple : Vals → Vals → Option Bool
  | .nil, .nil => some false
  | .nil, .cons _ _ => some true
  | .cons _ _, .nil => some false
  | .cons a as, .cons b bs => if eq a b then ltTuple as bs else ltScalar a b

/-- normalise an index the way tuple.__getitem__ does -/
def index (n : Nat) (i : Int) : Option Nat :=
  if 0 ≤ i then (if i.toNat < n then some i.toNat else Option.none)
  else (if (-i).toNat ≤ n then some (n - (-i).toNat) else Option.none)

/-- `seq.index(item)` -/
def indexOf (item : Val) : Vals → Nat → Option Nat
  | .nil, _ => Option.none
  | .cons v vs, k => if eq v item then some k else indexOf item vs (k + 1)

def contains (item : Val) : Vals → Bool
  | .nil => false
  | .cons v vs => eq v item || contains item vs

/-- `dict(zip(keys, values))` for str keys: a repeated key keeps its first position and takes the last value -/
def dictSet : List String → Vals → String → Val → List String × Vals
  | [], _, k, v => ([k], .cons v .nil)
  | k' :: ks, .cons v' vs, k, v =>
    if k' = k then (k' :: ks, .cons v vs)
    else let r := dictSet ks vs k v; (k' :: r.1, .cons v' r.2)
  | k' :: ks, .nil, k, v => let r := dictSet ks .nil k v; (k' :: r.1, r.2)

def keyStr : Val → String
  | .str s => s
  | .int i => toString i
  | _ => "?"

def dictZip : Vals → Vals → List String × Vals → List String × Vals
  | .cons k ks, .cons v vs, acc => dictZip ks vs (dictSet acc.1 acc.2 (keyStr k) v)
  | _, _, acc => acc

def reprStr (s : String) : String := "'" ++ s ++ "'"

def ltChars : List Char → List Char → Bool
  | [], [] => false
  | [], _ :: _ => true
  | _ :: _, [] => false
  | a :: as, b :: bs => if a.toNat < b.toNat then true else if b.toNat < a.toNat then false else ltChars as bs

/-- `a < b` on str (lexicographic by code point) -/
def strLt (a b : String) : Bool := ltChars a.toList b.toList

def startsWithDunder (s : String) : Bool :=
  match s.toList with
  | '_' :: '_' :: _ => true
  | _ => false

def isPrefix : List Char → List Char → Bool
  | [], _ => true
  | _ :: _, [] => false
  | p :: ps, c :: cs => p == c && isPrefix ps cs

/-- `s.startswith(p)` -/
def startsWith (s p : String) : Bool := isPrefix p.toList s.toList

/-- names the class itself answers (tuple's methods, `asDict`): normal attribute lookup finds them and `__getattr__`
    is never asked, whatever the fields are called -/
def classAttrs : List String := ["count", "index", "asDict"]

-- can `hash()` be taken: tuple hashing fails on the first list / dict inside
mutual
def hashable : Val → Bool
  | .list _ => false
  | .dict _ _ => false
  | .row _ _ vs => hashables vs
  | _ => true
def hashables : Vals → Bool
  | .nil => true
  | .cons v vs => hashable v && hashables vs
end

/-- one bound of a slice, clamped the way `slice.indices(n)` does for step 1 -/
def clampBound (n : Nat) (i : Int) : Nat :=
  if i < 0 then (if (-i).toNat ≤ n then n - (-i).toNat else 0) else (if i.toNat < n then i.toNat else n)

def dropVals : Nat → Vals → Vals
  | 0, vs => vs
  | _ + 1, .nil => .nil
  | k + 1, .cons _ vs => dropVals k vs

def takeVals : Nat → Vals → Vals
  | 0, _ => .nil
  | _ + 1, .nil => .nil
  | k + 1, .cons v vs => .cons v (takeVals k vs)

/-- `t[i:j]` -/
def slice (vs : Vals) (i j : Int) : Vals :=
  let lo := clampBound vs.length i
  let hi := clampBound vs.length j
  takeVals (hi - lo) (dropVals lo vs)

/-- tuple `<=`: the first differing position decides with `<`; equal up to the shorter length: the shorter is smaller -/
def leTuple : Vals → Vals → Option Bool
  | .nil, _ => some true
  | .cons _ _, .nil => some false
  | .cons a as, .cons b bs => if eq a b then leTuple as bs else ltScalar a b

end Py

/-- top-level Decimal → float (`float(x) if isinstance(x, Decimal) else x`) -/
def floatify : Val → Val
  | .dec n _ fr => .flt n fr
  | v => v

def floatifyAll : Vals → Vals
  | .nil => .nil
  | .cons v vs => .cons (floatify v) (floatifyAll vs)

/-! ## sqlframe -/
namespace Sf

def domainErr : Err := .rowError

/-- `Row.__new__(cls, *args, **kwargs)` -/
def new (args : Vals) (kwNames : List String) (kwVals : Vals) : Except Err Val :=
  if bothGuard && !args.isEmpty && !kwNames.isEmpty then .error .rowError
  else if !kwNames.isEmpty then
    .ok (.row true (Vals.ofList (kwNames.map Val.str)) (if decKwargs then floatifyAll kwVals else kwVals))
  else .ok (.row false .nil args)

/-- `_create_row(fields, values)` -/
def createRow (fields : Vals) (values : Vals) : Val :=
  .row true fields (if decCreateRow then floatifyAll values else values)

def guardHolds (nargs nself : Nat) : Bool :=
  match callGuard with
  | .gt => nargs > nself
  | .ge => nargs ≥ nself
  | .lt => nargs < nself
  | .le => nargs ≤ nself
  | .ne => nargs != nself
  | .eq => nargs == nself

/-- `Row.__call__(self, *args)`: `self` (the tuple of its values) becomes the new row's `__fields__` -/
def call (self : Val) (args : Vals) : Except Err Val :=
  match self with
  | .row _ _ vs => if guardHolds args.length vs.length then .error .rowError else .ok (createRow vs args)
  | _ => .error .typeError

mutual
def repr : Val → String
  | .none => "None"
  | .int i => toString i
  | .str s => Py.reprStr s
  | .flt _ r => r
  | .dec _ r _ => r
  | .list xs => "[" ++ reprs xs ++ "]"
  | .dict ks vs => "{" ++ reprKvs ks vs ++ "}"
  | .row true fs vs => "Row(" ++ reprFields fs vs ++ ")"
  | .row false _ vs => "<Row(" ++ reprs vs ++ ")>"
def reprs : Vals → String
  | .nil => ""
  | .cons v .nil => repr v
  | .cons v vs => repr v ++ ", " ++ reprs vs
def reprKvs : List String → Vals → String
  | [k], .cons v _ => Py.reprStr k ++ ": " ++ repr v
  | k :: ks, .cons v vs => Py.reprStr k ++ ": " ++ repr v ++ ", " ++ reprKvs ks vs
  | _, _ => ""
/-- `", ".join("%s=%r" % (k, v) for k, v in zip(self.__fields__, tuple(self)))` -/
def reprFields : Vals → Vals → String
  | .cons k .nil, .cons v _ => Py.keyStr k ++ "=" ++ repr v
  | .cons k _, .cons v .nil => Py.keyStr k ++ "=" ++ repr v
  | .cons k ks, .cons v vs => Py.keyStr k ++ "=" ++ repr v ++ ", " ++ reprFields ks vs
  | _, _ => ""
end

-- `conv` of `asDict(recursive=True)`: descends into the container kinds the source names
mutual
def conv : Val → Val
  | .row true fs vs => if convRow then (let d := Py.dictZip fs (convs vs) ([], .nil); .dict d.1 d.2) else .row true fs vs
  | .row false fs vs => .row false fs vs          -- asDict on it raises; not generated nested
  | .list xs => if convList then .list (convs xs) else .list xs
  | .dict ks vs => if convDict then .dict ks (convs vs) else .dict ks vs
  | v => v
def convs : Vals → Vals
  | .nil => .nil
  | .cons v vs => .cons (conv v) (convs vs)
end

def asDict (self : Val) (recursive : Bool) : Out :=
  match self with
  | .row false _ _ => .err (Err.ofExc asDictNoFields)
  | .row true fs vs =>
    let d := Py.dictZip fs (if recursive then convs vs else vs) ([], .nil)
    .val (.dict d.1 d.2)
  | _ => .err .typeError

def contains (self : Val) (item : Val) : Out :=
  match self with
  | .row true fs _ => .b (Py.contains item fs)
  | .row false _ vs => .b (Py.contains item vs)
  | _ => .err .typeError

/-- the lookup both accessors share: `idx = self.__fields__.index(item)` then the value at `idx` -/
def getKey (self : Val) (item : Val) : Out :=
  match self with
  | .row false _ _ => .err .attributeError          -- `self.__fields__` → __getattr__("__fields__") raises
  | .row true fs vs =>
    (match Py.indexOf item fs 0 with
     | none => .err (Err.ofExc getitemNoField)       -- ValueError from .index → RowError(item)
     | some k => (match vs.get? k with | some v => .val v | none => .err (Err.ofExc getitemShort)))
  | _ => .err .typeError

/-- `row[i]` for an int: handed to the tuple when `__getitem__` names `int`, otherwise looked up like a name -/
def getIdx (self : Val) (i : Int) : Out :=
  if getitemInt then
    match self with
    | .row _ _ vs =>
      (match Py.index vs.length i with
       | some k => (match vs.get? k with | some v => .val v | none => .err .indexError)
       | none => .err .indexError)
    | _ => .err .typeError
  else getKey self (.int i)

/-- `row[i:j]`: a plain tuple when `__getitem__` names `slice`; a slice is never a field name otherwise -/
def getSlice (self : Val) (i j : Int) : Out :=
  match self with
  | .row hf _ vs =>
    if getitemSlice then .tup (Py.slice vs i j)
    else if hf then .err (Err.ofExc getitemNoField) else .err .attributeError
  | _ => .err .typeError

/-- `row.name`: names the class answers never reach `__getattr__`; then the prefix guard; then the lookup -/
def getAttr (self : Val) (name : String) : Out :=
  if Py.classAttrs.contains name then .callable
  else if Py.startsWith name getattrGuardPrefix then .err (Err.ofExc getattrGuardRaises)
  else match self with
  | .row false _ _ => .err .attributeError
  | .row true fs vs =>
    (match Py.indexOf (.str name) fs 0 with
     | none => .err (Err.ofExc getattrNoField)
     | some k => (match vs.get? k with | some v => .val v | none => .err (Err.ofExc getattrShort)))
  | _ => .err .typeError

def setAttr (_self : Val) (name : String) : Out :=
  if name != setattrAllowed then .err (Err.ofExc setattrRaises) else .b true

/-- `del row.name` for a name that is not in the instance dict: object.__delattr__ finds nothing to delete -/
def delAttr (_self : Val) (_name : String) : Out := .err .attributeError

/-- `hash(row) == hash(tuple(row))`, or TypeError for an unhashable value inside -/
def hashOp (self : Val) : Out :=
  match self with
  | .row _ _ vs => if Py.hashables vs then .b true else .err .typeError
  | _ => .err .typeError

/-- `pickle.loads(pickle.dumps(row))` via `__reduce__` -/
def pickle (self : Val) : Out :=
  match self with
  | .row true fs vs => .val (createRow fs vs)
  | .row false fs vs => .val (.row false fs vs)
  | _ => .err .typeError

/-! the assertion helpers -/

mutual
def compareVals (close : Int → Int → Bool) : Val → Val → Bool
  | .list xs, .list ys => (if listLenChecked then xs.length == ys.length else true) && compareAll close xs ys
  | .row _ _ xs, .row _ _ ys => (if rowZipTruncates then true else xs.length == ys.length) && compareAll close xs ys
  | .dict k1 v1, .dict k2 v2 =>
    (if dictLenChecked then k1.length == k2.length else true)
      && (if dictKeysChecked then k1.all k2.contains && k2.all k1.contains else true)
      && (match dictPairing with
          | .byKey => compareDict close k1 v1 k2 v2      -- `compare_vals(val1[k], val2[k]) for k in val1.keys()`
          | .byPosition => compareAll close v1 v2)       -- `zip(val1.values(), val2.values())`
  | .flt a ra, .flt b rb => if floatFormula then close a b else Py.eq (.flt a ra) (.flt b rb)
  | a, b => Py.eq a b
def compareAll (close : Int → Int → Bool) : Vals → Vals → Bool
  | .cons a as, .cons b bs => compareVals close a b && compareAll close as bs
  | _, _ => true
def compareDict (close : Int → Int → Bool) : List String → Vals → List String → Vals → Bool
  | k :: ks, .cons v vs, k2, v2 =>
    (match Py.lookup k k2 v2 with
     | some w => compareVals close v w
     | none => false) && compareDict close ks vs k2 v2
  | _, _, _, _ => true
end

def compareRows (close : Int → Int → Bool) : Option Val → Option Val → Bool
  | none, none => true
  | some a, some b => compareVals close a b
  | _, _ => false

def insertBy (key : Val → String) (x : Val) : List Val → List Val
  | [] => [x]
  | y :: ys => if Py.strLt (key x) (key y) then x :: y :: ys else y :: insertBy key x ys

/-- `sorted(rows, key=lambda x: str(x))` (stable) -/
def sortRows (rows : List Val) : List Val := rows.foldr (fun x acc => insertBy repr x acc) []

/-- rows of one list left over after the other ran out (`zip_longest` pads with None) -/
def restLeft (close : Int → Int → Bool) : List Val → Bool
  | [] => true
  | a :: as => compareRows close (some a) none && restLeft close as

def restRight (close : Int → Int → Bool) : List Val → Bool
  | [] => true
  | b :: bs => compareRows close none (some b) && restRight close bs

def zipLongestAll (close : Int → Int → Bool) : List Val → List Val → Bool
  | [], bs => if zipLongest then restRight close bs else true
  | a :: as, [] => if zipLongest then restLeft close (a :: as) else true
  | a :: as, b :: bs => compareRows close (some a) (some b) && zipLongestAll close as bs

/-- the list the comparison sees for one argument: sorted (a copy or the list itself) unless the order is checked -/
def sortIf (m : SortMode) (checkRowOrder : Bool) (l : List Val) : List Val :=
  if !checkRowOrder && m != .none then sortRows l else l

/-- the CALLER's list after the call: only an in-place sort changes it -/
def callerAfter (m : SortMode) (checkRowOrder : Bool) (l : List Val) : List Val :=
  if !checkRowOrder && m == .inPlace then sortRows l else l

/-- does `assertDataFrameEqual(actual, expected, checkRowOrder)` accept two lists of rows? -/
def verdict (close : Int → Int → Bool) (checkRowOrder : Bool) (actual expected : List Val) : Bool :=
  zipLongestAll close (sortIf sortActual checkRowOrder actual) (sortIf sortExpected checkRowOrder expected)

end Sf

/-! ## pyspark -/
namespace Ps

def new (args : Vals) (kwNames : List String) (kwVals : Vals) : Except Err Val :=
  if !args.isEmpty && !kwNames.isEmpty then .error .psValueError
  else if !kwNames.isEmpty then .ok (.row true (Vals.ofList (kwNames.map Val.str)) kwVals)
  else .ok (.row false .nil args)

def createRow (fields : Vals) (values : Vals) : Val := .row true fields values

def call (self : Val) (args : Vals) : Except Err Val :=
  match self with
  | .row _ _ vs => if args.length > vs.length then .error .psValueError else .ok (createRow vs args)
  | _ => .error .typeError

mutual
def repr : Val → String
  | .none => "None"
  | .int i => toString i
  | .str s => Py.reprStr s
  | .flt _ r => r
  | .dec _ r _ => r
  | .list xs => "[" ++ reprs xs ++ "]"
  | .dict ks vs => "{" ++ reprKvs ks vs ++ "}"
  | .row true fs vs => "Row(" ++ reprFields fs vs ++ ")"
  | .row false _ vs => "<Row(" ++ reprs vs ++ ")>"
def reprs : Vals → String
  | .nil => ""
  | .cons v .nil => repr v
  | .cons v vs => repr v ++ ", " ++ reprs vs
def reprKvs : List String → Vals → String
  | [k], .cons v _ => Py.reprStr k ++ ": " ++ repr v
  | k :: ks, .cons v vs => Py.reprStr k ++ ": " ++ repr v ++ ", " ++ reprKvs ks vs
  | _, _ => ""
def reprFields : Vals → Vals → String
  | .cons k .nil, .cons v _ => Py.keyStr k ++ "=" ++ repr v
  | .cons k _, .cons v .nil => Py.keyStr k ++ "=" ++ repr v
  | .cons k ks, .cons v vs => Py.keyStr k ++ "=" ++ repr v ++ ", " ++ reprFields ks vs
  | _, _ => ""
end

mutual
def conv : Val → Val
  | .row true fs vs => let d := Py.dictZip fs (convs vs) ([], .nil); .dict d.1 d.2
  | .row false fs vs => .row false fs vs
  | .list xs => .list (convs xs)
  | .dict ks vs => .dict ks (convs vs)
  | v => v
def convs : Vals → Vals
  | .nil => .nil
  | .cons v vs => .cons (conv v) (convs vs)
end

def asDict (self : Val) (recursive : Bool) : Out :=
  match self with
  | .row false _ _ => .err .psTypeError
  | .row true fs vs =>
    let d := Py.dictZip fs (if recursive then convs vs else vs) ([], .nil)
    .val (.dict d.1 d.2)
  | _ => .err .typeError

def contains (self : Val) (item : Val) : Out :=
  match self with
  | .row true fs _ => .b (Py.contains item fs)
  | .row false _ vs => .b (Py.contains item vs)
  | _ => .err .typeError

def getIdx (self : Val) (i : Int) : Out :=
  match self with
  | .row _ _ vs =>
    (match Py.index vs.length i with
     | some k => (match vs.get? k with | some v => .val v | none => .err .indexError)
     | none => .err .indexError)
  | _ => .err .typeError

def getKey (self : Val) (item : Val) : Out :=
  match self with
  | .row false _ _ => .err .attributeError
  | .row true fs vs =>
    (match Py.indexOf item fs 0 with
     | none => .err .psValueError
     | some k => (match vs.get? k with | some v => .val v | none => .err .keyError))
  | _ => .err .typeError

def getSlice (self : Val) (i j : Int) : Out :=
  match self with
  | .row _ _ vs => .tup (Py.slice vs i j)
  | _ => .err .typeError

def getAttr (self : Val) (name : String) : Out :=
  if Py.classAttrs.contains name then .callable
  else if Py.startsWith name "__" then .err .attributeError
  else match self with
  | .row false _ _ => .err .attributeError
  | .row true fs vs =>
    (match Py.indexOf (.str name) fs 0 with
     | none => .err .attributeError
     | some k => (match vs.get? k with | some v => .val v | none => .err .attributeError))
  | _ => .err .typeError

def setAttr (_self : Val) (name : String) : Out :=
  if name != "__fields__" then .err .runtimeError else .b true

def delAttr (_self : Val) (_name : String) : Out := .err .attributeError

def hashOp (self : Val) : Out :=
  match self with
  | .row _ _ vs => if Py.hashables vs then .b true else .err .typeError
  | _ => .err .typeError

def pickle (self : Val) : Out :=
  match self with
  | .row true fs vs => .val (createRow fs vs)
  | .row false fs vs => .val (.row false fs vs)
  | _ => .err .typeError

mutual
def compareVals (close : Int → Int → Bool) : Val → Val → Bool
  | .list xs, .list ys => xs.length == ys.length && compareAll close xs ys
  | .row _ _ xs, .row _ _ ys => compareAll close xs ys
  | .dict k1 v1, .dict k2 v2 =>
    (k1.length == k2.length && k1.all k2.contains && k2.all k1.contains) && compareDict close k1 v1 k2 v2
  | .flt a _, .flt b _ => close a b
  | a, b => Py.eq a b
def compareAll (close : Int → Int → Bool) : Vals → Vals → Bool
  | .cons a as, .cons b bs => compareVals close a b && compareAll close as bs
  | _, _ => true
def compareDict (close : Int → Int → Bool) : List String → Vals → List String → Vals → Bool
  | k :: ks, .cons v vs, k2, v2 =>
    (match Py.lookup k k2 v2 with
     | some w => compareVals close v w
     | none => false) && compareDict close ks vs k2 v2
  | _, _, _, _ => true
end

def compareRows (close : Int → Int → Bool) : Option Val → Option Val → Bool
  | none, none => true
  | some a, some b => compareVals close a b
  | _, _ => false

def insertBy (key : Val → String) (x : Val) : List Val → List Val
  | [] => [x]
  | y :: ys => if Py.strLt (key x) (key y) then x :: y :: ys else y :: insertBy key x ys

def sortRows (rows : List Val) : List Val := rows.foldr (fun x acc => insertBy repr x acc) []

def restLeft (close : Int → Int → Bool) : List Val → Bool
  | [] => true
  | a :: as => compareRows close (some a) none && restLeft close as

def restRight (close : Int → Int → Bool) : List Val → Bool
  | [] => true
  | b :: bs => compareRows close none (some b) && restRight close bs

def zipLongestAll (close : Int → Int → Bool) : List Val → List Val → Bool
  | [], bs => restRight close bs
  | a :: as, [] => restLeft close (a :: as)
  | a :: as, b :: bs => compareRows close (some a) (some b) && zipLongestAll close as bs

def sortIf (checkRowOrder : Bool) (l : List Val) : List Val :=
  if !checkRowOrder then sortRows l else l

def verdict (close : Int → Int → Bool) (checkRowOrder : Bool) (actual expected : List Val) : Bool :=
  zipLongestAll close (sortIf checkRowOrder actual) (sortIf checkRowOrder expected)

end Ps

/-! ## scripts -/

inductive Ctor
  | kwargs (names : List String) (vals : Vals)          -- Row(**dict(zip(names, vals)))
  | positional (vals : Vals)                            -- Row(*vals)
  | both (vals : Vals) (names : List String) (kvals : Vals)   -- Row(*vals, **kwargs)
  | factory (names : List String) (vals : Vals)         -- Row(*names)(*vals)

inductive Op
  | getIdx (i : Int)
  | getKey (k : Val)
  | getAttr (name : String)
  | contains (v : Val)
  | asDict (recursive : Bool)
  | len
  | eq (other : Val)
  | lt (other : Val)
  | repr
  | setAttr (name : String)
  | pickle
  | fields
  | getSlice (i j : Int)
  | asDictDefault
  | ne (other : Val)
  | le (other : Val)
  | hash
  | delAttr (name : String)
  | setFields (names : List String)      -- `row.__fields__ = names`: the one assignment a Row allows

def strs (ns : List String) : Vals := Vals.ofList (ns.map Val.str)

def Ctor.floatify : Ctor → Ctor
  | .kwargs ns vs => .kwargs ns (floatifyAll vs)
  | .positional vs => .positional vs
  | .both vs ns kvs => .both vs ns (floatifyAll kvs)
  | .factory ns vs => .factory ns (floatifyAll vs)

/-- the row after `row.__fields__ = names` -/
def withFields (r : Val) (names : List String) : Val :=
  match r with
  | .row _ _ vs => .row true (strs names) vs
  | v => v

def rowLt (a b : Val) : Out :=
  match a, b with
  | .row _ _ xs, .row _ _ ys => (match Py.ltTuple xs ys with | some r => .b r | none => .err .typeError)
  | _, _ => .err .typeError

def rowLe (a b : Val) : Out :=
  match a, b with
  | .row _ _ xs, .row _ _ ys => (match Py.leTuple xs ys with | some r => .b r | none => .err .typeError)
  | _, _ => .err .typeError

def rowLen : Val → Out
  | .row _ _ vs => .n vs.length
  | _ => .err .typeError

def rowFields : Val → Out
  | .row true fs _ => .val (.list fs)
  | _ => .err .attributeError

namespace Sf
def construct : Ctor → Except Err Val
  | .kwargs ns vs => new .nil ns vs
  | .positional vs => new vs [] .nil
  | .both vs ns kvs => new vs ns kvs
  | .factory ns vs => (new (strs ns) [] .nil).bind (fun cls => call cls vs)

def apply (r : Val) : Op → Out
  | .getIdx i => getIdx r i
  | .getKey k => getKey r k
  | .getAttr n => getAttr r n
  | .contains v => contains r v
  | .asDict rec => asDict r rec
  | .len => rowLen r
  | .eq o => .b (Py.eq r o)
  | .lt o => rowLt r o
  | .repr => .s (repr r)
  | .setAttr n => setAttr r n
  | .pickle => pickle r
  | .fields => rowFields r
  | .getSlice i j => getSlice r i j
  | .asDictDefault => asDict r asDictRecursiveDefault
  | .ne o => .b (!Py.eq r o)
  | .le o => rowLe r o
  | .hash => hashOp r
  | .delAttr n => delAttr r n
  | .setFields _ => setAttr r "__fields__"

/-- the row after one query: only an accepted assignment to `__fields__` changes anything -/
def after (r : Val) : Op → Val
  | .setFields ns => if "__fields__" != setattrAllowed then r else withFields r ns
  | _ => r

/-- the outcomes of the queries, made one after the other on the same object, then the object itself -/
def runOps : Val → List Op → List Out
  | r, [] => [.val r]
  | r, op :: ops => apply r op :: runOps (after r op) ops

def run (c : Ctor) (ops : List Op) : List Out :=
  match construct c with
  | .error e => [.err e]
  | .ok r => .val r :: runOps r ops
end Sf

namespace Ps
def construct : Ctor → Except Err Val
  | .kwargs ns vs => new .nil ns vs
  | .positional vs => new vs [] .nil
  | .both vs ns kvs => new vs ns kvs
  | .factory ns vs => (new (strs ns) [] .nil).bind (fun cls => call cls vs)

def apply (r : Val) : Op → Out
  | .getIdx i => getIdx r i
  | .getKey k => getKey r k
  | .getAttr n => getAttr r n
  | .contains v => contains r v
  | .asDict rec => asDict r rec
  | .len => rowLen r
  | .eq o => .b (Py.eq r o)
  | .lt o => rowLt r o
  | .repr => .s (repr r)
  | .setAttr n => setAttr r n
  | .pickle => pickle r
  | .fields => rowFields r
  | .getSlice i j => getSlice r i j
  | .asDictDefault => asDict r false
  | .ne o => .b (!Py.eq r o)
  | .le o => rowLe r o
  | .hash => hashOp r
  | .delAttr n => delAttr r n
  | .setFields _ => setAttr r "__fields__"

/-- the row after one query: only an accepted assignment to `__fields__` changes anything -/
def after (r : Val) : Op → Val
  | .setFields ns => if "__fields__" != "__fields__" then r else withFields r ns
  | _ => r

/-- the outcomes of the queries, made one after the other on the same object, then the object itself -/
def runOps : Val → List Op → List Out
  | r, [] => [.val r]
  | r, op :: ops => apply r op :: runOps (after r op) ops

def run (c : Ctor) (ops : List Op) : List Out :=
  match construct c with
  | .error e => [.err e]
  | .ok r => .val r :: runOps r ops
end Ps

/-! ## schemas (assertSchemaEqual) -/

mutual
inductive DType
  | atomic (name : String)                       -- typeName() of a non-nested type
  | array (elem : DType) (containsNull : Bool)
  | map (key value : DType) (valueContainsNull : Bool)
  | struct (fields : SFields)
inductive SFields
  | nil
  | cons (name : String) (dt : DType) (nullable : Bool) (rest : SFields)
end

def DType.typeName : DType → String
  | .atomic n => n
  | .array _ _ => "array"
  | .map _ _ _ => "map"
  | .struct _ => "struct"

def SFields.length : SFields → Nat
  | .nil => 0
  | .cons _ _ _ r => r.length + 1

namespace Sf
mutual
def compareDatatypes : DType → DType → Bool
  | .array e1 _, .array e2 _ => compareDatatypes e1 e2
  | .struct f1, .struct f2 => f1.length == f2.length && compareFields f1 f2
  | a, b => a.typeName == b.typeName
def compareFields : SFields → SFields → Bool
  | .cons n1 d1 _ r1, .cons n2 d2 _ r2 => n1 == n2 && compareDatatypes d1 d2 && compareFields r1 r2
  | .nil, .nil => true
  | _, _ => false
end
def schemaVerdict (a e : SFields) : Bool := a.length == e.length && compareFields a e
end Sf

namespace Ps
mutual
def compareDatatypes : DType → DType → Bool
  | .array e1 _, .array e2 _ => compareDatatypes e1 e2
  | .struct f1, .struct f2 => f1.length == f2.length && compareFields f1 f2
  | a, b => a.typeName == b.typeName
def compareFields : SFields → SFields → Bool
  | .cons n1 d1 _ r1, .cons n2 d2 _ r2 => n1 == n2 && compareDatatypes d1 d2 && compareFields r1 r2
  | .nil, .nil => true
  | _, _ => false
end
def schemaVerdict (a e : SFields) : Bool := a.length == e.length && compareFields a e
end Ps

/-! ## sequences of calls on the SAME list objects (the helper must leave its arguments alone) -/

/-- which of the caller's two lists is passed as (actual, expected) -/
inductive ArgSel | ae | ea | aa | ee
  deriving DecidableEq, Repr, Inhabited

def ArgSel.firstIsA : ArgSel → Bool
  | .ae => true | .aa => true | _ => false
def ArgSel.secondIsA : ArgSel → Bool
  | .ea => true | .aa => true | _ => false

structure Call where
  close : Int → Int → Bool
  order : Bool
  sel : ArgSel

/-- the caller's two list objects -/
structure St where
  a : List Val
  e : List Val

def St.get (s : St) (isA : Bool) : List Val := if isA then s.a else s.e
def St.upd (s : St) (isA : Bool) (f : List Val → List Val) : St :=
  if isA then { s with a := f s.a } else { s with e := f s.e }

namespace Sf
/-- one call: the verdict, and the caller's lists afterwards.  `actual_list` / `expected_list` ARE the caller's
    lists (`actual_list = actual`), so an in-place sort shows; the second argument is read after the first was sorted
    (it may be the same object) -/
def stepM (mA mE : SortMode) (c : Call) (s : St) : Bool × St :=
  let xs := sortIf mA c.order (s.get c.sel.firstIsA)
  let s1 := s.upd c.sel.firstIsA (callerAfter mA c.order)
  let ys := sortIf mE c.order (s1.get c.sel.secondIsA)
  let s2 := s1.upd c.sel.secondIsA (callerAfter mE c.order)
  (zipLongestAll c.close xs ys, s2)

def runCallsM (mA mE : SortMode) : List Call → St → List Bool × St
  | [], s => ([], s)
  | c :: cs, s => let r := stepM mA mE c s; let rest := runCallsM mA mE cs r.2; (r.1 :: rest.1, rest.2)

/-- with the sort modes of the source -/
def step (c : Call) (s : St) : Bool × St := stepM sortActual sortExpected c s

def runCalls (cs : List Call) (s : St) : List Bool × St := runCallsM sortActual sortExpected cs s
end Sf

namespace Ps
def step (c : Call) (s : St) : Bool × St :=
  (verdict c.close c.order (s.get c.sel.firstIsA) (s.get c.sel.secondIsA), s)

def runCalls : List Call → St → List Bool × St
  | [], s => ([], s)
  | c :: cs, s => let r := step c s; let rest := runCalls cs r.2; (r.1 :: rest.1, rest.2)
end Ps

/-! ## the arguments of assertDataFrameEqual: None, a list of rows, or a DataFrame (schema + collect()) -/

inductive Arg
  | none
  | rows (l : List Val)
  | frame (schema : SFields) (l : List Val)

def Arg.isFrame : Arg → Bool
  | .frame _ _ => true
  | _ => false

def Arg.rowsOf : Arg → List Val
  | .rows l => l
  | .frame _ l => l
  | .none => []

namespace Sf
/-- is the pair accepted (no exception of any kind)?  None guards, then the schema comparison under the regenerated
    condition (a list has no `.schema`: AttributeError), then the rows -/
def verdictArgs (close : Int → Int → Bool) (checkRowOrder : Bool) : Arg → Arg → Bool
  | .none, .none => noneBothAccepts           -- otherwise `None.schema` raises
  | .none, _ => false                         -- the guard raises, or `None.collect()` does
  | _, .none => false
  | a, e =>
    (match schemaWhen with
     | .bothFrames => if a.isFrame && e.isFrame then
         (match a, e with | .frame sa _, .frame se _ => schemaVerdict sa se | _, _ => true) else true
     | .expectedFrame => if e.isFrame then
         (match a, e with | .frame sa _, .frame se _ => schemaVerdict sa se | _, _ => false) else true
     | .never => true)
    && verdict close checkRowOrder a.rowsOf e.rowsOf
end Sf

namespace Ps
def verdictArgs (close : Int → Int → Bool) (checkRowOrder : Bool) : Arg → Arg → Bool
  | .none, .none => true
  | .none, _ => false
  | _, .none => false
  | a, e =>
    (if a.isFrame && e.isFrame then
       (match a, e with | .frame sa _, .frame se _ => schemaVerdict sa se | _, _ => true) else true)
    && verdict close checkRowOrder a.rowsOf e.rowsOf
end Ps

end Sqlframe.C19
