/-
Impl/C09Time.lean — which INSTANT a `datetime.datetime` denotes on its way through `Column._lit`, the engine and
`_to_value`, over the regenerated decisions `Gen.litAwareMode` / `litNaiveTy` / `litAwareTy` /
`toValueStripsTz`.

A datetime is its wall-clock reading (microseconds since 1970-01-01 00:00 of its OWN fields: year … microsecond)
and, when aware, its `utcoffset()` in microseconds.  The instant of an aware datetime is `wall - off`.  The civil
calendar (fields <-> microseconds), `isoformat` and the engine's parsing of the text are third party: the model
starts and ends at wall-clock microseconds, and the harness does the field arithmetic with Python's `datetime`.

Sqlframe's own decisions modelled here:
  * what `_lit` does to the datetime before `isoformat(sep=' ')`  (`TzMode`: keep / convert / relabel)
  * which type the literal is CAST to (TIMESTAMP / TIMESTAMPTZ)
  * `_to_value`: tzinfo is removed from what the engine hands back
Assumed about the engine (validated by the stream on every aware / naive datetime it generates):
  * `CAST('<fields>[+hh:mm]' AS TIMESTAMPTZ)` is the instant `wall - off` (a text without offset is read in the
    session zone); `CAST(… AS TIMESTAMP)` of a text WITH an offset is the UTC reading of that instant
  * a TIMESTAMPTZ comes back as an aware datetime in the session zone; a TIMESTAMP as a naive datetime
-/
import SqlframeModel.Gen.Values
namespace Sqlframe.C09
open Gen

/-- a Python `datetime.datetime` -/
structure PyTs where
  wall : Int
  off : Option Int      -- `utcoffset()` in microseconds; `none` = naive
  deriving DecidableEq, Repr

/-- the literal `_lit` writes: the fields and offset its text shows, and the CAST type -/
structure TsLit where
  wall : Int
  off : Option Int
  ty : String
  deriving DecidableEq, Repr

/-- `Column._lit` on a datetime, for each way of treating an aware one -/
def litTsWith (m : TzMode) (v : PyTs) : TsLit :=
  match v.off with
  | none => ⟨v.wall, none, litNaiveTy⟩
  | some o =>
    match m with
    | .keep => ⟨v.wall, some o, litAwareTy⟩
    | .convert => ⟨v.wall - o, some 0, litAwareTy⟩
    | .relabel => ⟨v.wall, some 0, litAwareTy⟩

/-- `Column._lit` on a datetime -/
def litTs (v : PyTs) : TsLit := litTsWith litAwareMode v

/-- what the engine makes of the literal.  `z`: the session zone's offset as a function of the instant -/
inductive EngineTs
  | naive (wall : Int)          -- TIMESTAMP
  | instant (i : Int)           -- TIMESTAMPTZ
  | other                       -- a CAST type outside the model
  deriving DecidableEq, Repr

/-- the instant whose reading in the session zone is `wall` (zones with a fixed offset; the general case is not
    needed: the stream runs the session in UTC and in fixed-offset zones) -/
def readLocal (z : Int) (wall : Int) : Int := wall - z

def engineRead (z : Int) (l : TsLit) : EngineTs :=
  if l.ty = "TIMESTAMPTZ" then
    match l.off with
    | some o => .instant (l.wall - o)
    | none => .instant (readLocal z l.wall)
  else if l.ty = "TIMESTAMP" then
    match l.off with
    | some o => .naive (l.wall - o)
    | none => .naive l.wall
  else .other

/-- the wall-clock reading of the Python datetime `collect()` returns (after `_to_value`); `none` = outside the
    model (tzinfo kept, unknown CAST type).  Whether the column stays TIMESTAMPTZ (handed back as an aware
    datetime in the session zone, tzinfo then removed) or is CAST to TIMESTAMP (the session zone's reading of the
    instant) makes no difference to the reading -/
def tsBackWith (m : TzMode) (z : Int) (v : PyTs) : Option Int :=
  match engineRead z (litTsWith m v) with
  | .naive w => some w
  | .instant i => if toValueStripsTz then some (i + z) else none
  | .other => none

def tsBack (z : Int) (v : PyTs) : Option Int := tsBackWith litAwareMode z v

/-- PySpark (`TimestampType.toInternal` / `fromInternal`): an aware datetime is its instant, read back as a naive
    datetime in the local zone; a naive datetime comes back as it is -/
def specTsBack (z : Int) (v : PyTs) : Int :=
  match v.off with
  | none => v.wall
  | some o => v.wall - o + z

end Sqlframe.C09
