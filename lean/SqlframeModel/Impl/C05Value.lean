/-
Impl/C05Value.lean — the values C05's expressions range over: Core's `Val` extended by DOUBLE.

A double is modelled *exactly*: a finite one is a decimal `m · 10^e` (kept normalised: `m` is not a
multiple of 10, zero is `0 · 10^0`), plus the three IEEE specials.  `+ - *` are exact decimal arithmetic —
IEEE rounding is the engine's business and outside the property; the correspondence stream compares
with a stated tolerance and only on inputs whose observable result does not depend on rounding.
Comparison is the total order Spark and DuckDB share: -inf < finite < +inf < NaN, NaN = NaN.

3VL connectives, comparison, arithmetic on `CVal` are the *assumed* engine semantics (validated
against DuckDB per row by the stream), exactly as Core/Value.lean is for `Val`.
-/
import SqlframeModel.Core.Value
namespace Sqlframe.C05
open Sqlframe

/-! ## exact doubles -/

inductive Dbl
  | fin (m e : Int)
  | pinf
  | ninf
  | nan
  deriving DecidableEq, Repr, Inhabited

def pow10 (k : Nat) : Int := (10 : Int) ^ k

/-- strip factors of ten from the mantissa (`fuel` bounds the number of steps) -/
def normAux : Nat → Int → Int → Dbl
  | 0, m, e => .fin m e
  | f + 1, m, e =>
    if m = 0 then .fin 0 0
    else if m % 10 = 0 then normAux f (m / 10) (e + 1)
    else .fin m e

/-- the normalised finite double `m · 10^e` -/
def Dbl.mk (m e : Int) : Dbl := normAux (m.natAbs + 1) m e

/-- both mantissas over the smaller exponent -/
def alignL (m1 e1 e2 : Int) : Int := m1 * pow10 (e1 - min e1 e2).toNat

def Dbl.neg : Dbl → Dbl
  | .fin m e => .fin (-m) e
  | .pinf => .ninf
  | .ninf => .pinf
  | .nan => .nan

def Dbl.add : Dbl → Dbl → Dbl
  | .nan, _ => .nan
  | _, .nan => .nan
  | .pinf, .ninf => .nan
  | .ninf, .pinf => .nan
  | .pinf, _ => .pinf
  | _, .pinf => .pinf
  | .ninf, _ => .ninf
  | _, .ninf => .ninf
  | .fin m1 e1, .fin m2 e2 => Dbl.mk (alignL m1 e1 e2 + alignL m2 e2 e1) (min e1 e2)

def Dbl.sub (a b : Dbl) : Dbl := a.add b.neg

/-- sign of a non-NaN double: -1, 0, 1 -/
def Dbl.sgn : Dbl → Int
  | .fin m _ => if m < 0 then -1 else if m = 0 then 0 else 1
  | .pinf => 1
  | .ninf => -1
  | .nan => 0

def Dbl.mul : Dbl → Dbl → Dbl
  | .nan, _ => .nan
  | _, .nan => .nan
  | .fin m1 e1, .fin m2 e2 => Dbl.mk (m1 * m2) (e1 + e2)
  | a, b =>   -- at least one infinity
    let s := a.sgn * b.sgn
    if s = 0 then .nan else if s < 0 then .ninf else .pinf

/-- strict total order: -inf < finite < +inf < NaN -/
def Dbl.lt : Dbl → Dbl → Bool
  | .nan, _ => false
  | _, .nan => true
  | .pinf, _ => false
  | _, .pinf => true
  | _, .ninf => false
  | .ninf, _ => true
  | .fin m1 e1, .fin m2 e2 => decide (alignL m1 e1 e2 < alignL m2 e2 e1)

/-! ## SQL values with DOUBLE -/

inductive CVal
  | null
  | int (i : Int)
  | str (s : String)
  | bool (b : Bool)
  | dbl (d : Dbl)
  deriving DecidableEq, Repr, Inhabited

/-- Kleene conjunction (non-boolean operands behave as NULL) -/
def kand : CVal → CVal → CVal
  | .bool false, _ => .bool false
  | _, .bool false => .bool false
  | .bool true, .bool true => .bool true
  | _, _ => .null

/-- Kleene disjunction -/
def kor : CVal → CVal → CVal
  | .bool true, _ => .bool true
  | _, .bool true => .bool true
  | .bool false, .bool false => .bool false
  | _, _ => .null

def knot : CVal → CVal
  | .bool b => .bool (!b)
  | _ => .null

/-- WHERE / CASE WHEN take a branch only when the predicate is TRUE -/
def isTrueC (v : CVal) : Bool := v = .bool true

/-- a number as a double (the implicit cast BIGINT → DOUBLE) -/
def numOf : CVal → Option Dbl
  | .int i => some (.fin i 0)
  | .dbl d => some d
  | _ => none

/-- `a < b` for two non-NULL values of one type (BIGINT and DOUBLE compare numerically); `none`: NULL or ill-typed -/
def ltVal : CVal → CVal → Option Bool
  | .int a, .int b => some (decide (a < b))
  | .str a, .str b => some (decide (a < b))
  | .bool a, .bool b => some (!a && b)
  | .int a, .dbl b => some (Dbl.lt (.fin a 0) b)
  | .dbl a, .int b => some (Dbl.lt a (.fin b 0))
  | .dbl a, .dbl b => some (Dbl.lt a b)
  | _, _ => none

/-- Core's `Val` embeds (used by nothing but documentation of the extension) -/
def CVal.ofVal : Val → CVal
  | .null => .null
  | .int i => .int i
  | .str s => .str s
  | .bool b => .bool b

theorem kand_comm (a b : CVal) : kand a b = kand b a := by
  cases a <;> cases b <;> first | rfl | (rename_i x; cases x <;> rfl) | (rename_i x y; cases x <;> cases y <;> rfl)

theorem kor_comm (a b : CVal) : kor a b = kor b a := by
  cases a <;> cases b <;> first | rfl | (rename_i x; cases x <;> rfl) | (rename_i x y; cases x <;> cases y <;> rfl)

end Sqlframe.C05
