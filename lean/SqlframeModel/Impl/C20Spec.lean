/-
Impl/C20Spec.lean — the specification side of C20 (what the documentation promises), kept apart from the model
of the code: a three-component abstract state (active engine, mock installed, stored config + the states saved
by open `activate_context` blocks), the object each documented import path must yield for an engine (computed
from the engines' export tables only — not from activate's loop), and the named scope hypotheses.
-/
import SqlframeModel.Impl.C20Activate
namespace Sqlframe.C20
open Sqlframe.Gen.Act Sqlframe.Gen.ActS

/-! ### documented import paths -/

def sharedNames : List String := ["Column", "Row", "Window", "WindowSpec"]

/-- the object `sqlframe.<e>` offers under PySpark's name `n` -/
def expectedName (e n : String) : Option Obj :=
  match prefixOf e with
  | none => none
  | some pre =>
    let target := if n = "SparkSession" then pre ++ "Session" else if sharedNames.contains n then n else pre ++ n
    ((exportsOf e).find? (·.name == target)).map (exportObj e)

/-- PySpark's module layout: which classes live in which `pyspark.sql` submodule -/
def docModuleNames : List (String × List String) :=
  [ ("session", ["SparkSession"]), ("catalog", ["Catalog"]), ("column", ["Column"]),
    ("dataframe", ["DataFrame", "DataFrameNaFunctions", "DataFrameStatFunctions"]),
    ("group", ["GroupedData"]), ("window", ["Window", "WindowSpec"]),
    ("readwriter", ["DataFrameReader", "DataFrameWriter"]), ("udf", ["UDFRegistration"]),
    ("types", ["Row"]), ("functions", []) ]

def docPackageNames : List String :=
  ["SparkSession", "Catalog", "Column", "DataFrame", "DataFrameNaFunctions", "DataFrameReader",
   "DataFrameStatFunctions", "DataFrameWriter", "GroupedData", "Row", "UDFRegistration", "Window", "WindowSpec"]

/-- every import statement the property quantifies over -/
def documentedImports : List ImportForm :=
  docPackageNames.map (.fromImport ["pyspark", "sql"] ·)
  ++ docModuleNames.map (fun mf => .fromImport ["pyspark", "sql"] mf.1)
  ++ (docModuleNames.map (fun mf => mf.2.map (.fromImport ["pyspark", "sql", mf.1] ·))).flatten
  ++ docModuleNames.map (fun mf => .importAs ["pyspark", "sql", mf.1])
  ++ docModuleNames.map (fun mf => .importModule ["pyspark", "sql", mf.1])
  ++ [ .importAs ["pyspark", "sql"], .importModule ["pyspark", "sql"], .fromImport ["pyspark"] "sql",
       .fromImport ["pyspark"] "testing", .importAs ["pyspark", "testing"], .importModule ["pyspark", "testing"],
       .fromImport ["pyspark", "testing"] "assertDataFrameEqual", .fromImport ["pyspark", "testing"] "assertSchemaEqual" ]

/-- the sys.modules keys behind the documented paths -/
def docSqlKeys : List String := "pyspark.sql" :: docModuleNames.map (fun mf => "pyspark.sql." ++ mf.1)
def docKeys : List String := "pyspark" :: "pyspark.testing" :: docSqlKeys

/-- what a documented import must yield while engine `e` is active (`none`: the property does not say) -/
def expectedImport (e : String) : ImportForm → Option Obj
  | .fromImport ["pyspark", "sql"] n =>
    if (akeys docModuleNames).contains n then some (.file e n)
    else if docPackageNames.contains n then expectedName e n else none
  | .fromImport ["pyspark", "sql", f] n =>
    if ((aget docModuleNames f).getD []).contains n then expectedName e n else none
  | .importAs ["pyspark", "sql", f] => if (akeys docModuleNames).contains f then some (.file e f) else none
  | .importModule ["pyspark", "sql", f] => if (akeys docModuleNames).contains f then some (.file e f) else none
  | .importAs ["pyspark", "sql"] => some (.pkg e)
  | .importModule ["pyspark", "sql"] => some (.pkg e)
  | .fromImport ["pyspark"] "sql" => some (.pkg e)
  | .fromImport ["pyspark"] "testing" => some .testing
  | .importAs ["pyspark", "testing"] => some .testing
  | .importModule ["pyspark", "testing"] => some .testing
  | .fromImport ["pyspark", "testing"] n => if testingNames.contains n then some (.testingAttr n) else none
  | _ => none

/-- the module an import statement loads -/
def ImportForm.modulePath : ImportForm → List String
  | .fromImport p _ => p
  | .importAs p => p
  | .importModule p => p

/-! ### the specification's state machine -/

structure Saved where
  active : Option String
  mocked : Bool
  config : List (String × Cfg)
  deriving DecidableEq, Repr, Inhabited

structure Spec where
  active : Option String
  mocked : Bool
  config : List (String × Cfg)
  stack : List Saved
  deriving DecidableEq, Repr, Inhabited

def Spec.init : Spec := { active := none, mocked := false, config := [], stack := [] }

/-- what the specification demands of one event's outcome -/
inductive Want
  | noRaise                      -- must complete
  | raises                       -- must raise (any class)
  | obj (o : Obj)                -- must yield this object (up to `Obj.canon`)
  | real                         -- must yield the real pyspark object
  | session (engine : String) (conn : ConnV) (dialect : String)
  | any
  deriving DecidableEq, Repr, Inhabited

def specActivate (env : Env) (eng : Option String) (conn : Option Nat) (dialect : Option String) (s : Spec) : Spec × Want :=
  let cfg := match conn with | some n => aset s.config "sqlframe.conn" (.conn n) | none => s.config
  let cfg := match dialect with | some d => aset cfg "sqlframe.input.dialect" (.str d) | none => cfg
  let s := { s with mocked := true, config := cfg }
  match eng with
  | none => (s, .noRaise)
  | some e0 =>
    let e := lower e0
    if (prefixOf e).isNone || env.brokenPkgs.contains e then (s, .raises)
    else ({ s with active := some e }, .noRaise)

/-- the connection / dialect the documentation promises the next session: those of the stored configuration -/
def specDialect (s : Spec) : String :=
  match aget s.config "sqlframe.input.dialect" with | some (.str x) => x | _ => "spark"

def specConn (s : Spec) : ConnV :=
  match aget s.config "sqlframe.conn" with | some (.conn n) => .given n | _ => .default

/-- what `SparkSession.builder.getOrCreate()` must yield: the active engine's session with the stored connection and
    dialect; an unknown dialect must be refused; on a connection that cannot be used (the fault of the property's
    quantifier: "exception raised by session creation") the creation raises — and must leave nothing behind, which is
    what the following events then show -/
def sessionWant (env : Env) (s : Spec) : Want :=
  match s.active with
  | some e =>
    if e = "duckdb" || e = "standalone" then
      let d := specDialect s
      if !(validDialects.contains d) then .raises
      else if e = "standalone" then .session e .none d
      else if connIsBad env (specConn s) then .raises
      else .session e (specConn s) d
    else .any
  | none => if s.mocked then .any else
            match env.find "pyspark.sql" with
            | none => .raises
            | some r => if r.raises.isSome then .raises else .real

def specStep (env : Env) (s : Spec) : Event → Spec × Want
  | .activate e c d => specActivate env e c d s
  | .deactivate => ({ s with active := none, mocked := false, config := [] }, .noRaise)
  | .ctxEnter e c d =>
    let r := specActivate env e c d { s with stack := { active := s.active, mocked := s.mocked, config := s.config } :: s.stack }
    (match r.2 with
     | .raises => ({ r.1 with active := s.active, mocked := s.mocked, config := s.config, stack := s.stack }, .raises)
     | _ => r)
  | .ctxExit k =>
    (match s.stack with
     | [] => (s, .noRaise)
     | sv :: rest =>
       ({ active := sv.active, mocked := sv.mocked, config := sv.config, stack := rest },
        match k with | .normal => .noRaise | _ => .raises))
  | .userImport f =>
    (match s.active with
     | some e => (s, match expectedImport e f with | some o => .obj o | none => .any)
     | none =>
       if s.mocked then
         (s, match f with
             | .fromImport ["pyspark"] "testing" => .obj .testing
             | .importAs ["pyspark", "testing"] => .obj .testing
             | .importModule ["pyspark", "testing"] => .obj .testing
             | .fromImport ["pyspark", "testing"] n => if testingNames.contains n then .obj (.testingAttr n) else .any
             | .importAs ["pyspark"] => .obj .mock
             | _ => .any)
       else if documentedImports.contains f then
         -- nothing is active: the import must behave as it does without sqlframe in this environment
         (s, match env.find (joinDots f.modulePath) with
             | none => .raises
             | some r =>
               if r.raises.isSome then .raises
               else match f with
                 | .fromImport p n =>
                   (match env.find (joinDots (p ++ [n])) with
                    | some r' => if r'.raises.isSome then .raises else .real
                    | none => .real)
                 | _ => .real)
       else (s, .any))
  | .sessionCreate => (s, sessionWant env s)

def specTrace (env : Env) (s : Spec) : List Event → List (Want × Spec)
  | [] => []
  | ev :: rest => let r := specStep env s ev; (r.2, r.1) :: specTrace env r.1 rest

/-- does an outcome satisfy the demand? -/
def Want.meets : Want → Outcome → Bool
  | .any, _ => true
  | .noRaise, .raised _ => false
  | .noRaise, _ => true
  | .raises, .raised _ => true
  | .raises, _ => false
  | .obj o, .obj o' => o'.canon == o
  | .obj _, _ => false
  | .real, .obj o => o.isReal
  | .real, _ => false
  | .session e c d, .session e' c' d' => e == e' && c == c' && d == d'
  | .session _ _ _, _ => false

/-- every config dict the caller handed to an activation still has exactly the content it was created with -/
def callerIntact (st : State) : Bool := st.caller.all (fun dc => dc.2 == callerInit dc.1)

/-- is the import state consistent with the specification's state? every documented key is owned by the
    active engine / is real or absent when nothing is active; the mock is installed iff `mocked`;
    the stored configuration is the expected one; the caller's own config dicts are untouched -/
def stateMeets (s : Spec) (st : State) : Bool :=
  docSqlKeys.all (fun k =>
    match aget st.mods k with
    | none => true
    | some o => match s.active with
      | some e => o.owner == some e
      | none => o.isReal)
  && (match aget st.mods "pyspark" with
      | some .mock => s.mocked
      | some o => !s.mocked && o.isReal
      | none => !s.mocked)
  && (match aget st.mods "pyspark.testing" with
      | some .testing => s.mocked
      | some o => !s.mocked && o.isReal
      | none => !s.mocked)
  && st.config == s.config
  && callerIntact st

/-! ### named scope hypotheses (decidable on the event list and the environment) -/

/-- does leaving the block in this way run `deactivate()` (in the handler / else / finally that applies)? -/
def exitCleansUp (k : ExitKind) : Bool := (exitSegment ctxIR k ++ ctxIR.fin).contains .deactivate

def Event.uncleanExit : Event → Bool
  | .ctxExit k => !exitCleansUp k
  | _ => false

/-- is the configuration cleared even when a re-import raises?  (cleared first, or everything caught) -/
def deactGuarded : List DeactStep → Bool
  | [] => true
  | .clearConfig :: _ => true
  | .reimportCollected c :: rest => (c.contains .exception || c.contains .baseException) && deactGuarded rest
  | _ :: rest => deactGuarded rest

def Event.isEngineActivation : Event → Bool
  | .activate (some _) _ _ => true
  | .ctxEnter (some _) _ _ => true
  | _ => false

def ImportForm.touchesFunctions : ImportForm → Bool
  | .fromImport p n => p.contains "functions" || n == "functions"
  | .importAs p => p.contains "functions"
  | .importModule p => p.contains "functions"

/-- may the event put a `pyspark.sql.functions` entry into sys.modules / a `functions` attribute on an engine
    package?  Imports that name `functions`; and, where a real pyspark is installed, anything that imports
    the real package (its `__init__` loads `pyspark.sql.functions`): user imports and deactivate's re-import -/
def Event.touchesFunctions (env : Env) : Event → Bool
  | .userImport f => f.touchesFunctions || !env.real.isEmpty
  | .sessionCreate => !env.real.isEmpty
  | .deactivate => !env.real.isEmpty
  | .ctxExit _ => !env.real.isEmpty
  | .ctxEnter _ _ _ => ctxIR.preInTry && !env.real.isEmpty     -- a failing enter runs the `finally` block
  | _ => false

def Event.deactivates : Event → Bool
  | .deactivate => true
  | .ctxExit _ => true
  | _ => false

/-- no engine activation after an event that touched `functions` -/
def noActivationAfterFunctions (env : Env) : List Event → Bool
  | [] => true
  | ev :: rest =>
    (if ev.touchesFunctions env then !(rest.any Event.isEngineActivation) else true) && noActivationAfterFunctions env rest

def Event.unknownEngine : Event → Bool
  | .activate (some e) _ _ => (prefixOf (lower e)).isNone
  | .ctxEnter (some e) _ _ => (prefixOf (lower e)).isNone
  | _ => false

/-- no bare `activate()` / `activate_context()` while an engine is active -/
def noBareReactivation (env : Env) : Spec → List Event → Bool
  | _, [] => true
  | s, ev :: rest =>
    (match ev with
     | .activate none _ _ => s.active.isNone
     | .ctxEnter none _ _ => s.active.isNone
     | _ => true) && noBareReactivation env (specStep env s ev).1 rest

/-- no `activate_context` is entered while something is active or mocked -/
def ctxNotNested (env : Env) : Spec → List Event → Bool
  | _, [] => true
  | s, ev :: rest =>
    (match ev with
     | .ctxEnter _ _ _ => s.active.isNone && !s.mocked && s.stack.isEmpty
     | _ => true) && ctxNotNested env (specStep env s ev).1 rest

/-! #### sessions: what is in scope of the singleton / of the class-level builders

An *attempt* is a `getOrCreate()` that reaches the creation of the session object (an engine with a modelled session is
active and the dialect is accepted); it is expected to fail only on a bad connection of the duckdb engine. -/

/-- `some (engine, expected to succeed)` if the event, in specification state `s`, is an attempt -/
def attemptOf (env : Env) (s : Spec) : Option (String × Bool) :=
  match s.active with
  | some e =>
    if (e = "duckdb" || e = "standalone") && validDialects.contains (specDialect s) then
      some (e, !(e = "duckdb" && connIsBad env (specConn s)))
    else none
  | none => none

/-- no attempt after a successful one, and none after an attempt (failed or not) for another engine's class: the
    object stored by `_BaseSession.__new__` is the process's only session object -/
def singletonScope (env : Env) : Spec → List (String × Bool) → List Event → Bool
  | _, _, [] => true
  | s, prev, ev :: rest =>
    (match ev with
     | .sessionCreate =>
       (match attemptOf env s with
        | some (e, ok) => prev.all (fun p => p.1 == e && !p.2) && singletonScope env (specStep env s ev).1 ((e, ok) :: prev) rest
        | none => singletonScope env (specStep env s ev).1 prev rest)
     | _ => singletonScope env (specStep env s ev).1 prev rest)

def cfgKeys (c : List (String × Cfg)) : List String := (akeys c).filter (fun k => k == "sqlframe.conn" || k == "sqlframe.input.dialect")

/-- every `getOrCreate()` under an engine gives (again) every setting that an earlier `getOrCreate()` under the same
    engine was given: the engine's `Builder` object is a class attribute and keeps what it was told -/
def builderScope (env : Env) : Spec → List (String × List String) → List Event → Bool
  | _, _, [] => true
  | s, prev, ev :: rest =>
    (match ev, s.active with
     | .sessionCreate, some e =>
       (prev.all (fun p => p.1 != e || p.2.all (fun k => (cfgKeys s.config).contains k)))
       && builderScope env (specStep env s ev).1 ((e, cfgKeys s.config) :: prev) rest
     | _, _ => builderScope env (specStep env s ev).1 prev rest)

def H_ctxFinally (evs : List Event) : Bool := !(evs.any Event.uncleanExit)
def H_functionsRebound (env : Env) (evs : List Event) : Bool := preimportFunctions || noActivationAfterFunctions env evs
def H_ctxNotNested (env : Env) (evs : List Event) : Bool := ctxNotNested env Spec.init evs
def H_realImportsOk (env : Env) (evs : List Event) : Bool :=
  deactGuarded deactSteps || env.real.all (·.raises.isNone) || !(evs.any Event.deactivates)
def H_sessionSingleton (env : Env) (evs : List Event) : Bool := singletonScope env Spec.init [] evs
def H_builderFresh (env : Env) (evs : List Event) : Bool := builderScope env Spec.init [] evs
def H_knownEngine (evs : List Event) : Bool := !(evs.any Event.unknownEngine)
def H_noBareReactivation (env : Env) (evs : List Event) : Bool := noBareReactivation env Spec.init evs

def violated (env : Env) (evs : List Event) : List String :=
  (if H_ctxFinally evs then [] else ["H_ctxFinally"])
  ++ (if H_functionsRebound env evs then [] else ["H_functionsRebound"])
  ++ (if H_ctxNotNested env evs then [] else ["H_ctxNotNested"])
  ++ (if H_realImportsOk env evs then [] else ["H_realImportsOk"])
  ++ (if H_sessionSingleton env evs then [] else ["H_sessionSingleton"])
  ++ (if H_builderFresh env evs then [] else ["H_builderFresh"])
  ++ (if H_knownEngine evs then [] else ["H_knownEngine"])
  ++ (if H_noBareReactivation env evs then [] else ["H_noBareReactivation"])

end Sqlframe.C20
