/-
Impl/C04.lean — object-level model for C04: which Python objects a public call writes to.

Heap = the DataFrame objects alive so far (index = identity), the user's Column handles, and a
counter of statements sent to the engine.  A DataFrame object carries the value-level state of the
C01 model plus its display-name map.  Every public call appends new objects; the only writes the
real code performs on *pre-existing* objects are (a) `_update_display_name_mapping` when it is applied
to the receiver and the decorator did not wrap (decided by Gen.Purity.display_* and Gen.Operations),
and (b) `normalize()` rewriting a caller's Column in place (Gen.Purity.normalize*Copies).
sqlglot's builders are taken to return fresh trees (`copy=True`); aliasing *inside* sqlglot trees is not
modelled and is seen only by the harness' deep snapshots.
-/
import SqlframeModel.Impl.C01Scope
import SqlframeModel.Gen.Purity
namespace Sqlframe
open Gen

structure Obj where
  df : DF
  display : List (Name × String)
  deriving Repr

/-- a user-held Column handle: its qualifier is a DataFrame's branch id until `normalize` resolves it to a CTE name -/
inductive Qual | none | branch (b : Nat) | cte (c : Nat)
  deriving DecidableEq, Repr

structure Handle where
  qual : Qual
  name : Name
  deriving DecidableEq, Repr

structure Heap where
  objs : List Obj
  handles : List Handle
  engineCalls : Nat
  deriving Repr

/-- methods that record display names -/
inductive Namer | select | agg | withColumns | withColumnRenamed | none
  deriving DecidableEq, Repr

def Namer.target : Namer → DisplayTarget
  | .select => display_select
  | .agg => display_agg
  | .withColumns => display_withColumns
  | .withColumnRenamed => display_withColumnRenamed
  | .none => .never

inductive Call
  /-- `objs[r].<method>(…)`: a C01 step that records the spellings `names`, mentions the handles `hs` -/
  | transform (r : Nat) (s : Step) (namer : Namer) (names : List (Name × String)) (hs : List Nat)
  /-- an action (collect/count/show/…): sends `k ≥ 1` statements -/
  | action (r : Nat) (k : Nat)
  /-- `df[...]` / `df.attr`: creates a new handle -/
  | getItem (r : Nat) (n : Name)
  deriving Repr

def updDisplay (m : List (Name × String)) (names : List (Name × String)) : List (Name × String) :=
  names.foldl (fun acc kv => (acc.filter (fun p => p.1 ≠ kv.1)) ++ [kv]) m

/-- does the decorator hand the *receiver object itself* to the body (no INIT branch, no wrap)? -/
def bodySeesReceiver (tag : Option Op) (d : DF) : Bool :=
  match tag with
  | none => true
  | some op => !(initCond d.last) && !(wrapCond d.last (newOp op d.last))

def Step.tag : Step → Option Op
  | .wher _ => tag_where | .select _ => tag_select | .withColumn _ _ => tag_withColumn
  | .withColumnRenamed _ _ => tag_withColumnRenamed | .drop _ => tag_drop | .distinct => tag_distinct
  | .orderBy _ => tag_orderBy | .limit _ => tag_limit | .fillna _ _ => tag_fillna
  | .replace _ _ => tag_replace | .toDF _ => tag_toDF | .dropna _ _ _ => tag_dropna
  | .unpivot _ _ _ _ => tag_unpivot

def setAt {α} (l : List α) (i : Nat) (x : α) : List α := l.set i x

def resolveHandle (h : Handle) : Handle :=
  match h.qual with
  | .branch b => { h with qual := .cte b }
  | _ => h

def exec (h : Heap) : Call → Heap
  | .transform r s namer names hs =>
    match h.objs[r]? with
    | none => h
    | some o =>
      let newObj : Obj := { df := o.df.apply s, display := updDisplay o.display names }
      -- (a) display names recorded on the receiver when the body sees the receiver itself
      let objs :=
        if namer.target = .onSelf && bodySeesReceiver s.tag o.df
        then setAt h.objs r { o with display := updDisplay o.display names } else h.objs
      -- (b) handles rewritten in place unless normalisation works on copies
      let handles :=
        if normalizeColsCopies && normalizeColCopies then h.handles
        else hs.foldl (fun acc i => match acc[i]? with | some x => setAt acc i (resolveHandle x) | none => acc) h.handles
      { objs := objs ++ [newObj], handles := handles, engineCalls := h.engineCalls }
  | .action _ k => { h with engineCalls := h.engineCalls + k + 1 }
  | .getItem r n => { h with handles := h.handles ++ [{ qual := .branch r, name := n }] }

def runCalls (h : Heap) (cs : List Call) : Heap := cs.foldl exec h

/-- what an existing DataFrame reports: its rows/columns (value state) and the spelling of its columns -/
def observe (o : Obj) : Table × List String :=
  (o.df.eval, o.df.eval.cols.map (fun c => match o.display.find? (fun p => p.1 = c) with | some p => p.2 | none => c))

/-- public transformations, as PySpark documents them -/
def transformations : List String :=
  ["select", "where", "filter", "withColumn", "withColumns", "withColumnRenamed", "drop", "toDF", "distinct",
   "dropDuplicates", "drop_duplicates", "orderBy", "sort", "limit", "dropna", "fillna", "replace", "unpivot",
   "groupBy", "groupby", "agg", "cube", "join", "crossJoin", "union", "unionAll", "unionByName", "intersect",
   "intersectAll", "exceptAll", "alias", "hint", "repartition", "coalesce", "cache", "persist", "transform",
   "copy", "columns", "sql", "na", "stat", "write", "createOrReplaceTempView"]

def lookupReach (m : String) : Option Bool := (reachesEngine.find? (fun p => p.1 = m)).map (·.2)

end Sqlframe
