/-
Impl/C04.lean — object-level model for C04: which Python objects a public call writes to.

Heap = the DataFrame objects alive so far (index = identity), the user's Column handles, and a
counter of statements sent to the engine.  A DataFrame object carries the value-level state of the
C01 model plus its display-name map plus its *hint state*: the pending hints (`pending_hints`), the hint
clause of its open block and the hint clauses of the CTEs frozen so far.  Every public call appends new
objects; the writes the real code could perform on *pre-existing* objects are
 (a) `_update_display_name_mapping` when it is applied to the receiver and the decorator did not wrap
     (decided by Gen.Purity.display_* and Gen.Operations),
 (b) `normalize()` rewriting a caller's Column in place (Gen.Purity.normalize*Copies),
 (c) `_resolve_pending_hints` — run by every rendering (`sql()`), every action and every CTE wrap — moving the
     pending partition hints into a hint clause: on which object it iterates, removes and attaches is
     regenerated (Gen.Purity.resolve*), as is the object `_hint` appends to (Gen.Purity.hintAppendsTo),
 (d) a method body that writes through the receiver (the table Gen.Purity.receiverWrites, from a static
     alias analysis of every method of BaseDataFrame; `limit`'s body is regenerated statement by statement).
sqlglot's builders are taken to return fresh trees (`copy=True`); aliasing *inside* sqlglot trees is not
modelled and is seen only by the harness' deep snapshots.
-/
import SqlframeModel.Impl.C01Scope
import SqlframeModel.Gen.Purity
import SqlframeModel.Gen.Writes
namespace Sqlframe
open Gen

/-- one element of `pending_hints`: a JoinHint (BROADCAST, …: waits for a join) or a partition hint
    (REPARTITION / COALESCE / any other name: goes into the hint clause of the block) -/
structure Hint where
  join : Bool
  text : String
  /-- identity of the hint *node* (index into `Heap.cells`); `copy()` hands the same nodes to the new DataFrame when
      `copySharesHintNodes`.  Only a join hint's node is ever rewritten: its cell holds the sequence id it names. -/
  cell : Nat := 0
  deriving DecidableEq, Repr

structure Obj where
  df : DF
  display : List (Name × String)
  /-- `pending_hints` -/
  pending : List Hint := []
  /-- the hint clause of the open block (`expression.args["hint"]`) -/
  attached : List Hint := []
  /-- the non-empty hint clauses of the frozen CTEs, oldest first -/
  frozen : List (List Hint) := []
  /-- `sequence_id`: shared by a DataFrame and everything derived from it, until `alias` draws a new one -/
  seq : Nat := 0
  deriving Repr

/-- a user-held Column handle: its qualifier is a DataFrame's branch id until `normalize` resolves it to a CTE name -/
inductive Qual | none | branch (b : Nat) | cte (c : Nat)
  deriving DecidableEq, Repr

structure Handle where
  qual : Qual
  name : Name
  deriving DecidableEq, Repr

structure Heap where
  objs : List Obj
  handles : List Handle
  engineCalls : Nat
  /-- the sequence id each join-hint node names -/
  cells : List Nat := []
  /-- the next fresh sequence id -/
  nextSeq : Nat := 1
  deriving Repr

/-- methods that record display names -/
inductive Namer | select | agg | withColumns | withColumnRenamed | none
  deriving DecidableEq, Repr

def Namer.target : Namer → DisplayTarget
  | .select => display_select
  | .agg => display_agg
  | .withColumns => display_withColumns
  | .withColumnRenamed => display_withColumnRenamed
  | .none => .never

/-- the three public methods that end in `_hint` -/
inductive HintMethod | hint | repartition | coalesce
  deriving DecidableEq, Repr

def HintMethod.tag : HintMethod → Option Op
  | .hint => tag_hint | .repartition => tag_repartition | .coalesce => tag_coalesce

/-- how an action reaches the engine: `_get_expressions` / `_convert_leaf_to_cte` on the receiver itself
    (collect, toPandas, toArrow, count), not through the hint resolution at all (schema), or through a derived
    DataFrame (`show`/`head`/`first` = `self.limit(n).collect()`, `isEmpty` = `self.select(…).head()`) -/
inductive Via
  | direct
  | none
  | step (s : Step)
  deriving Repr

inductive Call
  /-- `objs[r].<method>(…)`: a C01 step that records the spellings `names`, mentions the handles `hs` -/
  | transform (r : Nat) (s : Step) (namer : Namer) (names : List (Name × String)) (hs : List Nat)
  /-- an action (collect/count/show/…): sends `k + 1` statements -/
  | action (r : Nat) (k : Nat) (via : Via)
  /-- `df[...]` / `df.attr`: creates a new handle -/
  | getItem (r : Nat) (n : Name)
  /-- `hint(name)` / `repartition(n)` / `coalesce(n)` -/
  | hint (r : Nat) (m : HintMethod) (h : Hint)
  /-- `sql()`: renders the statement, sends nothing -/
  | render (r : Nat)
  /-- `alias(name)` -/
  | alias (r : Nat)
  deriving Repr

def updDisplay (m : List (Name × String)) (names : List (Name × String)) : List (Name × String) :=
  names.foldl (fun acc kv => (acc.filter (fun p => p.1 ≠ kv.1)) ++ [kv]) m

/-- does the decorator hand the *receiver object itself* to the body (no INIT branch, no wrap)? -/
def bodySeesReceiver (tag : Option Op) (d : DF) : Bool :=
  match tag with
  | none => true
  | some op => !(initCond d.last) && !(wrapCond d.last (newOp op d.last))

def Step.tag : Step → Option Op
  | .wher _ => tag_where | .select _ => tag_select | .withColumn _ _ => tag_withColumn
  | .withColumnRenamed _ _ => tag_withColumnRenamed | .drop _ => tag_drop | .distinct => tag_distinct
  | .orderBy _ => tag_orderBy | .limit _ => tag_limit | .fillna _ _ => tag_fillna
  | .replace _ _ => tag_replace | .toDF _ => tag_toDF | .dropna _ _ _ => tag_dropna
  | .unpivot _ _ _ _ => tag_unpivot

def setAt {α} (l : List α) (i : Nat) (x : α) : List α := l.set i x

def resolveHandle (h : Handle) : Handle :=
  match h.qual with
  | .branch b => { h with qual := .cte b }
  | _ => h

/-! ### `_resolve_pending_hints` -/

def partHints (l : List Hint) : List Hint := l.filter (fun h => !h.join)
def joinHints (l : List Hint) : List Hint := l.filter (fun h => h.join)

structure Resolved where
  /-- the object the method was called on, afterwards -/
  recv : Obj
  /-- the object the method returns (rendered by `_get_expressions`, frozen by `_convert_leaf_to_cte`) -/
  work : Obj
  deriving Repr

/-- `df = self.copy(); if not self.pending_hints: return df; for hint in <it>.pending_partition_hints:
    hint_expression.append(hint); <rm>.pending_hints.remove(hint); …; <at>.expression.set("hint", …); return <ret>`
    (join hints wait for a join, which this alphabet does not contain: they stay pending) -/
def resolveHints (o : Obj) : Resolved :=
  if o.pending.isEmpty then ⟨o, o⟩ else
  let parts := partHints o.pending
  let recv : Obj := { o with
    pending := if resolveRemovesFrom = .onSelf then joinHints o.pending else o.pending,
    attached := if resolveAttachesTo = .onSelf then o.attached ++ parts else o.attached }
  let work : Obj := { o with
    pending := if resolveRemovesFrom = .onCopy then joinHints o.pending else o.pending,
    attached := if resolveAttachesTo = .onCopy then o.attached ++ parts else o.attached }
  ⟨recv, if resolveReturns = .onCopy then work else recv⟩

def clauseText (c : List Hint) : String := ", ".intercalate (c.map (·.text))

/-- the hint comments `sql()` shows, in the order of the statement: one per frozen CTE that carries a clause,
    then the open block's -/
def hintView (o : Obj) : List String :=
  ((o.frozen ++ [(resolveHints o).work.attached]).filter (fun c => !c.isEmpty)).map clauseText

/-- did `apply` freeze at least one CTE? -/
def wraps (d d' : DF) : Bool := decide (d.hist.length < d'.hist.length)

/-- is the first `_convert_leaf_to_cte` of this step run on the receiver object itself (by the decorator, or by a body
    that calls it on `self`) rather than on a copy made by the body? -/
def stepResolvesReceiver (s : Step) (d : DF) : Bool :=
  !bodySeesReceiver s.tag d || (match s with | .unpivot _ _ _ _ => true | _ => false)

/-- the hint state a derived DataFrame starts from: after a wrap the resolved clause is frozen with the CTE -/
def derivedHints (o : Obj) (wrapped : Bool) : List Hint × List Hint × List (List Hint) :=
  if wrapped then
    let w := (resolveHints o).work
    (w.pending, [], if w.attached.isEmpty then o.frozen else o.frozen ++ [w.attached])
  else (o.pending, o.attached, o.frozen)

/-- give the join hints of a copied list their own nodes, numbered from `base` -/
def renumber (base : Nat) : List Hint → List Hint
  | [] => []
  | x :: xs => if x.join then { x with cell := base } :: renumber (base + 1) xs else x :: renumber base xs

/-- the hint state of the DataFrame a C01 step derives.
    `unpivot` freezes twice: `df = self._convert_leaf_to_cte()` (the hints are resolved on a copy) and then
    `self.copy(expression=…)._convert_leaf_to_cte()` — `self` still has them pending, so the clause is frozen a second time
    (visible when there is one value column: the clause is then set on a SELECT; on a UNION the generator does not print it) -/
def transformHints (o : Obj) (s : Step) : List Hint × List Hint × List (List Hint) :=
  let hints := derivedHints o (wraps o.df (o.df.apply s))
  match s with
  | .unpivot _ vals _ _ =>
    if bodySeesReceiver s.tag o.df && !(partHints o.pending).isEmpty && vals.length == 1 then (hints.1, hints.2.1, hints.2.2 ++ [partHints o.pending]) else hints
  | _ => hints

def execTransform (h : Heap) (r : Nat) (s : Step) (namer : Namer) (names : List (Name × String)) (hs : List Nat) : Heap :=
  match h.objs[r]? with
  | none => h
  | some o =>
    let d' := o.df.apply s
    let wrapped := wraps o.df d'
    let hints := transformHints o s
    let newObj : Obj := { df := d', display := updDisplay o.display names,
                          pending := hints.1, attached := hints.2.1, frozen := hints.2.2, seq := o.seq }
    -- (c) the receiver's pending hints, when the wrap runs on the receiver itself
    let o1 : Obj := if wrapped && stepResolvesReceiver s o.df then (resolveHints o).recv else o
    -- (a) display names recorded on the receiver when the body sees the receiver itself
    let o2 : Obj :=
      if namer.target = .onSelf && bodySeesReceiver s.tag o.df
      then { o1 with display := updDisplay o.display names } else o1
    -- (b) handles rewritten in place unless normalisation works on copies
    let handles :=
      if normalizeColsCopies && normalizeColCopies then h.handles
      else hs.foldl (fun acc i => match acc[i]? with | some x => setAt acc i (resolveHandle x) | none => acc) h.handles
    { h with objs := setAt h.objs r o2 ++ [newObj], handles := handles }

def exec (h : Heap) : Call → Heap
  | .transform r s namer names hs => execTransform h r s namer names hs
  | .action r k via =>
    let h1 : Heap :=
      match via with
      | .direct =>
        (match h.objs[r]? with
         | some o => { h with objs := setAt h.objs r (resolveHints o).recv }
         | none => h)
      | .none => h
      | .step s =>
        -- the derived DataFrame is dropped after its collect(); what the derivation did to the receiver stays
        let h' := execTransform h r s .none [] []
        { h' with objs := h'.objs.take h.objs.length }
    { h1 with engineCalls := h.engineCalls + k + 1 }
  | .getItem r n => { h with handles := h.handles ++ [{ qual := .branch r, name := n }] }
  | .hint r m hint =>
    match h.objs[r]? with
    | none => h
    | some o =>
      let d' := wrapper m.tag id o.df
      let wrapped := wraps o.df d'
      let hints := derivedHints o wrapped
      -- `_hint`: new_df = self.copy(); <target>.pending_hints.append(hint); return new_df
      -- (a join hint without parameters names the DataFrame's own sequence id: a new node)
      let hint : Hint := { hint with cell := h.cells.length }
      let newObj : Obj := { df := d', display := o.display,
                            pending := if hintAppendsTo = .onCopy then hints.1 ++ [hint] else hints.1,
                            attached := hints.2.1, frozen := hints.2.2, seq := o.seq }
      let o1 : Obj := if wrapped then (resolveHints o).recv else o
      let o2 : Obj := if hintAppendsTo = .onSelf && !wrapped then { o1 with pending := o1.pending ++ [hint] } else o1
      { h with objs := setAt h.objs r o2 ++ [newObj], cells := h.cells ++ [o.seq] }
  | .render r =>
    match h.objs[r]? with
    | some o => { h with objs := setAt h.objs r (resolveHints o).recv }
    | none => h
  | .alias r =>
    match h.objs[r]? with
    | none => h
    | some o =>
      -- decorator (NO_OP tag), then the body: df = self.copy(); re-point the join hints that name this DataFrame at the
      -- new sequence id; df._convert_leaf_to_cte(sequence_id=new)  (always a wrap)
      let dIn := wrapper tag_alias id o.df
      let decoWrapped := wraps o.df dIn
      let o1 : Obj := if decoWrapped then (resolveHints o).recv else o
      let self' : Obj := if decoWrapped
        then (let hs := derivedHints o true; { o with df := dIn, pending := hs.1, attached := hs.2.1, frozen := hs.2.2 })
        else { o with df := dIn }
      let newSeq := h.nextSeq
      -- the hint nodes the loop rewrites: the receiver's own (the copy shares them and they are rewritten in place), or new ones
      let repointed : List Hint × List Nat :=
        if copySharesHintNodes && aliasRewritesHintNode then
          (self'.pending, (joinHints self'.pending).foldl (fun cs x => if cs[x.cell]? = some o.seq then cs.set x.cell newSeq else cs) h.cells)
        else
          (renumber h.cells.length self'.pending,
           h.cells ++ (joinHints self'.pending).map (fun x => let v := (h.cells[x.cell]?).getD 0; if v = o.seq then newSeq else v))
      let cp : Obj := { self' with pending := repointed.1 }
      let hs := derivedHints cp true
      let newObj : Obj := { df := cp.df.wrap, display := o.display,
                            pending := hs.1, attached := hs.2.1, frozen := hs.2.2, seq := newSeq }
      { h with objs := setAt h.objs r o1 ++ [newObj], cells := repointed.2, nextSeq := h.nextSeq + 1 }

def runCalls (h : Heap) (cs : List Call) : Heap := cs.foldl exec h

/-- what an existing DataFrame reports: its rows/columns (value state), the spelling of its columns, and the hint
    comments of its statement -/
def observe (o : Obj) : Table × List String × List String :=
  (o.df.eval, o.df.eval.cols.map (fun c => match o.display.find? (fun p => p.1 = c) with | some p => p.2 | none => c), hintView o)

/-- public transformations, as PySpark documents them -/
def transformations : List String :=
  ["select", "where", "filter", "withColumn", "withColumns", "withColumnRenamed", "drop", "toDF", "distinct",
   "dropDuplicates", "drop_duplicates", "orderBy", "sort", "limit", "dropna", "fillna", "replace", "unpivot",
   "groupBy", "groupby", "agg", "cube", "join", "crossJoin", "union", "unionAll", "unionByName", "intersect",
   "intersectAll", "exceptAll", "alias", "hint", "repartition", "coalesce", "cache", "persist", "transform",
   "copy", "columns", "sql", "na", "stat", "write", "createOrReplaceTempView"]

/-- internal state that decides what later derivations render: for each pending join hint, does its node still name
    this DataFrame's own sequence id? -/
def hintTargets (cells : List Nat) (o : Obj) : List Bool :=
  (joinHints o.pending).map (fun x => decide (cells[x.cell]? = some o.seq))

def Call.isAlias : Call → Bool
  | .alias _ => true
  | _ => false

/-- scope hypothesis: hint nodes are private to each DataFrame (repaired source), or the history does not alias -/
def H_hint_nodes_private (cs : List Call) : Prop :=
  (copySharesHintNodes && aliasRewritesHintNode) = false ∨ ∀ c ∈ cs, c.isAlias = false

instance (cs : List Call) : Decidable (H_hint_nodes_private cs) := by unfold H_hint_nodes_private; exact inferInstance

def lookupReach (m : String) : Option Bool := (reachesEngine.find? (fun p => p.1 = m)).map (·.2)

/-- the receiver-owned state a method writes (static alias analysis; `none` = no such method) -/
def lookupWrites (m : String) : Option (List String) := (receiverWrites.find? (fun p => p.1 = m)).map (·.2)

end Sqlframe
