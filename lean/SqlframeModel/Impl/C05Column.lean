/-
Impl/C05Column.lean — hand model of how `sqlframe.base.column.Column` turns the Python expression
the user wrote into a sqlglot tree (binary_op / inverse_binary_op / unary_op, the predicate and
function methods, when/otherwise, cast, alias), driven by the regenerated table `Gen.ColumnOps`.

  PyExpr   the tree the user wrote (Python operators and Column methods)
  SqlExpr  the sqlglot tree `Column.expression` holds (class names are sqlglot's)
  build    PyExpr → SqlExpr, for an arbitrary configuration `Cfg` (the generated one is `theCfg`)
  denote   the intended value of a PyExpr under SQL three-valued logic (the specification)
  evalSql  the value of a SqlExpr *as grouped by the tree* (Paren and Alias are transparent)

Plain Python values (`col + 1.5`, `2.5e-07 * col`, `col.isin(…)`, `when(c, 'a')`, `lit(…)`) enter the tree
through the literal conversion of Impl/C05Lit.lean (`Column._lit` / `Column(v)` / `functions.lit`, each site
with the coercion regenerated in `Gen.ColumnLit`); the specification takes them at face value (`pyValue`),
the SQL evaluation reads the literal node's *text* back the way the engine's lexer does (`LitNode.value`).

Scalar operator meanings (`arithSem`, `cmpVal`, `likeSem`, …) are shared by `denote` and `evalSql`:
the theorems are about operand order, grouping and negation scope; the scalar meanings themselves are
the assumed engine semantics, validated against DuckDB by the correspondence stream.
-/
import SqlframeModel.Core.Value
import SqlframeModel.Impl.C05Lit
import SqlframeModel.Gen.ColumnOps
namespace Sqlframe.C05
open Sqlframe

/-! ## the user's tree -/

inductive Arith | add | sub | mul | mod
  deriving DecidableEq, Repr
inductive Cmp | eq | ne | lt | le | gt | ge
  deriving DecidableEq, Repr
inductive Logic | and | or
  deriving DecidableEq, Repr
inductive StrFn | startswith | endswith | rlike
  deriving DecidableEq, Repr
inductive Ty | string | bigint | double
  deriving DecidableEq, Repr

/-- where a plain Python value is handed to a method (decides which coercion of `Gen.ColumnLit` applies) -/
inductive Site
  | binary                -- right operand of an operator / `eqNullSafe`
  | between               -- a bound of `between`
  | strFn (f : StrFn)     -- argument of `startswith` / `endswith` / `rlike`
  | substr                -- `startPos` / `length`
  | when                  -- value of `when(c, v)` / `.when(c, v)`
  | otherwise             -- value of `.otherwise(v)`
  deriving DecidableEq, Repr

/-- What the user wrote.  `lit v` is `F.lit(v)`; `raw s v` is the plain Python value `v` written at the
    operand position `s` of its parent.  `arithL/cmpL/logicL op v b` is `v op b` with a plain Python value on the
    left (Python then calls the reflected method of `b`; for comparisons the mirrored one).
    A `when` chain `when(c₁,v₁).when(c₂,v₂).otherwise(d)` is `when c₁ v₁ (when c₂ v₂ (otherwise d))`;
    a chain without `otherwise` ends in `noElse`. -/
inductive PyExpr
  | col (n : Name)
  | lit (v : PyVal)
  | raw (s : Site) (v : PyVal)
  | arith (op : Arith) (a b : PyExpr)
  | arithL (op : Arith) (v : PyVal) (b : PyExpr)
  | cmp (op : Cmp) (a b : PyExpr)
  | cmpL (op : Cmp) (v : PyVal) (b : PyExpr)
  | logic (op : Logic) (a b : PyExpr)
  | logicL (op : Logic) (v : PyVal) (b : PyExpr)
  | neg (a : PyExpr)
  | not (a : PyExpr)
  | isNull (a : PyExpr)
  | isNotNull (a : PyExpr)
  | eqNullSafe (a b : PyExpr)
  | isin (a : PyExpr) (vs : List PyVal)
  | between (a lo hi : PyExpr)
  | like (a : PyExpr) (pat : String)
  | strFn (f : StrFn) (a b : PyExpr)
  | substr (a st len : PyExpr)
  | when (c v rest : PyExpr)
  | noElse
  | otherwise (d : PyExpr)
  | cast (a : PyExpr) (ty : Ty)
  | alias (a : PyExpr) (n : Name)
  deriving DecidableEq, Repr

abbrev Env := Name → CVal

/-! ## scalar meanings (shared by specification and SQL evaluation) -/

/-- `+ - *` on BIGINT; on DOUBLE when either side is one (the other is cast); `%` on BIGINT only -/
def arithSem : Arith → CVal → CVal → CVal
  | .add, .int a, .int b => .int (a + b)
  | .sub, .int a, .int b => .int (a - b)
  | .mul, .int a, .int b => .int (a * b)
  | .mod, .int a, .int b => if b = 0 then .null else .int (Int.tmod a b)
  | .mod, _, _ => .null
  | op, x, y =>
    match numOf x, numOf y with
    | some a, some b =>
      (match op with
        | .add => .dbl (a.add b)
        | .sub => .dbl (a.sub b)
        | .mul => .dbl (a.mul b)
        | .mod => .null)
    | _, _ => .null

/-- comparisons from the one strict order `ltVal` (NULL or ill-typed operands give NULL) -/
def cmpVal (op : Cmp) (a b : CVal) : CVal :=
  match ltVal a b, ltVal b a with
  | some l, some g =>
    .bool (match op with
      | .eq => !l && !g
      | .ne => l || g
      | .lt => l
      | .le => !g
      | .gt => g
      | .ge => !l)
  | _, _ => .null

/-- `v < b` written with a Python value on the left is evaluated by Python as `b > v` -/
def Cmp.swap : Cmp → Cmp
  | .eq => .eq | .ne => .ne | .lt => .gt | .le => .ge | .gt => .lt | .ge => .le

def logicSem : Logic → CVal → CVal → CVal
  | .and => kand
  | .or => kor

def negSem : CVal → CVal
  | .int i => .int (-i)
  | .dbl d => .dbl d.neg
  | _ => .null

def isNullSem (v : CVal) : CVal := .bool (decide (v = .null))

/-- `<=>`: NULL-safe equality (numbers compare numerically) -/
def nullSafeEq (a b : CVal) : CVal :=
  if a = .null then .bool (decide (b = .null))
  else if b = .null then .bool false
  else .bool (decide (cmpVal .eq a b = .bool true))

/-- `v IN (vs)`: TRUE on a match, else NULL when `v` or a list element is NULL, else FALSE -/
def inSem (v : CVal) (vs : List CVal) : CVal :=
  if v = .null then .null
  else if vs.any (fun x => decide (cmpVal .eq v x = .bool true)) then .bool true
  else if vs.contains .null then .null
  else .bool false

def betweenSem (a lo hi : CVal) : CVal := kand (cmpVal .ge a lo) (cmpVal .le a hi)

/-- `f` holds for some suffix of the list (including the empty one) -/
def anySuffix (f : List Char → Bool) : List Char → Bool
  | [] => f []
  | c :: cs => f (c :: cs) || anySuffix f cs

/-- SQL LIKE with `%` and `_` (no escape character) -/
def likeMatch : List Char → List Char → Bool
  | [], s => s.isEmpty
  | p :: ps, s =>
    if p = '%' then anySuffix (likeMatch ps) s
    else match s with
      | [] => false
      | c :: cs => (p = '_' || p = c) && likeMatch ps cs

def likeSem : CVal → CVal → CVal
  | .str s, .str p => .bool (likeMatch p.toList s.toList)
  | _, _ => .null

def strFnSem : StrFn → CVal → CVal → CVal
  | .startswith, .str s, .str p => .bool (p.toList.isPrefixOf s.toList)
  | .endswith, .str s, .str p => .bool (p.toList.isSuffixOf s.toList)
  | .rlike, .str s, .str p => .bool (anySuffix (fun suf => p.toList.isPrefixOf suf) s.toList)  -- metacharacter-free pattern
  | _, _, _ => .null

/-- `SUBSTRING(s, start, len)` for `start ≥ 1`, `len ≥ 0` (1-based) -/
def substrSem : CVal → CVal → CVal → CVal
  | .str s, .int st, .int len => .str (String.ofList ((s.toList.drop (st - 1).toNat).take len.toNat))
  | _, _, _ => .null

/-- CAST between the modelled types (DOUBLE → TEXT / BIGINT is engine-specific formatting / rounding: outside the alphabet) -/
def castSem : Ty → CVal → CVal
  | .string, .int i => .str (toString i)
  | .string, .str s => .str s
  | .string, .bool b => .str (if b then "true" else "false")
  | .bigint, .int i => .int i
  | .bigint, .bool b => .int (if b then 1 else 0)
  | .double, .int i => .dbl (Dbl.mk i 0)
  | .double, .dbl d => .dbl d
  | _, _ => .null

/-! ## the specification -/

def denote (env : Env) : PyExpr → CVal
  | .col n => env n
  | .lit v => pyValue v
  | .raw _ v => pyValue v
  | .arith op a b => arithSem op (denote env a) (denote env b)
  | .arithL op v b => arithSem op (pyValue v) (denote env b)
  | .cmp op a b => cmpVal op (denote env a) (denote env b)
  | .cmpL op v b => cmpVal op (pyValue v) (denote env b)
  | .logic op a b => logicSem op (denote env a) (denote env b)
  | .logicL op v b => logicSem op (pyValue v) (denote env b)
  | .neg a => negSem (denote env a)
  | .not a => knot (denote env a)
  | .isNull a => isNullSem (denote env a)
  | .isNotNull a => knot (isNullSem (denote env a))
  | .eqNullSafe a b => nullSafeEq (denote env a) (denote env b)
  | .isin a vs => inSem (denote env a) (vs.map pyValue)
  | .between a lo hi => betweenSem (denote env a) (denote env lo) (denote env hi)
  | .like a p => likeSem (denote env a) (.str p)
  | .strFn f a b => strFnSem f (denote env a) (denote env b)
  | .substr a s l => substrSem (denote env a) (denote env s) (denote env l)
  | .when c v rest => if isTrueC (denote env c) then denote env v else denote env rest
  | .noElse => .null
  | .otherwise d => denote env d
  | .cast a ty => castSem ty (denote env a)
  | .alias a _ => denote env a

/-! ## the sqlglot tree -/

/-- `Column.expression`.  `k`/`f` are sqlglot class names (`"EQ"`, `"And"`, `"StartsWith"`, …);
    `isNull a` is `Is(this=a, expression=Null())`; a CASE is the chain
    `caseWhen c₁ v₁ (caseWhen c₂ v₂ (caseElse d | caseEnd))`. -/
inductive SqlExpr
  | col (n : Name)
  | lit (l : LitNode)
  | paren (a : SqlExpr)
  | bin (k : String) (a b : SqlExpr)
  | un (k : String) (a : SqlExpr)
  | isNull (a : SqlExpr)
  | inList (a : SqlExpr) (vs : List LitNode)
  | between (a lo hi : SqlExpr)
  | fn2 (f : String) (a b : SqlExpr)
  | fn3 (f : String) (a b c : SqlExpr)
  | caseWhen (c v rest : SqlExpr)
  | caseEnd
  | caseElse (d : SqlExpr)
  | cast (a : SqlExpr) (ty : String)
  | alias (a : SqlExpr) (n : Name)
  deriving DecidableEq, Repr

def binSemOf : String → CVal → CVal → CVal
  | "Add" => arithSem .add
  | "Sub" => arithSem .sub
  | "Mul" => arithSem .mul
  | "Mod" => arithSem .mod
  | "EQ" => cmpVal .eq
  | "NEQ" => cmpVal .ne
  | "LT" => cmpVal .lt
  | "LTE" => cmpVal .le
  | "GT" => cmpVal .gt
  | "GTE" => cmpVal .ge
  | "And" => kand
  | "Or" => kor
  | "NullSafeEQ" => nullSafeEq
  | "Like" => likeSem
  | _ => fun _ _ => .null

def unSemOf : String → CVal → CVal
  | "Not" => knot
  | "Neg" => negSem
  | _ => fun _ => .null

def fn2SemOf : String → CVal → CVal → CVal
  | "StartsWith" => strFnSem .startswith
  | "Anonymous:ENDSWITH" => strFnSem .endswith
  | "Session:endswith" => strFnSem .endswith
  | "RegexpLike" => strFnSem .rlike
  | _ => fun _ _ => .null

def fn3SemOf : String → CVal → CVal → CVal → CVal
  | "Substring" => substrSem
  | _ => fun _ _ _ => .null

def castSemOf : String → CVal → CVal
  | "TEXT" => castSem .string
  | "BIGINT" => castSem .bigint
  | "DOUBLE" => castSem .double
  | _ => fun _ => .null

/-- value of the tree with the grouping the tree itself has -/
def evalSql (env : Env) : SqlExpr → CVal
  | .col n => env n
  | .lit l => l.value
  | .paren a => evalSql env a
  | .bin k a b => binSemOf k (evalSql env a) (evalSql env b)
  | .un k a => unSemOf k (evalSql env a)
  | .isNull a => isNullSem (evalSql env a)
  | .inList a ls => inSem (evalSql env a) (ls.map LitNode.value)
  | .between a lo hi => betweenSem (evalSql env a) (evalSql env lo) (evalSql env hi)
  | .fn2 f a b => fn2SemOf f (evalSql env a) (evalSql env b)
  | .fn3 f a b c => fn3SemOf f (evalSql env a) (evalSql env b) (evalSql env c)
  | .caseWhen c v rest => if isTrueC (evalSql env c) then evalSql env v else evalSql env rest
  | .caseEnd => .null
  | .caseElse d => evalSql env d
  | .cast a ty => castSemOf ty (evalSql env a)
  | .alias a _ => evalSql env a

/-! ## construction -/

/-- everything `build` takes from the source (the generated instance is `theCfg`) -/
structure Cfg where
  arith : Arith → Gen.ColOp
  rarith : Arith → Gen.ColOp
  cmp : Cmp → Gen.ColOp
  logic : Logic → Gen.ColOp
  rlogic : Logic → Gen.ColOp
  neg : Gen.ColOp
  inv : Gen.ColOp
  eqNullSafe : Gen.ColOp
  unaryWrapsParen : Bool
  operandUnalias : Bool
  operandWrap : Bool
  skipParents : List String
  wrapClasses : List String
  isNull : Gen.DirectOp
  isNotNull : Gen.DirectOp
  isin : Gen.DirectOp
  between : Gen.DirectOp
  like : Gen.DirectOp
  strFn : StrFn → Gen.DirectOp
  substr : Gen.DirectOp
  betweenBoundsUnalias : Bool
  betweenBoundsWrap : Bool
  lit : LitCfg
  coBinary : Gen.Coerce
  coInverse : Gen.Coerce
  coIsin : Gen.Coerce
  coLike : Gen.Coerce
  coBetween : Gen.Coerce
  coSubstr : Gen.Coerce
  coStrFn : StrFn → Gen.Coerce
  coWhen : Gen.Coerce
  coOtherwise : Gen.Coerce

def theCfg : Cfg where
  arith := fun | .add => Gen.op___add__ | .sub => Gen.op___sub__ | .mul => Gen.op___mul__ | .mod => Gen.op___mod__
  rarith := fun | .add => Gen.op___radd__ | .sub => Gen.op___rsub__ | .mul => Gen.op___rmul__ | .mod => Gen.op___rmod__
  cmp := fun | .eq => Gen.op___eq__ | .ne => Gen.op___ne__ | .lt => Gen.op___lt__ | .le => Gen.op___le__
             | .gt => Gen.op___gt__ | .ge => Gen.op___ge__
  logic := fun | .and => Gen.op___and__ | .or => Gen.op___or__
  rlogic := fun | .and => Gen.op___rand__ | .or => Gen.op___ror__
  neg := Gen.op___neg__
  inv := Gen.op___invert__
  eqNullSafe := Gen.op_eqNullSafe
  unaryWrapsParen := Gen.unaryWrapsParen
  operandUnalias := Gen.binaryOperandUnalias
  operandWrap := Gen.binaryOperandWrap
  skipParents := Gen.operandSkipParents
  wrapClasses := Gen.operandWrapClasses
  isNull := Gen.m_isNull
  isNotNull := Gen.m_isNotNull
  isin := Gen.m_isin
  between := Gen.m_between
  like := Gen.m_like
  strFn := fun | .startswith => Gen.m_startswith | .endswith => Gen.m_endswith | .rlike => Gen.m_rlike
  substr := Gen.m_substr
  betweenBoundsUnalias := Gen.betweenBoundsUnalias
  betweenBoundsWrap := Gen.betweenBoundsWrap
  lit := theLitCfg
  coBinary := Gen.coerce_binary_op
  coInverse := Gen.coerce_inverse_binary_op
  coIsin := Gen.coerce_isin
  coLike := Gen.coerce_like
  coBetween := Gen.coerce_between
  coSubstr := Gen.coerce_substr
  coStrFn := fun | .startswith => Gen.coerce_startswith | .endswith => Gen.coerce_endswith | .rlike => Gen.coerce_rlike
  coWhen := Gen.coerce_when
  coOtherwise := Gen.coerce_otherwise

/-- `Expression.unalias()` -/
def unaliasS : SqlExpr → SqlExpr
  | .alias a _ => a
  | t => t

/-- the sqlglot class of the root node ("" for leaves and delimited constructs) -/
def rootClass : SqlExpr → String
  | .bin k _ _ => k
  | .un k _ => k
  | .isNull _ => "Is"
  | .inList _ _ => "In"
  | .between _ _ _ => "Between"
  | _ => ""

/-- the part of sqlglot's class hierarchy `Column._operand` can refer to -/
def isA (k : String) : String → Bool
  | "Predicate" => ["EQ", "NEQ", "GT", "GTE", "LT", "LTE", "NullSafeEQ", "Like", "ILike", "Is", "In", "Between"].contains k
  | "Connector" => ["And", "Or"].contains k
  | "Not" => k == "Not"
  | _ => false

/-- `Column._operand(parent, t)` -/
def wrapUnder (cfg : Cfg) (parent : String) (t : SqlExpr) : SqlExpr :=
  if cfg.skipParents.any (isA parent) then t
  else if cfg.wrapClasses.any (isA (rootClass t)) then .paren t
  else t

/-- how `binary_op` / `inverse_binary_op` take an operand -/
def wrapOperand (cfg : Cfg) (parent : String) (t : SqlExpr) : SqlExpr :=
  if cfg.operandWrap then wrapUnder cfg parent t else t

/-- `binary_op` / `inverse_binary_op` with the method's table entry; `self`, `other` are already un-aliased -/
def applyBin (cfg : Cfg) (o : Gen.ColOp) (self other : SqlExpr) : SqlExpr :=
  let node :=
    if o.selfFirst then SqlExpr.bin o.klass (wrapOperand cfg o.klass self) (wrapOperand cfg o.klass other)
    else SqlExpr.bin o.klass (wrapOperand cfg o.klass other) (wrapOperand cfg o.klass self)
  if o.paren then .paren node else node

/-- `unary_op` -/
def applyUn (cfg : Cfg) (o : Gen.ColOp) (self : SqlExpr) : SqlExpr :=
  .un o.klass (if cfg.unaryWrapsParen then .paren self else self)

/-- how a predicate method takes its subject -/
def subject (cfg : Cfg) (m : Gen.DirectOp) (parent : String) (t : SqlExpr) : SqlExpr :=
  if m.subjectWrap then wrapUnder cfg parent t else t

/-- how `between` takes a bound (`t` is the bound's full expression) -/
def bound (cfg : Cfg) (t : SqlExpr) : SqlExpr :=
  let u := if cfg.betweenBoundsUnalias then unaliasS t else t
  if cfg.betweenBoundsWrap then wrapUnder cfg "Between" u else u

/-- sqlglot's `exp.cast`: an expression that already is a cast to that type is returned as it is -/
def mkCast (t : SqlExpr) (ty : String) : SqlExpr :=
  match t with
  | .cast a ty' => if ty' = ty then .cast a ty' else .cast (.cast a ty') ty
  | t => .cast t ty

def Ty.sqlName : Ty → String
  | .string => "TEXT"
  | .bigint => "BIGINT"
  | .double => "DOUBLE"

/-- stands for the display alias `when__<first identifier>__` the `@meta` decorator attaches (its spelling is C10's business) -/
def autoAlias : Name := "<auto>"

/-- the coercion of each operand position -/
def Cfg.coerce (cfg : Cfg) : Site → Gen.Coerce
  | .binary => cfg.coBinary
  | .between => cfg.coBetween
  | .strFn f => cfg.coStrFn f
  | .substr => cfg.coSubstr
  | .when => cfg.coWhen
  | .otherwise => cfg.coOtherwise

/-- `F.lit(v)`: the literal, under the decorator's automatic alias when the node is a function (a CAST) -/
def fnExpr (c : LitCfg) (v : PyVal) : SqlExpr :=
  if fnAliased c v then .alias (.lit (fnNode c v)) autoAlias else .lit (fnNode c v)

/-- a plain Python value at a call site with coercion `k`, as the `Column` the method makes of it -/
def litExpr (c : LitCfg) (k : Gen.Coerce) (v : PyVal) : SqlExpr :=
  match k with
  | .litFn => fnExpr c v
  | k => .lit (coerceNode c k v)

/-- the sqlglot tree the real `Column` holds for the user's expression -/
def build (cfg : Cfg) : PyExpr → SqlExpr
  | .col n => .col n
  | .lit v => fnExpr cfg.lit v
  | .raw s v => litExpr cfg.lit (cfg.coerce s) v
  | .arith op a b => applyBin cfg (cfg.arith op) (unaliasS (build cfg a)) (unaliasS (build cfg b))
  | .arithL op v b => applyBin cfg (cfg.rarith op) (unaliasS (build cfg b)) (.lit (coerceNode cfg.lit cfg.coInverse v))
  | .cmp op a b => applyBin cfg (cfg.cmp op) (unaliasS (build cfg a)) (unaliasS (build cfg b))
  | .cmpL op v b => applyBin cfg (cfg.cmp op.swap) (unaliasS (build cfg b)) (.lit (coerceNode cfg.lit cfg.coBinary v))
  | .logic op a b => applyBin cfg (cfg.logic op) (unaliasS (build cfg a)) (unaliasS (build cfg b))
  | .logicL op v b => applyBin cfg (cfg.rlogic op) (unaliasS (build cfg b)) (.lit (coerceNode cfg.lit cfg.coInverse v))
  | .neg a => applyUn cfg cfg.neg (unaliasS (build cfg a))
  | .not a => applyUn cfg cfg.inv (unaliasS (build cfg a))
  | .isNull a => .isNull (subject cfg cfg.isNull "Is" (unaliasS (build cfg a)))
  | .isNotNull a => .un "Not" (.isNull (subject cfg cfg.isNotNull "Is" (unaliasS (build cfg a))))
  | .eqNullSafe a b => applyBin cfg cfg.eqNullSafe (unaliasS (build cfg a)) (unaliasS (build cfg b))
  | .isin a vs => .inList (subject cfg cfg.isin "In" (unaliasS (build cfg a))) (vs.map (coerceNode cfg.lit cfg.coIsin))
  | .between a lo hi =>
      .between (subject cfg cfg.between "Between" (unaliasS (build cfg a))) (bound cfg (build cfg lo)) (bound cfg (build cfg hi))
  | .like a p => .bin cfg.like.klass (subject cfg cfg.like cfg.like.klass (unaliasS (build cfg a))) (.lit (coerceNode cfg.lit cfg.coLike (.str p)))
  | .strFn f a b => .fn2 (cfg.strFn f).klass (unaliasS (build cfg a)) (unaliasS (build cfg b))
  | .substr a s l => .fn3 cfg.substr.klass (unaliasS (build cfg a)) (unaliasS (build cfg s)) (unaliasS (build cfg l))
  | .when c v rest =>
      -- `functions.when` is decorated with `@meta`: the CASE carries an automatic display alias, which
      -- `.when(...)`/`.otherwise(...)` keep (they edit the un-aliased copy) and operand positions strip
      .alias (.caseWhen (unaliasS (build cfg c)) (unaliasS (build cfg v)) (unaliasS (build cfg rest))) autoAlias
  | .noElse => .caseEnd
  | .otherwise d => .caseElse (unaliasS (build cfg d))
  | .cast a ty => mkCast (unaliasS (build cfg a)) ty.sqlName
  | .alias a n => .alias (unaliasS (build cfg a)) n

/-! ## what the theorems need to know about a configuration -/

def arithKlass : Arith → String
  | .add => "Add" | .sub => "Sub" | .mul => "Mul" | .mod => "Mod"
def cmpKlass : Cmp → String
  | .eq => "EQ" | .ne => "NEQ" | .lt => "LT" | .le => "LTE" | .gt => "GT" | .ge => "GTE"
def logicKlass : Logic → String
  | .and => "And" | .or => "Or"
def strFnKlasses : StrFn → List String
  | .startswith => ["StartsWith"]
  | .endswith => ["Anonymous:ENDSWITH", "Session:endswith"]
  | .rlike => ["RegexpLike"]

/-- the table names the right class for every operator and orients the operands the right way
    (`selfFirst` for the direct forms, `¬selfFirst` for the reflected ones) -/
def tableOK (cfg : Cfg) : Bool :=
  [Arith.add, .sub, .mul, .mod].all (fun op =>
    (cfg.arith op).klass == arithKlass op && (cfg.arith op).selfFirst
    && (cfg.rarith op).klass == arithKlass op && !(cfg.rarith op).selfFirst)
  && [Cmp.eq, .ne, .lt, .le, .gt, .ge].all (fun op => (cfg.cmp op).klass == cmpKlass op && (cfg.cmp op).selfFirst)
  && [Logic.and, .or].all (fun op =>
    (cfg.logic op).klass == logicKlass op && (cfg.logic op).selfFirst
    && (cfg.rlogic op).klass == logicKlass op && !(cfg.rlogic op).selfFirst)
  && cfg.neg.klass == "Neg" && cfg.inv.klass == "Not"
  && cfg.eqNullSafe.klass == "NullSafeEQ" && cfg.eqNullSafe.selfFirst
  && cfg.like.klass == "Like" && cfg.substr.klass == "Substring"
  && [StrFn.startswith, .endswith, .rlike].all (fun f => (strFnKlasses f).contains (cfg.strFn f).klass)
  && cfg.operandUnalias

/-- every arithmetic result and every non-reflected `&`/`|` result is wrapped in `Paren`, and
    `unary_op` parenthesises its operand -/
def parenOK (cfg : Cfg) : Bool :=
  [Arith.add, .sub, .mul, .mod].all (fun op => (cfg.arith op).paren && (cfg.rarith op).paren)
  && [Logic.and, .or].all (fun op => (cfg.logic op).paren)
  && cfg.unaryWrapsParen

/-- `Column._operand` exists with the repaired decision: never under AND/OR, always around a bare
    predicate, NOT, AND or OR -/
def wrapOK (cfg : Cfg) : Bool :=
  cfg.skipParents == ["Connector"]
  && cfg.wrapClasses.contains "Predicate" && cfg.wrapClasses.contains "Not" && cfg.wrapClasses.contains "Connector"

end Sqlframe.C05
