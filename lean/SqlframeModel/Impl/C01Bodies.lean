/-
Impl/C01Bodies.lean — the method bodies of `DF.apply` composed from the *regenerated* call structure
(`Gen.C01Bodies`: which further DataFrame methods a body runs, through the `@operation` wrapper or around it, and
whether it writes its clause into the open SELECT itself).

`DF.applyGen` is `DF.apply` with every "how is the inner call entered" decision taken from the source as it is now;
`Lemmas/C01Bodies.lean` proves the two equal, so the chain theorem is about the composition dataframe.py really uses.
A body that stops calling `select` through the wrapper, starts writing into `self.expression` directly, or calls a
different method makes that proof fail.
-/
import SqlframeModel.Impl.C01Scope
import SqlframeModel.Gen.C01Bodies
namespace Sqlframe
open Gen

def Gen.Inner.name : Inner → String
  | .decorated m => m
  | .undecorated m => m

/-- the `@operation` tag of the methods bodies call (Gen.Methods) -/
def tagOfName : String → Option Op
  | "select" => tag_select
  | "where" => tag_where
  | "withColumns" => tag_withColumns
  | "orderBy" => tag_orderBy
  | "limit" => tag_limit
  | "distinct" => tag_distinct
  | "drop" => tag_drop
  | _ => none

/-- one inner call: a decorated call re-enters the wrap rule, an undecorated one (`.__wrapped__`) runs the body as is -/
def viaCall (c : Inner) (body : DF → DF) : DF → DF :=
  match c with
  | .decorated m => wrapper (tagOfName m) body
  | .undecorated _ => body

/-- the calls a body makes, in order: the generated list says how each is entered, the hand-written list what it does
    (a call the generated list does not have, or has under another name, is not run) -/
def viaCalls : List Inner → List (String × (DF → DF)) → DF → DF
  | [], [], d => d
  | c :: cs, (m, b) :: bs, d => if c.name = m then viaCalls cs bs (viaCall c b d) else d
  | _, _, d => d

/-- a method body: its inner calls, then (when the source hands `copy(expression=…)` a builder call) its own clause -/
def runBody (inner : List Inner) (direct : Bool) (calls : List (String × (DF → DF))) (write : DF → DF) (d : DF) : DF :=
  let d := viaCalls inner calls d
  if direct then write d else d

/-- `DF.apply`, every composition decision regenerated -/
def DF.applyGen (d : DF) : Step → DF
  | .wher p => wrapper tag_where (runBody inner_where direct_where [] (bodyWhere p)) d
  | .select items => wrapper tag_select (runBody inner_select direct_select [] (bodySelect items)) d
  | .withColumn n e =>
      wrapper tag_withColumn (fun d =>
        runBody inner_withColumn direct_withColumn
          [("withColumns", runBody inner_withColumns direct_withColumns [("select", bodySelect (withColItems d.outNames n e))] id)] id d) d
  | .withColumnRenamed a b =>
      wrapper tag_withColumnRenamed (fun d =>
        runBody inner_withColumnRenamed direct_withColumnRenamed [("select", bodySelect (renameItems d.outNames a b))] id d) d
  | .drop ns =>
      wrapper tag_drop (fun d =>
        runBody inner_drop direct_drop [("select", bodySelectNoAppend dropSelectAppend (dropItems d.outNames ns))] id d) d
  | .distinct => wrapper tag_distinct (runBody inner_distinct direct_distinct [] bodyDistinct) d
  | .orderBy keys => wrapper tag_orderBy (runBody inner_orderBy direct_orderBy [] (bodyOrderBy keys)) d
  | .limit n => wrapper tag_limit (runBody inner_limit direct_limit [] (bodyLimit n)) d
  | .fillna v sub =>
      wrapper tag_fillna (fun d =>
        runBody inner_fillna direct_fillna [("select", bodySelect (fillItems d.outNames v sub))] id d) d
  | .replace pairs sub =>
      wrapper tag_replace (fun d =>
        runBody inner_replace direct_replace [("select", bodySelect (replaceItems d.outNames pairs sub))] id d) d
  | .toDF names =>
      wrapper tag_toDF (fun d =>
        runBody inner_toDF direct_toDF [("select", fun d' => { d' with blk := { d'.blk with sel := toDFItems d.blk.sel names } })] id d) d
  | .dropna howAll thresh sub =>
      wrapper tag_dropna (fun d =>
        runBody inner_dropna direct_dropna
          [("select", bodySelectNoAppend true [("num_nulls", numNullsExpr sub)]),
           ("where", bodyWhere (.bin .lt (.col "num_nulls") (.lit (.int (dropnaMin howAll thresh sub.length))))),
           ("select", bodySelect (identSel d.outNames))] id d) d
  | .unpivot ids vals var val =>
      -- `wraps_unpivot` explicit freezes: one before the UNION is built over the frozen CTE, one after
      wrapper tag_unpivot (fun d =>
        runBody inner_unpivot direct_unpivot [] (fun d =>
          let U := unpivotTable d.eval ids vals var val
          let U := if unpivotDistinct then { U with rows := dedup U.rows } else U
          { src := U, blk := { sel := identSel U.cols }, last := d.last,
            hist := d.hist ++ (if wraps_unpivot = 2 then [.block d.blk, .unpivot ids vals var val unpivotDistinct] else []) }) d) d

end Sqlframe
