/-
Impl/C20Activate.lean — hand model of `sqlframe/__init__.py` (activate / deactivate / activate_context) over a
mini-model of the interpreter's import state, driven by the tables and step lists of Gen/Activate.lean.

State that is modelled
  * `mods`     : sys.modules restricted to the keys that start with "pyspark" (insertion-ordered dict),
  * the attributes of the MagicMock currently installed as sys.modules["pyspark"],
  * per sqlframe engine package: the attributes added after the package was imported (activate's
    `setattr`s, the `functions` submodule once imported, duplicate loads), whether
    `sqlframe.<e>.functions` itself is in sys.modules, and attributes set on the engine's file modules,
  * ACTIVATE_CONFIG, the open `activate_context` generators, the session singleton (`_BaseSession._instance`:
    absent / allocated by `__new__` but not initialised / initialised) and the per-engine builder objects
    (`Builder` instances are class attributes, so they outlive a deactivate),
  * the CALLER's config dicts: the harness hands one and the same dict object to every activation that is given the
    same settings (an application's shared settings dict); `activate` must only read it.
Python's import rules used: `import a.b.c` loads each dotted prefix (sys.modules first, else the parent's
`__path__` — a sqlframe engine package's directory —, binding the child on the parent), `from a.b import c`
= attribute, else (packages only) import of `<a.b.__name__>.c`, `import a.b.c as x` = attribute chain from
sys.modules["a"].

Everything here is structurally recursive and uses only kernel-reducible string helpers so that closed
instances can be proved by `decide`.
-/
import SqlframeModel.Gen.Activate
import SqlframeModel.Gen.ActSession
namespace Sqlframe.C20
open Sqlframe.Gen.Act Sqlframe.Gen.ActS

/-! ### kernel-reducible string helpers -/

def pfx : List Char → List Char → Bool
  | [], _ => true
  | _ :: _, [] => false
  | a :: as, b :: bs => a == b && pfx as bs

/-- `s.startswith(p)` -/
def startsW (s p : String) : Bool := pfx p.toList s.toList

def dropPfx : List Char → List Char → Option (List Char)
  | [], s => some s
  | _ :: _, [] => none
  | a :: as, b :: bs => if a == b then dropPfx as bs else none

def removeAllAux (p : List Char) : Nat → List Char → List Char
  | 0, s => s
  | _ + 1, [] => []
  | n + 1, c :: cs =>
    match dropPfx p (c :: cs) with
    | some rest => removeAllAux p n rest
    | none => c :: removeAllAux p n cs

/-- `s.replace(p, "")` (p non-empty) -/
def removeAll (s p : String) : String :=
  if p.toList.isEmpty then s else String.ofList (removeAllAux p.toList s.toList.length s.toList)

def lowerC (c : Char) : Char := if 'A' ≤ c ∧ c ≤ 'Z' then Char.ofNat (c.toNat + 32) else c
/-- `s.lower()` (ASCII) -/
def lower (s : String) : String := String.ofList (s.toList.map lowerC)

def splitAux : List Char → List Char → List (List Char)
  | acc, [] => [acc.reverse]
  | acc, c :: cs => if c == '.' then acc.reverse :: splitAux [] cs else splitAux (c :: acc) cs
/-- `s.split(".")` -/
def splitDots (s : String) : List String := (splitAux [] s.toList).map String.ofList

def joinDots : List String → String
  | [] => ""
  | [a] => a
  | a :: rest => a ++ "." ++ joinDots rest

/-! ### dict-like association lists -/

def aget {α} (m : List (String × α)) (k : String) : Option α :=
  match m with
  | [] => none
  | (k', v) :: t => if k' = k then some v else aget t k

/-- `d[k] = v` (in place when present, appended otherwise) -/
def aset {α} (m : List (String × α)) (k : String) (v : α) : List (String × α) :=
  match m with
  | [] => [(k, v)]
  | (k', v') :: t => if k' = k then (k, v) :: t else (k', v') :: aset t k v

def akeys {α} (m : List (String × α)) : List String := m.map (·.1)

/-! ### objects -/

inductive Obj
  | mock                              -- a MagicMock (the installed package mock or any auto-attribute of it)
  | pkg (e : String)                  -- module sqlframe.<e>
  | file (e f : String)               -- module sqlframe.<e>.<f>
  | dup (e f : String)                -- sqlframe/<e>/<f>.py executed a second time under the name pyspark.sql.<f>
  | cls (e n : String)                -- class defined by engine e, exported as sqlframe.<e>.<n>
  | shared (n : String)               -- engine-independent object re-exported by every engine (Column, Window, Row, …)
  | testing                           -- module sqlframe.testing
  | testingAttr (n : String)
  | real (name : String)              -- real pyspark module
  | realAttr (m n : String)           -- attribute of a real pyspark module
  deriving DecidableEq, Repr, Inhabited

/-- the engine whose code the object is -/
def Obj.owner : Obj → Option String
  | .pkg e | .file e _ | .dup e _ | .cls e _ => some e
  | _ => none

def Obj.isReal : Obj → Bool
  | .real _ | .realAttr _ _ => true
  | _ => false

/-- identify a duplicate load with the canonical module (same source file) -/
def Obj.canon : Obj → Obj
  | .dup e f => .file e f
  | o => o

/-! ### environment: what a real `import pyspark…` does in this interpreter -/

structure RealMod where
  name : String
  raises : Option Exc        -- the import raises this (after possibly loading other modules)
  closure : List String      -- tracked keys present in sys.modules after the attempt
  deriving Repr, Inhabited

structure Env where
  real : List RealMod        -- modules not listed raise ModuleNotFoundError
  brokenPkgs : List String   -- engines whose `import sqlframe.<e>` raises (driver not installed)
  badConns : List Nat := []  -- connections on which every use raises (closed, a clashing user function, …): the
                             -- fault "exception raised by session creation" of the property's quantifier
  deriving Repr, Inhabited

def Env.absent : Env := { real := [], brokenPkgs := [], badConns := [] }

def Env.find (env : Env) (name : String) : Option RealMod := env.real.find? (·.name == name)

/-! ### state -/

inductive Cfg | conn (n : Nat) | str (s : String)
  deriving DecidableEq, Repr, Inhabited

structure Pkg where
  dyn : List (String × Obj)                -- attributes added after the package import (ordered)
  canonFn : Bool                           -- sqlframe.<e>.functions is in sys.modules
  fileDyn : List (String × Obj)            -- "<file>:<attr>" ↦ object set on a file module by activate
  deriving DecidableEq, Repr, Inhabited

def Pkg.empty : Pkg := { dyn := [], canonFn := false, fileDyn := [] }

inductive ConnV | none | default | given (n : Nat)
  deriving DecidableEq, Repr, Inhabited

structure Builder where
  engine : String
  dialect : String
  conn : Option Nat
  deriving DecidableEq, Repr, Inhabited

structure Inst where
  engine : String
  conn : ConnV
  dialect : String
  deriving DecidableEq, Repr, Inhabited

/-- `_BaseSession._instance` -/
inductive Single
  | absent                   -- None
  | allocated (e : String)   -- stored by `__new__` for engine e's class; no `_connection` attribute (yet)
  | ready (i : Inst)         -- has a `_connection` attribute: `DuckDBSession.__init__`'s guard skips it
  deriving DecidableEq, Repr, Inhabited

def Single.unready : Single → Bool
  | .ready _ => false
  | _ => true

structure State where
  mods : List (String × Obj)
  mockSql : Option Obj
  mockTesting : Bool
  pkgs : List (String × Pkg)      -- imported engine packages, by engine name (import order)
  config : List (String × Cfg)
  ctx : Nat
  cur : Option String          -- ghost: engine that last bound pyspark.sql and has not been removed since
  inst : Single
  builders : List Builder
  caller : List (String × List (String × Cfg))   -- the caller's config dict per settings value (dialect), by first use
  deriving DecidableEq, Repr, Inhabited

def State.fresh : State :=
  { mods := [], mockSql := none, mockTesting := false, pkgs := [], config := [], ctx := 0, cur := none,
    inst := .absent, builders := [], caller := [] }

/-! ### the engine tables -/

def prefixOf (e : String) : Option String := aget engineToPrefix e
def exportsOf (e : String) : List Export := (aget engineExports e).getD []
def filesOf (e : String) : List String := (aget engineFiles e).getD []

def exportObj (e : String) (x : Export) : Obj := if x.own then .cls e x.name else .shared x.name

/-- the package dict right after `import sqlframe.<e>`: each `from sqlframe.<e>.<f> import A, B` binds the
    submodule `f` (once) and then the names -/
def staticAttrsAux (e : String) : List Export → List String → List (String × Obj)
  | [], _ => []
  | x :: xs, seen =>
    if seen.contains x.file then (x.name, exportObj e x) :: staticAttrsAux e xs seen
    else (x.file, .file e x.file) :: (x.name, exportObj e x) :: staticAttrsAux e xs (x.file :: seen)

def staticAttrs (e : String) : List (String × Obj) := staticAttrsAux e (exportsOf e) []

def updPkg (ps : List (String × Pkg)) (e : String) (f : Pkg → Pkg) : List (String × Pkg) :=
  aset ps e (f ((aget ps e).getD Pkg.empty))

def State.pkg (st : State) (e : String) : Pkg := (aget st.pkgs e).getD Pkg.empty

/-- the package `__dict__` (selected view): static entries (current value), then the later additions -/
def pkgDict (st : State) (e : String) : List (String × Obj) :=
  let p := st.pkg e
  let stat := staticAttrs e
  stat.map (fun kv => (kv.1, (aget p.dyn kv.1).getD kv.2)) ++ p.dyn.filter (fun kv => !(akeys stat).contains kv.1)

def pkgAttr (st : State) (e n : String) : Option Obj :=
  match aget (st.pkg e).dyn n with
  | some o => some o
  | none => aget (staticAttrs e) n

def setPkgAttr (st : State) (e n : String) (o : Obj) : State :=
  { st with pkgs := updPkg st.pkgs e (fun p => { p with dyn := aset p.dyn n o }) }

def fileAttr (st : State) (e f n : String) : Option Obj :=
  match aget (st.pkg e).fileDyn (f ++ ":" ++ n) with
  | some o => some o
  | none => ((exportsOf e).find? (fun x => x.file == f && x.name == n)).map (exportObj e)

def setFileAttr (st : State) (e f n : String) (o : Obj) : State :=
  { st with pkgs := updPkg st.pkgs e (fun p => { p with fileDyn := aset p.fileDyn (f ++ ":" ++ n) o }) }

def testingNames : List String := ["assertDataFrameEqual", "assertSchemaEqual"]

/-! ### imports -/

inductive Res | ok (o : Obj) | error (x : Exc)
  deriving DecidableEq, Repr, Inhabited

/-- a real import of `key` on the current sys.modules -/
def realImport (env : Env) (st : State) (key : String) : State × Res :=
  match env.find key with
  | none => (st, .error .moduleNotFound)
  | some r =>
    let add := fun (m : List (String × Obj)) (k : String) => if (aget m k).isSome then m else aset m k (.real k)
    let m1 := r.closure.foldl add st.mods
    match r.raises with
    | some x => ({ st with mods := m1 }, .error x)
    | none => ({ st with mods := add m1 key }, .ok (.real key))

/-- `importlib.import_module("sqlframe.<e>.<f>")` for an already imported engine package -/
def importCanon (st : State) (e f : String) : State × Res :=
  if !(filesOf e).contains f then (st, .error .moduleNotFound)
  else if f = "functions" then
    if (st.pkg e).canonFn then (st, .ok (.file e f))
    else
      let st := { st with pkgs := updPkg st.pkgs e (fun p => { p with canonFn := true, dyn := aset p.dyn f (.file e f) }) }
      (st, .ok (.file e f))
  else (st, .ok (.file e f))

/-- `_find_and_load(parentKey.child)` when `parentKey` is loaded -/
def loadChild (env : Env) (st : State) (parentKey child : String) : State × Res :=
  let key := parentKey ++ "." ++ child
  match aget st.mods key with
  | some o => (st, .ok o)
  | none =>
    match aget st.mods parentKey with
    | some (.pkg e) =>
      if (filesOf e).contains child then
        let st := { st with mods := aset st.mods key (.dup e child) }
        (setPkgAttr st e child (.dup e child), .ok (.dup e child))
      else (st, .error .moduleNotFound)
    | some (.real _) => realImport env st key
    | _ => (st, .error .moduleNotFound)      -- a mock / plain module is not a package

def loadTop (env : Env) (st : State) (top : String) : State × Res :=
  match aget st.mods top with
  | some o => (st, .ok o)
  | none => realImport env st top

def gcdGo (env : Env) : State → String → Obj → List String → State × Res
  | st, _, o, [] => (st, .ok o)
  | st, parentKey, _, c :: rest =>
    match loadChild env st parentKey c with
    | (st, .error x) => (st, .error x)
    | (st, .ok o) => gcdGo env st (parentKey ++ "." ++ c) o rest

/-- `importlib.import_module(".".join(path))` -/
def gcdImport (env : Env) (st : State) : List String → State × Res
  | [] => (st, .error .valueError)
  | top :: rest =>
    match loadTop env st top with
    | (st, .error x) => (st, .error x)
    | (st, .ok o) => gcdGo env st top o rest

/-- attribute lookup (`none` = AttributeError) -/
def getAttr (st : State) : Obj → String → Option Obj
  | .mock, n =>
    if n = "sql" then some (st.mockSql.getD .mock)
    else if n = "testing" then some (if st.mockTesting then .testing else .mock)
    else some .mock
  | .pkg e, n => pkgAttr st e n
  | .file e f, n => fileAttr st e f n
  | .testing, n => if testingNames.contains n then some (.testingAttr n) else none
  | .real p, n =>
    match aget st.mods (p ++ "." ++ n) with
    | some o => some o
    | none => some (.realAttr p n)
  | _, _ => none

inductive ImportForm
  | fromImport (path : List String) (name : String)     -- from <path> import <name>
  | importAs (path : List String)                        -- import <path> as x
  | importModule (path : List String)                    -- importlib.import_module(<path>) / `from <path> import …`'s module
  deriving DecidableEq, Repr, Inhabited

def importFromChain (st : State) : Obj → List String → Res
  | o, [] => .ok o
  | o, n :: rest =>
    match getAttr st o n with
    | some o' => importFromChain st o' rest
    | none => .error .importError

def userImport (env : Env) (st : State) : ImportForm → State × Res
  | .importModule path => gcdImport env st path
  | .importAs path =>
    match gcdImport env st path with
    | (st, .error x) => (st, .error x)
    | (st, .ok _) =>
      match path with
      | [] => (st, .error .valueError)
      | top :: rest =>
        match aget st.mods top with
        | none => (st, .error .importError)
        | some o => (st, importFromChain st o rest)
  | .fromImport path name =>
    match gcdImport env st path with
    | (st, .error x) => (st, .error x)
    | (st, .ok m) =>
      match getAttr st m name with
      | some o =>
        -- a real package: the name may be a submodule that is not imported yet (`_handle_fromlist` imports it;
        -- only a ModuleNotFoundError for that very name is swallowed)
        (match m, o with
         | .real p, .realAttr _ _ =>
           (match env.find (p ++ "." ++ name) with
            | none => (st, .ok o)
            | some _ =>
              match realImport env st (p ++ "." ++ name) with
              | (st', .ok o') => (st', .ok o')
              | (st', .error x) => (st', .error x))
         | _, _ => (st, .ok o))
      | none =>
        -- `_handle_fromlist`: packages try to import the submodule `<m.__name__>.<name>`
        match m with
        | .pkg e =>
          (match importCanon st e name with
           | (st, .ok o) => (st, .ok o)
           | (st, .error _) => (st, .error .importError))
        | _ => (st, .error .importError)

/-! ### activate -/

def ensurePkg (st : State) (e : String) : State :=
  if (aget st.pkgs e).isSome then st else { st with pkgs := aset st.pkgs e Pkg.empty }

def isSelected (pre name : String) : Bool := startsW name pre || specialNames.contains name

def unprefixed (pre name : String) : String :=
  let n := removeAll name pre
  match sessionRename with
  | some (a, b) => if n = a then b else n
  | none => n

def fileFor (nwp : String) : String := lower ((aget nameToFile nwp).getD nwp)

/-- one iteration of the loop over the package dict; `none` = ModuleNotFoundError from `import_module` -/
def loopStep (e pre : String) (acc : State × List String) (kv : String × Obj) : Option (State × List String) :=
  let (st, resolved) := acc
  if !(isSelected pre kv.1) then some (st, resolved)
  else
    let nwp := unprefixed pre kv.1
    let st := setPkgAttr st e nwp kv.2
    let f := fileFor nwp
    match importCanon st e f with
    | (_, .error _) => none
    | (st, .ok engineFile) =>
      let (st, resolved) :=
        if guardResolved && resolved.contains f then (st, resolved)
        else ({ st with mods := aset st.mods ("pyspark.sql." ++ f) engineFile }, f :: resolved)
      some (setFileAttr st e f nwp kv.2, resolved)

def loopRun (e pre : String) : State × List String → List (String × Obj) → State × Option Exc
  | acc, [] => (acc.1, none)
  | acc, kv :: rest =>
    match loopStep e pre acc kv with
    | none => ((setPkgAttr acc.1 e (unprefixed pre kv.1) kv.2), some .moduleNotFound)
    | some acc' => loopRun e pre acc' rest

/-! #### conn / config: the generated statements over the caller's dict, a local variable and ACTIVATE_CONFIG -/

def dialectKey : String := "sqlframe.input.dialect"

/-- the dict the harness passes as `config={'sqlframe.input.dialect': d}` when it was created -/
def callerInit (d : String) : List (String × Cfg) := [(dialectKey, .str d)]

def callerGet (st : State) (d : String) : List (String × Cfg) := (aget st.caller d).getD (callerInit d)

def ensureCaller (st : State) (d : String) : State :=
  if (aget st.caller d).isSome then st else { st with caller := aset st.caller d (callerInit d) }

/-- what activate's local `config` is bound to -/
inductive Loc
  | none                                   -- None
  | alias (d : String)                     -- the caller's dict for settings d
  | fresh (c : List (String × Cfg))        -- a dict created inside activate
  deriving DecidableEq, Repr, Inhabited

def locContent (st : State) : Loc → List (String × Cfg)
  | .none => []
  | .alias d => callerGet st d
  | .fresh c => c

def storeItems (cfg : List (String × Cfg)) : List (String × Cfg) → List (String × Cfg)
  | [] => cfg
  | (k, v) :: rest => storeItems (aset cfg k v) rest

def cfgStep (conn : Option Nat) (acc : State × Loc) : CfgStmt → State × Loc
  | .rebind copy =>
    let c := locContent acc.1 acc.2
    if c.isEmpty then (acc.1, .fresh [])            -- `config or {}` on None / an empty dict: a new dict
    else if copy then (acc.1, .fresh c) else acc
  | .connToGlobal k =>
    (match conn with
     | some n => ({ acc.1 with config := aset acc.1.config k (.conn n) }, acc.2)
     | none => acc)
  | .connToLocal k =>
    (match conn, acc.2 with
     | some n, .alias d => ({ acc.1 with caller := aset acc.1.caller d (aset (callerGet acc.1 d) k (.conn n)) }, acc.2)
     | some n, .fresh c => (acc.1, .fresh (aset c k (.conn n)))
     | _, _ => acc)                                 -- (the translator refuses a store into a config that may be None)
  | .itemsToGlobal => ({ acc.1 with config := storeItems acc.1.config (locContent acc.1 acc.2) }, acc.2)

def storeCfg (conn : Option Nat) : List CfgStmt → State × Loc → State × Loc
  | [], acc => acc
  | s :: rest, acc => storeCfg conn rest (cfgStep conn acc s)

/-- the part of `activate` that runs for every call: install the mock package, store conn / config -/
def activatePre (conn : Option Nat) (dialect : Option String) (st : State) : State :=
  let st := if setsTop then { st with mods := aset st.mods "pyspark" .mock, mockSql := none, mockTesting := mockTesting } else st
  let st := if setsTesting then { st with mods := aset st.mods "pyspark.testing" .testing } else st
  match dialect with
  | some d => (storeCfg conn cfgStmts (ensureCaller st d, .alias d)).1
  | none => (storeCfg conn cfgStmts (st, .none)).1

/-- the part of `activate` after the engine name has been validated and its package imported -/
def activateEngine (e pre : String) (st : State) : State × Option Exc :=
  let st := ensurePkg st e
  let st := if preimportFunctions then (importCanon st e "functions").1 else st
  let st := if setsSql then { st with mods := aset st.mods "pyspark.sql" (.pkg e), cur := some e } else st
  let st := if setsTop && mockSql then { st with mockSql := some (.pkg e) } else st
  loopRun e pre (st, []) (pkgDict st e)

def activate (env : Env) (eng : Option String) (conn : Option Nat) (dialect : Option String) (st : State) :
    State × Option Exc :=
  let st := activatePre conn dialect st
  match eng with
  | none => (st, none)
  | some e0 =>
    let e := lower e0
    match prefixOf e with
    | none => (st, some .valueError)
    | some pre =>
      if env.brokenPkgs.contains e then (st, some .moduleNotFound)
      else activateEngine e pre st

/-! ### deactivate -/

def keyTest : KeyTest → String → Bool
  | .top s, k => startsW k s
  | .exact s, k => k == s
  | .under s, k => startsW k (s ++ ".")
  | .either a b, k => keyTest a k || keyTest b k

/-- does an `except <c>` clause catch an exception of class `x`? -/
def catches (c x : Exc) : Bool :=
  match c, x with
  | .baseException, _ => true
  | .exception, .baseException => false
  | .exception, _ => true
  | .importError, .importError => true
  | .importError, .moduleNotFound => true
  | a, b => a == b

def reimport (env : Env) (caught : List Exc) : State → List String → State × Option Exc
  | st, [] => (st, none)
  | st, k :: rest =>
    match gcdImport env st (splitDots k) with
    | (st, .ok o) => reimport env caught { st with mods := aset st.mods k o } rest
    | (st, .error x) => if caught.any (catches · x) then reimport env caught st rest else (st, some x)

def deactRun (env : Env) : List DeactStep → List String → State → State × Option Exc
  | [], _, st => (st, none)
  | .collect t :: rest, _, st => deactRun env rest ((akeys st.mods).filter (keyTest t)) st
  | .deleteCollected :: rest, coll, st =>
    let st := { st with mods := st.mods.filter (fun kv => !coll.contains kv.1),
                        cur := if coll.contains "pyspark.sql" then none else st.cur }
    deactRun env rest coll st
  | .reimportCollected caught :: rest, coll, st =>
    match reimport env caught st coll with
    | (st, some x) => (st, some x)
    | (st, none) => deactRun env rest coll st
  | .clearConfig :: rest, coll, st => deactRun env rest coll { st with config := [] }

def deactivate (env : Env) (st : State) : State × Option Exc := deactRun env deactSteps [] st

/-! ### activate_context (the generated IR with exception-aware semantics) -/

def runCall (env : Env) (eng : Option String) (conn : Option Nat) (dialect : Option String) :
    CtxCall → State → State × Option Exc
  | .activate, st => activate env eng conn dialect st
  | .deactivate, st => deactivate env st

def runCalls (env : Env) (eng : Option String) (conn : Option Nat) (dialect : Option String) :
    List CtxCall → State → State × Option Exc
  | [], st => (st, none)
  | c :: rest, st =>
    match runCall env eng conn dialect c st with
    | (st, some x) => (st, some x)
    | (st, none) => runCalls env eng conn dialect rest st

def ctxEnter (env : Env) (eng : Option String) (conn : Option Nat) (dialect : Option String) (st : State) :
    State × Option Exc :=
  match runCalls env eng conn dialect ctxIR.pre st with
  | (st, none) => ({ st with ctx := st.ctx + 1 }, none)
  | (st, some x) =>
    if ctxIR.preInTry then ((runCalls env none none none ctxIR.fin st).1, some x) else (st, some x)

/-- how the block is left: normally, by an exception that is an `Exception`, or by a `BaseException` that is not
    (KeyboardInterrupt, SystemExit, pytest's Skipped/Failed) -/
inductive ExitKind | normal | exn | base
  deriving DecidableEq, Repr, Inhabited

/-- the calls of the try statement's body / handler / else that run for an exit kind (before `finally`) -/
def exitSegment (ir : CtxIR) : ExitKind → List CtxCall
  | .normal => ir.post ++ ir.els
  | .exn => if ir.hasExc then ir.onExc else ir.onBase
  | .base => ir.onBase

/-- the generator is resumed (`normal`) or the block's exception is thrown into it -/
def ctxExit (env : Env) (k : ExitKind) (st : State) : State × Option Exc :=
  match st.ctx with
  | 0 => (st, none)
  | n + 1 =>
    let st := { st with ctx := n }
    let (st, r1) := runCalls env none none none (exitSegment ctxIR k) st
    let (st, r2) := runCalls env none none none ctxIR.fin st
    (st, match r2 with
         | some x => some x
         | none => match r1 with
           | some x => some x
           | none => match k with
             | .normal => none
             | .exn => some .runtimeError
             | .base => some .baseException)

/-! ### SparkSession.builder.getOrCreate() -/

def validDialects : List String := ["spark", "duckdb", "bigquery", "postgres", "snowflake", "redshift", "databricks", "mysql", "tsql"]

def getBuilder (st : State) (e : String) : Builder :=
  (st.builders.find? (·.engine == e)).getD { engine := e, dialect := defaultInputDialect, conn := none }

def putBuilder (bs : List Builder) (b : Builder) : List Builder :=
  match bs with
  | [] => [b]
  | x :: t => if x.engine = b.engine then b :: t else x :: putBuilder t b

def applyCfg (b : Builder) : List (String × Cfg) → Builder
  | [] => b
  | (k, .conn n) :: rest => applyCfg (if k = builderConnKey then { b with conn := some n } else b) rest
  | (k, .str s) :: rest => applyCfg (if k = builderDialectKey then { b with dialect := s } else b) rest

inductive Outcome
  | ok
  | obj (o : Obj)
  | raised (x : Exc)
  | session (engine : String) (conn : ConnV) (dialect : String)
  | unmodelled
  deriving DecidableEq, Repr, Inhabited

def connIsBad (env : Env) : ConnV → Bool
  | .given n => env.badConns.contains n
  | _ => false

/-- the guarded body of `DuckDBSession.__init__` (generated step list) on an instance without `_connection`:
    `loc` is the parameter `conn`, `attr` the instance's `_connection` once the base initialiser has run.
    Result: the attribute afterwards and the exception that ended the body, if any.  A use of a bad connection
    raises an engine error (class `Exception`), a use of `None` / of the unset property an AttributeError/ValueError. -/
def runInit (env : Env) : List InitStep → ConnV → Option ConnV → Option ConnV × Option Exc
  | [], _, a => (a, none)
  | .defaultConn :: r, loc, a => runInit env r (if loc = .none then .default else loc) a
  | .useConn viaSelf caught :: r, loc, a =>
    let c := if viaSelf then a.getD .none else loc
    if c = .none then
      (if caught.any (catches · .attributeError) then runInit env r loc a else (a, some .attributeError))
    else if connIsBad env c && !(caught.any (catches · .exception)) then (a, some .exception)
    else runInit env r loc a
  | .superInit dflt :: r, loc, a =>
    let c := if dflt && loc = .none then .default else loc
    runInit env r loc (if c = .none then (match a with | some x => some x | none => some .none) else some c)
  | .setAttr _ :: r, loc, a => runInit env r loc a

/-- the keyword argument `conn` the builder passes to the session class -/
def builderConn (b : Builder) : ConnV :=
  match b.conn with
  | some n => .given n
  | none => .none

/-- `_BaseSession.__new__(cls_e)`: the stored object, created (and stored at once) if there is none -/
def newObject (e : String) : Single → Single
  | .absent => if singletonInNew then .allocated e else .absent
  | s => s

/-- `cls(**kwargs)` once `__new__` has returned the singleton: `__init__` runs only if the object is an instance of
    the requested engine's class; an initialised object is left alone (DuckDB: the guard; base: an existing
    connection is kept when none is passed — the standalone builder passes none) -/
def initInstance (env : Env) (e : String) (b : Builder) : Single → Single × Option Exc
  | .ready i => (.ready i, none)
  | .absent => (.absent, none)
  | .allocated e' =>
    if e' ≠ e then (.allocated e', none)
    else if e = "duckdb" then
      match runInit env duckInit (builderConn b) none with
      | (some c, x) => ((if c = .none then .allocated e else .ready { engine := e, conn := c, dialect := defaultInputDialect }), x)
      | (none, x) => (.allocated e, x)
    else (.ready { engine := e, conn := .none, dialect := defaultInputDialect }, none)

/-- no session object exists that a `getOrCreate()` of the duckdb engine would hand out as it is: none at all, or one
    that a failed `DuckDBSession.__init__` left without a connection -/
def Single.pristine : Single → Bool
  | .absent => true
  | .allocated e => e == "duckdb"
  | .ready _ => false

/-- `<engine e's session class>.builder.getOrCreate()`: every ACTIVATE_CONFIG item into the (class-level) builder, then
    the dialect is validated, then `self.session` is evaluated (`__new__`, then `__init__`) -/
def createVia (env : Env) (e : String) (st : State) : State × Outcome :=
  let b := applyCfg (getBuilder st e) st.config
  let st := { st with builders := putBuilder st.builders b }
  if !(validDialects.contains b.dialect) then (st, .raised .valueError)
  else
    match initInstance env e b (newObject e st.inst) with
    | (s2, some x) => ({ st with inst := s2 }, .raised x)
    | (.ready i, none) =>
      let i := { i with dialect := b.dialect }
      ({ st with inst := .ready i }, .session i.engine i.conn i.dialect)
    | (.allocated e', none) =>
      -- an attribute-less object of another engine's class comes back (no `_connection`)
      ({ st with inst := .allocated e' }, .session e' .none b.dialect)
    | (.absent, none) => (st, .unmodelled)

/-- `from pyspark.sql import SparkSession; SparkSession.builder.getOrCreate()`; only the duckdb and
    standalone sessions are modelled -/
def sessionCreate (env : Env) (st : State) : State × Outcome :=
  match userImport env st (.fromImport ["pyspark", "sql"] "SparkSession") with
  | (st, .error x) => (st, .raised x)
  | (st, .ok (.cls e n)) =>
    if !(some n == (prefixOf e).map (· ++ "Session")) then (st, .unmodelled)
    else if !(e = "duckdb" || e = "standalone") then (st, .unmodelled)
    else createVia env e st
  | (st, .ok o) => (st, .obj o)

/-! ### events -/

inductive Event
  | activate (eng : Option String) (conn : Option Nat) (dialect : Option String)
  | deactivate
  | ctxEnter (eng : Option String) (conn : Option Nat) (dialect : Option String)
  | ctxExit (k : ExitKind)
  | userImport (f : ImportForm)
  | sessionCreate
  deriving DecidableEq, Repr, Inhabited

def exOut : Option Exc → Outcome
  | none => .ok
  | some x => .raised x

def step (env : Env) (st : State) : Event → State × Outcome
  | .activate e c d => let r := activate env e c d st; (r.1, exOut r.2)
  | .deactivate => let r := deactivate env st; (r.1, exOut r.2)
  | .ctxEnter e c d => let r := ctxEnter env e c d st; (r.1, exOut r.2)
  | .ctxExit k => let r := ctxExit env k st; (r.1, exOut r.2)
  | .userImport f =>
    match userImport env st f with
    | (st, .ok o) => (st, .obj o)
    | (st, .error x) => (st, .raised x)
  | .sessionCreate => sessionCreate env st

def run (env : Env) (st : State) : List Event → State
  | [] => st
  | ev :: rest => run env (step env st ev).1 rest

/-- the trace: outcome and state after every event -/
def trace (env : Env) (st : State) : List Event → List (Outcome × State)
  | [] => []
  | ev :: rest => let r := step env st ev; (r.2, r.1) :: trace env r.1 rest

end Sqlframe.C20
