/-
Impl/C09Lex.lean — the lexical layer of the execution dialect (DuckDB) as far as C09 / C10 need it:

* `quoteWith q s` : how sqlglot's DuckDB generator writes a string literal (`q = '\''`) or a quoted
  identifier (`q = '"'`): the text between two `q`, every `q` inside doubled, NOTHING else escaped
  (a backslash is an ordinary character in DuckDB's `'…'` literals — confirmed by experiment and on
  every run by the correspondence stream, which compares this function with the literal text found
  in the real statement and with DuckDB's own reading of it).
* `lex` : a scanner in the style of the engine's flex scanner, one character at a time
  (`step`), with the states that matter for "can content change the structure": inside a quoted token,
  just after a quote character inside one (escape or end?), after `-` (line comment?), inside a line
  comment, after `/` (block comment?), inside a block comment.  A NUL character ends the input for the
  engine (its parser works on a C string): inside a quoted token that is an *unterminated* token.

Assumed, not proved: that DuckDB's scanner agrees with `step` on quoted tokens and comments (validated
by the stream: DuckDB reads every generated literal back to the original string; NUL gives the
parser's "unterminated quoted string").
-/
namespace Sqlframe.C09

def NUL : Char := Char.ofNat 0
def SQ : Char := '\''
def DQ : Char := '"'

inductive Tok
  | quoted (q : Char) (s : List Char)
  | other (c : Char)
  | unterminated
  deriving DecidableEq, Repr

inductive LexSt
  | norm
  | inQ (q : Char) (acc : List Char)
  | endQ (q : Char) (acc : List Char)
  | dash
  | line
  | slash
  | block
  | blockStar
  | dead
  deriving DecidableEq, Repr

/-- one character read in the default state -/
def stepNorm (c : Char) : LexSt × List Tok :=
  if c = NUL then (.dead, [])
  else if c = SQ then (.inQ SQ [], [])
  else if c = DQ then (.inQ DQ [], [])
  else if c = '-' then (.dash, [])
  else if c = '/' then (.slash, [])
  else (.norm, [.other c])

def step : LexSt → Char → LexSt × List Tok
  | .norm, c => stepNorm c
  | .inQ q acc, c =>
      if c = NUL then (.dead, [.unterminated])
      else if c = q then (.endQ q acc, [])
      else (.inQ q (c :: acc), [])
  | .endQ q acc, c =>
      if c = q then (.inQ q (q :: acc), [])
      else ((stepNorm c).1, .quoted q acc.reverse :: (stepNorm c).2)
  | .dash, c => if c = '-' then (.line, []) else ((stepNorm c).1, .other '-' :: (stepNorm c).2)
  | .line, c => if c = '\n' then (.norm, []) else if c = NUL then (.dead, []) else (.line, [])
  | .slash, c => if c = '*' then (.block, []) else ((stepNorm c).1, .other '/' :: (stepNorm c).2)
  | .block, c => if c = NUL then (.dead, [.unterminated]) else if c = '*' then (.blockStar, []) else (.block, [])
  | .blockStar, c =>
      if c = NUL then (.dead, [.unterminated])
      else if c = '/' then (.norm, [])
      else if c = '*' then (.blockStar, [])
      else (.block, [])
  | .dead, _ => (.dead, [])

/-- end of input -/
def finish : LexSt → List Tok
  | .inQ _ _ => [.unterminated]
  | .endQ q acc => [.quoted q acc.reverse]
  | .dash => [.other '-']
  | .slash => [.other '/']
  | .block => [.unterminated]
  | .blockStar => [.unterminated]
  | _ => []

def run : LexSt → List Char → List Tok
  | st, [] => finish st
  | st, c :: cs => (step st c).2 ++ run (step st c).1 cs

/-- the state reached after reading `cs` -/
def stateAfter : LexSt → List Char → LexSt
  | st, [] => st
  | st, c :: cs => stateAfter (step st c).1 cs

/-- the tokens emitted while reading `cs` (without the end-of-input flush) -/
def emitted : LexSt → List Char → List Tok
  | _, [] => []
  | st, c :: cs => (step st c).2 ++ emitted (step st c).1 cs

def lex (cs : List Char) : List Tok := run .norm cs

/-- the text between the quotes: every `q` doubled, nothing else touched -/
def quoteBody (q : Char) : List Char → List Char
  | [] => []
  | c :: cs => if c = q then q :: q :: quoteBody q cs else c :: quoteBody q cs

def quoteWith (q : Char) (s : List Char) : List Char := q :: (quoteBody q s ++ [q])

/-- sqlglot's DuckDB rendering of a string literal -/
def quote (s : List Char) : List Char := quoteWith SQ s

/-- sqlglot's DuckDB rendering of a quoted identifier -/
def quoteIdent (s : List Char) : List Char := quoteWith DQ s

/-- what the engine reads out of one complete quoted token (`none`: not exactly one such token) -/
def unquote (l : List Char) : Option (List Char) :=
  match lex l with
  | [.quoted q s] => if q = SQ then some s else none
  | _ => none

def unquoteIdent (l : List Char) : Option (List Char) :=
  match lex l with
  | [.quoted q s] => if q = DQ then some s else none
  | _ => none

def NoNul (s : List Char) : Prop := ∀ c ∈ s, c ≠ NUL

instance (s : List Char) : Decidable (NoNul s) := by unfold NoNul; exact inferInstance

/-- the character after a quoted token is not the quote character again (`'a''b'` is one token) -/
def Sep (q : Char) (rest : List Char) : Prop := rest.head? ≠ some q

instance (q : Char) (rest : List Char) : Decidable (Sep q rest) := by unfold Sep; exact inferInstance

def isQuoteChar (q : Char) : Prop := q = SQ ∨ q = DQ

end Sqlframe.C09
