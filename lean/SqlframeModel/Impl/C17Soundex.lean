/-
Impl/C17Soundex.lean — `sqlframe.base.util.soundex`, the pure-Python function the DuckDB session registers as
SOUNDEX (sqlframe's OWN code on DuckDB), transcribed over lists of code points, next to Spark's
`UTF8String.soundex`.  The code table, the transparent letters (the H/W rule), the length and the pad
character are regenerated from the source (Gen.Emul.soundex…).
Assumed: on ASCII strings `unicodedata.normalize('NFKD', s)` is the identity and `str.upper` maps a–z to A–Z
(the correspondence with the real function is claimed for ASCII strings only).
-/
import SqlframeModel.Gen.Emulations
namespace Sqlframe.C17
open Sqlframe.Gen.Emul

/-- what one character does to the running state -/
inductive SxKind
  | coded (d : Nat)   -- a consonant with a digit
  | transp            -- leaves the last code alone (H, W)
  | reset             -- forgets the last code (vowels, Y, anything that is not a letter)
  deriving DecidableEq, Repr

/-- ASCII upper-casing of a code point -/
def upN (n : Nat) : Nat := if 97 ≤ n ∧ n ≤ 122 then n - 32 else n

-- sqlframe.base.util.soundex ---------------------------------------------------------------------------

/-- first row of `replacements` whose letters contain the character -/
def sxCodeN (n : Nat) : Option Nat := (soundexTable.find? (fun r => r.1.contains n)).map (·.2)

def emulKind (n : Nat) : SxKind :=
  match sxCodeN n with
  | some d => .coded d
  | none => if soundexTransparent.contains n then .transp else .reset

structure ESt where
  res : List Nat
  count : Nat
  last : Option Nat
  deriving Repr

/-- one iteration of `for letter in s[1:]` (the loop has stopped once `count == soundexLen`) -/
def emulStep (st : ESt) (n : Nat) : ESt :=
  if soundexLen ≤ st.count then st else
  match emulKind n with
  | .coded d => if some d ≠ st.last then ⟨st.res ++ [d], st.count + 1, some d⟩ else { st with last := some d }
  | .transp => st
  | .reset => { st with last := none }

def emulRun (c : Nat) (rest : List Nat) : ESt := rest.foldl emulStep ⟨[c], 1, sxCodeN c⟩

/-- `soundex(s)` on the code points of `s` -/
def emulSoundexN (s : List Nat) : List Nat :=
  match s.map upN with
  | [] => []
  | c :: rest => let st := emulRun c rest; st.res ++ List.replicate (soundexLen - st.count) soundexPad

-- Spark's UTF8String.soundex ---------------------------------------------------------------------------

/-- US_ENGLISH_MAPPING, A … Z: '0' = vowel-like, '7' = H / W, '1' … '6' = the consonant classes -/
def sparkMap : List Nat :=
  [48, 49, 50, 51, 48, 49, 50, 55, 48, 50, 50, 52, 53, 53, 48, 49, 50, 54, 50, 51, 48, 49, 55, 50, 48, 50]

def isUpLetter (n : Nat) : Bool := 65 ≤ n && n ≤ 90

def sparkCodeOf (n : Nat) : Nat := sparkMap.getD (n - 65) 48

def sparkKind (n : Nat) : SxKind :=
  if isUpLetter n then
    (if sparkCodeOf n = 55 then .transp else if sparkCodeOf n = 48 then .reset else .coded (sparkCodeOf n))
  else .reset

structure SSt where
  res : List Nat
  n : Nat
  last : Nat
  deriving Repr

def sparkStep (st : SSt) (c : Nat) : SSt :=
  if 4 ≤ st.n then st else
  match sparkKind c with
  | .coded k => if k ≠ st.last then ⟨st.res ++ [k], st.n + 1, k⟩ else { st with last := k }
  | .transp => st
  | .reset => { st with last := 48 }

def sparkRun (c : Nat) (rest : List Nat) : SSt := rest.foldl sparkStep ⟨[c], 1, sparkCodeOf c⟩

/-- Spark: a string that does not start with an ASCII letter is returned unchanged -/
def sparkSoundexN (s : List Nat) : List Nat :=
  match s.map upN with
  | [] => []
  | c :: rest => if isUpLetter c then (let st := sparkRun c rest; st.res ++ List.replicate (4 - st.n) 48) else s

/-- scope hypothesis: the string starts with an ASCII letter (otherwise Spark hands the input back) -/
def H_soundexFirstLetter (s : List Nat) : Prop := ∃ c rest, s.map upN = c :: rest ∧ isUpLetter c = true

def soundexFirstLetterB (s : List Nat) : Bool := match s.map upN with | c :: _ => isUpLetter c | [] => false

end Sqlframe.C17
