/-
Impl/C02Ctes.lean — `BaseDataFrame._add_ctes_to_expression` (sqlframe/base/dataframe.py ~507–550) at the level of CTE
*names*: what `join` (and the set operations) do to the WITH clause of the other side when they merge it into the
statement of the left side.  A CTE is a name and a body; of a body only the names it reads matter to merging, the rest is
an uninterpreted operator tree (`Body.un` / `Body.bin`), so that every statement about values holds for EVERY
interpretation of the operators (filters, projections, joins, set operations, …).

The decisions of the loop — earlier renames are applied before the name test, the rename is recorded under the OLD name,
the new name joins the taken names — are regenerated from the source (`Gen.JoinMerge`); `mergeCtes` is compared with the
real method on generated CTE lists by the check (names and read-sets of the merged WITH clause).
Impl/C02Prog.lean carries CTEs by value (`addCtes`: "CTE values are unaffected"); `C02_merge_preserves` (Props/C02.lean)
is the theorem behind that sentence.
-/
import SqlframeModel.Core.Table
import SqlframeModel.Gen.JoinMerge
namespace Sqlframe
open Gen

/-- a CTE body: literal data, a read of a named table / CTE, or an operator applied to sub-queries -/
inductive Body
  | lit (T : Table)
  | ref (n : Name)
  | un (f : Nat) (a : Body)
  | bin (f : Nat) (a b : Body)
  deriving Repr, DecidableEq

structure NCte where
  name : Name
  body : Body
  deriving Repr, DecidableEq

/-- an interpretation of the operators -/
structure Interp where
  un : Nat → Table → Table
  bin : Nat → Table → Table → Table

abbrev Env := Name → Option Table

def Body.eval (I : Interp) (env : Env) : Body → Option Table
  | .lit T => some T
  | .ref n => env n
  | .un f a => (a.eval I env).map (I.un f)
  | .bin f a b =>
    match a.eval I env, b.eval I env with
    | some x, some y => some (I.bin f x y)
    | _, _ => none

/-- the names a body reads -/
def Body.refs : Body → List Name
  | .lit _ => []
  | .ref n => [n]
  | .un _ a => a.refs
  | .bin _ a b => a.refs ++ b.refs

/-- `WITH c1 AS (…), c2 AS (…), …`: every body sees the catalog (`base`) and the definitions before it; the result is the
    environment the statement's final SELECT sees -/
def withEnv (I : Interp) (base : Env) : List NCte → Env
  | [] => base
  | c :: cs => withEnv I (fun n => if n = c.name then c.body.eval I base else base n) cs

/-- `replace_id_value` on one identifier; the mapping is a Python dict kept newest-first (a later assignment to the same
    key overwrites) -/
def renameName (m : List (Name × Name)) (n : Name) : Name := ((m.find? (fun p => p.1 = n)).map (·.2)).getD n

/-- `cte.transform(replace_id_value, replaced_cte_names)` on a body -/
def Body.rename (m : List (Name × Name)) : Body → Body
  | .lit T => .lit T
  | .ref n => .ref (renameName m n)
  | .un f a => .un f (a.rename m)
  | .bin f a b => .bin f (a.rename m) (b.rename m)

/-- loop state of `_add_ctes_to_expression`: `existing_ctes`, `existing_cte_names`, `replaced_cte_names`, and how many
    fresh names were drawn -/
structure MergeSt where
  out : List NCte
  taken : List Name
  ren : List (Name × Name)
  k : Nat
  deriving Repr

/-- the decisions of the loop body -/
structure MergeFlags where
  renamesBeforeTest : Bool
  keyIsOldName : Bool
  recordsNewName : Bool
  deriving Repr, DecidableEq

/-- … as regenerated from the source -/
def genMergeFlags : MergeFlags :=
  { renamesBeforeTest := mergeRenamesBeforeTest, keyIsOldName := mergeKeyIsOldName, recordsNewName := mergeRecordsNewName }

/-- one iteration of `for cte in ctes:`; `gen k` is the k-th new name (`_create_hash_from_expression` of the body made
    unique by a random filter, which leaves the body's value unchanged) -/
def mergeStepF (fl : MergeFlags) (gen : Nat → Name) (st : MergeSt) (c : NCte) : MergeSt :=
  let c1 : NCte := if fl.renamesBeforeTest then { name := renameName st.ren c.name, body := c.body.rename st.ren } else c
  if c1.name ∈ st.taken then
    let new := gen st.k
    { out := st.out ++ [{ name := new, body := c1.body }],
      taken := if fl.recordsNewName then st.taken ++ [new] else st.taken,
      ren := ((if fl.keyIsOldName then c1.name else new), new) :: st.ren,
      k := st.k + 1 }
  else { st with out := st.out ++ [c1] }

def mergeStep (gen : Nat → Name) (st : MergeSt) (c : NCte) : MergeSt := mergeStepF genMergeFlags gen st c

def mergeInit (existing : List NCte) : MergeSt := { out := existing, taken := existing.map (·.name), ren := [], k := 0 }

/-- `_add_ctes_to_expression(expression with WITH = existing, ctes)` -/
def mergeCtes (gen : Nat → Name) (existing ctes : List NCte) : List NCte :=
  (ctes.foldl (mergeStep gen) (mergeInit existing)).out

/-- the same loop under other decisions (for the counterexample theorems) -/
def mergeCtesF (fl : MergeFlags) (gen : Nat → Name) (existing ctes : List NCte) : List NCte :=
  (ctes.foldl (mergeStepF fl gen) (mergeInit existing)).out

/-- every read of a CTE in `cs` is a CTE defined earlier in the same list (`earlier`), or a catalog name that is neither a
    CTE of the left side (`En`: it would be captured) nor a CTE of the right side (`Rn`: a forward reference) -/
def ClosedFrom (En Rn : List Name) : List Name → List NCte → Prop
  | _, [] => True
  | earlier, c :: cs => (∀ n ∈ c.body.refs, n ∈ earlier ∨ (n ∉ En ∧ n ∉ Rn)) ∧ ClosedFrom En Rn (earlier ++ [c.name]) cs

/-- the hypotheses of `C02_merge_preserves` -/
structure MergeOK (gen : Nat → Name) (E R : List NCte) : Prop where
  /-- the right side's own CTE names are distinct (one statement) -/
  rnodup : (R.map (·.name)).Nodup
  /-- content-hash freshness: the new names are distinct from each other … -/
  geninj : ∀ i, i < R.length → ∀ j, j < R.length → gen i = gen j → i = j
  /-- … from every CTE name of either side, and from every name the right side reads -/
  fresh : ∀ i, i < R.length → gen i ∉ E.map (·.name) ∧ gen i ∉ R.map (·.name) ∧ ∀ c ∈ R, gen i ∉ c.body.refs
  /-- reads go backwards within the right side, catalog names are not captured -/
  closed : ClosedFrom (E.map (·.name)) (R.map (·.name)) [] R

end Sqlframe
