/-
Impl/C14Writer.lean — model of DataFrameWriter.saveAsTable / insertInto (positional, byName),
session.table, and the path writers' mode handling, around the regenerated `Gen.Writer`.

Three layers, kept apart on purpose:

* ENGINE (assumed, §"engine"): a catalog `Name ↦ table` and the meaning of one statement
  `CREATE [OR REPLACE] TABLE [IF NOT EXISTS] n AS <select>`, `INSERT INTO n <select>`, `DROP TABLE n`.
  A statement either takes effect completely or fails *without effect*; this atomicity is DuckDB's
  guarantee, not something sqlframe implements — it is exercised by fault cases in the check only.
* SQLFRAME (modelled, §"sqlframe"): which statement each writer call issues (`Gen.saveAction`,
  `Gen.effectiveMode`, the byName re-ordering and where its column list comes from) and the session's
  column cache (`catalog._schema`, filled by `session.table`, never refreshed).
* SPECIFICATION (§"spec"): PySpark's save modes and by-name / positional assignment.

Import-free apart from Core and Gen.
-/
import SqlframeModel.Core.Table
import SqlframeModel.Gen.Writer
namespace Sqlframe.C14
open Sqlframe Sqlframe.Gen

/-! ### typed tables -/

inductive Ty | int | str
  deriving DecidableEq, Repr, Inhabited

structure TTable where
  cols : List Name
  tys : List Ty
  rows : List Row
  deriving DecidableEq, Repr

/-- a DataFrame handed to the writer: its (already evaluated) content, or `fails = true` when its
    SELECT raises at run time (e.g. a CAST that fails on some row) -/
structure Frame where
  cols : List Name
  tys : List Ty
  rows : List Row
  fails : Bool := false
  deriving DecidableEq, Repr

def Frame.table (f : Frame) : TTable := ⟨f.cols, f.tys, f.rows⟩

def Frame.WF (f : Frame) : Prop :=
  f.cols.Nodup ∧ f.tys.length = f.cols.length ∧ ∀ r ∈ f.rows, r.length = f.cols.length
instance (f : Frame) : Decidable f.WF := by unfold Frame.WF; exact inferInstance

def TTable.WF (T : TTable) : Prop :=
  T.cols.Nodup ∧ T.tys.length = T.cols.length ∧ ∀ r ∈ T.rows, r.length = T.cols.length
instance (T : TTable) : Decidable T.WF := by unfold TTable.WF; exact inferInstance

/-- name-based lookup in two parallel lists (first match), `d` when absent -/
def alookup {α} (d : α) : List Name → List α → Name → α
  | c :: cs, v :: vs, n => if c = n then v else alookup d cs vs n
  | _, _, _ => d

/-- project a frame onto the column list `cs`, by name -/
def Frame.project (f : Frame) (cs : List Name) : Frame :=
  { f with cols := cs,
           tys := cs.map (alookup Ty.int f.cols f.tys),
           rows := f.rows.map (fun r => cs.map (alookup Val.null f.cols r)) }

def TTable.project (T : TTable) (cs : List Name) : TTable :=
  { cols := cs,
    tys := cs.map (alookup Ty.int T.cols T.tys),
    rows := T.rows.map (fun r => cs.map (alookup Val.null T.cols r)) }

/-! ### engine (ASSUMED single-statement semantics) -/

abbrev Cat := List (Name × TTable)

def Cat.get (c : Cat) (n : Name) : Option TTable :=
  match c with
  | [] => none
  | (k, T) :: rest => if k = n then some T else Cat.get rest n

def Cat.del (c : Cat) (n : Name) : Cat := c.filter (fun e => e.1 ≠ n)
def Cat.put (c : Cat) (n : Name) (T : TTable) : Cat := (n, T) :: Cat.del c n
def Cat.names (c : Cat) : List Name := c.map (·.1)

/-- implicit cast applied by `INSERT` to one value (DuckDB: BIGINT → VARCHAR prints the number,
    VARCHAR → BIGINT parses it and raises on anything else) -/
def castVal : Ty → Val → Option Val
  | _, .null => some .null
  | .int, .int i => some (.int i)
  | .str, .str s => some (.str s)
  | .str, .int i => some (.str (toString i))
  | .int, .str s => s.toInt?.map Val.int
  | _, .bool _ => none        -- booleans are not generated

def castRow : List Ty → Row → Option Row
  | [], [] => some []
  | t :: ts, v :: vs =>
    match castVal t v, castRow ts vs with
    | some a, some b => some (a :: b)
    | _, _ => none
  | _, _ => none

def castRows (tys : List Ty) : List Row → Option (List Row)
  | [] => some []
  | r :: rs =>
    match castRow tys r, castRows tys rs with
    | some a, some b => some (a :: b)
    | _, _ => none

inductive Stmt
  | createAs (n : Name) (ifNotExists replace : Bool) (f : Frame)
  | insertSel (n : Name) (overwrite : Bool) (f : Frame)
  | dropTable (n : Name)
  deriving Repr

/-- positional `INSERT INTO T <frame>` on the table value -/
def insertRows (T : TTable) (f : Frame) : Option TTable :=
  if f.fails then none
  else if f.cols.length ≠ T.cols.length then none
  else match castRows T.tys f.rows with
    | none => none
    | some rs => some { T with rows := T.rows ++ rs }

/-- one statement: new catalog and whether it succeeded.  A failing statement has no effect. -/
def exec : Stmt → Cat → Cat × Bool
  | .createAs n ine rep f, c =>
    if ine && rep then (c, false)                       -- not a statement DuckDB parses
    else match c.get n with
      | some _ =>
        if rep then (if f.fails then (c, false) else (c.put n f.table, true))
        else if ine then (c, true)                      -- IF NOT EXISTS: the select is not run
        else (c, false)
      | none => if f.fails then (c, false) else (c.put n f.table, true)
  | .insertSel n ow f, c =>
    if ow then (c, false)                               -- INSERT OVERWRITE is not DuckDB syntax
    else match c.get n with
      | none => (c, false)
      | some T => match insertRows T f with
        | none => (c, false)
        | some T' => (c.put n T', true)
  | .dropTable n, c =>
    match c.get n with
    | none => (c, false)
    | some _ => (c.del n, true)

/-! ### sqlframe -/

/-- engine catalog + the session's column cache (`catalog._schema`) -/
structure St where
  cat : Cat
  cache : List (Name × List Name) := []
  deriving DecidableEq, Repr

def cacheGet : List (Name × List Name) → Name → Option (List Name)
  | [], _ => none
  | (k, v) :: rest, n => if k = n then some v else cacheGet rest n

def St.cached (st : St) (n : Name) : Option (List Name) := cacheGet st.cache n

/-- `catalog.add_table(t)` with no column mapping: keeps a cached entry (when the generated guard is
    there), otherwise asks the engine; a table the engine does not know leaves nothing usable -/
def addTableP (skips : Bool) (st : St) (n : Name) : St :=
  if skips && (st.cached n).isSome then st
  else match st.cat.get n with
    | some T => { st with cache := (n, T.cols) :: st.cache.filter (fun e => e.1 ≠ n) }
    | none => st

def addTable := addTableP Gen.addTableSkipsWhenCached

structure Res where
  ok : Bool
  out : Option TTable := none
  deriving DecidableEq, Repr

/-- `session.table(n).collect()`: SELECT <cached columns> FROM n -/
def readStepP (skips : Bool) (n : Name) (st : St) : St × Res :=
  let st1 := addTableP skips st n
  match st1.cached n, st1.cat.get n with
  | some cs, some T =>
    if cs.all (fun c => c ∈ T.cols) then (st1, ⟨true, some (T.project cs)⟩) else (st1, ⟨false, none⟩)
  | _, _ => (st1, ⟨false, none⟩)

/-- the column list the byName branch re-orders to -/
def byNameColsP (src : ColSource) (skips : Bool) (st : St) (n : Name) : St × List Name :=
  match src with
  | .schemaCache => (st, (st.cached n).getD [])
  | .cacheThenEngine => let st1 := addTableP skips st n; (st1, (st1.cached n).getD [])
  | .engine => (st, ((st.cat.get n).map (·.cols)).getD [])

/-- `df._convert_leaf_to_cte().select(*columns)`; `select()` of no columns keeps every column;
    a column the frame does not have is an error (nothing is executed) -/
def selectCols (cs : List Name) (f : Frame) : Option Frame :=
  if cs = [] then some f
  else if cs.all (fun c => c ∈ f.cols) then some (f.project cs) else none

structure Flags where
  reorders : Bool
  src : ColSource
  skips : Bool
  executes : Bool

def genFlags : Flags :=
  { reorders := Gen.byNameReorders, src := Gen.byNameSource, skips := Gen.addTableSkipsWhenCached,
    executes := Gen.insertExecutes }

/-- the frame whose SELECT is placed under `INSERT INTO n` (none: the re-ordering select fails) -/
def selFrameP (fl : Flags) (n : Name) (byName : Bool) (f : Frame) (st : St) : St × Option Frame :=
  if byName && fl.reorders then
    let q := byNameColsP fl.src fl.skips st n
    (q.1, selectCols q.2 f)
  else (st, some f)

def insertStepP (fl : Flags) (n : Name) (byName : Bool) (f : Frame) (st : St) : St × Res :=
  let p := selFrameP fl n byName f st
  match p.2 with
  | none => (p.1, ⟨false, none⟩)
  | some g =>
    if fl.executes then
      let r := exec (.insertSel n false g) p.1.cat
      ({ p.1 with cat := r.1 }, ⟨r.2, none⟩)
    else (p.1, ⟨true, none⟩)

def saveStepP (sa : String → Bool → SaveAction) (fl : Flags) (n : Name) (key : String) (f : Frame) (st : St) : St × Res :=
  match sa key (st.cat.get n).isSome with
  | .insert bn => insertStepP fl n bn f st
  | .create ine rep =>
    let r := exec (.createAs n ine rep f) st.cat
    ({ st with cat := r.1 }, ⟨r.2, none⟩)
  | .raise => (st, ⟨false, none⟩)

/-! ### the builder chain `df.write.<call>.<call>…` -/

inductive Call
  | byName                       -- `.byName`
  | mode (m : Option String)     -- `.mode(m)`
  deriving DecidableEq, Repr

/-- what a writer object carries -/
structure WState where
  byName : Bool := false
  mode : Option String := none
  deriving DecidableEq, Repr

def applyCallP (modeKeepsByName byNameKeepsMode : Bool) : Call → WState → WState
  | .byName, w => { byName := true, mode := if byNameKeepsMode then w.mode else none }
  | .mode m, w => { mode := m, byName := if modeKeepsByName then w.byName else false }

def writerStateP (k1 k2 : Bool) (calls : List Call) : WState :=
  calls.foldl (fun w c => applyCallP k1 k2 c w) {}

/-- the writer a chain of builder calls produces, with the regenerated decisions -/
def writerState := writerStateP Gen.modeKeepsByName Gen.byNameKeepsMode

def lastModeStep (m : Option String) : Call → Option String
  | .mode x => x
  | .byName => m

/-- specification: `.byName` anywhere in the chain asks for by-name; the last `.mode` wins -/
def specChain (calls : List Call) : WState :=
  { byName := calls.any (fun c => c = .byName), mode := calls.foldl lastModeStep none }

inductive Op
  | save (n : Name) (arg st : Option String) (f : Frame)     -- df.write.mode(st).saveAsTable(n, mode=arg)
  | insertInto (n : Name) (byName : Bool) (f : Frame)        -- df.write[.byName].insertInto(n)
  | read (n : Name)                                          -- session.table(n).collect()
  | drop (n : Name)                                          -- DROP TABLE n on the connection
  deriving Repr

def stepP (sa : String → Bool → SaveAction) (fl : Flags) : Op → St → St × Res
  | .save n arg ms f, st => saveStepP sa fl n (Gen.effectiveMode arg ms) f st
  | .insertInto n bn f, st => insertStepP fl n bn f st
  | .read n, st => readStepP fl.skips n st
  | .drop n, st => let r := exec (.dropTable n) st.cat; ({ st with cat := r.1 }, ⟨r.2, none⟩)

/-- the model of the code that exists -/
def step : Op → St → St × Res := stepP Gen.saveAction genFlags

def run (ops : List Op) (st : St) : St := ops.foldl (fun s o => (step o s).1) st

/-- catalog API as sqlframe answers it (information_schema queries on the engine) -/
def tableExists (st : St) (n : Name) : Bool := (st.cat.get n).isSome
def listTables (st : St) : List Name := st.cat.names
def listColumns (st : St) (n : Name) : List (Name × Ty) :=
  match st.cat.get n with | some T => T.cols.zip T.tys | none => []

/-! ### spec (PySpark) -/

inductive Mode | default | error | errorifexists | ignore | overwrite | append
  deriving DecidableEq, Repr

def Mode.parse (s : String) : Option Mode :=
  if s = "error" then some .error else if s = "errorifexists" then some .errorifexists
  else if s = "ignore" then some .ignore
  else if s = "overwrite" then some .overwrite else if s = "append" then some .append else none

/-- `saveAsTable(mode=arg)` overrides `.mode(st)`; no mode at all is `error` -/
def specMode (arg ms : Option String) : Option Mode :=
  match arg, ms with
  | some a, _ => Mode.parse a
  | none, some s => Mode.parse s
  | none, none => some .default

/-- PySpark refuses to store a string column into a bigint column ("cannot safely cast") -/
def typesOk : List Ty → List Ty → Bool
  | .int :: _, .str :: _ => false
  | _ :: ts, _ :: ss => typesOk ts ss
  | _, _ => true

/-- positional append of an aligned frame -/
def specAppend (T : TTable) (g : Frame) : Option TTable :=
  if typesOk T.tys g.tys then insertRows T g else none

/-- by-name alignment onto the table's columns -/
def alignByName (T : TTable) (f : Frame) (sameCount : Bool) : Option Frame :=
  if T.cols.all (fun c => c ∈ f.cols) && (!sameCount || f.cols.length = T.cols.length)
  then some (f.project T.cols) else none

def specSave (m : Mode) (n : Name) (f : Frame) (c : Cat) : Cat × Bool :=
  match c.get n with
  | none => if f.fails then (c, false) else (c.put n f.table, true)
  | some T =>
    match m with
    | .default | .error | .errorifexists => (c, false)
    | .ignore => (c, true)
    | .overwrite => if f.fails then (c, false) else (c.put n f.table, true)
    | .append =>
      match (alignByName T f true).bind (specAppend T) with
      | some T' => (c.put n T', true)
      | none => (c, false)

def specInsert (n : Name) (byName : Bool) (f : Frame) (c : Cat) : Cat × Bool :=
  match c.get n with
  | none => (c, false)
  | some T =>
    let g := if byName then alignByName T f false else some f
    match g.bind (specAppend T) with
    | some T' => (c.put n T', true)
    | none => (c, false)

def specStep : Op → Cat → Cat × Res
  | .save n arg ms f, c =>
    match specMode arg ms with
    | none => (c, ⟨false, none⟩)                 -- IllegalArgumentException: unknown save mode
    | some m => let r := specSave m n f c; (r.1, ⟨r.2, none⟩)
  | .insertInto n bn f, c => let r := specInsert n bn f c; (r.1, ⟨r.2, none⟩)
  | .read n, c => match c.get n with | some T => (c, ⟨true, some T⟩) | none => (c, ⟨false, none⟩)
  | .drop n, c => let r := exec (.dropTable n) c; (r.1, ⟨r.2, none⟩)

def specRun (ops : List Op) (c : Cat) : Cat := ops.foldl (fun s o => (specStep o s).1) c

/-! ### path writers (csv / json / parquet): mode handling only

The file's *content* is DuckDB's `COPY … TO` / `read_<format>`; here a path holds a table value and a
successful write stores the frame — that round trip is assumed, compared executably by the check. -/

inductive PathRes | ok | refused | notImplemented | failed
  deriving DecidableEq, Repr

def pathStepP (pm : Option String → Option String → String) (vm : String → Bool → PathDecision) (appendRaises : Bool)
    (p : Name) (arg ms : Option String) (f : Frame) (fs : Cat) : Cat × PathRes :=
  let m := pm arg ms
  match vm m (fs.get p).isSome with
  | .refuse => (fs, .refused)
  | .skip => (fs, .ok)
  | .write =>
    if m = "append" && appendRaises then (fs, .notImplemented)
    else if f.fails then (fs, .failed)
    else (fs.put p f.table, .ok)

def pathStep := pathStepP Gen.pathMode Gen.validateMode Gen.fileAppendRaises

def specPath (m : Mode) (p : Name) (f : Frame) (fs : Cat) : Cat × PathRes :=
  match fs.get p, m with
  | some _, .default | some _, .error | some _, .errorifexists => (fs, .refused)
  | some _, .ignore => (fs, .ok)
  | some T, .append =>
    if f.fails then (fs, .failed) else (fs.put p { T with rows := T.rows ++ f.rows }, .ok)
  | _, _ => if f.fails then (fs, .failed) else (fs.put p f.table, .ok)

end Sqlframe.C14
