/-
Impl/C12Names.lean — the part of "the same pipeline means the same thing on every engine" that is sqlframe's own:

  * `sanitize`      `_BaseSession._sanitize_column_name`: the generated chain of character replacements
                    (`Gen.sanitizeReplacements`, applied left to right to every character), guarded by the
                    engine's `SANITIZE_COLUMN_NAMES`;
  * the three-dialect plumbing: which dialect a role (input / output / execution) stands for on an engine
    session (`Gen.engines`), the two identifier-normalisation passes `util.normalize_string` makes
    (`Gen.normalizeOrder`: first in from_dialect, then in to_dialect), the pair `_to_sql` uses
    (`Gen.toSqlPair`), the pair `_collect` uses to renormalise the reported column names
    (`Gen.collectRenormPair`, after marking them case sensitive: `Gen.collectMarksCaseSensitive`).

sqlglot's `Dialect.normalize_identifier` (third party) enters as the four published normalisation strategies,
modelled as functions on identifiers; the strategy each dialect uses is NOT fixed here — every lemma is proved
for all strategies, and the table `strategyOf` used by the driver is compared with the live sqlglot classes by the check.
Letter case is ASCII (`lowerC`/`upperC`); names outside ASCII letters are left alone by the model.
-/
import SqlframeModel.Gen.Engines
namespace Sqlframe.C12
open Sqlframe.Gen

/-! ### name sanitising -/

/-- one character through the chain `.replace(a₁, b₁).replace(a₂, b₂)…` (each replacement sees the result of the previous one) -/
def sanitizeChar : List (Char × Char) → Char → Char
  | [], c => c
  | (a, b) :: rest, c => sanitizeChar rest (if c = a then b else c)

/-- `name.replace(a₁, b₁).replace(a₂, b₂)…` for single-character replacements -/
def sanitizeWith (reps : List (Char × Char)) (s : List Char) : List Char := s.map (sanitizeChar reps)

/-- the chain found in the source -/
def sanitize (s : List Char) : List Char := sanitizeWith sanitizeReplacements s

/-- `session._sanitize_column_name(name)` on a session whose `SANITIZE_COLUMN_NAMES` is `flag` -/
def sanitizeColumnName (flag : Bool) (s : List Char) : List Char :=
  if sanitizeGuarded then (if flag then sanitize s else s) else sanitize s

/-- no replacement produces a character that a replacement of the chain consumes -/
def CleanChain (reps : List (Char × Char)) : Prop := ∀ p ∈ reps, ∀ q ∈ reps, p.2 ≠ q.1

instance (reps : List (Char × Char)) : Decidable (CleanChain reps) := by unfold CleanChain; infer_instance

/-- the characters the chain removes -/
def sources (reps : List (Char × Char)) : List Char := reps.map (·.1)

/-! ### letter case (ASCII) -/

def lowerC (c : Char) : Char := if 65 ≤ c.toNat ∧ c.toNat ≤ 90 then Char.ofNat (c.toNat + 32) else c
def upperC (c : Char) : Char := if 97 ≤ c.toNat ∧ c.toNat ≤ 122 then Char.ofNat (c.toNat - 32) else c
def lower (s : List Char) : List Char := s.map lowerC
def upper (s : List Char) : List Char := s.map upperC

/-- equal up to letter case -/
def CaseEq (a b : List Char) : Prop := lower a = lower b

instance (a b : List Char) : Decidable (CaseEq a b) := by unfold CaseEq; infer_instance

/-! ### sqlglot's identifier normalisation (third party, modelled) -/

inductive Strategy | lowercase | uppercase | caseSensitive | caseInsensitive
  deriving DecidableEq, Repr

structure Ident where
  name : List Char
  quoted : Bool
  deriving DecidableEq, Repr

/-- `Dialect.normalize_identifier` under a strategy; `marked` = the node carries `meta["case_sensitive"]`
    (then `normalize_identifiers` skips it) -/
def normalizeIdent (st : Strategy) (marked : Bool) (i : Ident) : Ident :=
  if marked then i else
  match st with
  | .caseSensitive => i
  | .caseInsensitive => { i with name := lower i.name }
  | .lowercase => if i.quoted then i else { i with name := lower i.name }
  | .uppercase => if i.quoted then i else { i with name := upper i.name }

/-- sqlglot 26.14 `NORMALIZATION_STRATEGY` per dialect name (compared with the live classes by the check;
    no theorem depends on the entries) -/
def strategyOf : String → Strategy
  | "snowflake" => .uppercase
  | "bigquery" => .caseInsensitive
  | "duckdb" => .caseInsensitive
  | "spark" => .caseInsensitive
  | "databricks" => .caseInsensitive
  | "redshift" => .caseInsensitive
  | _ => .lowercase   -- postgres and sqlglot's default

/-! ### the plumbing -/

/-- a session's three dialects -/
structure Dialects where
  input : String
  output : String
  execution : String
  deriving DecidableEq, Repr

def Dialects.get (d : Dialects) : DialRole → String
  | .input => d.input
  | .output => d.output
  | .execution => d.execution

/-- the dialects a fresh session of an engine row has: each session attribute is read from the builder
    default `Gen.sessionInit` says -/
def rowDefault (r : EngineRow) : DialRole → String
  | .input => r.inputDialect
  | .output => r.outputDialect
  | .execution => r.executionDialect

def initRole (tbl : List (DialRole × DialRole)) (attr : DialRole) : DialRole :=
  match tbl.find? (·.1 = attr) with
  | some p => p.2
  | none => attr

def rowDialects (r : EngineRow) : Dialects :=
  { input := rowDefault r (initRole sessionInit .input),
    output := rowDefault r (initRole sessionInit .output),
    execution := rowDefault r (initRole sessionInit .execution) }

/-- `util.normalize_string(expr, from_dialect, to_dialect)` on one identifier: the passes of `Gen.normalizeOrder` -/
def normalizeString (strat : String → Strategy) (fromD toD : String) (marked : Bool) (i : Ident) : Ident :=
  normalizeOrder.foldl (fun acc side =>
    normalizeIdent (strat (match side with | .from_ => fromD | .to_ => toD)) marked acc) i

/-- the dialect whose generator writes the text -/
def renderDialect (fromD toD : String) : String := match renderIn with | .from_ => fromD | .to_ => toD

/-- an identifier of the DataFrame's expression as `_to_sql` puts it into the statement -/
def stmtIdent (strat : String → Strategy) (d : Dialects) (i : Ident) : Ident :=
  normalizeString strat (d.get toSqlPair.1) (d.get toSqlPair.2) false i

/-- the dialect `_to_sql` writes the statement in (no `dialect=` override) -/
def stmtDialect (d : Dialects) : String := renderDialect (d.get toSqlPair.1) (d.get toSqlPair.2)

/-- ASSUMED engine behaviour: the engine reports an output column under the alias written in the statement —
    exactly when the alias is quoted, folded by the engine's own strategy when it is not -/
def engineReports (strat : String → Strategy) (d : Dialects) (i : Ident) : List Char :=
  (normalizeIdent (strat d.execution) false i).name

/-- `_collect`: the reported name is parsed as an identifier, marked (or not), and renormalised with a (from, to) pair;
    `to_string_literal=True` returns the bare name -/
def collectNameWith (pair : DialRole × DialRole) (marks : Bool) (strat : String → Strategy) (d : Dialects)
    (reported : List Char) : List Char :=
  (normalizeString strat (d.get pair.1) (d.get pair.2) marks { name := reported, quoted := false }).name

/-- the base `_collect`, with the generated pair and marking -/
def collectName (strat : String → Strategy) (d : Dialects) (reported : List Char) : List Char :=
  collectNameWith collectRenormPair collectMarksCaseSensitive strat d reported

/-- the pair and marking of the `_collect` an engine's session actually runs (its own override, else the base one) -/
def rowCollect (r : EngineRow) : (DialRole × DialRole) × Bool :=
  match r.ownCollect with
  | some (a, b, m) => ((a, b), m)
  | none => (collectRenormPair, collectMarksCaseSensitive)

/-- the column name a user sees for the expression identifier `i` on a session with dialects `d` whose `_collect`
    renormalises with `pair` / `marks` -/
def resultNameWith (pair : DialRole × DialRole) (marks : Bool) (strat : String → Strategy) (d : Dialects) (i : Ident) : List Char :=
  collectNameWith pair marks strat d (engineReports strat d (stmtIdent strat d i))

/-- … with the base `_collect` -/
def resultName (strat : String → Strategy) (d : Dialects) (i : Ident) : List Char :=
  resultNameWith collectRenormPair collectMarksCaseSensitive strat d i

/-- … on a fresh session of an engine row -/
def rowResultName (r : EngineRow) (strat : String → Strategy) (i : Ident) : List Char :=
  resultNameWith (rowCollect r).1 (rowCollect r).2 strat (rowDialects r) i

/-- the comparison the validation stream applies to column names: equal up to letter case after the engine's sanitising -/
def NameEquiv (san : Bool) (engineName duckName : List Char) : Prop :=
  CaseEq engineName (if san then sanitize duckName else duckName)

instance (san : Bool) (a b : List Char) : Decidable (NameEquiv san a b) := by unfold NameEquiv; infer_instance

/-- the DuckDB session of the property statement -/
def duckDialects : Dialects := { input := "spark", output := "spark", execution := "duckdb" }

/-- the `_is_<engine>` flags that are true on an engine row -/
def trueFlags (r : EngineRow) : List String := (r.flags.filter (·.2)).map (·.1)

/-- the dialect an engine package is named after (`standalone` only generates Spark SQL text) -/
def ownDialect : String → String
  | "standalone" => "spark"
  | e => e

/-- the engines of the property statement -/
def supportedEngines : List String := ["bigquery", "snowflake", "postgres", "databricks", "spark", "redshift", "duckdb"]

/-- engines whose column names cannot carry the characters the chain removes (documented: BigQuery) -/
def mustSanitize : String → Bool
  | "bigquery" => true
  | _ => false

end Sqlframe.C12
