/-
Impl/C14Options.lean — how the options of the file writers (`df.write.csv/json/parquet(path, **opts)`) and
of the readers (`session.read[.option(k, v)…].csv/json/parquet(path, …)` / `.load(path, format=…, …)`) reach
the engine, around the regenerated `Gen.C14Options`.

Three layers, kept apart on purpose:

* SQLFRAME (modelled here): the *option dictionary* each call builds — which keyword is forwarded under
  which key (`Gen.writerCall`, `Gen.readerCall`), which values are filtered away (`Gen.toCsvKeeps`,
  `Gen.readerKeeps`), who wins when a key is given through `.option()` and through the call
  (`Gen.readerMerge`, `Gen.loadMerge`, `Gen.optionsMerge`), what `load` adds (`columns`) and removes
  (`Gen.loadPops`), and how the dictionary is rendered into the statement (`to_csv`).
  Python dictionaries are association lists with unique keys in insertion order (`dictSet`).
* ENGINE: what DuckDB does with `COPY … TO 'p' (k v, …)` and `read_<fmt>([p], k=v, …)` is NOT modelled:
  the check executes the rendered option lists of the model and of the specification on DuckDB itself
  and compares the files / tables (engine semantics by execution).
* SPECIFICATION: exactly the options the caller set (a value other than None) reach the engine, each
  under its own name with its own value — falsy values (False, 0, "") included; an option of the call
  overrides one stored by `.option()`; nothing else is added except the format, and `columns` for a csv
  read with a schema.

Import-free apart from Gen.
-/
import SqlframeModel.Gen.C14Options
namespace Sqlframe.C14
open Sqlframe.Gen

abbrev Opts := List (String × OptVal)

/-! ### Python dictionaries -/

def dictGet : Opts → String → Option OptVal
  | [], _ => none
  | (k', v) :: r, k => if k' = k then some v else dictGet r k

/-- `d.get(k)`: None when absent -/
def optLookup (o : Opts) (k : String) : OptVal := (dictGet o k).getD .none

/-- the last binding of `k` in a list of bindings -/
def lastGet : Opts → String → Option OptVal
  | [], _ => none
  | (k', v) :: r, k => match lastGet r k with
    | some w => some w
    | none => if k' = k then some v else none

def keys (o : Opts) : List String := o.map (·.1)

/-- `d[k] = v`: an existing key keeps its position, a new key goes last -/
def dictSet : Opts → String → OptVal → Opts
  | [], k, v => [(k, v)]
  | (k', v') :: r, k, v => if k' = k then (k, v) :: r else (k', v') :: dictSet r k v

/-- `{**d, **e}` -/
def dictUpdate (d e : Opts) : Opts := e.foldl (fun acc kv => dictSet acc kv.1 kv.2) d

/-- `d.pop(k, None)` -/
def dictErase (d : Opts) (k : String) : Opts := d.filter (fun e => e.1 != k)

/-- `{**a, **b, …}` over the named sources -/
def mergeBy (order : List OptSrc) (state call : Opts) : Opts :=
  order.foldl (fun acc s => dictUpdate acc (match s with | .state => state | .call => call)) []

/-- `to_csv`: the kept pairs, each rendered `k<eq>str(v)` (the check joins them) -/
def toCsvP (keep : OptVal → Bool) (o : Opts) : List (String × String) :=
  (o.filter (fun e => keep e.2)).map (fun e => (e.1, e.2.pyStr))

def toCsv := toCsvP Gen.toCsvKeeps

/-! ### writers -/

/-- value of one keyword of a forwarding call, given the caller's explicitly passed arguments -/
def evalArg (named : Opts) : WArg → OptVal
  | .lit s => .str s
  | .param p => optLookup named p

/-- the `**options` dictionary `_write` receives -/
def writerOptionsP (call : List (String × WArg)) (named : Opts) : Opts :=
  call.map (fun e => (e.1, evalArg named e.2))

/-- the option list of `COPY (…) TO 'path' (…)` -/
def writerRenderedP (keep : OptVal → Bool) (call : List (String × WArg)) (named : Opts) : List (String × String) :=
  toCsvP keep (writerOptionsP call named)

/-- the model of the code that exists -/
def writerRendered (fmt : String) (named : Opts) : List (String × String) :=
  writerRenderedP Gen.toCsvKeeps (Gen.writerCall fmt) named

/-- specification: the format, then exactly the parameters the caller set, with their values -/
def specWriterOpts (fmt : String) (params : List String) (named : Opts) : Opts :=
  ("format", .str fmt) :: (params.filter (fun p => !(optLookup named p).isNone)).map (fun p => (p, optLookup named p))

/-- what the generated forwarding table must be for the specification to hold whatever the caller passes -/
def callOk (fmt : String) (params : List String) (call : List (String × WArg)) : Bool :=
  call.all (fun e => e == ("format", WArg.lit fmt) || (params.contains e.1 && e.2 == WArg.param e.1)) &&
  call.contains ("format", WArg.lit fmt) &&
  params.all (fun p => call.contains (p, WArg.param p)) &&
  !params.contains "format"

/-! ### readers -/

/-- one builder call on `session.read` -/
inductive RCall
  | option (k : String) (v : OptVal)     -- `.option(k, v)`
  | options (kv : Opts)                  -- `.options(**kv)`
  deriving Repr

def applyRCallP (optionsOrder : List OptSrc) : Opts → RCall → Opts
  | st, .option k v => dictSet st k v
  | st, .options kv => mergeBy optionsOrder st kv

/-- `state_options` after the builder calls (a fresh reader starts empty) -/
def readerStateP (optionsOrder : List OptSrc) (calls : List RCall) : Opts :=
  calls.foldl (applyRCallP optionsOrder) []

def readerState := readerStateP Gen.optionsMerge

/-- how the read is spelled -/
inductive Via
  | method        -- session.read.<calls>.csv(path, schema=…, **named)
  | load          -- session.read.<calls>.load(path, format=fmt, schema=…, **named)
  deriving DecidableEq, Repr

structure RFlags where
  call : Option (List (String × WArg))
  keeps : OptVal → Bool
  frontMerge : List OptSrc
  loadMerge : List OptSrc
  pops : List String
  columns : Bool            -- `columns` is added for this format when a schema is known
  toCsvKeeps : OptVal → Bool
  reloads : Bool

def genRFlags (fmt : String) : RFlags :=
  { call := Gen.readerCall fmt, keeps := Gen.readerKeeps fmt, frontMerge := Gen.readerMerge fmt,
    loadMerge := Gen.loadMerge, pops := Gen.loadPops, columns := Gen.loadColumnsFor.contains fmt,
    toCsvKeeps := Gen.toCsvKeeps, reloads := Gen.loadReloadsWithSchema }

/-- `all_options` of the front end `csv()` / `json()` / `parquet()` -/
def frontOptions (fl : RFlags) (state named : Opts) : Opts :=
  let opts : Opts := match fl.call with
    | some c => writerOptionsP c named
    | none => named
  mergeBy fl.frontMerge state (opts.filter (fun e => fl.keeps e.2))

/-- one pass of `load`: merge, add `columns` when a schema is known, pop -/
def loadPass (fl : RFlags) (columns : Option String) (state options : Opts) : Opts :=
  let m := mergeBy fl.loadMerge state options
  let m1 := match columns with
    | some c => if fl.columns then dictSet m "columns" (.str c) else m
    | none => m
  fl.pops.foldl dictErase m1

/-- the `**options` that `load` receives -/
def loadOptionsOf (fl : RFlags) (via : Via) (state named : Opts) : Opts :=
  match via with
  | .method => frontOptions fl state named
  | .load => named

/-- the option dictionary rendered into `read_<fmt>([path], …)` of the statement that produces the rows;
    `schemaCols`: the `columns` text when the caller gave a schema; without one the file is read once for its
    schema and `load` runs again on the merged options with the inferred schema (`inferred`) -/
def readerFinalP (fl : RFlags) (via : Via) (state named : Opts) (schemaCols : Option String) (inferred : String) : Opts :=
  let options := loadOptionsOf fl via state named
  match schemaCols with
  | some c => loadPass fl (some c) state options
  | none =>
    let first := loadPass fl none state options
    if fl.reloads then loadPass fl (some inferred) state first else first

def readerRenderedP (fl : RFlags) (via : Via) (calls : List RCall) (named : Opts) (schemaCols : Option String) (inferred : String) : List (String × String) :=
  toCsvP fl.toCsvKeeps (readerFinalP fl via (readerStateP Gen.optionsMerge calls) named schemaCols inferred)

/-- the model of the code that exists -/
def readerRendered (fmt : String) := readerRenderedP (genRFlags fmt)

/-! #### specification of the reader -/

/-- all bindings the builder calls give, in call order -/
def flatCalls : List RCall → Opts
  | [] => []
  | .option k v :: r => (k, v) :: flatCalls r
  | .options kv :: r => kv ++ flatCalls r

/-- the value `.option()` / `.options()` calls leave for key `k`: the last one given -/
def lastSet (calls : List RCall) (k : String) : OptVal := (lastGet (flatCalls calls) k).getD .none

/-- what reaches the engine for key `k`: the call's value when one was given, else the stored one -/
def specReaderVal (calls : List RCall) (named : Opts) (k : String) : OptVal :=
  match optLookup named k with
  | .none => lastSet calls k
  | v => v

/-- keys in first-appearance order (for printing; the specification does not fix an order) -/
def dedupKeys : List String → List String
  | [] => []
  | k :: r => k :: (dedupKeys r).filter (· != k)

/-- the specification's option list of the read: every key given anywhere (except the ones `load` consumes
    itself), with `specReaderVal`, None values dropped; plus `columns` for formats that take it, when the schema is known -/
def specReaderOpts (pops : List String) (columns : Bool) (calls : List RCall) (named : Opts) (schemaCols : Option String) : Opts :=
  let keys := (dedupKeys (keys (flatCalls calls) ++ keys named)).filter (fun k => !pops.contains k && k != "columns")
  let base := (keys.map (fun k => (k, specReaderVal calls named k))).filter (fun e => !e.2.isNone)
  match schemaCols with
  | some c => if columns then base ++ [("columns", .str c)] else base
  | none => base

/-! ### scope -/

/-- a string that DuckDB reads the same with and without quotes (`gzip`, `true`, `snappy`): letters, digits, `_`,
    not starting with a digit -/
def bareWord (s : String) : Bool :=
  match s.toList with
  | [] => false
  | c :: cs => (c.isAlpha || c == '_') && cs.all (fun d => d.isAlphanum || d == '_')

def valQuotedOk : OptVal → Bool
  | .str s => bareWord s
  | _ => true

/-- `H_optionValueQuoted`: sqlframe renders a string value into the statement as it is (no SQL quoting), so a
    value that is not a bare word (`sep="|"`, `dateFormat="%Y"`) makes the statement unparsable -/
def H_optionValueQuoted (vals : List OptVal) : Prop := vals.all valQuotedOk = true
instance (vals : List OptVal) : Decidable (H_optionValueQuoted vals) := by unfold H_optionValueQuoted; exact inferInstance

def rcallVals (calls : List RCall) : List OptVal := (flatCalls calls).map (·.2)

end Sqlframe.C14
