/-
Impl/C08Spec.lean — model of `sqlframe.base.window.WindowSpec` (the code that exists, defects
included) around the regenerated `Gen.Window`, the execution engine's reading of the clause it
emits, and PySpark's reading of the same builder calls (the specification).

* `BOp` / `update` : one builder call on a spec value (what the call stores in the sqlglot
  `exp.Window`): `partitionBy` / `orderBy` extend or replace according to `Gen`, order keys carry what
  `Column.asc()` … build (`Gen.ord_*`) or — for a bare name / column — what `orderBy` does with a
  non-`Ordered` expression (`Gen.orderByColumnWrap` for a plain column, `Gen.orderByExprWrap` for any other
  expression key); `rowsBetween` / `rangeBetween` store
  `Gen.rowsBetweenFrame` / `Gen.rangeBetweenFrame` (built from `Gen.getValueAndSide`).
* `Heap` / `applyOp` : specs as mutable objects; every builder works on `self.copy()` iff the `Gen`
  flag says so (immutability theorem).
* `engineDef` : how DuckDB reads the emitted clause (ASSUMED: a key without explicit placement sorts
  NULLS LAST; `<n> PRECEDING` etc. as written).
* `sparkDef` : PySpark's `Window` / `WindowSpec` (python thresholds + the JVM's boundary mapping;
  a repeated partitionBy / orderBy *replaces*; a bare key is ascending NULLS FIRST).
-/
import SqlframeModel.Impl.C08Window
import SqlframeModel.Gen.Window
namespace Sqlframe.Win
open Sqlframe.Gen.Win

/-! ### the user's program -/

inductive KeyForm
  | bare | asc | desc | ascNullsFirst | ascNullsLast | descNullsFirst | descNullsLast
  deriving DecidableEq, Repr, Inhabited

/-- one argument of `orderBy`.  A plain key (`expr = none`) is the column `name`, given as a string or
    `col(name)`.  An expression key (`expr = some e`: `-col`, `col + 1`, `when(…)…`) is ordered by the value
    of `e` on each row; that value is made available to the evaluator as a computed column called `name`
    (`keyCols` / `extend` below), so `name` must not be a column of the table. -/
structure UKey where
  name : Name
  form : KeyForm
  expr : Option Expr := none
  /-- the python Column's `.expression` is an `exp.Alias` (every `F.<function>(…)` result is auto-aliased,
      e.g. `when(…)`, `abs(c)`, `coalesce(a, b)`; operators like `-c`, `c + 1` are not) -/
  aliased : Bool := false
  deriving DecidableEq, Repr, Inhabited

def UKey.isExpr (k : UKey) : Bool := k.expr.isSome

inductive BOp
  | partitionBy (cols : List Name)
  | orderBy (keys : List UKey)
  | rowsBetween (s e : Int)
  | rangeBetween (s e : Int)
  deriving DecidableEq, Repr, Inhabited

def BOp.isPart : BOp → Bool | .partitionBy _ => true | _ => false
def BOp.isOrder : BOp → Bool | .orderBy _ => true | _ => false

/-! ### what sqlframe stores -/

/-- one ORDER BY item of the emitted clause: `ordered = none` is a bare expression (no `exp.Ordered`) -/
structure EKey where
  name : Name
  ordered : Option (Bool × Option Bool)
  /-- the item still carries the Column's alias (`<expr> AS <alias>` inside ORDER BY: the engine rejects it) -/
  aliased : Bool := false
  deriving DecidableEq, Repr, Inhabited

structure SpecVal where
  part : List Name := []
  order : List EKey := []
  frame : Option (String × RawFrame) := none
  deriving DecidableEq, Repr, Inhabited

/-- the source-level decisions the builders' meaning hinges on -/
structure Flags where
  /-- what `orderBy` does with a plain column key that states no ordering -/
  colWrap : Option (Bool × Option Bool)
  /-- … and with any other expression key that states no ordering -/
  exprWrap : Option (Bool × Option Bool)
  partExtends : Bool
  orderExtends : Bool
  partIndexesFirst : Bool
  orderIndexesFirst : Bool
  /-- `orderBy` takes `Column.expression` (alias included) rather than `Column.column_expression` -/
  orderKeepsAlias : Bool
  deriving DecidableEq, Repr

def genFlags : Flags := ⟨orderByColumnWrap, orderByExprWrap, partitionByExtends, orderByExtends, partitionByIndexesFirst, orderByIndexesFirst, orderByKeepsAlias⟩

/-- the wrap decision for a key without a stated ordering, by the class of its sqlglot expression -/
def bareWrapOf (F : Flags) (k : UKey) : Option (Bool × Option Bool) := if k.isExpr then F.exprWrap else F.colWrap

def formOrdered (F : Flags) (k : UKey) : Option (Bool × Option Bool) :=
  match k.form with
  | .bare => bareWrapOf F k
  | .asc => some ord_asc
  | .desc => some ord_desc
  | .ascNullsFirst => some ord_asc_nulls_first
  | .ascNullsLast => some ord_asc_nulls_last
  | .descNullsFirst => some ord_desc_nulls_first
  | .descNullsLast => some ord_desc_nulls_last

/-- `asc()` / `desc()` / … are built from `column_expression` and drop the alias; a key without them keeps
    whatever `orderBy` reads off the Column -/
def emitKey (F : Flags) (k : UKey) : EKey :=
  ⟨k.name, formOrdered F k, F.orderKeepsAlias && k.aliased && decide (k.form = .bare)⟩

def update (F : Flags) (v : SpecVal) : BOp → SpecVal
  | .partitionBy cs => { v with part := (if F.partExtends then v.part else []) ++ cs }
  | .orderBy ks => { v with order := (if F.orderExtends then v.order else []) ++ ks.map (emitKey F) }
  | .rowsBetween s e => { v with frame := some (rowsBetweenFrame s e) }
  | .rangeBetween s e => { v with frame := some (rangeBetweenFrame s e) }

def emitFrom (F : Flags) (v : SpecVal) (ops : List BOp) : SpecVal := ops.foldl (update F) v

/-- does a builder call raise (python `cols[0]` on an empty argument tuple)? -/
def BOp.raises (F : Flags) : BOp → Bool
  | .partitionBy [] => F.partIndexesFirst
  | .orderBy [] => F.orderIndexesFirst
  | _ => false

def builderRaises (F : Flags) (ops : List BOp) : Bool := ops.any (BOp.raises F)

/-- the clause `Window.<op1>(…).<op2>(…)…` ends up holding -/
def emitWith (F : Flags) (ops : List BOp) : SpecVal := emitFrom F {} ops
def emit (ops : List BOp) : SpecVal := emitWith genFlags ops

/-! ### specs as objects: who copies -/

abbrev Heap := List SpecVal

def BOp.copies : BOp → Bool
  | .partitionBy _ => partitionByCopies
  | .orderBy _ => orderByCopies
  | .rowsBetween _ _ => rowsBetweenCopies
  | .rangeBetween _ _ => rangeBetweenCopies

/-- one builder call on the spec object at address `r`: returns the new heap and the address of the returned spec -/
def applyOp (h : Heap) (r : Nat) (op : BOp) : Heap × Nat :=
  let cur := h.getD r {}
  if op.copies then (h ++ [update genFlags cur op], h.length)
  else (h.set r (update genFlags cur op), r)

/-- `fn.over(spec)`: the address whose clause the window column holds -/
def overOp (h : Heap) (r : Nat) : Heap × Nat :=
  if overCopies then (h ++ [h.getD r {}], h.length) else (h, r)

/-! ### the execution engine's reading of the emitted clause -/

/-- ASSUMED (DuckDB, `default_null_order` unchanged): a key without explicit placement sorts NULLS LAST -/
def engineNullsFirstDefault : Bool := false

def engineKey (k : EKey) : OrdKey :=
  match k.ordered with
  | none => { name := k.name, desc := false, nullsFirst := engineNullsFirstDefault }
  | some (d, none) => { name := k.name, desc := d, nullsFirst := engineNullsFirstDefault }
  | some (d, some nf) => { name := k.name, desc := d, nullsFirst := nf }

/-- `<value> <side>` as SQL reads it -/
def boundOf (b : RawValue × Option String) : Option Bound :=
  match b.1, b.2 with
  | .kw s, none => if s = "CURRENT ROW" then some .currentRow else none
  | .kw s, some side =>
    if s = "UNBOUNDED" ∧ side = "PRECEDING" then some .unboundedPreceding
    else if s = "UNBOUNDED" ∧ side = "FOLLOWING" then some .unboundedFollowing
    else none
  | .lit n, some side =>
    if n < 0 then none
    else if side = "PRECEDING" then some (.preceding n.toNat)
    else if side = "FOLLOWING" then some (.following n.toNat)
    else none
  | .lit _, none => none

def kindOf (s : String) : Option FrameKind :=
  if s = "ROWS" then some .rows else if s = "RANGE" then some .range else none

def engineFrame (f : String × RawFrame) : Option Frame :=
  match kindOf f.1, boundOf (f.2.start, f.2.startSide), boundOf (f.2.end_, f.2.endSide) with
  | some k, some lo, some hi => some ⟨k, lo, hi⟩
  | _, _, _ => none

/-- `none`: the engine rejects the clause -/
def engineDef (v : SpecVal) : Option WinDef :=
  match v.frame with
  | none => some { part := v.part, order := v.order.map engineKey, frame := none }
  | some f =>
    match engineFrame f with
    | some fr => some { part := v.part, order := v.order.map engineKey, frame := some fr }
    | none => none

/-! ### PySpark's reading of the same calls (the specification) -/

def sparkKey (k : UKey) : OrdKey :=
  match k.form with
  | .bare | .asc | .ascNullsFirst => { name := k.name, desc := false, nullsFirst := true }
  | .ascNullsLast => { name := k.name, desc := false, nullsFirst := false }
  | .desc | .descNullsLast => { name := k.name, desc := true, nullsFirst := false }
  | .descNullsFirst => { name := k.name, desc := true, nullsFirst := true }

def longMin : Int := -9223372036854775808
def longMax : Int := 9223372036854775807

/-- `org.apache.spark.sql.expressions.Window.rowsBetween/rangeBetween` on a JVM long:
    0 ↦ CurrentRow, Long.MinValue ↦ UnboundedPreceding, Long.MaxValue ↦ UnboundedFollowing,
    x ↦ Literal(x) (negative = PRECEDING); ROWS offsets must fit an Int.  `none`: the call raises. -/
def jvmBound (k : FrameKind) (x : Int) : Option Bound :=
  if x < longMin ∨ x > longMax then none
  else if x = 0 then some .currentRow
  else if x = longMin then some .unboundedPreceding
  else if x = longMax then some .unboundedFollowing
  else if k = .rows ∧ (x < -2147483648 ∨ x > 2147483647) then none
  else if x < 0 then some (.preceding (-x).toNat)
  else some (.following x.toNat)

/-- `pyspark.sql.window`: `if start <= Window._PRECEDING_THRESHOLD: start = Window.unboundedPreceding`
    with `_PRECEDING_THRESHOLD = max(-sys.maxsize, _JAVA_MIN_LONG) = -(2^63-1)` -/
def pysparkStart (k : FrameKind) (x : Int) : Option Bound :=
  jvmBound k (if x ≤ -9223372036854775807 then longMin else x)

/-- `if end >= Window._FOLLOWING_THRESHOLD: end = Window.unboundedFollowing` (threshold 2^63-1) -/
def pysparkEnd (k : FrameKind) (x : Int) : Option Bound :=
  jvmBound k (if x ≥ 9223372036854775807 then longMax else x)

def sparkUpdate (w : WinDef) : BOp → Option WinDef
  | .partitionBy cs => some { w with part := cs }
  | .orderBy ks => some { w with order := ks.map sparkKey }
  | .rowsBetween s e =>
    match pysparkStart .rows s, pysparkEnd .rows e with
    | some lo, some hi => some { w with frame := some ⟨.rows, lo, hi⟩ }
    | _, _ => none
  | .rangeBetween s e =>
    match pysparkStart .range s, pysparkEnd .range e with
    | some lo, some hi => some { w with frame := some ⟨.range, lo, hi⟩ }
    | _, _ => none

def sparkFrom (w : WinDef) : List BOp → Option WinDef
  | [] => some w
  | op :: ops => match sparkUpdate w op with | some w' => sparkFrom w' ops | none => none

/-- PySpark's window for the builder chain; `none`: PySpark raises while building it -/
def sparkDef (ops : List BOp) : Option WinDef := sparkFrom {} ops

/-! ### the two columns the property compares -/

/-- ASSUMED (DuckDB): `ORDER BY <expr> AS <alias>` inside OVER (…) is a syntax error -/
def clauseRejected (v : SpecVal) : Bool := v.order.any (·.aliased)

/-- the expression order keys of a chain, as (computed column name, expression) -/
def keyCols : List BOp → List (Name × Expr)
  | [] => []
  | .orderBy ks :: ops => ks.filterMap (fun k => k.expr.map (fun e => (k.name, e))) ++ keyCols ops
  | _ :: ops => keyCols ops

/-- the table with the values of the expression keys appended as computed columns (ASSUMED of both
    engines: `ORDER BY <expr>` inside a window orders by the value of `<expr>` on each input row) -/
def extend (T : Table) (items : List (Name × Expr)) : Table :=
  { cols := T.cols ++ items.map (·.1), rows := T.rows.map (fun r => r ++ items.map (fun it => eval T.cols r it.2)) }

theorem extend_rows_length (T : Table) (items : List (Name × Expr)) : (extend T items).rows.length = T.rows.length := by
  simp [extend]

/-- the computed key columns do not shadow or reuse a column of the table (checked by the driver) -/
def keysFresh (T : Table) (ops : List BOp) : Bool :=
  let names := (keyCols ops).map (·.1)
  names.all (fun n => !T.cols.contains n) && decide names.Nodup

/-- what the emitted clause evaluates to on the engine -/
def modelColumn (T : Table) (ops : List BOp) (fn : WFn) : Option (List Val) :=
  if builderRaises genFlags ops || clauseRejected (emit ops) then none
  else (engineDef (emit ops)).map (fun w => windowColumn (extend T (keyCols ops)) w fn)

/-- what Spark computes -/
def specColumn (T : Table) (ops : List BOp) (fn : WFn) : Option (List Val) :=
  (sparkDef ops).map (fun w => windowColumn (extend T (keyCols ops)) w fn)

/-! ### named scope hypotheses (decidable) -/

/-- a key that states no ordering is wrapped as ascending NULLS FIRST (Spark's default) -/
def UKey.explicitOk (F : Flags) (k : UKey) : Bool :=
  decide (k.form ≠ .bare) || decide (bareWrapOf F k = some (false, some true))

def BOp.bareKeysOk (F : Flags) : BOp → Bool
  | .orderBy ks => ks.all (UKey.explicitOk F)
  | _ => true

/-- the sentinel-adjacent value `-(2^63-1)` (= `-sys.maxsize`, the pre-2.1 PySpark idiom for "unbounded"):
    as a frame *start* PySpark maps it to UNBOUNDED PRECEDING (`start <= _PRECEDING_THRESHOLD`),
    sqlframe's test `x <= Window.unboundedPreceding` does not -/
def edgeStart : Int := -9223372036854775807

def bigK : Nat := 9223372036854775807

/-- the boundary sqlframe stores for a start `s` is the one PySpark means (always, unless `s` is the edge value
    and the generated function does not map it to UNBOUNDED PRECEDING) -/
def startExact (s : Int) : Bool :=
  decide (s ≠ edgeStart) || decide (boundOf (getValueAndSide edgeStart) = some .unboundedPreceding)

/-- same for an end boundary (PySpark applies no threshold on the preceding side of an *end*) -/
def endExact (e : Int) : Bool :=
  decide (e ≠ edgeStart) || decide (boundOf (getValueAndSide edgeStart) = some (.preceding bigK))

/-- `strict`: also a ROWS frame may not start at the edge value -/
def BOp.edgeOk (strict : Bool) : BOp → Bool
  | .rowsBetween s e => (!strict || startExact s) && endExact e
  | .rangeBetween s e => startExact s && endExact e
  | _ => true

/-- every order key says where NULLs go: a key given without asc()/desc()/… — a name, a column or any
    other expression — is wrapped by `orderBy` as ascending NULLS FIRST (decided per expression class by
    the generated `orderByColumnWrap` / `orderByExprWrap`), or the program passes no such key -/
def H_orderKeysExplicit (F : Flags) (ops : List BOp) : Prop := ops.all (BOp.bareKeysOk F) = true

/-- `partitionBy` / `orderBy` are each called at most once (or the source replaces instead of extending) -/
def H_buildersOnce (F : Flags) (ops : List BOp) : Prop :=
  (F.partExtends = false ∨ ops.countP BOp.isPart ≤ 1) ∧ (F.orderExtends = false ∨ ops.countP BOp.isOrder ≤ 1)

/-- no builder is called without arguments (or the source does not index `cols[0]`) -/
def H_nonEmptyArgs (F : Flags) (ops : List BOp) : Prop := builderRaises F ops = false

/-- no ORDER BY item of the emitted clause carries an alias: no key without asc()/desc()/… is a function
    result (`when(…)`, `abs(c)`, …) or an aliased Column — or `orderBy` reads `column_expression` -/
def H_keysUnaliased (F : Flags) (ops : List BOp) : Prop := clauseRejected (emitWith F ops) = false

/-- no frame boundary is the edge value `-(2^63-1)` (or the source treats it as PySpark does) -/
def H_noEdgeBound (ops : List BOp) : Prop := ops.all (BOp.edgeOk true) = true

/-- no RANGE frame boundary is the edge value; a ROWS frame may *start* there -/
def H_noRangeEdgeBound (ops : List BOp) : Prop := ops.all (BOp.edgeOk false) = true

instance (F : Flags) (ops : List BOp) : Decidable (H_orderKeysExplicit F ops) := by
  unfold H_orderKeysExplicit; exact inferInstance
instance (F : Flags) (ops : List BOp) : Decidable (H_buildersOnce F ops) := by
  unfold H_buildersOnce; exact inferInstance
instance (F : Flags) (ops : List BOp) : Decidable (H_nonEmptyArgs F ops) := by unfold H_nonEmptyArgs; exact inferInstance
instance (F : Flags) (ops : List BOp) : Decidable (H_keysUnaliased F ops) := by unfold H_keysUnaliased; exact inferInstance
instance (ops : List BOp) : Decidable (H_noEdgeBound ops) := by unfold H_noEdgeBound; exact inferInstance
instance (ops : List BOp) : Decidable (H_noRangeEdgeBound ops) := by unfold H_noRangeEdgeBound; exact inferInstance

/-- names of the scope hypotheses a program violates (reported by the driver) -/
def violated (ops : List BOp) : List String :=
  (if decide (H_orderKeysExplicit genFlags ops) then [] else ["H_orderKeysExplicit"]) ++
  (if decide (H_buildersOnce genFlags ops) then [] else ["H_buildersOnce"]) ++
  (if decide (H_noRangeEdgeBound ops) then [] else ["H_noRangeEdgeBound"]) ++
  (if decide (H_nonEmptyArgs genFlags ops) then [] else ["H_nonEmptyArgs"]) ++
  (if decide (H_keysUnaliased genFlags ops) then [] else ["H_keysUnaliased"])

/-! ### what Spark's analyzer additionally requires of (window, function) — used to scope the stream -/

def Bound.pos : Bound → Int
  | .unboundedPreceding => -(2 : Int) ^ 64
  | .unboundedFollowing => (2 : Int) ^ 64
  | .currentRow => 0
  | .preceding k => -(k : Int)
  | .following k => k

def Bound.isOffset : Bound → Bool
  | .preceding _ => true | .following _ => true | _ => false

def frameOk (w : WinDef) : Bool :=
  match w.frame with
  | none => true
  | some f =>
    decide (f.lo ≠ .unboundedFollowing) && decide (f.hi ≠ .unboundedPreceding) && decide (f.lo.pos ≤ f.hi.pos) &&
    (match f.kind with
     | .rows => true
     | .range => !w.order.isEmpty && (!(f.lo.isOffset || f.hi.isOffset) || w.order.length == 1))

def WFn.needsOrderNoFrame : WFn → Bool
  | .rowNumber | .rank | .denseRank | .ntile _ | .lag .. | .lead .. => true
  | _ => false

/-- does Spark accept `fn.over(w)`?  (ranking / offset functions need an ORDER BY and take no frame) -/
def sparkAccepts (w : WinDef) (fn : WFn) : Bool :=
  frameOk w &&
  (if fn.needsOrderNoFrame then !w.order.isEmpty && w.frame.isNone else true) &&
  (match fn with | .ntile n => decide (n ≥ 1) | _ => true)

/-! ### the engine's 64-bit arithmetic on RANGE offsets -/

def Bound.offset : Bound → Int
  | .preceding k => -(k : Int)
  | .following k => k
  | _ => 0

/-- ASSUMED (DuckDB): a RANGE offset boundary is computed as `key ± n` in INT64 for every row with a
    non-NULL key, and the query fails when that overflows -/
def engineOverflows (T : Table) (w : WinDef) : Bool :=
  match w.frame, w.order.head? with
  | some f, some k =>
    decide (f.kind = .range) &&
    T.rows.any (fun r =>
      match lookup T.cols r k.name with
      | .int a => [f.lo, f.hi].any (fun b => b.isOffset &&
          (match shifted k a b.offset with | .int v => decide (v < longMin ∨ v > longMax) | _ => false))
      | _ => false)
  | _, _ => false

end Sqlframe.Win
