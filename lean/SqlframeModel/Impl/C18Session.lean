/-
Impl/C18Session.lean — model of the session registries and of identifier normalisation (property C18).

What is modelled (around the regenerated Gen.SessionIds):
* the registries of `_BaseSession`: `known_ids`, `known_branch_ids`, `known_sequence_ids`,
  `name_to_sequence_id_mapping`, the `incrementing_id` counter, what the catalog API reports and the
  temporary engine objects it does not report;
* ids come from an explicit supply: every step carries the ids it draws (`uuid4` is an oracle; freshness is
  a hypothesis of the theorems, not a property of the model);
* the steps that change the session: creating a DataFrame, `alias`, a schema lookup, registering a view —
  and those that do not: lazy transformations, actions, actions that raise;
* `normalize`'s two lookups for one identifier against the CTE chain of the expression being normalised:
  alias name ↦ latest CTE whose sequence id was registered under that name; known id ↦ latest CTE with
  that branch or sequence id (plus the join special case).
-/
import SqlframeModel.Core.Value
import SqlframeModel.Gen.SessionIds
import SqlframeModel.Gen.Views
namespace Sqlframe.Sess
open Sqlframe Sqlframe.Gen

abbrev Id := Name

/-- what `normalize` reads of a CTE: its name and the two ids attached to it -/
structure Cte where
  name : Name
  branch : Id
  seq : Id
  deriving DecidableEq, Repr

structure Session where
  knownIds : List Id
  branchIds : List Id
  seqIds : List Id
  aliasMap : List (Name × List Id)
  counter : Nat
  /-- objects the catalog API reports (registered temp views) -/
  catalogObjects : List Name
  /-- temporary engine objects the catalog API does not report (views made by schema lookups) -/
  engineTemp : List Name
  /-- column list the session catalog holds for each registered view name (what `session.sql` qualifies against) -/
  catalogCols : List (Name × List Name)
  deriving DecidableEq, Repr

def Session.fresh : Session := ⟨[], [], [], [], sessCounterStart, [], [], []⟩

def colsOf : List (Name × List Name) → Name → Option (List Name)
  | [], _ => none
  | (k, v) :: rest, n => if k = n then some v else colsOf rest n

def setCols : List (Name × List Name) → Name → List Name → List (Name × List Name)
  | [], n, cs => [(n, cs)]
  | (k, v) :: rest, n, cs => if k = n then (k, cs) :: rest else (k, v) :: setCols rest n cs

def lookupAlias : List (Name × List Id) → Name → List Id
  | [], _ => []
  | (k, v) :: rest, n => if k = n then v else lookupAlias rest n

def addAlias : List (Name × List Id) → Name → Id → List (Name × List Id)
  | [], n, id => [(n, [id])]
  | (k, v) :: rest, n, id => if k = n then (k, v ++ [id]) :: rest else (k, v) :: addAlias rest n id

inductive Step
  | create (b s : Id)        -- createDataFrame: a branch id, a sequence id, one counter value
  | derive (b s : Id)        -- session.sql / session.table(base table): a new frame, no counter value
  | alias (n : Name) (s : Id)
  | schemaLookup (v : Id)    -- df.schema / printSchema: a random id names a temporary engine view
  | registerView (n : Name) (cols : List Name)  -- createOrReplaceTempView of a frame with these columns
  | cacheCols (n : Name) (cols : List Name)     -- session.table(<permanent table>): the catalog caches the table's columns
  | transform                -- where / select / join / union / … : the copy keeps its ids
  | action                   -- collect / count / show / columns
  | failedAction             -- an action that raises
  deriving DecidableEq, Repr

def Step.ids : Step → List Id
  | .create b s => [b, s]
  | .derive b s => [b, s]
  | .alias _ s => [s]
  | .schemaLookup v => [v]
  | _ => []

def applyStep (σ : Session) : Step → Session
  | .create b s => { σ with knownIds := σ.knownIds ++ [b, s], branchIds := σ.branchIds ++ [b],
                            seqIds := σ.seqIds ++ [s], counter := σ.counter + sessCounterStep }
  | .derive b s => { σ with knownIds := σ.knownIds ++ [b, s], branchIds := σ.branchIds ++ [b], seqIds := σ.seqIds ++ [s] }
  | .alias n s =>
    if sessAliasAppendsFreshSeq then
      { σ with knownIds := σ.knownIds ++ [s], seqIds := σ.seqIds ++ [s], aliasMap := addAlias σ.aliasMap n s }
    else σ
  | .schemaLookup v =>
    { σ with knownIds := σ.knownIds ++ [v],
             engineTemp := if sessSchemaViaView && sessSchemaViewTemporary then σ.engineTemp ++ [v] else σ.engineTemp,
             catalogObjects := if sessSchemaViaView && !sessSchemaViewTemporary then σ.catalogObjects ++ [v] else σ.catalogObjects }
  | .registerView n cols =>
    { σ with catalogObjects := n :: σ.catalogObjects.filter (· ≠ n),
             catalogCols := match colsOf σ.catalogCols n with
               | some _ => if viewSchemaKeptOnReregister then σ.catalogCols else setCols σ.catalogCols n cols
               | none => setCols σ.catalogCols n cols }
  | .cacheCols n cols =>
    { σ with catalogCols := match colsOf σ.catalogCols n with
               | some _ => if sessLookupKeepsKnownCols then σ.catalogCols   -- add_table without replace: already known
                           else setCols σ.catalogCols n cols
               | none => setCols σ.catalogCols n cols }
  | .transform => σ
  | .action => σ
  | .failedAction => σ

/-- does the step belong to the read-only part of the API (no `createOrReplaceTempView`)? -/
def Step.readOnly : Step → Bool
  | .registerView _ _ => false
  | _ => true

def runSteps (σ : Session) : List Step → Session
  | [] => σ
  | st :: r => runSteps (applyStep σ st) r

/-! ### the two lookups of `normalize` -/

def scan (o : SessLookupOrder) (ctx : List Cte) : List Cte :=
  match o with
  | .latestFirst => ctx.reverse
  | .earliestFirst => ctx

/-- the candidates an alias lookup may pick from: the CTEs of the expression being normalised -/
def aliasCandidates (ctx : List Cte) : List Cte := scan sessAliasOrder ctx

/-- `replace_alias_name_with_cte_name` -/
def resolveAlias (m : List (Name × List Id)) (ctx : List Cte) (n : Name) : Option Name :=
  ((aliasCandidates ctx).find? (fun c => (lookupAlias m n).contains c.seq)).map (·.name)

/-- `replace_branch_and_sequence_ids_with_cte_name`; `joined` = names of the CTEs in the FROM/JOIN list -/
def resolveId (σ : Session) (ctx : List Cte) (joined : List Name) (id : Name) : Option Name :=
  if σ.knownIds.contains id then
    let inJoin := ctx.filter (fun c => joined.contains c.name)
    match sessIdJoinSpecialCase && σ.branchIds.contains id, inJoin with
    | true, l :: r :: _ =>
      if l.branch = r.branch then some l.name
      else ((scan sessIdOrder ctx).find? (fun c => c.branch = id || c.seq = id)).map (·.name)
    | _, _ => ((scan sessIdOrder ctx).find? (fun c => c.branch = id || c.seq = id)).map (·.name)
  else none

/-- what `normalize` turns one identifier into -/
def resolveIdent (σ : Session) (ctx : List Cte) (joined : List Name) (ident : Name) : Name :=
  let a := (resolveAlias σ.aliasMap ctx ident).getD ident
  (resolveId σ ctx joined a).getD a

/-! ### CTEs without ids

A CTE that came from the text of a `session.sql` statement carries no branch / sequence id.  The lookups
read `cte.args["sequence_id"]`: on such a CTE that raises `KeyError` (unless `Gen.sessLookupTotal`: `.get`). -/

structure CteO where
  name : Name
  ids : Option (Id × Id)      -- (branch id, sequence id)
  deriving DecidableEq, Repr

def CteO.toCte (c : CteO) : Option Cte := c.ids.map (fun p => ⟨c.name, p.1, p.2⟩)

/-- the CTEs the lookups can see when they skip CTEs without ids -/
def withIds (ctx : List CteO) : List Cte := ctx.filterMap CteO.toCte

def allHaveIds (ctx : List CteO) : Bool := ctx.all (fun c => c.ids.isSome)

/-- outcome of normalising one identifier -/
inductive Obs
  | ident (n : Name)
  | viewCols (cs : Option (List Name))
  | raised                                   -- KeyError
  | resolved (ts : List (Option Name))       -- the source each unqualified column of a `session.sql` statement is attributed to
  | state (tokens : List Name)               -- the state of an object P uses (a kept DataFrame, the reader `session.read` hands out)
  deriving DecidableEq, Repr

def hasKey (m : List (Name × List Id)) (n : Name) : Bool := m.any (fun p => p.1 = n)

def scanO (o : SessLookupOrder) (ctx : List CteO) : List CteO :=
  match o with
  | .latestFirst => ctx.reverse
  | .earliestFirst => ctx

/-- scanning for a CTE whose sequence id is in `ids` reaches a CTE without ids first -/
def aliasHitsBare (ids : List Id) : List CteO → Bool
  | [] => false
  | c :: rest =>
    match c.ids with
    | none => true
    | some p => if ids.contains p.2 then false else aliasHitsBare ids rest

/-- scanning for a CTE with branch or sequence id `id` reaches a CTE without ids first -/
def idHitsBare (id : Name) : List CteO → Bool
  | [] => false
  | c :: rest =>
    match c.ids with
    | none => true
    | some p => if p.1 = id || p.2 = id then false else idHitsBare id rest

/-- when do the lookups, as written (`cte.args["sequence_id"]`), raise KeyError for this identifier? -/
def raisesR (σ : Session) (ctx : List CteO) (joined : List Name) (ident : Name) : Bool :=
  !sessLookupTotal &&
  ((hasKey σ.aliasMap ident && aliasHitsBare (lookupAlias σ.aliasMap ident) (scanO sessAliasOrder ctx)) ||
   (let a := (resolveAlias σ.aliasMap (withIds ctx) ident).getD ident
    σ.knownIds.contains a &&
      (match sessIdJoinSpecialCase && σ.branchIds.contains a, ctx.filter (fun c => joined.contains c.name) with
       | true, l :: r :: _ =>
         if l.ids.isNone || r.ids.isNone then true
         else if l.ids.map (·.1) = r.ids.map (·.1) then false else idHitsBare a (scanO sessIdOrder ctx)
       | _, _ => idHitsBare a (scanO sessIdOrder ctx))))

/-- normalising one identifier: KeyError, or the result of the two lookups over the CTEs that carry ids -/
def resolveIdentR (σ : Session) (ctx : List CteO) (joined : List Name) (ident : Name) : Obs :=
  if raisesR σ ctx joined ident then .raised else .ident (resolveIdent σ (withIds ctx) joined ident)

/-! ### `session.sql`: which source an unqualified column belongs to

`session.sql` hands the statement to sqlglot's `qualify` with `schema = catalog._schema` and the regenerated
`infer_schema` argument (`Gen.sessSqlInferSchema`, a function of the session state).  What `Resolver.get_table`
does with an unqualified column is *assumed* (third party) and validated against the running code:
a column that occurs in the known column list of exactly one source belongs to it; otherwise, if
`infer_schema` and exactly one source has no known column list, it belongs to that one; otherwise it stays
unqualified and the statement is rejected. -/

/-- the sources whose known column list contains `c` -/
def occurrences (srcs : List (Name × List Name)) (c : Name) : List Name :=
  (srcs.filter (fun s => s.2.contains c)).map (·.1)

/-- the sources the schema knows nothing about (`not columns or "*" in columns`) -/
def withoutSchema (srcs : List (Name × List Name)) : List Name :=
  (srcs.filter (fun s => s.2.isEmpty || s.2.contains "*")).map (·.1)

def resolveCol (infer : Bool) (srcs : List (Name × List Name)) (c : Name) : Option Name :=
  match occurrences srcs c with
  | [t] => some t
  | _ => if infer then (match withoutSchema srcs with | [t] => some t | _ => none) else none

/-- the `infer_schema` argument `session.sql` passes, as a function of the session (regenerated expression
    over "the session holds a temp view" and "the catalog schema is empty") -/
def sqlInfer (σ : Session) : Bool := sessSqlInferSchema (!σ.catalogObjects.isEmpty) σ.catalogCols.isEmpty

/-- the column lists the catalog gives for the sources `(name in the statement, name in the catalog)` -/
def sourceCols (σ : Session) (srcs : List (Name × Name)) : List (Name × List Name) :=
  srcs.map (fun s => (s.1, (colsOf σ.catalogCols s.2).getD []))

/-- qualification of one single-scope statement: sources and unqualified column names -/
def resolveSql (σ : Session) (srcs : List (Name × Name)) (cols : List Name) : List (Option Name) :=
  cols.map (resolveCol (sqlInfer σ) (sourceCols σ srcs))

/-! ### histories: the steps of a program P interleaved with the steps of other work H -/

inductive Ev
  | step (own : Bool) (st : Step)                                  -- own = true: a step of P
  | query (ctx : List CteO) (joined : List Name) (ident : Name)    -- P normalises `ident` against chain `ctx`
  | readView (n : Name)                                            -- P's `session.sql` reads view `n`: which columns does the catalog give?
  | readSql (srcs : List (Name × Name)) (cols : List Name)         -- P's `session.sql` statement over these sources (alias, catalog name) with these unqualified columns
  | observe (tokens : List Name)                                   -- P uses an object in this state (nothing of the session is consulted)
  deriving Repr

/-- the identifiers P's expressions end up with and the view columns P's statements are qualified against, in order -/
def outs (σ : Session) : List Ev → List Obs
  | [] => []
  | .step _ st :: r => outs (applyStep σ st) r
  | .query ctx j ident :: r => resolveIdentR σ ctx j ident :: outs σ r
  | .readView n :: r => .viewCols (colsOf σ.catalogCols n) :: outs σ r
  | .readSql srcs cols :: r => .resolved (resolveSql σ srcs cols) :: outs σ r
  | .observe ts :: r => .state ts :: outs σ r

def finalSession (σ : Session) : List Ev → Session
  | [] => σ
  | .step _ st :: r => finalSession (applyStep σ st) r
  | _ :: r => finalSession σ r

/-- view names the history's steps register -/
def foreignViews : List Ev → List Name
  | [] => []
  | .step false (.registerView n _) :: r => n :: foreignViews r
  | _ :: r => foreignViews r

/-- permanent tables whose columns the history's lookups (`session.table`) make the catalog cache -/
def foreignLookups : List Ev → List Name
  | [] => []
  | .step false (.cacheCols n _) :: r => n :: foreignLookups r
  | _ :: r => foreignLookups r

/-- P alone: the history's steps removed -/
def onlyOwn : List Ev → List Ev
  | [] => []
  | .step false _ :: r => onlyOwn r
  | e :: r => e :: onlyOwn r

/-- ids drawn by the history's steps -/
def foreignIds : List Ev → List Id
  | [] => []
  | .step false st :: r => st.ids ++ foreignIds r
  | _ :: r => foreignIds r

/-- names a query depends on: the identifier, and the names / ids of its CTE chain -/
def queryNames (ctx : List Cte) (ident : Name) : List Name :=
  ident :: ctx.flatMap (fun c => [c.name, c.branch, c.seq])

/-- H_idsFresh (decidable): no id drawn by the history occurs among the names P's queries depend on -/
def idsFresh : List Ev → List Id → Bool
  | [], _ => true
  | .query ctx _ ident :: r, X => (queryNames (withIds ctx) ident).all (fun n => !X.contains n) && idsFresh r X
  | _ :: r, X => idsFresh r X

/-- H_ctesHaveIds (decidable): every CTE of the expressions P normalises against carries ids
    (or the lookups skip CTEs without ids: `Gen.sessLookupTotal`) -/
def ctesHaveIds : List Ev → Bool
  | [] => true
  | .query ctx _ _ :: r => (sessLookupTotal || allHaveIds ctx) && ctesHaveIds r
  | _ :: r => ctesHaveIds r

/-- H_viewsOwn / H_tableLookupsOwn (decidable): P's statements read no name in `V` -/
def viewsOwn : List Ev → List Name → Bool
  | [], _ => true
  | .readView n :: r, V => !V.contains n && viewsOwn r V
  | .readSql srcs _ :: r, V => srcs.all (fun s => !V.contains s.2) && viewsOwn r V
  | _ :: r, V => viewsOwn r V

/-- H_sessionSqlStateless (decidable): the `infer_schema` argument of `session.sql` does not depend on the
    session (`Gen.sessSqlInferSchema` is constant), or P has no `session.sql` statement with unqualified columns -/
def sqlInferConst : Bool :=
  [true, false].all (fun a => [true, false].all (fun b => sessSqlInferSchema a b == sessSqlInferSchema false true))

def noUnqualifiedSql : List Ev → Bool
  | [] => true
  | .readSql _ cols :: r => cols.isEmpty && noUnqualifiedSql r
  | _ :: r => noUnqualifiedSql r

/-! ### SQL text: CTE names are content hashes -/

/-- a CTE as the text generator sees it -/
structure TCte where
  name : Name
  payload : String          -- the SQL text of the body with holes for the CTE names it reads
  reads : List Name         -- in-memory names of the CTEs it reads
  lit : Option Name         -- the disambiguating uuid literal, if one was inserted
  branch : Id
  seq : Id
  counterVal : Nat
  deriving DecidableEq, Repr

def renameOf (ren : List (Name × Name)) (n : Name) : Name :=
  match ren.find? (fun p => p.1 = n) with
  | some p => p.2
  | none => n

/-- what `_create_hash_from_expression` is fed for one CTE (by the regenerated `sessHashParts`) -/
def hashInput (parts : List SessHashPart) (c : TCte) : String :=
  parts.foldl (fun acc p => acc ++ "|" ++ match p with
    | .sqlText => c.payload ++ "(" ++ ",".intercalate c.reads ++ ")" ++ (c.lit.getD "")
    | .randomId => c.branch
    | .sequenceId => c.seq
    | .counterValue => toString c.counterVal) ""

/-- `_replace_cte_names_with_hashes`: every CTE is renamed to the hash of its (original) body text; the
    references are renamed accordingly.  Returns the rendered chain: (new name, payload, renamed reads, literal). -/
def rehash (H : String → Name) (parts : List SessHashPart) (chain : List TCte) : List (Name × String × List Name × Option Name) :=
  let ren := chain.map (fun c => (c.name, H (hashInput parts c)))
  chain.map (fun c => (renameOf ren c.name, c.payload, c.reads.map (renameOf ren), c.lit))

def TCte.eraseIds (c : TCte) : TCte := { c with branch := "", seq := "", counterVal := 0 }

end Sqlframe.Sess
