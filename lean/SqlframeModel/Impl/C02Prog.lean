/-
Impl/C02Prog.lean — whole-program model for C02: small straight-line DataFrame programs (frames defined from
earlier frames by where / select / alias / join / crossJoin / limit) run

  * by `runImpl`: a hand model of what sqlframe does — CTE lists carrying branch / sequence ids, the
    `operation` wrapper (decisions from `Gen.Operations` / `Gen.Methods`), `_convert_leaf_to_cte`, `normalize`
    (alias / branch id -> CTE name incl. the documented "reference the left table" rule), `_handle_self_join`,
    `_resolve_ambiguous_columns`, `join` (all list code from Impl/C02Join.lean over `Gen.Joins`), `select`,
    `where`, `alias`, display names — evaluated with the assumed engine semantics (Core/Sql + `joinTables`);
  * by `runSpec`: PySpark's meaning of the same program (attribute identities, self-join de-duplication of the
    right side, USING-style column rule, ambiguity errors = outside PySpark's domain).

`runImpl` also reports which named scope hypotheses of `C02_partial` the program violates.
Model the code that exists: every defect listed in Props/C02.lean is reproduced here, not repaired.
-/
import SqlframeModel.Impl.C02Join
import SqlframeModel.Gen.JoinMerge
namespace Sqlframe
open Gen

/-! ### programs -/

inductive Ref
  | name (c : Name)                          -- "c" or F.col("c")
  | df (f : Nat) (c : Name)                  -- frame_f["c"]
  | alias (a : Name) (c : Name) (asStr : Bool)  -- F.col("a.c"), or the plain string "a.c" when asStr
  deriving Repr, DecidableEq

inductive PExpr
  | ref (r : Ref)
  | lit (v : Val)
  | bin (op : BinOp) (a b : PExpr)
  | not (a : PExpr)
  | isNull (a : PExpr)
  deriving Repr, DecidableEq

inductive OnForm
  | none
  | names (ks : List Name)
  | exprs (es : List PExpr)
  deriving Repr, DecidableEq

/-- one argument of `select(...)`: a column (folded name `n`, spelled `disp` by the user), `'*'`, `frame_f['*']`,
    `F.col('a.*')` / the string `'a.*'` -/
inductive SItem
  | col (n disp : Name) (e : PExpr)
  | star
  | starDf (f : Nat)
  | starAlias (a : Name) (asStr : Bool)
  deriving Repr, DecidableEq

/-- `SELECT c AS n, … FROM src [WHERE p] [AND k IN (SELECT k FROM inSrc)]` inside a `session.sql` statement (`p` over bare
    column names); `inSrc` lets one CTE read two others -/
structure SqlSel where
  src : Name
  items : List (Name × Name)      -- (output name, column read)
  wher : Option PExpr
  inSrc : Option Name := none
  deriving Repr, DecidableEq

inductive SqlBody
  | values (t : Table)            -- SELECT * FROM (VALUES …) AS t(cols)
  | sel (q : SqlSel)
  deriving Repr, DecidableEq

/-- `name AS (body)` of the statement's WITH clause: the NAME is the user's, kept verbatim by `session.sql` -/
structure SqlCte where
  name : Name
  body : SqlBody
  deriving Repr, DecidableEq

inductive FrameDef
  | base (t : Table)
  | baseSpelled (t : Table) (disp : List Name)   -- columns created with the spelling `disp`; `t.cols` are the folded names
  | wher (src : Nat) (p : PExpr)
  | select (src : Nat) (items : List (Name × PExpr))
  | selectS (src : Nat) (items : List SItem)     -- select with star arguments / respelled names
  | sqlq (ctes : List SqlCte) (main : SqlSel)    -- session.sql("WITH … SELECT …")
  | alias (src : Nat) (a : Name)
  | join (l r : Nat) (on : OnForm) (how : String)
  | crossJoin (l r : Nat)
  | limit (src : Nat) (n : Nat)
  | distinct (src : Nat)                         -- distinct() / dropDuplicates() without a subset
  deriving Repr, DecidableEq

def Ref.colName : Ref → Name
  | .name c => c
  | .df _ c => c
  | .alias _ c _ => c

def PExpr.refs : PExpr → List Ref
  | .ref r => [r]
  | .lit _ => []
  | .bin _ a b => a.refs ++ b.refs
  | .not a => a.refs
  | .isNull a => a.refs

/-! ### the implementation model -/

structure Cte where
  name : Name
  branch : Nat
  seq : Nat
  tbl : Table
  tag : Option SqlBody := none   -- what the statement text says about a CTE beyond its name (user-named CTEs: their body)
  deriving Repr, DecidableEq

structure JClause where
  jt : String
  right : Name
  on : Option Expr
  deriving Repr, DecidableEq

/-- one DataFrame object: `expression` (CTEs + the open SELECT), ids, `last_op`, display names -/
structure SDF where
  ctes : List Cte
  from_ : Name
  leaf : Option Table            -- `FROM VALUES …` of createDataFrame
  joins : List JClause
  sel : List (Name × Expr)
  wher : List Expr
  limit : Option Nat
  last : Op
  branch : Nat
  seq : Nat
  known : List Nat               -- frames whose join_on_uuid is in `known_uuids` (this frame and its copy-ancestors)
  display : List (Name × Name)   -- display_name_mapping, newest first
  broken : Bool := false         -- the statement text no longer binds (the engine rejects it when it is finally run)
  distinct : Bool := false       -- SELECT DISTINCT
  deriving Repr

/-- what `_create_hash_from_expression` hashes: the open SELECT and the names of the CTEs in its WITH clause -/
structure CteContent where
  withNames : List (Name × Option SqlBody)
  from_ : Name
  leaf : Option Table
  joins : List JClause
  sel : List (Name × Expr)
  wher : List Expr
  limit : Option Nat
  distinct : Bool := false
  deriving Repr, DecidableEq

/-- session-wide state: fresh ids, `name_to_sequence_id_mapping`, interned CTE names, scope hypotheses seen violated -/
structure Sess where
  next : Nat := 0
  aliases : List (Name × Nat) := []
  flags : List String := []
  interned : List (CteContent × Name) := []   -- CTE names are content hashes: equal content, equal name
  deriving Repr

def Sess.flag (s : Sess) (b : Bool) (h : String) : Sess :=
  if b && !(s.flags.contains h) then { s with flags := s.flags ++ [h] } else s

def cteName (n : Nat) : Name := "t" ++ Nat.repr n

/-- identifiers in a column's table position before / after `normalize` -/
inductive TRef
  | cte (n : Name)
  | branch (b : Nat)
  | aliasNm (a : Name)
  deriving Repr, DecidableEq

inductive QExpr
  | col (t : Option TRef) (c : Name) (uuid : Option Nat)
  | lit (v : Val)
  | bin (op : BinOp) (a b : QExpr)
  | not (a : QExpr)
  | isNull (a : QExpr)
  deriving Repr, DecidableEq

def toQ (frames : List SDF) : PExpr → QExpr
  | .ref (.name c) => .col none c none
  | .ref (.df f c) => .col (some (.branch ((frames[f]?.map (·.branch)).getD 0))) c (some f)
  | .ref (.alias a c _) => .col (some (.aliasNm a)) c none
  | .lit v => .lit v
  | .bin op a b => .bin op (toQ frames a) (toQ frames b)
  | .not a => .not (toQ frames a)
  | .isNull a => .isNull (toQ frames a)

/-- the SQL the engine receives; an identifier that was never turned into a CTE name is an error -/
def QExpr.toExpr : QExpr → Option Expr
  | .col none c _ => some (.col c)
  | .col (some (.cte t)) c _ => some (.col (qual t c))
  | .col (some _) _ _ => none
  | .lit v => some (.lit v)
  | .bin op a b => match a.toExpr, b.toExpr with
    | some x, some y => some (.bin op x y)
    | _, _ => none
  | .not a => a.toExpr.map .not
  | .isNull a => a.toExpr.map .isNull

/-! #### evaluation (assumed engine semantics) -/

def SDF.tableOf (d : SDF) (n : Name) : Option Table :=
  match d.leaf with
  | some T => if n = d.from_ then some T else none
  | none => (d.ctes.find? (·.name = n)).map (·.tbl)

def qualifiedNames (scope : List (Name × List Name)) : List Name :=
  scope.flatMap (fun t => t.2.map (qual t.1))

/-- engine name resolution: qualified names as they are, an unqualified name must be in exactly one table -/
def qualifyExpr (scope : List (Name × List Name)) : Expr → Option Expr
  | .col n =>
    if n ∈ qualifiedNames scope then some (.col n)
    else match candidates scope n with
      | [t] => some (.col (qual t n))
      | _ => none
  | .lit v => some (.lit v)
  | .bin op a b => match qualifyExpr scope a, qualifyExpr scope b with
    | some x, some y => some (.bin op x y)
    | _, _ => none
  | .not a => (qualifyExpr scope a).map .not
  | .neg a => (qualifyExpr scope a).map .neg
  | .isNull a => (qualifyExpr scope a).map .isNull
  | .ite c t e => match qualifyExpr scope c, qualifyExpr scope t, qualifyExpr scope e with
    | some x, some y, some z => some (.ite x y z)
    | _, _, _ => none

def qualifyAll (scope : List (Name × List Name)) : List Expr → Option (List Expr)
  | [] => some []
  | e :: es => match qualifyExpr scope e, qualifyAll scope es with
    | some x, some xs => some (x :: xs)
    | _, _ => none

def qualifyItems (scope : List (Name × List Name)) : List (Name × Expr) → Option (List (Name × Expr))
  | [] => some []
  | it :: es => match qualifyExpr scope it.2, qualifyItems scope es with
    | some x, some xs => some ((it.1, x) :: xs)
    | _, _ => none

/-- FROM a [JOIN b ON …]*: left-associated; returns the value and the tables visible afterwards -/
def evalJoins (d : SDF) : List JClause → Table × List (Name × List Name) → Option (Table × List (Name × List Name))
  | [], acc => some acc
  | j :: js, (acc, scope) =>
    match d.tableOf j.right, kindOfJoinType j.jt with
    | some R, some kind =>
      let scope' := scope ++ [(j.right, R.cols)]
      let onq : Option (Option Expr) := match j.on with
        | none => some none
        | some e => (qualifyExpr scope' e).map some
      match onq with
      | none => none
      | some on => evalJoins d js (joinTables kind on acc (qtable j.right R), if kind.keepsRight then scope' else scope)
    | _, _ => none

def SDF.eval (d : SDF) : Option Table :=
  if d.broken then none else
  match d.tableOf d.from_ with
  | none => none
  | some T0 =>
    match evalJoins d d.joins (qtable d.from_ T0, [(d.from_, T0.cols)]) with
    | none => none
    | some (src, scope) =>
      match qualifyAll scope d.wher, qualifyItems scope d.sel with
      | some w, some s => some (evalBlock { wher := w, sel := s, limit := d.limit, distinct := d.distinct } src)
      | _, _ => none

/-- `df.columns`: the select list's names through the display-name mapping -/
def SDF.columns (d : SDF) : List Name :=
  d.sel.map (fun it => ((d.display.find? (·.1 = it.1)).map (·.2)).getD it.1)

/-! #### `_convert_leaf_to_cte` and the `operation` wrapper -/

def SDF.wrap (s : Sess) (d : SDF) (seq : Option Nat) : Option (Sess × SDF) :=
  match d.eval with
  | none => none
  | some T =>
    let content : CteContent := { withNames := d.ctes.map (fun c => (c.name, c.tag)), from_ := d.from_, leaf := d.leaf, joins := d.joins,
                                  sel := d.sel, wher := d.wher, limit := d.limit, distinct := d.distinct }
    let (s, name) : Sess × Name := match s.interned.find? (fun x => x.1 = content) with
      | some x => (s, x.2)
      | none => ({ s with next := s.next + 1, interned := s.interned ++ [(content, cteName s.next)] }, cteName s.next)
    let cte : Cte := { name := name, branch := d.branch, seq := seq.getD d.seq, tbl := T }
    let s := s.flag (decide (¬ T.cols.Nodup)) "H_noDupNamesThroughWrap"
    some (s, { d with ctes := d.ctes ++ [cte], from_ := name, leaf := none, joins := [], sel := identSel T.cols,
                      wher := [], limit := none, distinct := false, seq := seq.getD d.seq })

/-- `operation(op).wrapper` up to the call of the body: the frame the body sees and `new_op` -/
def enterOp (s : Sess) (tag : Option Op) (d : SDF) : Option (Sess × SDF × Op) :=
  match tag with
  | none => some (s, d, d.last)
  | some op =>
    let r1 : Option (Sess × SDF) :=
      if initCond d.last then (d.wrap s none).map (fun p => (p.1, { p.2 with last := initReset })) else some (s, d)
    match r1 with
    | none => none
    | some (s, d) =>
      let new := newOp op d.last
      if wrapCond d.last new then (d.wrap s none).map (fun p => (p.1, p.2, new)) else some (s, d, new)

/-! #### `normalize`, `_handle_self_join`, `_resolve_ambiguous_columns` -/

def SDF.joinTableNames (d : SDF) : List Name :=
  if d.joins.isEmpty then [] else d.from_ :: d.joins.map (·.right)

def SDF.ctesInJoin (d : SDF) : List Cte := d.ctes.filter (fun c => c.name ∈ d.joinTableNames)

/-- does the documented "reference the left table" rule fire in this context? (some c0 = yes) -/
def leftRule (ctx : SDF) : Option (Option Cte) :=
  if ctx.joins.isEmpty then some none
  else match ctx.ctesInJoin with
    | c0 :: c1 :: rest => if c0.branch = c1.branch then (if rest.isEmpty then some (some c0) else none) else some none
    | _ => none   -- IndexError in the real code

/-- one identifier; `none` = the real code raises (AssertionError / IndexError) -/
def normTRef (s : Sess) (ctx : SDF) : TRef → Option TRef
  | .cte n => some (.cte n)
  | .aliasNm a =>
    let seqs := (s.aliases.filter (·.1 = a)).map (·.2)
    match ctx.ctes.reverse.find? (fun c => c.seq ∈ seqs) with
    | some c => some (.cte c.name)
    | none => some (.aliasNm a)
  | .branch b =>
    match leftRule ctx with
    | none => none
    | some (some c0) => some (.cte c0.name)
    | some none =>
      match ctx.ctes.reverse.find? (fun c => c.branch = b) with
      | some c => some (.cte c.name)
      | none => some (.branch b)

def normalizeQ (s : Sess) (ctx : SDF) : QExpr → Option QExpr
  | .col none c u => some (.col none c u)
  | .col (some t) c u => (normTRef s ctx t).map (fun t' => .col (some t') c u)
  | .lit v => some (.lit v)
  | .bin op a b => match normalizeQ s ctx a, normalizeQ s ctx b with
    | some x, some y => some (.bin op x y)
    | _, _ => none
  | .not a => (normalizeQ s ctx a).map .not
  | .isNull a => (normalizeQ s ctx a).map .isNull

def normalizeAll (s : Sess) (ctx : SDF) : List QExpr → Option (List QExpr)
  | [] => some []
  | e :: es => match normalizeQ s ctx e, normalizeAll s ctx es with
    | some x, some xs => some (x :: xs)
    | _, _ => none

/-- does `normalize` meet a branch id while the left rule is armed? -/
def QExpr.hasBranchRef : QExpr → Bool
  | .col (some (.branch _)) _ _ => true
  | .col _ _ _ => false
  | .lit _ => false
  | .bin _ a b => a.hasBranchRef || b.hasBranchRef
  | .not a => a.hasBranchRef
  | .isNull a => a.hasBranchRef

def leftRuleArmed (ctx : SDF) : Bool := match leftRule ctx with
  | some (some _) => true
  | none => true
  | _ => false

/-- `_handle_self_join`: columns carrying a uuid known only to the other frame point at its latest CTE -/
def selfJoinFix (selfKnown otherKnown : List Nat) (right : Name) : QExpr → QExpr
  | .col t c (some u) => if u ∈ otherKnown && !(u ∈ selfKnown) then .col (some (.cte right)) c (some u) else .col t c (some u)
  | .col t c none => .col t c none
  | .lit v => .lit v
  | .bin op a b => .bin op (selfJoinFix selfKnown otherKnown right a) (selfJoinFix selfKnown otherKnown right b)
  | .not a => .not (selfJoinFix selfKnown otherKnown right a)
  | .isNull a => .isNull (selfJoinFix selfKnown otherKnown right a)

/-- the tables `_resolve_ambiguous_columns` walks for this frame (empty when the block has no join) -/
def SDF.walkTables (d : SDF) : List (Name × List Name) :=
  match d.joins with
  | [] => []
  | j0 :: _ => walkOrder j0.jt (d.ctesInJoin.map (fun c => (c.name, c.tbl.cols)))

/-- one expression; threads the names already resolved in this call (depth-first, left to right) -/
def resolveQ (tables : List (Name × List Name)) : List Name → QExpr → QExpr × List Name
  | before, .col none c u =>
    (match pickCte (candidates tables c) (before.count c) with
      | some t => .col (some (.cte t)) c u
      | none => .col none c u, before ++ [c])
  | before, .col (some t) c u => (.col (some t) c u, before)
  | before, .lit v => (.lit v, before)
  | before, .bin op a b =>
    let ra := resolveQ tables before a
    let rb := resolveQ tables ra.2 b
    (.bin op ra.1 rb.1, rb.2)
  | before, .not a => let r := resolveQ tables before a; (.not r.1, r.2)
  | before, .isNull a => let r := resolveQ tables before a; (.isNull r.1, r.2)

def resolveAllQ (tables : List (Name × List Name)) : List Name → List QExpr → List QExpr
  | _, [] => []
  | before, e :: es => let r := resolveQ tables before e; r.1 :: resolveAllQ tables r.2 es

def SDF.resolveAmbiguous (ctx : SDF) (es : List QExpr) : List QExpr :=
  if ctx.joins.isEmpty then es else resolveAllQ ctx.walkTables [] es

/-- `_ensure_and_normalize_cols(cols, expression)`: normalize in `nctx`, resolve ambiguity in `self` -/
def ensureNorm (s : Sess) (self nctx : SDF) (es : List QExpr) : Option (List QExpr) :=
  (normalizeAll s nctx es).map self.resolveAmbiguous

def toExprs : List QExpr → Option (List Expr)
  | [] => some []
  | e :: es => match e.toExpr, toExprs es with
    | some x, some xs => some (x :: xs)
    | _, _ => none

def isCoalesceItem (it : Name × Expr) : Bool := match it.2 with
  | .ite _ _ _ => true
  | _ => false

def SDF.coalesceNames (d : SDF) : List Name := if d.joins.isEmpty then [] else (d.sel.filter isCoalesceItem).map (·.1)

def isRightOuter (jt : String) : Bool := match kindOfJoinType jt with
  | some .rightOuter => true
  | _ => false

def isOuterRF (jt : String) : Bool := match kindOfJoinType jt with
  | some .rightOuter => true
  | some .fullOuter => true
  | _ => false

/-! #### `_add_ctes_to_expression` -/

structure Merged where
  ctes : List Cte
  right : Name          -- `join_expression.ctes[-1].alias`: the name the JOIN itself uses
  otherLatest : Name    -- `other_df.latest_cte_name` afterwards (the first renamed CTE is renamed in place, later ones are copies)
  sess : Sess
  renamed : List Name := []   -- the names that were taken (each such CTE got a fresh name)

/-- a CTE whose name is already present gets a fresh (random) name; CTE values are unaffected — that sentence is
    `C02_merge_preserves` (Props/C02.lean) over the name-level model of the same loop, Impl/C02Ctes.lean -/
def addCtes (s : Sess) (existing : List Cte) (other : List Cte) : Merged :=
  let step : (Sess × List Cte × Bool × Name × Name × List Name) → Cte → (Sess × List Cte × Bool × Name × Name × List Name) :=
    fun (s, acc, replaced, _, _, ren) c =>
      if acc.any (·.name = c.name) then
        let n := cteName s.next
        ({ s with next := s.next + 1 }, acc ++ [{ c with name := n }], true, n, (if replaced then c.name else n), ren ++ [c.name])
      else (s, acc ++ [c], replaced, c.name, c.name, ren)
  let r := other.foldl step (s, existing, false, "", "", [])
  { ctes := r.2.1, right := r.2.2.2.1, otherLatest := r.2.2.2.2.1, sess := r.1, renamed := r.2.2.2.2.2 }

/-- `replace_id_value` rewrites EVERY identifier equal to a renamed CTE's old name in the CTEs after it — also a column
    of that name (H_cteNameNotAColumn): is there a renamed CTE followed by a CTE that has a column called like it? -/
def renameHitsColumn (other : List Cte) (renamed : List Name) : Bool :=
  renamed.any (fun old => ((other.dropWhile (fun c => c.name ≠ old)).drop 1).any (fun c => old ∈ c.tbl.cols))

/-! #### method bodies -/

def andAll : List Expr → Option Expr
  | [] => none
  | e :: es => some (es.foldl (fun acc x => .bin .and acc x) e)

def setLastOn (js : List JClause) (on : Option Expr) : List JClause :=
  match js.reverse with
  | [] => []
  | j :: rest => (({ j with on := on } : JClause) :: rest).reverse

/-- names of unqualified column references in the user's expressions -/
def nameRefs (es : List PExpr) : List Name :=
  (es.flatMap PExpr.refs).filterMap (fun r => match r with | .name c => some c | _ => none)

def dfRefFrames (es : List PExpr) : List Nat :=
  (es.flatMap PExpr.refs).filterMap (fun r => match r with | .df f _ => some f | _ => none)

/-- `on=None`: is what `join` does with this spelling PySpark's join (that kind, condition TRUE)?  Either the rewrites
    keep the join type and substitute TRUE, or the join is an inner/cross join (a cross join is `inner ON TRUE`). -/
def onNoneOk (how : String) : Bool :=
  let st := rewriteArgs true how
  (!st.1 && kindOfJoinType (joinTypeOf st.2) = specKindOf how) ||
  (st.1 && kindOfJoinType (joinTypeOf st.2) = some .cross && (specKindOf how = some .inner || specKindOf how = some .cross))

/-- frames named by the second operand of an `==` / `<=>` between two `df[c]` references (meant as the right side) -/
def secondOperandFrames : PExpr → List Nat
  | .bin op (.ref (.df _ _)) (.ref (.df f2 _)) => if op = .eq || op = .nseq then [f2] else []
  | .bin _ a b => secondOperandFrames a ++ secondOperandFrames b
  | .not a => secondOperandFrames a
  | .isNull a => secondOperandFrames a
  | _ => []

/-- `join.__wrapped__(self, other, on, how)` -/
def joinBody (s : Sess) (frames : List SDF) (self other : SDF) (on : OnForm) (how : String) : Option (Sess × SDF) :=
  let onNone := decide (on = .none)
  let jt := joinTypeFor onNone how
  -- `on = lit(True)`: a missing condition that the rewrites replaced by TRUE
  let onTrue := onNone && !(rewriteArgs onNone how).1
  let on : OnForm := if onTrue then .exprs [.lit (.bool true)] else on
  let s := s.flag (onNone && !(onNoneOk how)) "H_onNoneInnerOrCross"
  match other.wrap s none with
  | none => none
  | some (s, otherDf) =>
    let mg := addCtes s self.ctes otherDf.ctes
    let s := mg.sess
    let right := mg.right
    let otherLatest := if rightNameSynced then mg.right else mg.otherLatest
    let s := s.flag (right ≠ otherLatest) "H_rightCteNameClash"
    let hit := renameHitsColumn otherDf.ctes mg.renamed
    let s := s.flag hit "H_cteNameNotAColumn"
    let jctes := mg.ctes
    let jexpr : SDF := { self with ctes := jctes, joins := self.joins ++ [{ jt := jt, right := right, on := none }], broken := self.broken || hit }
    let selfCols := self.sel.map (·.1)
    let otherCols := otherDf.sel.map (·.1)
    let userEs : List PExpr := match on with
      | .none => []
      | .names ks => ks.map (fun k => .ref (.name k))
      | .exprs es => es
    let s := s.flag (!self.coalesceNames.isEmpty) "H_fullOuterKeyRef"
    let s := s.flag (self.joins.any (fun j => match kindOfJoinType j.jt with
      | some k => !k.keepsRight
      | none => false)) "H_joinAfterSemiAnti"
    let s := s.flag ((userEs.map (toQ frames)).any QExpr.hasBranchRef && leftRuleArmed self) "H_noCommonAncestorRef"
    let s := s.flag (self.branch = other.branch &&
        ((userEs.flatMap secondOperandFrames).any (· ∈ self.known) ||
         (dfRefFrames userEs).any (fun f => some f = other.known.getLast? && f ∈ self.known)))
      "H_selfJoinSharedHandle"
    -- join_columns = self._ensure_and_normalize_cols(on); self._handle_self_join(other_df, join_columns)
    match ensureNorm s self self (userEs.map (toQ frames)) with
    | none => none
    | some cols1 =>
      let cols1 := if self.branch = otherDf.branch then cols1.map (selfJoinFix self.known otherDf.known otherLatest) else cols1
      let built : Option (Sess × Option Expr × List SelArg) :=
        if jt ≠ noConditionJoinType then
          match cols1 with
          | [] => none
          | .col _ _ _ :: _ =>
            let keys := cols1.filterMap (fun q => match q with | .col _ c _ => some c | _ => none)
            let tnames := jexpr.joinTableNames
            let cands := (jctes.filter (fun c => c.name ∈ tnames && c.name ≠ otherLatest)).map (fun c => (c.name, c.tbl.cols))
            let s := s.flag (!self.joins.isEmpty && (isOuterRF jt || self.joins.any (fun j => isOuterRF j.jt))) "H_nameJoinChain"
            let s := s.flag (keys.any (fun k => selfCols.count k ≥ 2 || otherCols.count k ≥ 2)) "H_nameJoinDupKeyName"
            (keyPairs cands otherLatest keys).map (fun pairs => (s, nameJoinOn pairs, nameJoinArgs jt selfCols otherCols pairs))
          | _ =>
            let s := s.flag (cols1.any QExpr.hasBranchRef && leftRuleArmed jexpr) "H_noCommonAncestorRef"
            match ensureNorm s self jexpr cols1 with
            | none => none
            | some cols2 => match toExprs cols2 with
              | none => none
              | some es => some (s, andAll es, exprJoinArgs jt selfCols otherCols)
        else some (s, none, exprJoinArgs jt selfCols otherCols)
      match built with
      | none => none
      | some (s, onE, args) =>
        let newDf : SDF := { jexpr with joins := setLastOn jexpr.joins onE }
        let tables := newDf.walkTables
        -- a reversed walk is only right for the key of a two-table right name-join
        let keyNames : List Name := match on with | .names ks => if self.joins.isEmpty then ks else [] | _ => []
        let s := s.flag (match newDf.joins with
            | j0 :: _ => resolveReversed (sideOfJoinType j0.jt) &&
                args.any (fun a => match a with
                  | .name c => (candidates tables c).length ≥ 2 && !(c ∈ keyNames)
                  | _ => false)
            | [] => false) "H_reversedWalkDupNames"
        -- new_df.display_name_mapping = {**…}: one spelling per folded name, in the generated order of precedence
        let disp := joinDisplayOrder.flatMap (fun sd => match sd with | .self => self.display | .other => otherDf.display)
        let keyNames' : List Name := match on with | .names ks => ks | _ => []
        let kindKeepsRight := match kindOfJoinType jt with | some k => k.keepsRight | none => true
        let s := s.flag (kindKeepsRight && self.display.any (fun e => otherDf.display.any (fun e' => e'.1 = e.1 && e'.2 ≠ e.2 &&
            !(e.1 ∈ keyNames' && !(isRightOuter jt))))) "H_displayNameFolded"
        some (s, { newDf with sel := resolveArgs tables [] args, display := disp })

/-- display name a select item contributes -/
def itemDisplay (it : Name × PExpr) : Name := match it.2 with
  | .ref (.alias a c true) => if stringDisplayIsColumnPart then c else a ++ "." ++ c
  | _ => it.1

def selectBody (s : Sess) (frames : List SDF) (d : SDF) (items : List (Name × PExpr)) : Option (Sess × SDF) :=
  let es := items.map (·.2)
  let s := s.flag ((nameRefs es).any (· ∈ d.coalesceNames)) "H_fullOuterKeyRef"
  let s := s.flag ((es.map (toQ frames)).any QExpr.hasBranchRef && leftRuleArmed d) "H_noCommonAncestorRef"
  let s := s.flag (!stringDisplayIsColumnPart && items.any (fun it => match it.2 with | .ref (.alias _ _ true) => true | _ => false)) "H_aliasQualifiedString"
  match ensureNorm s d d (es.map (toQ frames)) with
  | none => none
  | some qs => match toExprs qs with
    | none => none
    | some xs =>
      let sel := (items.map (·.1)).zip xs
      let disp := (items.map (fun it => (it.1, itemDisplay it))).reverse
      some (s, { d with sel := if selectAppendDefault then d.sel ++ sel else sel, display := disp ++ d.display })

def whereBody (s : Sess) (frames : List SDF) (d : SDF) (p : PExpr) : Option (Sess × SDF) :=
  let s := s.flag ((nameRefs [p]).any (· ∈ d.coalesceNames)) "H_fullOuterKeyRef"
  let s := s.flag ((toQ frames p).hasBranchRef && leftRuleArmed d) "H_noCommonAncestorRef"
  match ensureNorm s d d [toQ frames p] with
  | some [q] => match q.toExpr with
    | some e => some (s, { d with wher := if whereAppend then d.wher ++ [e] else [e] })
    | none => none
  | _ => none

def aliasBody (s : Sess) (d : SDF) (a : Name) : Option (Sess × SDF) :=
  let newSeq := s.next
  let s := { s with next := s.next + 1, aliases := s.aliases ++ [(a, newSeq)] }
  d.wrap s (some newSeq)

/-! #### `select` with star arguments (`_expand_star`) -/

/-- a select argument between `normalize` and `_expand_star`; `n` is the output name of a column argument -/
inductive QItem
  | e (n : Name) (q : QExpr)
  | star
  | tstar (t : TRef)
  deriving Repr, DecidableEq

def SItem.toQItem (frames : List SDF) : SItem → QItem
  | .col n _ e => .e n (toQ frames e)
  | .star => .star
  | .starDf f => .tstar (.branch ((frames[f]?.map (·.branch)).getD 0))
  | .starAlias a _ => .tstar (.aliasNm a)

def normalizeItems (s : Sess) (ctx : SDF) : List QItem → Option (List QItem)
  | [] => some []
  | it :: rest =>
    let r : Option QItem := match it with
      | .e n q => (normalizeQ s ctx q).map (.e n)
      | .star => some .star
      | .tstar t => (normTRef s ctx t).map .tstar
    match r, normalizeItems s ctx rest with
    | some x, some xs => some (x :: xs)
    | _, _ => none

/-- the columns `t.*` stands for, given the column list of the CTE named t -/
def starQ (t : Name) (cols : List Name) : List (Name × QExpr) :=
  cols.map (fun col => (col, QExpr.col (if starQualifiedByCte then some (.cte t) else none) col none))

/-- `_expand_star`: `*` is the current select list by bare name; `t.*` the columns of the CTE named t (qualified with t, or
    bare, as generated); `none` = ValueError("Could not find table to expand star") -/
def expandItem (d : SDF) : QItem → Option (List (Name × QExpr))
  | .e n q => some [(n, q)]
  | .star => if starPlainFromSelect then some (d.sel.map (fun it => (it.1, QExpr.col none it.1 none))) else none
  | .tstar (.cte t) =>
    match d.ctes.find? (·.name = t) with
    | some c => some (starQ t c.tbl.cols)
    | none => none
  | .tstar _ => none

def expandItems (d : SDF) : List QItem → Option (List (Name × QExpr))
  | [] => some []
  | it :: rest => match expandItem d it, expandItems d rest with
    | some xs, some ys => some (xs ++ ys)
    | _, _ => none

/-- put resolved column arguments back into their places -/
def refill : List QItem → List QExpr → List QItem
  | [], _ => []
  | .e n _ :: rest, q :: qs => .e n q :: refill rest qs
  | it :: rest, qs => it :: refill rest qs

/-- `_ensure_and_normalize_cols(cols)` with stars: normalize, expand, resolve ambiguous names (in the generated order) -/
def ensureNormItems (s : Sess) (d : SDF) (items : List QItem) : Option (List (Name × QExpr)) :=
  match normalizeItems s d items with
  | none => none
  | some ns =>
    if expandBeforeResolve then
      (expandItems d ns).map (fun xs => (xs.map (·.1)).zip (d.resolveAmbiguous (xs.map (·.2))))
    else
      expandItems d (refill ns (d.resolveAmbiguous (ns.filterMap (fun it => match it with | .e _ q => some q | _ => none))))

/-- Python `for index in order: l.pop(index)`; `none` = IndexError -/
def popSeq {α} : List Nat → List α → Option (List α)
  | [], l => some l
  | i :: is, l => if i < l.length then popSeq is (l.eraseIdx i) else none

/-- positions of the elements satisfying `p` -/
def idxOf {α} (p : α → Bool) (l : List α) : List Nat := (l.zipIdx.filter (fun x => p x.1)).map (·.2)

/-- the spellings one folded name has in a display-name list -/
def spellingsOf (disp : List (Name × Name)) (n : Name) : List Name := (disp.filter (·.1 = n)).map (·.2)

def twoSpellings (disp : List (Name × Name)) (n : Name) : Bool := match spellingsOf disp n with
  | a :: rest => rest.any (· ≠ a)
  | [] => false

def SItem.isStar : SItem → Bool
  | .col _ _ _ => false
  | _ => true

def SItem.expr? : SItem → Option PExpr
  | .col _ _ e => some e
  | _ => none

/-- display name a column argument contributes -/
def sitemDisplay : SItem → Name × Name
  | .col n disp (.ref (.alias a c true)) => (n, if stringDisplayIsColumnPart then disp else a ++ "." ++ c)
  | .col n disp _ => (n, disp)
  | _ => ("*", "*")

def selectSBody (s : Sess) (frames : List SDF) (d : SDF) (items : List SItem) : Option (Sess × SDF) :=
  let es := items.filterMap SItem.expr?
  let plainStar := items.any (fun it => it = .star)
  let s := s.flag ((nameRefs es ++ (if plainStar then d.sel.map (·.1) else [])).any (· ∈ d.coalesceNames)) "H_fullOuterKeyRef"
  let qitems := items.map (SItem.toQItem frames)
  let branchRef := qitems.any (fun it => match it with
    | .e _ q => q.hasBranchRef
    | .tstar (.branch _) => true
    | _ => false)
  let s := s.flag (branchRef && leftRuleArmed d) "H_noCommonAncestorRef"
  let s := s.flag (!stringDisplayIsColumnPart && items.any (fun it => match it with | .col _ _ (.ref (.alias _ _ true)) => true | _ => false)) "H_aliasQualifiedString"
  match ensureNormItems s d qitems with
  | none => none
  | some nqs => match toExprs (nqs.map (·.2)) with
    | none => none
    | some xs =>
      let sel := (nqs.map (·.1)).zip xs
      -- `_update_display_name_mapping(unexpanded_columns, user_cols)` after the star positions were popped
      let starIdx := idxOf SItem.isStar items
      match popSeq (if starPopsBackToFront then starIdx.reverse else starIdx) (items.map sitemDisplay) with
      | none => none
      | some pairs =>
        -- a column that arrives through a star keeps whatever spelling the inherited mapping has for its folded name
        let starNames := (nqs.map (·.1)).filter (fun n => !(items.any (fun it => match it with | .col m _ _ => m = n | _ => false)))
        -- (one spelling per folded name: also when the same name is listed again, spelled differently)
        let disp' := pairs.reverse ++ d.display
        let outNames := nqs.map (·.1)
        let s := s.flag (outNames.any (fun n => twoSpellings disp' n && (outNames.count n ≥ 2 || n ∈ starNames))) "H_displayNameFolded"
        some (s, { d with sel := if selectAppendDefault then d.sel ++ sel else sel, display := disp' })

/-! #### `session.sql("WITH … SELECT …")` -/

def PExpr.plain : PExpr → Option Expr
  | .ref (.name c) => some (.col c)
  | .ref _ => none
  | .lit v => some (.lit v)
  | .bin op a b => match a.plain, b.plain with
    | some x, some y => some (.bin op x y)
    | _, _ => none
  | .not a => a.plain.map .not
  | .isNull a => a.plain.map .isNull

/-- one SELECT of the statement over the CTEs defined so far (newest first); `none` = the engine rejects it -/
def evalSqlSel (env : List (Name × Table)) (q : SqlSel) : Option Table :=
  match env.find? (·.1 = q.src) with
  | none => none
  | some (_, T) =>
    let w : Option (List Expr) := match q.wher with
      | none => some []
      | some p => p.plain.map (fun e => [e])
    -- `k IN (SELECT k FROM inSrc)`: TRUE only for a non-NULL key that occurs there
    let semi : Option (Option (List Val)) := match q.inSrc with
      | none => some none
      | some o => match env.find? (·.1 = o) with
        | some (_, O) => if "k" ∈ O.cols && "k" ∈ T.cols then some (some (O.rows.map (fun r => lookup O.cols r "k"))) else none
        | none => none
    match w, semi with
    | some ws, some sm =>
      if q.items.all (fun it => it.2 ∈ T.cols) && (nameRefs q.wher.toList).all (· ∈ T.cols) then
        let T' : Table := match sm with
          | none => T
          | some vs => { T with rows := T.rows.filter (fun r => let v := lookup T.cols r "k"; v ≠ .null && vs.contains v) }
        some (evalBlock { wher := ws, sel := q.items.map (fun it => (it.1, Expr.col it.2)) } T')
      else none
    | _, _ => none

def evalSqlBody (env : List (Name × Table)) : SqlBody → Option Table
  | .values T => some T
  | .sel q => evalSqlSel env q

/-- the WITH clause, in order; returns (name, value) of every CTE, in order -/
def evalSqlCtes : List (Name × Table) → List SqlCte → Option (List (Name × Table))
  | _, [] => some []
  | env, c :: cs =>
    match evalSqlBody env c.body with
    | none => none
    | some T => (evalSqlCtes ((c.name, T) :: env) cs).map (fun r => (c.name, T) :: r)

/-- `session.sql`: the statement's own CTEs keep their names (no branch / sequence id: ids nothing refers to), the final
    SELECT is frozen by `_convert_leaf_to_cte` -/
def sqlBody (s : Sess) (idx : Nat) (ctes : List SqlCte) (main : SqlSel) : Option (Sess × SDF) :=
  match evalSqlCtes [] ctes with
  | none => none
  | some vals =>
    let b := s.next
    let user : List Cte := (ctes.zip vals).zipIdx.map (fun x =>
      { name := x.1.1.name, branch := b + 2 + 2 * x.2, seq := b + 3 + 2 * x.2, tbl := x.1.2.2, tag := some x.1.1.body })
    let s := { s with next := b + 2 + 2 * ctes.length }
    match (if main.inSrc.isSome then none else evalSqlSel vals.reverse main) with   -- (the final SELECT reads one CTE)
    | none => none
    | some _ =>
      let w : List Expr := match main.wher.bind PExpr.plain with
        | some e => [e]
        | none => []
      let d : SDF := { ctes := user, from_ := main.src, leaf := none, joins := [], sel := main.items.map (fun it => (it.1, Expr.col it.2)),
                       wher := w, limit := none, last := .init, branch := b, seq := b + 1, known := [idx], display := [] }
      d.wrap s none

def finish (r : Option (Sess × SDF)) (new : Op) (idx : Nat) (known : List Nat) : Option (Sess × SDF) :=
  r.map (fun p => (p.1, { p.2 with last := lastAfter new p.2.last, known := known ++ [idx] }))

/-- one frame definition; `idx` is the index the new frame gets -/
def stepImpl (s : Sess) (frames : List SDF) (idx : Nat) : FrameDef → Option (Sess × SDF)
  | .base T =>
    some ({ s with next := s.next + 2 },
      { ctes := [], from_ := "values", leaf := some T, joins := [], sel := identSel T.cols, wher := [], limit := none,
        last := .init, branch := s.next, seq := s.next + 1, known := [idx], display := T.cols.zip T.cols })
  | .baseSpelled T disp =>
    some ({ s with next := s.next + 2 },
      { ctes := [], from_ := "values", leaf := some T, joins := [], sel := identSel T.cols, wher := [], limit := none,
        last := .init, branch := s.next, seq := s.next + 1, known := [idx], display := T.cols.zip disp })
  | .wher src p =>
    match frames[src]? with
    | none => none
    | some d0 => match enterOp s tag_where d0 with
      | none => none
      | some (s, d, new) => finish (whereBody s frames d p) new idx d0.known
  | .select src items =>
    match frames[src]? with
    | none => none
    | some d0 => match enterOp s tag_select d0 with
      | none => none
      | some (s, d, new) => finish (selectBody s frames d items) new idx d0.known
  | .selectS src items =>
    match frames[src]? with
    | none => none
    | some d0 => match enterOp s tag_select d0 with
      | none => none
      | some (s, d, new) => finish (selectSBody s frames d items) new idx d0.known
  | .sqlq ctes main => sqlBody s idx ctes main
  | .alias src a =>
    match frames[src]? with
    | none => none
    | some d0 => match enterOp s tag_alias d0 with
      | none => none
      | some (s, d, new) => finish (aliasBody s d a) new idx d0.known
  | .limit src n =>
    match frames[src]? with
    | none => none
    | some d0 => match enterOp s tag_limit d0 with
      | none => none
      | some (s, d, new) => finish (some (s, { d with limit := some (mergeLimit n d.limit) })) new idx d0.known
  | .distinct src =>
    match frames[src]? with
    | none => none
    | some d0 => match enterOp s tag_distinct d0 with
      | none => none
      | some (s, d, new) => finish (some (s, { d with distinct := true })) new idx d0.known
  | .join l r on how =>
    match frames[l]?, frames[r]? with
    | some d0, some o => match enterOp s tag_join d0 with
      | none => none
      | some (s, d, new) => finish (joinBody s frames d o on how) new idx d0.known
    | _, _ => none
  | .crossJoin l r =>
    match frames[l]?, frames[r]? with
    | some d0, some o => match enterOp s tag_crossJoin d0 with
      | none => none
      | some (s, d, new) => finish (joinBody s frames d o .none crossJoinHow) new idx d0.known
    | _, _ => none

def runImplAux : Sess → List SDF → List FrameDef → Option (Sess × List SDF)
  | s, frames, [] => some (s, frames)
  | s, frames, f :: fs =>
    match stepImpl s frames frames.length f with
    | none => none
    | some (s, d) => runImplAux s (frames ++ [d]) fs

structure ImplOut where
  result : Option Table       -- columns (display names) and rows of the last frame; none = the real code raises
  flags : List String
  deriving Repr, DecidableEq

/-- flags are collected even when the program ends in an error -/
def runFlags : Sess → List SDF → List FrameDef → List String
  | s, _, [] => s.flags
  | s, frames, f :: fs =>
    match stepImpl s frames frames.length f with
    | none => s.flags ++ ["error"]
    | some (s, d) => runFlags s (frames ++ [d]) fs

def runImpl (prog : List FrameDef) : ImplOut :=
  match runImplAux {} [] prog with
  | none => { result := none, flags := (runFlags {} [] prog).filter (· ≠ "error") }
  | some (s, frames) =>
    match frames.getLast? with
    | none => { result := none, flags := s.flags }
    | some d => { result := d.eval.map (fun T => { T with cols := d.columns }), flags := s.flags }

/-! ### PySpark's meaning of the same programs -/

structure SCol where
  name : Name
  disp : Name                 -- the spelling PySpark reports for the column (`name` is the case-folded name it resolves by)
  attr : Nat
  qual : Option Name
  base : Option Nat           -- base relation this attribute instance is read from
  tags : List (Nat × Nat)     -- (frame, position): this instance is output #position of that frame's plan
  deriving Repr, DecidableEq

/-- `hid`: columns the plan still carries although they are not in its output — the key instances a name-join (USING)
    replaced: PySpark resolves `df['k']`, `F.col('r.k')`, `df['*']`, `'r.*'` against them in the select / filter that follows
    the join.  Each row is `cols.length + hid.length` long (output values, then hidden values). -/
structure SFrame where
  cols : List SCol
  rows : List Row
  rels : List Nat
  hid : List SCol := []
  deriving Repr, DecidableEq

/-- the frame as an operator that drops the hidden columns sees it (alias, limit, the right side of a join) -/
def SFrame.vis (F : SFrame) : SFrame := { F with rows := F.rows.map (fun r => r.take F.cols.length), hid := [] }

/-! The hidden columns of the LEFT input survive a further join (`f0.join(f1, 'k').join(f2, 'k').select(f1['*'])` still sees
`f1.k`).  For the join they travel as ordinary columns of the left side under names nothing can refer to (`hidMark`), and
are moved back behind the output afterwards. -/

def hidChar : Char := Char.ofNat 1
def hidMark (c : SCol) : SCol := { c with name := String.ofList (hidChar :: c.name.toList) }
def isMarked (c : SCol) : Bool := match c.name.toList with
  | ch :: _ => ch = hidChar
  | [] => false
def hidUnmark (c : SCol) : SCol := { c with name := String.ofList (c.name.toList.drop 1) }

def SFrame.lift (F : SFrame) : SFrame := { F with cols := F.cols ++ F.hid.map hidMark, hid := [] }

def SFrame.unlift (F : SFrame) : SFrame :=
  let ix := F.cols.zipIdx
  let vis := ix.filter (fun x => !isMarked x.1)
  let hid := ix.filter (fun x => isMarked x.1)
  { F with cols := vis.map (·.1), hid := hid.map (fun x => hidUnmark x.1) ++ F.hid,
           rows := F.rows.map (fun r => vis.map (fun x => r.getD x.2 .null) ++ hid.map (fun x => r.getD x.2 .null) ++ r.drop F.cols.length) }

def posName (i : Nat) : Name := "#" ++ Nat.repr i
def posNames (n : Nat) : List Name := (List.range n).map posName

def uniqueIdx {α} (p : α → Bool) (l : List α) : Option Nat :=
  match (l.zipIdx.filter (fun x => p x.1)).map (·.2) with
  | [i] => some i
  | _ => none

/-- position of a reference in `cols`; `none` = AnalysisException (unresolvable or ambiguous) -/
def specResolve (frames : List SFrame) (cols : List SCol) : Ref → Option Nat
  | .name c => uniqueIdx (fun col => col.name = c) cols
  | .alias a c _ => uniqueIdx (fun col => col.qual = some a && col.name = c) cols
  | .df f c =>
    match frames[f]? with
    | none => none
    | some F =>
      match uniqueIdx (fun col => col.name = c) F.cols with
      | none => none
      | some p =>
        match F.cols[p]? with
        | none => none
        | some fc =>
          if cols.any (fun col => (f, p) ∈ col.tags && col.attr ≠ fc.attr) then none
          else uniqueIdx (fun col => col.attr = fc.attr) cols

/-- resolution in the select / filter directly after a join: `df[c]` and `F.col('a.c')` also see the hidden key instances
    (positions ≥ cols.length); bare names see the output only -/
def specResolveH (frames : List SFrame) (cols hid : List SCol) : Ref → Option Nat
  | .name c => uniqueIdx (fun col => col.name = c) cols
  | .alias a c _ => uniqueIdx (fun col => col.qual = some a && col.name = c) (cols ++ hid)
  | .df f c =>
    match frames[f]? with
    | none => none
    | some F =>
      match uniqueIdx (fun col => col.name = c) F.cols with
      | none => none
      | some p =>
        match F.cols[p]? with
        | none => none
        | some fc =>
          if cols.any (fun col => (f, p) ∈ col.tags && col.attr ≠ fc.attr) then none
          else uniqueIdx (fun col => col.attr = fc.attr) (cols ++ hid)

def specExprH (frames : List SFrame) (cols hid : List SCol) : PExpr → Option Expr
  | .ref r => (specResolveH frames cols hid r).map (fun i => .col (posName i))
  | .lit v => some (.lit v)
  | .bin op a b => match specExprH frames cols hid a, specExprH frames cols hid b with
    | some x, some y => some (.bin op x y)
    | _, _ => none
  | .not a => (specExprH frames cols hid a).map .not
  | .isNull a => (specExprH frames cols hid a).map .isNull

def specExpr (frames : List SFrame) (cols : List SCol) : PExpr → Option Expr
  | .ref r => (specResolve frames cols r).map (fun i => .col (posName i))
  | .lit v => some (.lit v)
  | .bin op a b => match specExpr frames cols a, specExpr frames cols b with
    | some x, some y => some (.bin op x y)
    | _, _ => none
  | .not a => (specExpr frames cols a).map .not
  | .isNull a => (specExpr frames cols a).map .isNull

def addTags (idx : Nat) (cols : List SCol) : List SCol :=
  cols.zipIdx.map (fun x => { x.1 with tags := x.1.tags ++ [(idx, x.2)] })

def frameAttr (frames : List SFrame) (f : Nat) (c : Name) : Option Nat :=
  match frames[f]? with
  | none => none
  | some F => (uniqueIdx (fun col => col.name = c) F.cols).bind (fun p => F.cols[p]?.map (·.attr))

/-- a reference inside a join condition: an attribute the left side outputs is the left column (subject to the
    self-join ambiguity check); otherwise an attribute of the right side *before* de-duplication is the right
    column (the analyzer rewrites the condition together with the right side) -/
def specResolveOn (frames : List SFrame) (L R R' : SFrame) : Ref → Option Nat
  | .df f c =>
    match frameAttr frames f c with
    | none => none
    | some a =>
      if L.cols.any (·.attr = a) then specResolve frames (L.cols ++ R'.cols) (.df f c)
      else (uniqueIdx (fun col => col.attr = a) R.cols).map (fun j => L.cols.length + j)
  | r => specResolve frames (L.cols ++ R'.cols) r

/-- join conditions: `a.c == b.c` on one shared attribute is resolved by name on each side (Dataset.join) -/
def specOnExpr (frames : List SFrame) (L R R' : SFrame) : PExpr → Option Expr
  | .bin op (.ref (.df f1 c1)) (.ref (.df f2 c2)) =>
    let general := match specResolveOn frames L R R' (.df f1 c1), specResolveOn frames L R R' (.df f2 c2) with
      | some i, some j => some (Expr.bin op (.col (posName i)) (.col (posName j)))
      | _, _ => none
    if op = .eq || op = .nseq then
      match frameAttr frames f1 c1, frameAttr frames f2 c2 with
      | some a1, some a2 =>
        if a1 = a2 && L.cols.any (·.attr = a1) && R.cols.any (·.attr = a1) then
          match uniqueIdx (fun col => col.name = c1) L.cols, uniqueIdx (fun col => col.name = c2) R.cols with
          | some i, some j => some (.bin op (.col (posName i)) (.col (posName (L.cols.length + j))))
          | _, _ => none
        else general
      | _, _ => none
    else general
  | .ref r => (specResolveOn frames L R R' r).map (fun i => .col (posName i))
  | .lit v => some (.lit v)
  | .bin op a b => match specOnExpr frames L R R' a, specOnExpr frames L R R' b with
    | some x, some y => some (.bin op x y)
    | _, _ => none
  | .not a => (specOnExpr frames L R R' a).map .not
  | .isNull a => (specOnExpr frames L R R' a).map .isNull

def specOnAll (frames : List SFrame) (L R R' : SFrame) : List PExpr → Option (List Expr)
  | [] => some []
  | e :: es => match specOnExpr frames L R R' e, specOnAll frames L R R' es with
    | some x, some xs => some (x :: xs)
    | _, _ => none

def SFrame.table (F : SFrame) : Table := { cols := F.cols.map (·.name), rows := F.rows }

/-- the right side of a self-join gets fresh attribute ids for every relation (and alias) also present on the left -/
def dedupRight (L R : SFrame) (fresh : Nat) : SFrame × Nat :=
  let lattrs := L.cols.map (·.attr)
  let step : (List SCol × Nat) → SCol → (List SCol × Nat) := fun acc col =>
    let clash := (match col.base with | some b => b ∈ L.rels | none => false) || col.attr ∈ lattrs
    if clash then (acc.1 ++ [{ col with attr := acc.2 }], acc.2 + 1) else (acc.1 ++ [col], acc.2)
  let r := R.cols.foldl step ([], fresh)
  ({ R with cols := r.1 }, r.2)

def specJoin (frames : List SFrame) (L R : SFrame) (on : OnForm) (how : String) (fresh : Nat) : Option (SFrame × Nat) :=
  match specKindOf how with
  | none => none
  | some kind0 =>
    let (R', fresh) := dedupRight L R fresh
    let rels := L.rels ++ R.rels
    match on with
    | .none =>
      let T := joinSpecExpr kind0 (fun _ _ => true) L.table R'.table
      some ({ cols := if kind0.keepsRight then L.cols ++ R'.cols else L.cols, rows := T.rows, rels := rels }, fresh)
    | .exprs es =>
      let kind := specKindWithOn kind0
      -- a join condition cannot reach the hidden columns the left side carries (Spark fails on such a reference): for the
      -- resolution of the condition they get an attribute id no reference has
      let Lc : SFrame := { L with cols := L.cols.map (fun c => if isMarked c then { c with attr := fresh, tags := [], qual := none } else c) }
      match specOnAll frames Lc R R' es with
      | none => none
      | some xs =>
        let env := posNames (L.cols.length + R.cols.length)
        let cond : Row → Row → Bool := fun l r => xs.all (fun e => isTrue (eval env (l ++ r) e))
        let T := joinSpecExpr kind cond L.table R'.table
        some ({ cols := if kind.keepsRight then L.cols ++ R'.cols else L.cols, rows := T.rows, rels := rels }, fresh)
    | .names ks =>
      let kind := specKindWithOn kind0
      let okL := ks.all (fun k => L.cols.any (·.name = k))
      let okR := ks.all (fun k => R'.cols.any (·.name = k))
      if !(okL && okR) || ks.isEmpty then none else
      let T := joinSpecNames kind ks L.table R'.table
      let keyCols : List SCol × Nat := ks.foldl (fun acc k =>
        let lc := L.cols.find? (·.name = k)
        let rc := R'.cols.find? (·.name = k)
        match kind, lc, rc with
        | .rightOuter, _, some c => (acc.1 ++ [c], acc.2)
        | .fullOuter, _, _ => (acc.1 ++ [{ name := k, disp := (lc.map (·.disp)).getD k, attr := acc.2, qual := none, base := none, tags := [] }], acc.2 + 1)
        | _, some c, _ => (acc.1 ++ [c], acc.2)
        | _, _, _ => acc) ([], fresh)
      let lrest := (restOf ks (L.cols.map (fun c => (c.name, c)))).map (·.2)
      let rrest := if kind.keepsRight then (restOf ks (R'.cols.map (fun c => (c.name, c)))).map (·.2) else []
      -- the key instances USING hides (commonNaturalJoinProcessing): the right keys, the left keys for a right join, both for
      -- a full join, none for semi / anti
      let hideL := kind = .rightOuter || kind = .fullOuter
      let hideR := kind.keepsRight && kind ≠ .rightOuter
      let lk := if hideL then ks.filterMap (fun k => L.cols.find? (·.name = k)) else []
      let rk := if hideR then ks.filterMap (fun k => R'.cols.find? (·.name = k)) else []
      let ps := joinPairs kind (keyMatch L.table.cols R'.table.cols ks) L.rows R'.rows
      let hv : List Row := ps.map (fun p =>
        (if hideL then ks.map (lookup L.table.cols (p.1.getD [])) else []) ++
        (if hideR then ks.map (lookup R'.table.cols (p.2.getD [])) else []))
      some ({ cols := keyCols.1 ++ lrest ++ rrest, rows := List.zipWith (· ++ ·) T.rows hv, rels := rels, hid := lk ++ rk }, keyCols.2)

def specFrameStep (frames : List SFrame) (idx : Nat) (fresh : Nat) : FrameDef → Option (SFrame × Nat)
  | .base T =>
    let cols : List SCol := T.cols.zipIdx.map (fun x => { name := x.1, disp := x.1, attr := fresh + x.2, qual := none, base := some idx, tags := [(idx, x.2)] })
    some ({ cols := cols, rows := T.rows, rels := [idx] }, fresh + T.cols.length)
  | .baseSpelled T disp =>
    let cols : List SCol := (T.cols.zip disp).zipIdx.map (fun x => { name := x.1.1, disp := x.1.2, attr := fresh + x.2, qual := none, base := some idx, tags := [(idx, x.2)] })
    some ({ cols := cols, rows := T.rows, rels := [idx] }, fresh + T.cols.length)
  | .wher src p =>
    match frames[src]? with
    | none => none
    | some F => match specExprH frames F.cols F.hid p with
      | none => none
      | some e =>
        let env := posNames (F.cols.length + F.hid.length)
        some ({ F with cols := addTags idx F.cols, rows := F.rows.filter (fun r => isTrue (eval env r e)) }, fresh)
  | .select src items =>
    match frames[src]? with
    | none => none
    | some F =>
      let env := posNames F.cols.length
      let step : Option (List SCol × List Expr × Nat) → (Name × PExpr) → Option (List SCol × List Expr × Nat) := fun acc it =>
        match acc with
        | none => none
        | some (cs, es, fr) =>
          match specExpr frames F.cols it.2 with
          | none => none
          | some e =>
            let pass : Option SCol := match it.2 with
              | .ref r => (specResolve frames F.cols r).bind (fun i => F.cols[i]?)
              | _ => none
            match pass with
            | some c => if c.name = it.1 then some (cs ++ [{ c with disp := it.1 }], es ++ [e], fr)
                        else some (cs ++ [{ name := it.1, disp := it.1, attr := fr, qual := none, base := none, tags := [] }], es ++ [e], fr + 1)
            | none => some (cs ++ [{ name := it.1, disp := it.1, attr := fr, qual := none, base := none, tags := [] }], es ++ [e], fr + 1)
      match items.foldl step (some ([], [], fresh)) with
      | none => none
      | some (cs, es, fr) =>
        some ({ cols := addTags idx cs, rows := F.rows.map (fun r => es.map (eval env r)), rels := F.rels }, fr)
  | .selectS src items =>
    match frames[src]? with
    | none => none
    | some F =>
      let all := F.cols ++ F.hid
      let env := posNames all.length
      -- one argument: the columns it contributes and the expressions computing them; fresh attribute ids for computed columns
      let item : Nat → SItem → Option (List (SCol × Expr) × Nat) := fun fr it =>
        match it with
        | .col n disp e =>
          match specExprH frames F.cols F.hid e with
          | none => none
          | some x =>
            let pass : Option SCol := match e with
              | .ref r => (specResolveH frames F.cols F.hid r).bind (fun i => all[i]?)
              | _ => none
            match pass with
            | some c => if c.name = n then some ([({ c with disp := disp }, x)], fr)
                        else some ([({ name := n, disp := disp, attr := fr, qual := none, base := none, tags := [] }, x)], fr + 1)
            | none => some ([({ name := n, disp := disp, attr := fr, qual := none, base := none, tags := [] }, x)], fr + 1)
        | .star => some (F.cols.zipIdx.map (fun x => (x.1, Expr.col (posName x.2))), fr)
        | .starDf f =>
          -- Dataset.col("*") = ResolvedStar(output of f's plan): attribute ids, no self-join check
          match frames[f]? with
          | none => none
          | some G =>
            let rs := G.cols.map (fun gc => uniqueIdx (fun col => col.attr = gc.attr) all)
            if rs.all Option.isSome then
              some (rs.filterMap (fun o => o.bind (fun i => all[i]?.map (fun c => (c, Expr.col (posName i))))), fr)
            else none
        | .starAlias a _ =>
          -- UnresolvedStar(a): hidden columns of that qualifier first, then the output's
          let hs := (F.hid.zipIdx.filter (fun x => x.1.qual = some a)).map (fun x => (x.1, Expr.col (posName (F.cols.length + x.2))))
          let vs := (F.cols.zipIdx.filter (fun x => x.1.qual = some a)).map (fun x => (x.1, Expr.col (posName x.2)))
          if (hs ++ vs).isEmpty then none else some (hs ++ vs, fr)
      let step : Option (List (SCol × Expr) × Nat) → SItem → Option (List (SCol × Expr) × Nat) := fun acc it =>
        match acc with
        | none => none
        | some (done, fr) => (item fr it).map (fun r => (done ++ r.1, r.2))
      match items.foldl step (some ([], fresh)) with
      | none => none
      | some (ces, fr) =>
        some ({ cols := addTags idx (ces.map (·.1)), rows := F.rows.map (fun r => ces.map (fun ce => eval env r ce.2)), rels := F.rels }, fr)
  | .sqlq ctes main =>
    match evalSqlCtes [] ctes with
    | none => none
    | some vals =>
      match evalSqlSel vals.reverse main with
      | none => none
      | some T =>
        let cols : List SCol := T.cols.zipIdx.map (fun x => { name := x.1, disp := x.1, attr := fresh + x.2, qual := none, base := some idx, tags := [(idx, x.2)] })
        some ({ cols := cols, rows := T.rows, rels := [idx] }, fresh + T.cols.length)
  | .alias src a =>
    match frames[src]? with
    | none => none
    | some F0 => let F := F0.vis
      some ({ F with cols := addTags idx (F.cols.map (fun c => { c with qual := some a })) }, fresh)
  | .limit src n =>
    match frames[src]? with
    | none => none
    | some F0 => let F := F0.vis
      some ({ F with cols := addTags idx F.cols, rows := F.rows.take n }, fresh)
  | .distinct src =>
    match frames[src]? with
    | none => none
    | some F0 => let F := F0.vis
      some ({ F with cols := addTags idx F.cols, rows := dedup F.rows }, fresh)
  | .join l r on how =>
    match frames[l]?, frames[r]? with
    | some L, some R => (specJoin frames L.lift R.vis on how fresh).map (fun p => let F := p.1.unlift; ({ F with cols := addTags idx F.cols }, p.2))
    | _, _ => none
  | .crossJoin l r =>
    match frames[l]?, frames[r]? with
    | some L, some R => (specJoin frames L.vis R.vis .none "cross" fresh).map (fun p => ({ p.1 with cols := addTags idx p.1.cols }, p.2))
    | _, _ => none

def runSpecAux : Nat → List SFrame → List FrameDef → Option (List SFrame)
  | _, frames, [] => some frames
  | fresh, frames, f :: fs =>
    match specFrameStep frames frames.length fresh f with
    | none => none
    | some (F, fresh) => runSpecAux fresh (frames ++ [F]) fs

/-- `none` = PySpark rejects the program (outside the property's domain) -/
def runSpec (prog : List FrameDef) : Option Table :=
  match runSpecAux 0 [] prog with
  | none => none
  | some frames => frames.getLast?.map (fun F => { cols := F.cols.map (·.disp), rows := F.rows.map (fun r => r.take F.cols.length) })

end Sqlframe
