/-
Impl/C14Scope.lean — well-formedness of writer programs and the *named, decidable* scope hypotheses
of the C14 theorems.  Each `H_…` is `<generated decision has the repaired value> ∨ <the call avoids the
pattern>`; each `D_…` is a declared restriction of the statement (not a defect).
All are parameterised by the decision table `sa` and the flags `fl` so that the theorems are proved
for every value the translator may produce; the instances at `Gen.saveAction` / `genFlags` are what
the driver reports.
-/
import SqlframeModel.Impl.C14Writer
namespace Sqlframe.C14
open Sqlframe Sqlframe.Gen

/-- the action creates the table when it is missing -/
def creates : SaveAction → Bool
  | .create i r => !(i && r)
  | _ => false

/-- what an action must be for (PySpark mode, target exists?) — append on an existing target is
    refined by `H_appendByName` -/
def admissible (m : Mode) (ex : Bool) (a : SaveAction) : Bool :=
  match ex, m with
  | false, _ => creates a
  | true, .default | true, .error | true, .errorifexists => a = .create false false || a = .raise
  | true, .ignore => a = .create true false
  | true, .overwrite => a = .create false true
  | true, .append => match a with | .insert _ => true | _ => false

def Mode.names : Mode → List String
  | .default => ["None"]
  | .error => ["error"]
  | .errorifexists => ["errorifexists"]
  | .ignore => ["ignore"]
  | .overwrite => ["overwrite"]
  | .append => ["append"]

def Mode.all : List Mode := [.default, .error, .errorifexists, .ignore, .overwrite, .append]

/-- the part of the decision table no hypothesis excuses: every mode on an existing target, every
    mode except `append` on a missing one -/
def tableOk (sa : String → Bool → SaveAction) : Bool :=
  Mode.all.all (fun m => m.names.all (fun k =>
    admissible m true (sa k true) && (m = .append || admissible m false (sa k false))))

/-! ### well-formed programs and states -/

def Op.WF : Op → Prop
  | .save _ arg ms f => f.WF ∧ f.cols ≠ [] ∧ arg ≠ some "" ∧ ms ≠ some ""
  | .insertInto _ _ f => f.WF ∧ f.cols ≠ []
  | .read _ => True
  | .drop _ => True

instance (o : Op) : Decidable o.WF := by cases o <;> unfold Op.WF <;> exact inferInstance

/-- every stored table is well-formed and has at least one column -/
def CatWF (c : Cat) : Prop := ∀ e ∈ c, e.2.WF ∧ e.2.cols ≠ []
instance (c : Cat) : Decidable (CatWF c) := by unfold CatWF; exact inferInstance

/-! ### scope hypotheses -/

/-- `saveAsTable(mode="append")` on a missing table must create it -/
def H_appendTargetExists (sa : String → Bool → SaveAction) : Op → St → Prop
  | .save n arg ms _, st =>
    specMode arg ms = some .append → st.cat.get n = none → creates (sa (Gen.effectiveMode arg ms) false) = true
  | _, _ => True

/-- `saveAsTable(mode="append")` on an existing table assigns by column name in PySpark -/
def H_appendByName (sa : String → Bool → SaveAction) : Op → St → Prop
  | .save n arg ms f, st =>
    specMode arg ms = some .append →
    match st.cat.get n with
    | some T => (sa (Gen.effectiveMode arg ms) true = .insert true ∧ f.cols.length = T.cols.length) ∨ f.cols = T.cols
    | none => True
  | _, _ => True

/-- does this call take the byName path for an existing target? -/
def byNameTarget (sa : String → Bool → SaveAction) : Op → St → Option (Name × TTable)
  | .insertInto n true _, st => (st.cat.get n).map (fun T => (n, T))
  | .save n arg ms _, st =>
    match st.cat.get n with
    | some T => if sa (Gen.effectiveMode arg ms) true = .insert true then some (n, T) else none
    | none => none
  | _, _ => none

/-- byName needs the target's columns; the session cache has them only after `session.table(t)` -/
def H_byNameSchemaKnown (sa : String → Bool → SaveAction) (fl : Flags) (o : Op) (st : St) : Prop :=
  match byNameTarget sa o st with
  | some (n, _) => fl.src ≠ .schemaCache ∨ (st.cached n).isSome = true
  | none => True

/-- a cached column list is never refreshed: it must still be the table's column list -/
def H_schemaCacheFresh (sa : String → Bool → SaveAction) (fl : Flags) (o : Op) (st : St) : Prop :=
  match o with
  | .read n =>
    match st.cat.get n with
    | some T => fl.skips = false ∨ st.cached n = none ∨ st.cached n = some T.cols
    | none => True
  | _ =>
    match byNameTarget sa o st with
    | some (n, T) => fl.src = .engine ∨ (fl.src = .cacheThenEngine ∧ fl.skips = false) ∨ st.cached n = none ∨ st.cached n = some T.cols
    | none => True

/-- the frame the specification appends, aligned to the target -/
def specAligned (sa : String → Bool → SaveAction) : Op → St → Option (TTable × Frame)
  | .insertInto n bn f, st =>
    match st.cat.get n with
    | some T => ((if bn then alignByName T f false else some f).map (fun g => (T, g)))
    | none => none
  | .save n arg ms f, st =>
    match st.cat.get n, specMode arg ms with
    | some T, some .append => (alignByName T f true).map (fun g => (T, g))
    | _, _ => none
  | _, _ => none

/-- declared restriction: no string column is stored into a bigint column (PySpark refuses by type,
    DuckDB casts value by value) -/
def D_illTypedInsert (sa : String → Bool → SaveAction) (o : Op) (st : St) : Prop :=
  match specAligned sa o st with
  | some (T, g) => typesOk T.tys g.tys = true
  | none => True

/-- declared restriction: the mode string is one PySpark accepts -/
def D_knownMode : Op → Prop
  | .save _ arg ms _ => (specMode arg ms).isSome = true
  | _ => True

def InScope (sa : String → Bool → SaveAction) (fl : Flags) (o : Op) (st : St) : Prop :=
  H_appendTargetExists sa o st ∧ H_appendByName sa o st ∧ H_byNameSchemaKnown sa fl o st ∧
  H_schemaCacheFresh sa fl o st ∧ D_illTypedInsert sa o st ∧ D_knownMode o

instance (sa) (o : Op) (st : St) : Decidable (H_appendTargetExists sa o st) := by
  cases o <;> unfold H_appendTargetExists <;> exact inferInstance
instance (sa) (o : Op) (st : St) : Decidable (H_appendByName sa o st) := by
  cases o <;> simp only [H_appendByName] <;> try exact inferInstance
  rename_i n arg ms f
  cases st.cat.get n <;> exact inferInstance
instance (sa fl) (o : Op) (st : St) : Decidable (H_byNameSchemaKnown sa fl o st) := by
  unfold H_byNameSchemaKnown
  cases byNameTarget sa o st <;> exact inferInstance
instance (sa fl) (o : Op) (st : St) : Decidable (H_schemaCacheFresh sa fl o st) := by
  unfold H_schemaCacheFresh
  cases o with
  | read n => simp only; cases st.cat.get n <;> exact inferInstance
  | save n arg ms f => simp only; cases byNameTarget sa (.save n arg ms f) st <;> exact inferInstance
  | insertInto n bn f => simp only; cases byNameTarget sa (.insertInto n bn f) st <;> exact inferInstance
  | drop n => simp only; cases byNameTarget sa (.drop n) st <;> exact inferInstance
instance (sa) (o : Op) (st : St) : Decidable (D_illTypedInsert sa o st) := by
  unfold D_illTypedInsert
  cases specAligned sa o st <;> exact inferInstance
instance (o : Op) : Decidable (D_knownMode o) := by
  cases o <;> unfold D_knownMode <;> exact inferInstance
instance (sa fl) (o : Op) (st : St) : Decidable (InScope sa fl o st) := by
  unfold InScope; exact inferInstance

/-- names of the hypotheses a call violates in a state (what the driver reports) -/
def violated (o : Op) (st : St) : List String :=
  (if H_appendTargetExists Gen.saveAction o st then [] else ["H_appendTargetExists"]) ++
  (if H_appendByName Gen.saveAction o st then [] else ["H_appendByName"]) ++
  (if H_byNameSchemaKnown Gen.saveAction genFlags o st then [] else ["H_byNameSchemaKnown"]) ++
  (if H_schemaCacheFresh Gen.saveAction genFlags o st then [] else ["H_schemaCacheFresh"]) ++
  (if D_illTypedInsert Gen.saveAction o st then [] else ["D_illTypedInsert"]) ++
  (if D_knownMode o then [] else ["D_unknownMode"])

/-- every call of a history is in scope in the state the model reaches -/
def InScopeRun (sa : String → Bool → SaveAction) (fl : Flags) : List Op → St → Prop
  | [], _ => True
  | o :: os, st => o.WF ∧ InScope sa fl o st ∧ InScopeRun sa fl os (stepP sa fl o st).1

/-! ### path writers -/

/-- `df.write.mode(m).csv(path)`: the stored mode must reach the path writer -/
def H_pathModeFromState (pm : Option String → Option String → String) (arg ms : Option String) : Prop :=
  match arg, ms with
  | none, some s => pm none (some s) = s
  | _, _ => True

instance (pm) (arg ms : Option String) : Decidable (H_pathModeFromState pm arg ms) := by
  unfold H_pathModeFromState
  cases arg <;> cases ms <;> exact inferInstance

/-- declared: appending to a path is not supported by the DuckDB writer (NotImplementedError) -/
def D_fileAppend (m : Mode) : Prop := m ≠ .append
instance (m : Mode) : Decidable (D_fileAppend m) := by unfold D_fileAppend; exact inferInstance

instance decInScopeRun (sa : String → Bool → SaveAction) (fl : Flags) : (os : List Op) → (st : St) → Decidable (InScopeRun sa fl os st)
  | [], _ => Decidable.isTrue trivial
  | o :: os, st => by
    unfold InScopeRun
    exact @instDecidableAnd _ _ _ (@instDecidableAnd _ _ _ (decInScopeRun sa fl os (stepP sa fl o st).1))

end Sqlframe.C14
