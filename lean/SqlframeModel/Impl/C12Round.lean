/-
Impl/C12Round.lean — a per-engine function where sqlframe's own engine-specific decision matters: `functions.round`.

sqlframe's decision (generated: `Gen.roundPgCastNoScale`, `Gen.roundPgCastWithScale`): on a Postgres session the operand is cast
to NUMERIC before ROUND is applied.

ASSUMED engine primitives (`primRound`; part of the trusted base, not derived from anything here):
  * Postgres  round(double precision)  rounds ties to the nearest EVEN integer (rint);
              round(numeric)           rounds ties away from zero;
              round(double precision, integer) does not exist (only round(numeric, integer));
  * DuckDB, Spark (HALF_UP), BigQuery, Snowflake, Databricks, Redshift: ROUND rounds ties away from zero.

Values: a double that is an integer multiple of 1/2 is represented by the integer `h` with value h/2 — this covers every
tie x.5 (odd h) and every integer (even h); other doubles round the same under both rules and are not modelled.
-/
import SqlframeModel.Gen.Engines
namespace Sqlframe.C12
open Sqlframe.Gen

/-- round h/2 to an integer, ties away from zero (Spark HALF_UP, DuckDB ROUND, Postgres round(numeric)) -/
def halfAway (h : Int) : Int :=
  if h % 2 = 0 then h / 2 else if h > 0 then (h + 1) / 2 else (h - 1) / 2

/-- round h/2 to an integer, ties to the even neighbour (Postgres round(double precision)) -/
def halfEven (h : Int) : Int :=
  if h % 2 = 0 then h / 2 else if ((h - 1) / 2) % 2 = 0 then (h - 1) / 2 else (h - 1) / 2 + 1

/-- the type of ROUND's operand in the statement -/
inductive RoundOperand | double | numeric
  deriving DecidableEq, Repr

/-- ASSUMED: what the engine's one-argument ROUND does on an operand of that type -/
def primRound : String → RoundOperand → Int → Int
  | "postgres", .double => halfEven
  | _, _ => halfAway

/-- ASSUMED: does the engine have ROUND(operand, scale) for that operand type? -/
def primRoundScaleExists : String → RoundOperand → Bool
  | "postgres", .double => false
  | _, _ => true

/-- the operand sqlframe hands to ROUND for a double column on an engine session (`castsOnPostgres` = the generated decision) -/
def roundOperand (engine : String) (castsOnPostgres : Bool) : RoundOperand :=
  if engine = "postgres" ∧ castsOnPostgres = true then .numeric else .double

/-- `F.round(col)` over a double column holding h/2, as the engine evaluates the statement sqlframe sends -/
def sqlframeRound (engine : String) (h : Int) : Int :=
  primRound engine (roundOperand engine roundPgCastNoScale) h

/-- `F.round(col, scale)` is a call the engine has -/
def sqlframeRoundScaleValid (engine : String) : Bool :=
  primRoundScaleExists engine (roundOperand engine roundPgCastWithScale)

/-- PySpark: round() is HALF_UP -/
def sparkRound (h : Int) : Int := halfAway h

end Sqlframe.C12
