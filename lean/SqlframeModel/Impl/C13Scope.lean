/-
Impl/C13Scope.lean — the named, decidable scope hypotheses of the C13 theorems, and the list of
violated ones the driver reports for a concrete (registry, statement) pair.

  H_noUserCteShadowsView     no CTE of the statement is named like a registered view
                             (or the splice leaves CTE-bound references alone: Gen.spliceSkipsCteBound)
  H_noCteNameClash           no CTE name of the statement equals a CTE name inside a referenced view's chain,
                             chains of the referenced views agree on shared names (same name ⇒ same body),
                             the statement does not mention generated CTE names
  H_distinctCteBodies        no two CTEs of the executed frame have the same text (hash-renaming collides),
                             or the renaming keeps unique names: Gen.rehashKeepsUniqueNames
  H_reregisterKeepsColumns   the catalog's column list for every referenced view is the view's column list
                             (or add_table replaces on re-registration: Gen.viewSchemaKeptOnReregister = false)
  H_uniqueOutputNames        the value of every referenced view's last CTE, and the value of the statement, have
                             pairwise distinct column names (the identity select over a CTE reads columns by name)
  H_starSourcesOrdered       no `*` over a FROM list in which a subquery precedes a named table / CTE
                             (sqlglot's star expansion lists named sources first)
  H_noCteCapturesViewTable   no CTE of the statement is named like a table that a referenced view's chain reads
                             (the chain is added to the statement's WITH list unchanged: the CTE would capture the read)
  closedness (not defects)   referenced views are wrapped and closed: their bodies mention only their own CTEs
                             or base tables that are not generated CTE names of another referenced view
  lexicalCtes (not a defect) CTE names of the statement are pairwise distinct, and a CTE definition refers to
                             itself / a later CTE only where that name is a temp view (Spark then means the view)
-/
import SqlframeModel.Impl.C13Views
namespace Sqlframe.Views
open Sqlframe Sqlframe.Gen

section
variable (cfg : SpliceCfg) (norm : Name → Name) (reg : Registry) (q : Query)

/-- registry entries of the views the statement references, in reference order -/
def visited : List Entry := viewRefs cfg norm reg q

/-- no two CTEs of the statement have the same name (the engine rejects such a statement) -/
def ctesNodup : Bool := decide (names q.ctes).Nodup

/-- every reference inside a CTE definition is to a CTE defined before it, to a name that is no CTE of
    the statement at all, or is treated as a view reference (and renamed away by the splice).  What is
    excluded: a reference to the CTE being defined or to a later one that is *not* a view — Spark rejects
    it or reads a table, the engine binds it by name to the later CTE. -/
def lexicalRefs : Bool :=
  q.ctes.all (fun c => c.2.refs.all (fun m =>
    (scopeBefore q.ctes c.1).contains m || !(names q.ctes).contains m
      || (viewOf cfg norm reg (scopeBefore q.ctes c.1) m).isSome))

def noShadow : Bool := cfg.skipBound || (names q.ctes).all (fun c => (assoc reg (norm c)).isNone)

def chainsAgree (c₁ c₂ : List CTE) : Bool :=
  (names c₁).all (fun n => match assoc c₁ n, assoc c₂ n with
    | some b₁, some b₂ => b₁ = b₂
    | _, _ => true)

def noClash : Bool :=
  let V := visited cfg norm reg q
  let users := names q.ctes
  V.all (fun e => (names e.frame.ctes).all (fun n => !users.contains n))
  && V.all (fun e₁ => V.all (fun e₂ => chainsAgree e₁.frame.ctes e₂.frame.ctes))
  && q.refs.all (fun n => users.contains n || (viewOf cfg norm reg users n).isSome
        || V.all (fun e => !(names e.frame.ctes).contains n))

def Frame.isWrapped (fr : Frame) : Bool :=
  match fr.ctes.getLast?, fr.leaf with
  | some (n, _), .un .byName (.scan m) => n = m
  | _, _ => false

/-- a name a view body may scan besides its own CTEs: not a generated CTE name of a referenced view -/
def isBaseName (n : Name) : Bool :=
  (visited cfg norm reg q).all (fun e => !(names e.frame.ctes).contains n)

def viewsClosed : Bool :=
  (visited cfg norm reg q).all (fun e =>
    e.frame.isWrapped &&
    e.frame.ctes.all (fun c => c.2.refs.all (fun m =>
      (names e.frame.ctes).contains m || isBaseName cfg norm reg q m)))

/-- no CTE of the statement is named like a table that the chain of a referenced view reads: the view's
    CTEs are added to the statement's WITH list as they are, so such a CTE would capture the view's read -/
def noCapture : Bool :=
  (visited cfg norm reg q).all (fun e =>
    e.frame.ctes.all (fun c => c.2.refs.all (fun m =>
      (names e.frame.ctes).contains m || !(names q.ctes).contains m)))

def schemaFresh : Bool := (visited cfg norm reg q).all (fun e => !e.stale)

def starsOrdered : Bool := !starSwaps q.final && q.ctes.all (fun c => !starSwaps c.2)

end

/-- the value of the frame's last CTE (what a reference to the view is replaced by) -/
def lastCteValue (db : Db) (fr : Frame) : Option Table :=
  match fr.lastName with
  | some l => evalQuery db ⟨fr.ctes, .scan l⟩
  | none => none

def optWF : Option Table → Bool
  | some T => decide T.WF
  | none => true

/-- executable form of H_uniqueOutputNames for a concrete database -/
def uniqueNames (db : Db) (norm : Name → Name) (reg : Registry) (q : Query) : Bool :=
  (visited genCfg norm reg q).all (fun e => optWF (lastCteValue db e.frame))
  && optWF (evalQuery db (splice norm reg q))

/-- scope hypotheses of `C13_splice` that a concrete database / registry / statement / resulting frame violate -/
def violated (db : Db) (norm : Name → Name) (reg : Registry) (q : Query) (result : Frame) : List String :=
  (if noShadow genCfg norm reg q then [] else ["H_noUserCteShadowsView"])
  ++ (if noClash genCfg norm reg q then [] else ["H_noCteNameClash"])
  ++ (if rehashKeepsUniqueNames || distinctBodies result.ctes then [] else ["H_distinctCteBodies"])
  ++ (if schemaFresh genCfg norm reg q then [] else ["H_reregisterKeepsColumns"])
  ++ (if uniqueNames db norm reg q then [] else ["H_uniqueOutputNames"])
  ++ (if starsOrdered q then [] else ["H_starSourcesOrdered"])
  ++ (if noCapture genCfg norm reg q then [] else ["H_noCteCapturesViewTable"])
  ++ (if viewsClosed genCfg norm reg q then [] else ["closedViews"])
  ++ (if ctesNodup q && lexicalRefs genCfg norm reg q then [] else ["lexicalCtes"])

end Sqlframe.Views
