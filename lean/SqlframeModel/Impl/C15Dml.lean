/-
Impl/C15Dml.lean — model of Table.update / Table.delete (sqlframe/base/mixins/table_mixins.py) and
LazyExpression (sqlframe/base/table.py) around the regenerated `Gen.Dml`.

* ENGINE (assumed): SQL `UPDATE t SET … WHERE p` / `DELETE FROM t WHERE p` on a Core table with
  Core/Expr semantics — right-hand sides read the *old* row, a row is selected only when the
  predicate is TRUE (NULL selects nothing); a statement that does not bind (unknown column, a
  qualifier that is not the statement's table, `expr AS alias` in WHERE) fails without effect.
* SQLFRAME (modelled): the statement the builder produces — default predicate, the re-qualification
  rewrite of column references (per reference style), alias stripping, string predicates, and that
  nothing runs before `execute()`.
* SPECIFICATION: the same SQL semantics applied to what the user wrote, references read as the
  table's own columns.
-/
import SqlframeModel.Core.Table
import SqlframeModel.Gen.Dml
namespace Sqlframe.C15
open Sqlframe Sqlframe.Gen.Dml

/-- Core/Expr with a table qualifier on every column reference -/
inductive QExpr
  | col (q : Qual) (n : Name)
  | lit (v : Val)
  | bin (op : BinOp) (a b : QExpr)
  | not (a : QExpr)
  | neg (a : QExpr)
  | isNull (a : QExpr)
  | ite (c t e : QExpr)
  deriving DecidableEq, Repr

def QExpr.strip : QExpr → Expr
  | .col _ n => .col n
  | .lit v => .lit v
  | .bin op a b => .bin op a.strip b.strip
  | .not a => .not a.strip
  | .neg a => .neg a.strip
  | .isNull a => .isNull a.strip
  | .ite c t e => .ite c.strip t.strip e.strip

def QExpr.quals : QExpr → List Qual
  | .col q _ => [q]
  | .lit _ => []
  | .bin _ a b => a.quals ++ b.quals
  | .not a => a.quals
  | .neg a => a.quals
  | .isNull a => a.quals
  | .ite c t e => c.quals ++ t.quals ++ e.quals

/-- the re-qualification rewrite: every reference's qualifier goes through `f` -/
def QExpr.mapQ (f : Qual → Qual) : QExpr → QExpr
  | .col q n => .col (f q) n
  | .lit v => .lit v
  | .bin op a b => .bin op (a.mapQ f) (b.mapQ f)
  | .not a => .not (a.mapQ f)
  | .neg a => .neg (a.mapQ f)
  | .isNull a => .isNull (a.mapQ f)
  | .ite c t e => .ite (c.mapQ f) (t.mapQ f) (e.mapQ f)

/-- what resolves in a DataFrame built on the table handle: `table['k']` (the CTE's name) and bare names -/
def userScope : Qual → Bool
  | .none => true | .cte => true | _ => false

/-- what resolves inside `UPDATE t …` / `DELETE FROM t …` on the physical table: `t.k` and bare names -/
def dmlScope : Qual → Bool
  | .none => true | .phys => true | _ => false

/-- a scalar expression in a scope: `none` is a Binder error -/
def evalQ (sc : Qual → Bool) (cols : List Name) (r : Row) (e : QExpr) : Option Val :=
  if e.quals.all sc && e.strip.refs.all (fun n => n ∈ cols) then some (eval cols r e.strip) else none

def bindable (sc : Qual → Bool) (cols : List Name) (e : QExpr) : Bool :=
  e.quals.all sc && e.strip.refs.all (fun n => n ∈ cols)

/-! ### engine -/

def setLookup : List (Name × Expr) → Name → Option Expr
  | [], _ => none
  | (k, e) :: rest, n => if k = n then some e else setLookup rest n

/-- the new row: every assigned column gets its expression evaluated on the OLD row -/
def assignRow (cols : List Name) (sets : List (Name × Expr)) (r : Row) : Row :=
  (cols.zip r).map (fun cv => match setLookup sets cv.1 with | some e => eval cols r e | none => cv.2)

def sqlUpdate (T : Table) (sets : List (Name × Expr)) (p : Expr) : Table :=
  { T with rows := T.rows.map (fun r => if isTrue (eval T.cols r p) then assignRow T.cols sets r else r) }

def sqlDelete (T : Table) (p : Expr) : Table :=
  { T with rows := T.rows.filter (fun r => !isTrue (eval T.cols r p)) }

inductive Stmt
  | update (target : Qual) (sets : List (Name × QExpr)) (setsAliased : Bool) (pred : QExpr) (predAliased : Bool)
  | delete (target : Qual) (pred : QExpr) (predAliased : Bool)
  deriving DecidableEq, Repr

def setsBind (cols : List Name) (sets : List (Name × QExpr)) : Bool :=
  sets.all (fun s => decide (s.1 ∈ cols) && bindable dmlScope cols s.2) && decide (sets.map (·.1)).Nodup

/-- one statement on the table; `none`: the engine rejects it and nothing changes -/
def execStmt : Stmt → Table → Option Table
  | .update tgt sets sal p al, T =>
    if tgt = .phys && !sal && !al && bindable dmlScope T.cols p && setsBind T.cols sets
    then some (sqlUpdate T (sets.map (fun s => (s.1, s.2.strip))) p.strip) else none
  | .delete tgt p al, T =>
    if tgt = .phys && !al && bindable dmlScope T.cols p
    then some (sqlDelete T p.strip) else none

/-! ### sqlframe: building the statement -/

/-- a predicate as the user passes it -/
inductive PredIn
  | absent                                   -- where=None
  | expr (e : QExpr) (aliased : Bool)        -- a Column over table['c'] / F.col('c'), possibly `.alias(…)`ed
  | sql (e : QExpr) (text : String) (wrapped : Bool)
      -- a SQL string; `e` is its meaning (references unqualified); `wrapped`: the text is one
      -- parenthesised expression, which `F.col(text)` (sqlglot `to_column`) happens to parse as an
      -- expression instead of taking it for a column name
  deriving DecidableEq, Repr

inductive Dml
  | update (sets : List (Name × QExpr)) (pred : PredIn) (rhsAliased : Bool)
      -- `rhsAliased`: some assignment value is a Column with an alias — `.alias(…)`, or a top-level
      -- `F.when(…)`, which sqlframe aliases automatically
  | delete (pred : PredIn)
  deriving DecidableEq, Repr

structure Flags where
  defaultPred : Bool
  predStringParsed : Bool
  predMatches : Qual → Bool
  predTo : Qual
  predElseRaises : Bool
  predAliasStripped : Bool
  rhsMatches : Qual → Bool
  rhsTo : Qual
  rhsElseRaises : Bool
  rhsAliasStripped : Bool
  updateTarget : Qual
  deleteTarget : Qual
  buildExecutes : Bool
  executeRuns : Bool

def genFlags : Flags :=
  { defaultPred := Gen.Dml.defaultPred, predStringParsed := Gen.Dml.predStringParsed,
    predMatches := Gen.Dml.predMatches, predTo := Gen.Dml.predTo, predElseRaises := Gen.Dml.predElseRaises,
    predAliasStripped := Gen.Dml.predAliasStripped,
    rhsMatches := Gen.Dml.rhsMatches, rhsTo := Gen.Dml.rhsTo, rhsElseRaises := Gen.Dml.rhsElseRaises,
    rhsAliasStripped := Gen.Dml.rhsAliasStripped, updateTarget := Gen.Dml.updateTarget, deleteTarget := Gen.Dml.deleteTarget,
    buildExecutes := Gen.Dml.updateBuildExecutes || Gen.Dml.deleteBuildExecutes || Gen.Dml.lazyCtorExecutes,
    executeRuns := Gen.Dml.lazyExecuteRuns }

/-- one turn of the loop `if <matches>: col.set("table", to)` -/
def qmap (m : Qual → Bool) (to : Qual) (q : Qual) : Qual := if m q then to else q

/-- the loop's `else: raise ValueError` fires for some reference -/
def rejects (m : Qual → Bool) (elseRaises : Bool) (e : QExpr) : Bool :=
  elseRaises && e.quals.any (fun q => !m q)

/-- `_ensure_where_condition`; outer `none`: Python raises -/
def buildPred (fl : Flags) : PredIn → Option (QExpr × Bool)
  | .absent => some (.lit (.bool fl.defaultPred), false)
  | .expr e al =>
    if rejects fl.predMatches fl.predElseRaises e then none
    else some (e.mapQ (qmap fl.predMatches fl.predTo), al && !fl.predAliasStripped)
  | .sql e txt wrapped =>
    if fl.predStringParsed || wrapped then
      (if rejects fl.predMatches fl.predElseRaises e then none else some (e.mapQ (qmap fl.predMatches fl.predTo), false))
    else some (.col .none txt, false)          -- the whole text is taken for one column name

/-- `_ensure_and_normalize_update_set` -/
def buildSets (fl : Flags) (sets : List (Name × QExpr)) : Option (List (Name × QExpr)) :=
  if sets.any (fun s => rejects fl.rhsMatches fl.rhsElseRaises s.2) then none
  else some (sets.map (fun s => (s.1, s.2.mapQ (qmap fl.rhsMatches fl.rhsTo))))

def build (fl : Flags) : Dml → Option Stmt
  | .update sets p ral =>
    match buildPred fl p, buildSets fl sets with
    | some c, some s => some (.update fl.updateTarget s (ral && !fl.rhsAliasStripped) c.1 c.2)
    | _, _ => none
  | .delete p =>
    match buildPred fl p with
    | some c => some (.delete fl.deleteTarget c.1 c.2)
    | none => none

/-- build + execute(); an error anywhere leaves the table as it was -/
def applyDml (fl : Flags) (d : Dml) (T : Table) : Option Table :=
  (build fl d).bind (fun st => execStmt st T)

def runDml (fl : Flags) (ds : List Dml) (T : Table) : Table :=
  ds.foldl (fun t d => (applyDml fl d t).getD t) T

/-! ### laziness: a session with the LazyExpressions created so far -/

structure Sess where
  tbl : Table
  lazies : List (Option Stmt) := []
  deriving DecidableEq, Repr

inductive Cmd
  | build (d : Dml)          -- tb.update(…) / tb.delete(…): returns a LazyExpression
  | exec (i : Nat)           -- the i-th LazyExpression's .execute()
  deriving DecidableEq, Repr

def listGet {α} : List α → Nat → Option α
  | [], _ => none
  | a :: _, 0 => some a
  | _ :: as, n + 1 => listGet as n

def stepCmd (fl : Flags) : Cmd → Sess → Sess
  | .build d, s =>
    let st := build fl d
    { tbl := if fl.buildExecutes then ((st.bind (fun x => execStmt x s.tbl)).getD s.tbl) else s.tbl,
      lazies := s.lazies ++ [st] }
  | .exec i, s =>
    match listGet s.lazies i with
    | some (some st) => if fl.executeRuns then { s with tbl := (execStmt st s.tbl).getD s.tbl } else s
    | _ => s

def runCmds (fl : Flags) (cs : List Cmd) (s : Sess) : Sess := cs.foldl (fun s c => stepCmd fl c s) s

/-! ### specification -/

def specPred : PredIn → Expr
  | .absent => .lit (.bool true)
  | .expr e _ => e.strip
  | .sql e _ _ => e.strip

def refsIn (cols : List Name) (e : Expr) : Bool := e.refs.all (fun n => n ∈ cols)

/-- what the call means: the same SQL semantics on the user's expressions; `none`: the call is
    invalid (unknown column, a column assigned twice) and nothing changes -/
def specDml : Dml → Table → Option Table
  | .update sets p _, T =>
    if refsIn T.cols (specPred p) && sets.all (fun s => decide (s.1 ∈ T.cols) && refsIn T.cols s.2.strip) && decide (sets.map (·.1)).Nodup
    then some (sqlUpdate T (sets.map (fun s => (s.1, s.2.strip))) (specPred p)) else none
  | .delete p, T =>
    if refsIn T.cols (specPred p) then some (sqlDelete T (specPred p)) else none

def specRun (ds : List Dml) (T : Table) : Table := ds.foldl (fun t d => (specDml d t).getD t) T

structure SpecSess where
  tbl : Table
  pending : List Dml := []

def specCmd : Cmd → SpecSess → SpecSess
  | .build d, s => { s with pending := s.pending ++ [d] }
  | .exec i, s =>
    match listGet s.pending i with
    | some d => { s with tbl := (specDml d s.tbl).getD s.tbl }
    | none => s

def specCmds (cs : List Cmd) (s : SpecSess) : SpecSess := cs.foldl (fun s c => specCmd c s) s

/-! ### scope -/

def PredIn.quals : PredIn → List Qual
  | .absent => []
  | .expr e _ => e.quals
  | .sql e _ _ => e.quals

/-- a SQL string mentions bare column names only -/
def PredIn.sqlBare : PredIn → Prop
  | .sql e _ _ => ∀ q ∈ e.quals, q = .none
  | _ => True
instance (p : PredIn) : Decidable p.sqlBare := by cases p <;> unfold PredIn.sqlBare <;> exact inferInstance

/-- a SQL string that is taken for a column name unless strings are parsed -/
def PredIn.isSql : PredIn → Bool
  | .sql _ _ wrapped => !wrapped
  | _ => false

/-- the reference styles of the property: table['c'] and F.col('c'); SQL strings mention bare names -/
def Dml.WF : Dml → Prop
  | .update sets p _ => (∀ q ∈ p.quals, userScope q = true) ∧ (∀ s ∈ sets, ∀ q ∈ s.2.quals, userScope q = true) ∧ p.sqlBare
  | .delete p => (∀ q ∈ p.quals, userScope q = true) ∧ p.sqlBare

instance (d : Dml) : Decidable d.WF := by
  cases d <;> unfold Dml.WF <;> exact inferInstance

def Dml.pred : Dml → PredIn
  | .update _ p _ => p
  | .delete p => p

def Dml.sets : Dml → List (Name × QExpr)
  | .update s _ _ => s
  | .delete _ => []

def Dml.rhsAliased : Dml → Bool
  | .update _ _ a => a
  | .delete _ => false

/-- an assignment value may mention a column through `F.col('k')` -/
def H_rhsUnqualified (fl : Flags) (d : Dml) : Prop :=
  fl.rhsElseRaises = false ∨ fl.rhsMatches .none = true ∨ ∀ s ∈ d.sets, Qual.none ∉ s.2.quals

/-- the predicate loop must not reject bare names either -/
def H_predUnqualified (fl : Flags) (d : Dml) : Prop :=
  fl.predElseRaises = false ∨ fl.predMatches .none = true ∨ Qual.none ∉ d.pred.quals

/-- a SQL-string predicate must be parsed -/
def H_predString (fl : Flags) (d : Dml) : Prop :=
  fl.predStringParsed = true ∨ d.pred.isSql = false

/-- an aliased assignment value (a top-level `F.when`, or `.alias(…)`) must lose its alias -/
def H_rhsAlias (fl : Flags) (d : Dml) : Prop := fl.rhsAliasStripped = true ∨ d.rhsAliased = false
instance (fl : Flags) (d : Dml) : Decidable (H_rhsAlias fl d) := by unfold H_rhsAlias; exact inferInstance

instance (fl : Flags) (d : Dml) : Decidable (H_rhsUnqualified fl d) := by unfold H_rhsUnqualified; exact inferInstance
instance (fl : Flags) (d : Dml) : Decidable (H_predUnqualified fl d) := by unfold H_predUnqualified; exact inferInstance
instance (fl : Flags) (d : Dml) : Decidable (H_predString fl d) := by
  unfold H_predString; exact inferInstance

def InScope (fl : Flags) (d : Dml) : Prop :=
  H_rhsUnqualified fl d ∧ H_predUnqualified fl d ∧ H_predString fl d ∧ H_rhsAlias fl d
instance (fl : Flags) (d : Dml) : Decidable (InScope fl d) := by unfold InScope; exact inferInstance

def violated (d : Dml) : List String :=
  (if H_rhsUnqualified genFlags d then [] else ["H_rhsUnqualified"]) ++
  (if H_predUnqualified genFlags d then [] else ["H_predUnqualified"]) ++
  (if H_predString genFlags d then [] else ["H_predString"]) ++
  (if H_rhsAlias genFlags d then [] else ["H_rhsAlias"]) ++
  (if d.WF then [] else ["D_refStyles"])

/-- the decisions no hypothesis excuses -/
def flagsOk (fl : Flags) : Bool :=
  fl.defaultPred && fl.predMatches .cte && decide (fl.predTo = .phys) && fl.predAliasStripped &&
  fl.rhsMatches .cte && decide (fl.rhsTo = .phys) &&
  decide (fl.updateTarget = .phys) && decide (fl.deleteTarget = .phys) &&
  !fl.buildExecutes && fl.executeRuns &&
  !fl.predMatches .other && !fl.rhsMatches .other

end Sqlframe.C15
