/-
Impl/C15Dml.lean — model of Table.update / Table.delete (sqlframe/base/mixins/table_mixins.py) and
LazyExpression (sqlframe/base/table.py) around the regenerated `Gen.Dml`.

* ENGINE (assumed): SQL `UPDATE t SET … WHERE p` / `DELETE FROM t WHERE p` on a Core table —
  right-hand sides read the *old* row, a row is selected only when the predicate is TRUE (NULL selects
  nothing); scalar expressions have Core/Expr's three-valued meaning, extended here (`evalS`) by IN-lists,
  LIKE, and subqueries over one other table `O` (`x IN (SELECT e FROM o WHERE p)`, `EXISTS (…)`) with SQL's
  scoping: inside a subquery a bare name is the subquery's column if `o` has one of that name, the target
  row's column otherwise.  A statement that does not bind (unknown column, a qualifier that is not the
  statement's table, `expr AS alias` in WHERE) fails without effect.
* SQLFRAME (modelled): the statement the builder produces — default predicate, which dialect reads a
  SQL-string predicate (`Gen.Dml.predDialect`; what that means for double-quoted tokens, backticks and
  backslash escapes: `lexOf`), the re-qualification rewrite of column references, which walks into
  subqueries as well (`mapQ`), alias stripping, and that nothing runs before `execute()`.
* SPECIFICATION: the same SQL semantics applied to what the user wrote — references read as the table's
  own columns, SQL text read as Spark SQL.
-/
import SqlframeModel.Core.Table
import SqlframeModel.Gen.Dml
namespace Sqlframe.C15
open Sqlframe Sqlframe.Gen.Dml

/-- scalar expressions with a table qualifier on every column reference -/
inductive QExpr
  | col (q : Qual) (n : Name)
  | lit (v : Val)
  | tok (raw : String) (dq : Bool)
      -- a string-literal token of a SQL text: the characters between the quotes, and whether the
      -- quotes are double quotes.  Its Spark SQL meaning is the string `unescape raw`.
  | bin (op : BinOp) (a b : QExpr)
  | not (a : QExpr)
  | neg (a : QExpr)
  | isNull (a : QExpr)
  | ite (c t e : QExpr)
  | inList (a : QExpr) (vs : List Val)          -- a IN (v1, …, vn)
  | like (a : QExpr) (pat : String)             -- a LIKE 'pat'   (`%`, `_`; no escape character)
  | inSub (a sel whr : QExpr)                   -- a IN (SELECT sel FROM o WHERE whr)
  | exists_ (whr : QExpr)                       -- EXISTS (SELECT 1 FROM o WHERE whr)
  deriving DecidableEq, Repr

/-- qualifiers of all references, those inside subqueries included -/
def QExpr.quals : QExpr → List Qual
  | .col q _ => [q]
  | .lit _ => []
  | .tok _ _ => []
  | .bin _ a b => a.quals ++ b.quals
  | .not a => a.quals
  | .neg a => a.quals
  | .isNull a => a.quals
  | .ite c t e => c.quals ++ t.quals ++ e.quals
  | .inList a _ => a.quals
  | .like a _ => a.quals
  | .inSub a s w => a.quals ++ s.quals ++ w.quals
  | .exists_ w => w.quals

/-- the re-qualification rewrite: `find_all(exp.Column)` visits every reference of the tree — those
    inside subqueries too — and each qualifier goes through `f` -/
def QExpr.mapQ (f : Qual → Qual) : QExpr → QExpr
  | .col q n => .col (f q) n
  | .lit v => .lit v
  | .tok r d => .tok r d
  | .bin op a b => .bin op (a.mapQ f) (b.mapQ f)
  | .not a => .not (a.mapQ f)
  | .neg a => .neg (a.mapQ f)
  | .isNull a => .isNull (a.mapQ f)
  | .ite c t e => .ite (c.mapQ f) (t.mapQ f) (e.mapQ f)
  | .inList a vs => .inList (a.mapQ f) vs
  | .like a p => .like (a.mapQ f) p
  | .inSub a s w => .inSub (a.mapQ f) (s.mapQ f) (w.mapQ f)
  | .exists_ w => .exists_ (w.mapQ f)

/-- no subquery anywhere: an expression over the row's own values -/
def QExpr.flat : QExpr → Bool
  | .col _ _ => true
  | .lit _ => true
  | .tok _ _ => true
  | .bin _ a b => a.flat && b.flat
  | .not a => a.flat
  | .neg a => a.flat
  | .isNull a => a.flat
  | .ite c t e => c.flat && t.flat && e.flat
  | .inList a _ => a.flat
  | .like a _ => a.flat
  | .inSub _ _ _ => false
  | .exists_ _ => false

/-- no string-literal token that a lexer could read in more than one way: no double-quoted token and
    no backslash inside a literal -/
def QExpr.plainToks : QExpr → Bool
  | .col _ _ => true
  | .lit _ => true
  | .tok r d => !d && decide ('\\' ∉ r.toList)
  | .bin _ a b => a.plainToks && b.plainToks
  | .not a => a.plainToks
  | .neg a => a.plainToks
  | .isNull a => a.plainToks
  | .ite c t e => c.plainToks && t.plainToks && e.plainToks
  | .inList a _ => a.plainToks
  | .like a _ => a.plainToks
  | .inSub a s w => a.plainToks && s.plainToks && w.plainToks
  | .exists_ w => w.plainToks

/-- inside a subquery (`ins`), no bare name that the subquery's table has as well: nothing a rewrite
    `bare ↦ t.bare` could capture -/
def QExpr.noCapture (ocols : List Name) : QExpr → Bool → Bool
  | .col q n, ins => !(ins && decide (q = Qual.none) && decide (n ∈ ocols))
  | .lit _, _ => true
  | .tok _ _, _ => true
  | .bin _ a b, ins => a.noCapture ocols ins && b.noCapture ocols ins
  | .not a, ins => a.noCapture ocols ins
  | .neg a, ins => a.noCapture ocols ins
  | .isNull a, ins => a.noCapture ocols ins
  | .ite c t e, ins => c.noCapture ocols ins && t.noCapture ocols ins && e.noCapture ocols ins
  | .inList a _, ins => a.noCapture ocols ins
  | .like a _, ins => a.noCapture ocols ins
  | .inSub a s w, ins => a.noCapture ocols ins && s.noCapture ocols true && w.noCapture ocols true
  | .exists_ w, _ => w.noCapture ocols true

/-! ### lexical reading of SQL text -/

/-- backslash escapes of a Spark SQL string literal (`\\`, `\'`, `\"`: the escaped character itself;
    the generator writes no other escape) -/
def unescape : List Char → List Char
  | [] => []
  | c :: rest =>
    if c = '\\' then (match rest with | [] => [c] | d :: rest' => d :: unescape rest')
    else c :: unescape rest

/-- the Spark SQL meaning of a string-literal token -/
def tokVal (raw : String) : Val := .str (String.ofList (unescape raw.toList))

/-- what a lexer does with the three forms on which sqlglot's dialects differ -/
structure Lex where
  dqString : Bool       -- "x" is a string literal (else: a quoted identifier)
  backtick : Bool       -- `x` is a quoted identifier (else: the text does not tokenize)
  escapes : Bool        -- a backslash inside a literal escapes the next character
  deriving DecidableEq, Repr

def sparkLex : Lex := { dqString := true, backtick := true, escapes := true }

/-- sqlglot 26's tokenizers, by dialect name ("" = the default dialect); assumed, and compared with the
    installed sqlglot on every run of the check -/
def lexOf (d : String) : Lex :=
  { dqString := d ∈ ["spark", "spark2", "databricks", "hive", "mysql", "bigquery", "doris", "starrocks"],
    backtick := d ∈ ["spark", "spark2", "databricks", "hive", "mysql", "bigquery", "doris", "starrocks", "sqlite", "clickhouse"],
    escapes := d ∈ ["spark", "spark2", "databricks", "hive", "mysql", "bigquery", "doris", "starrocks", "snowflake", "redshift", "clickhouse"] }

def dialectName : Dialect → String
  | .sessionInput => Gen.Dml.sessionInputDefault
  | .sessionOutput => Gen.Dml.sessionOutputDefault
  | .generic => ""
  | .named s => s

/-- a SQL text's tokens as lexer `lx` reads them -/
def QExpr.readTok (lx : Lex) : QExpr → QExpr
  | .col q n => .col q n
  | .lit v => .lit v
  | .tok r d =>
    if d && !lx.dqString then .col .none r
    else if lx.escapes then .tok r d else .lit (.str r)
  | .bin op a b => .bin op (a.readTok lx) (b.readTok lx)
  | .not a => .not (a.readTok lx)
  | .neg a => .neg (a.readTok lx)
  | .isNull a => .isNull (a.readTok lx)
  | .ite c t e => .ite (c.readTok lx) (t.readTok lx) (e.readTok lx)
  | .inList a vs => .inList (a.readTok lx) vs
  | .like a p => .like (a.readTok lx) p
  | .inSub a s w => .inSub (a.readTok lx) (s.readTok lx) (w.readTok lx)
  | .exists_ w => .exists_ (w.readTok lx)

/-! ### scalar semantics -/

/-- `a IN (v1, …, vn)` is `a = v1 OR … OR a = vn` in three-valued logic (FALSE for no values) -/
def inSem (a : Val) (vs : List Val) : Val := vs.foldl (fun acc v => or3 acc (binSem .eq a v)) (.bool false)

def tails {α} : List α → List (List α)
  | [] => [[]]
  | a :: as => (a :: as) :: tails as

/-- LIKE: `%` any run of characters, `_` one character -/
def likeM : List Char → List Char → Bool
  | [], s => s.isEmpty
  | p :: ps, s =>
    if p = '%' then (tails s).any (likeM ps)
    else match s with
      | [] => false
      | c :: cs => (p = '_' || p = c) && likeM ps cs

/-- a column reference, `inner` = the rows of the enclosing subqueries (innermost first), `r` the
    target table's row: a bare name is the innermost subquery's column when `o` has one of that name -/
def resolve (O : Table) (cols : List Name) (r : Row) (inner : List Row) (q : Qual) (n : Name) : Val :=
  match q, inner with
  | .none, i :: _ => if n ∈ O.cols then lookup O.cols i n else lookup cols r n
  | .sub, i :: _ => lookup O.cols i n
  | .sub, [] => .null
  | _, _ => lookup cols r n

def evalS (O : Table) (cols : List Name) (r : Row) : QExpr → List Row → Val
  | .col q n, inner => resolve O cols r inner q n
  | .lit v, _ => v
  | .tok raw _, _ => tokVal raw
  | .bin op a b, inner => binSem op (evalS O cols r a inner) (evalS O cols r b inner)
  | .not a, inner => not3 (evalS O cols r a inner)
  | .neg a, inner => match evalS O cols r a inner with | .int i => .int (-i) | _ => .null
  | .isNull a, inner => .bool (evalS O cols r a inner = .null)
  | .ite c t e, inner => if isTrue (evalS O cols r c inner) then evalS O cols r t inner else evalS O cols r e inner
  | .inList a vs, inner => inSem (evalS O cols r a inner) vs
  | .like a pat, inner => match evalS O cols r a inner with | .str s => .bool (likeM pat.toList s.toList) | _ => .null
  | .inSub a sel whr, inner =>
    inSem (evalS O cols r a inner)
      ((O.rows.filter (fun i => isTrue (evalS O cols r whr (i :: inner)))).map (fun i => evalS O cols r sel (i :: inner)))
  | .exists_ whr, inner => .bool (O.rows.any (fun i => isTrue (evalS O cols r whr (i :: inner))))

/-- what resolves in a DataFrame built on the table handle: `table['k']` (the CTE's name) and bare
    names; `o.k` is a reference the user can write inside a subquery on `o` -/
def userScope : Qual → Bool
  | .none => true | .cte => true | .sub => true | _ => false

/-- what resolves inside `UPDATE t …` / `DELETE FROM t …` on the physical table: `t.k` and bare names -/
def dmlScope : Qual → Bool
  | .none => true | .phys => true | .sub => true | _ => false

/-- every reference resolves: `ins` = inside a subquery on `o` -/
def binds (sc : Qual → Bool) (ocols cols : List Name) : QExpr → Bool → Bool
  | .col q n, ins =>
    (match q with
     | .none => decide (n ∈ cols) || (ins && decide (n ∈ ocols))
     | .sub => ins && decide (n ∈ ocols)
     | q => sc q && decide (n ∈ cols))
  | .lit _, _ => true
  | .tok _ _, _ => true
  | .bin _ a b, ins => binds sc ocols cols a ins && binds sc ocols cols b ins
  | .not a, ins => binds sc ocols cols a ins
  | .neg a, ins => binds sc ocols cols a ins
  | .isNull a, ins => binds sc ocols cols a ins
  | .ite c t e, ins => binds sc ocols cols c ins && binds sc ocols cols t ins && binds sc ocols cols e ins
  | .inList a _, ins => binds sc ocols cols a ins
  | .like a _, ins => binds sc ocols cols a ins
  | .inSub a s w, ins => binds sc ocols cols a ins && binds sc ocols cols s true && binds sc ocols cols w true
  | .exists_ w, _ => binds sc ocols cols w true

/-- a scalar expression in a scope: `none` is a Binder error -/
def evalQ (sc : Qual → Bool) (O : Table) (cols : List Name) (r : Row) (e : QExpr) : Option Val :=
  if binds sc O.cols cols e false then some (evalS O cols r e []) else none

/-- Core/Expr inside QExpr, every reference with qualifier `q` -/
def ofCore (q : Qual) : Expr → QExpr
  | .col n => .col q n
  | .lit v => .lit v
  | .bin op a b => .bin op (ofCore q a) (ofCore q b)
  | .not a => .not (ofCore q a)
  | .neg a => .neg (ofCore q a)
  | .isNull a => .isNull (ofCore q a)
  | .ite c t e => .ite (ofCore q c) (ofCore q t) (ofCore q e)

/-! ### engine -/

def setLookup : List (Name × QExpr) → Name → Option QExpr
  | [], _ => none
  | (k, e) :: rest, n => if k = n then some e else setLookup rest n

/-- the new row: every assigned column gets its expression evaluated on the OLD row -/
def assignRow (O : Table) (cols : List Name) (sets : List (Name × QExpr)) (r : Row) : Row :=
  (cols.zip r).map (fun cv => match setLookup sets cv.1 with | some e => evalS O cols r e [] | none => cv.2)

def sqlUpdate (O T : Table) (sets : List (Name × QExpr)) (p : QExpr) : Table :=
  { T with rows := T.rows.map (fun r => if isTrue (evalS O T.cols r p []) then assignRow O T.cols sets r else r) }

def sqlDelete (O T : Table) (p : QExpr) : Table :=
  { T with rows := T.rows.filter (fun r => !isTrue (evalS O T.cols r p [])) }

inductive Stmt
  | update (target : Qual) (sets : List (Name × QExpr)) (setsAliased : Bool) (pred : QExpr) (predAliased : Bool)
  | delete (target : Qual) (pred : QExpr) (predAliased : Bool)
  deriving DecidableEq, Repr

def setsBind (sc : Qual → Bool) (ocols cols : List Name) (sets : List (Name × QExpr)) : Bool :=
  sets.all (fun s => decide (s.1 ∈ cols) && binds sc ocols cols s.2 false) && decide (sets.map (·.1)).Nodup

/-- one statement on the table; `none`: the engine rejects it and nothing changes -/
def execStmt (O : Table) : Stmt → Table → Option Table
  | .update tgt sets sal p al, T =>
    if tgt = .phys && !sal && !al && binds dmlScope O.cols T.cols p false && setsBind dmlScope O.cols T.cols sets
    then some (sqlUpdate O T sets p) else none
  | .delete tgt p al, T =>
    if tgt = .phys && !al && binds dmlScope O.cols T.cols p false
    then some (sqlDelete O T p) else none

/-! ### sqlframe: building the statement -/

/-- a predicate as the user passes it -/
inductive PredIn
  | absent                                   -- where=None
  | expr (e : QExpr) (aliased : Bool)
      -- a Column over table['c'] / F.col('c') / F.expr("…") pieces, possibly `.alias(…)`ed
  | sql (e : QExpr) (text : String) (wrapped : Bool) (backticks : Bool)
      -- a SQL string; `e` is its syntax tree (references unqualified or `o.`-qualified, string literals
      -- as tokens); `wrapped`: the text is one parenthesised expression, which `F.col(text)` (sqlglot
      -- `to_column`) happens to parse as an expression instead of taking it for a column name;
      -- `backticks`: some identifier is spelled in backticks
  deriving DecidableEq, Repr

inductive Dml
  | update (sets : List (Name × QExpr)) (pred : PredIn) (rhsAliased : Bool)
      -- `rhsAliased`: some assignment value is a Column with an alias — `.alias(…)`, or a top-level
      -- `F.when(…)`, which sqlframe aliases automatically
  | delete (pred : PredIn)
  deriving DecidableEq, Repr

structure Flags where
  defaultPred : Bool
  predStringParsed : Bool
  predLex : Lex
  predMatches : Qual → Bool
  predTo : Qual
  predElseRaises : Bool
  predAliasStripped : Bool
  rhsMatches : Qual → Bool
  rhsTo : Qual
  rhsElseRaises : Bool
  rhsAliasStripped : Bool
  updateTarget : Qual
  deleteTarget : Qual
  buildExecutes : Bool
  executeRuns : Bool

def genFlags : Flags :=
  { defaultPred := Gen.Dml.defaultPred, predStringParsed := Gen.Dml.predStringParsed,
    predLex := lexOf (dialectName Gen.Dml.predDialect),
    predMatches := Gen.Dml.predMatches, predTo := Gen.Dml.predTo, predElseRaises := Gen.Dml.predElseRaises,
    predAliasStripped := Gen.Dml.predAliasStripped,
    rhsMatches := Gen.Dml.rhsMatches, rhsTo := Gen.Dml.rhsTo, rhsElseRaises := Gen.Dml.rhsElseRaises,
    rhsAliasStripped := Gen.Dml.rhsAliasStripped, updateTarget := Gen.Dml.updateTarget, deleteTarget := Gen.Dml.deleteTarget,
    buildExecutes := Gen.Dml.updateBuildExecutes || Gen.Dml.deleteBuildExecutes || Gen.Dml.lazyCtorExecutes,
    executeRuns := Gen.Dml.lazyExecuteRuns }

/-- one turn of the loop `if <matches>: col.set("table", to)` -/
def qmap (m : Qual → Bool) (to : Qual) (q : Qual) : Qual := if m q then to else q

/-- the loop's `else: raise ValueError` fires for some reference -/
def rejects (m : Qual → Bool) (elseRaises : Bool) (e : QExpr) : Bool :=
  elseRaises && e.quals.any (fun q => !m q)

/-- `_ensure_where_condition`; outer `none`: Python raises -/
def buildPred (fl : Flags) : PredIn → Option (QExpr × Bool)
  | .absent => some (.lit (.bool fl.defaultPred), false)
  | .expr e al =>
    if rejects fl.predMatches fl.predElseRaises e then none
    else some (e.mapQ (qmap fl.predMatches fl.predTo), al && !fl.predAliasStripped)
  | .sql e txt wrapped bt =>
    if fl.predStringParsed then
      (if bt && !fl.predLex.backtick then none                 -- the text does not tokenize
       else
        let e' := e.readTok fl.predLex
        if rejects fl.predMatches fl.predElseRaises e' then none else some (e'.mapQ (qmap fl.predMatches fl.predTo), false))
    else if wrapped then
      -- `F.col(text)`: sqlglot's `to_column` parses a parenthesised text, in the session's input dialect
      (if rejects fl.predMatches fl.predElseRaises e then none else some (e.mapQ (qmap fl.predMatches fl.predTo), false))
    else some (.col .none txt, false)          -- the whole text is taken for one column name

/-- `_ensure_and_normalize_update_set` -/
def buildSets (fl : Flags) (sets : List (Name × QExpr)) : Option (List (Name × QExpr)) :=
  if sets.any (fun s => rejects fl.rhsMatches fl.rhsElseRaises s.2) then none
  else some (sets.map (fun s => (s.1, s.2.mapQ (qmap fl.rhsMatches fl.rhsTo))))

def build (fl : Flags) : Dml → Option Stmt
  | .update sets p ral =>
    match buildPred fl p, buildSets fl sets with
    | some c, some s => some (.update fl.updateTarget s (ral && !fl.rhsAliasStripped) c.1 c.2)
    | _, _ => none
  | .delete p =>
    match buildPred fl p with
    | some c => some (.delete fl.deleteTarget c.1 c.2)
    | none => none

/-- build + execute(); an error anywhere leaves the table as it was -/
def applyDml (fl : Flags) (O : Table) (d : Dml) (T : Table) : Option Table :=
  (build fl d).bind (fun st => execStmt O st T)

def runDml (fl : Flags) (O : Table) (ds : List Dml) (T : Table) : Table :=
  ds.foldl (fun t d => (applyDml fl O d t).getD t) T

/-! ### laziness: a session with the LazyExpressions created so far -/

structure Sess where
  tbl : Table
  lazies : List (Option Stmt) := []
  deriving DecidableEq, Repr

inductive Cmd
  | build (d : Dml)          -- tb.update(…) / tb.delete(…): returns a LazyExpression
  | exec (i : Nat)           -- the i-th LazyExpression's .execute()
  deriving DecidableEq, Repr

def listGet {α} : List α → Nat → Option α
  | [], _ => none
  | a :: _, 0 => some a
  | _ :: as, n + 1 => listGet as n

def stepCmd (fl : Flags) (O : Table) : Cmd → Sess → Sess
  | .build d, s =>
    let st := build fl d
    { tbl := if fl.buildExecutes then ((st.bind (fun x => execStmt O x s.tbl)).getD s.tbl) else s.tbl,
      lazies := s.lazies ++ [st] }
  | .exec i, s =>
    match listGet s.lazies i with
    | some (some st) => if fl.executeRuns then { s with tbl := (execStmt O st s.tbl).getD s.tbl } else s
    | _ => s

def runCmds (fl : Flags) (O : Table) (cs : List Cmd) (s : Sess) : Sess := cs.foldl (fun s c => stepCmd fl O c s) s

/-! ### specification -/

/-- the predicate the user means: an omitted one selects every row; SQL text is Spark SQL (`evalS`
    gives a token its Spark meaning) -/
def specPred : PredIn → QExpr
  | .absent => .lit (.bool true)
  | .expr e _ => e
  | .sql e _ _ _ => e

/-- what the call means: the same SQL semantics on the user's expressions; `none`: the call is
    invalid (unknown column, a column assigned twice) and nothing changes -/
def specDml (O : Table) : Dml → Table → Option Table
  | .update sets p _, T =>
    if binds userScope O.cols T.cols (specPred p) false && setsBind userScope O.cols T.cols sets
    then some (sqlUpdate O T sets (specPred p)) else none
  | .delete p, T =>
    if binds userScope O.cols T.cols (specPred p) false then some (sqlDelete O T (specPred p)) else none

def specRun (O : Table) (ds : List Dml) (T : Table) : Table := ds.foldl (fun t d => (specDml O d t).getD t) T

structure SpecSess where
  tbl : Table
  pending : List Dml := []

def specCmd (O : Table) : Cmd → SpecSess → SpecSess
  | .build d, s => { s with pending := s.pending ++ [d] }
  | .exec i, s =>
    match listGet s.pending i with
    | some d => { s with tbl := (specDml O d s.tbl).getD s.tbl }
    | none => s

def specCmds (O : Table) (cs : List Cmd) (s : SpecSess) : SpecSess := cs.foldl (fun s c => specCmd O c s) s

/-! ### scope -/

def PredIn.quals : PredIn → List Qual
  | .absent => []
  | .expr e _ => e.quals
  | .sql e _ _ _ => e.quals

/-- a SQL string mentions bare (or, inside a subquery, `o.`-qualified) column names only -/
def PredIn.sqlBare : PredIn → Prop
  | .sql e _ _ _ => ∀ q ∈ e.quals, q = .none ∨ q = .sub
  | _ => True
instance (p : PredIn) : Decidable p.sqlBare := by cases p <;> unfold PredIn.sqlBare <;> exact inferInstance

/-- a SQL string that is taken for a column name unless strings are parsed -/
def PredIn.isSql : PredIn → Bool
  | .sql _ _ wrapped _ => !wrapped
  | _ => false

/-- a SQL string whose reading depends on the lexer: double-quoted tokens, backslashes, backticks -/
def PredIn.lexSensitive : PredIn → Bool
  | .sql e _ _ bt => bt || !e.plainToks
  | _ => false

/-- the reference styles of the property: table['c'] and F.col('c'); SQL strings mention bare names;
    assignment values are expressions over the row's own old values (no subquery) -/
def Dml.WF : Dml → Prop
  | .update sets p _ => (∀ q ∈ p.quals, userScope q = true) ∧ (∀ s ∈ sets, ∀ q ∈ s.2.quals, q = .none ∨ q = .cte) ∧ p.sqlBare
      ∧ (∀ s ∈ sets, s.2.flat = true)
  | .delete p => (∀ q ∈ p.quals, userScope q = true) ∧ p.sqlBare

instance (d : Dml) : Decidable d.WF := by
  cases d <;> unfold Dml.WF <;> exact inferInstance

def Dml.pred : Dml → PredIn
  | .update _ p _ => p
  | .delete p => p

def Dml.sets : Dml → List (Name × QExpr)
  | .update s _ _ => s
  | .delete _ => []

def Dml.rhsAliased : Dml → Bool
  | .update _ _ a => a
  | .delete _ => false

/-- an assignment value may mention a column through `F.col('k')`: the loop's `else: raise` must not fire
    for a reference the user can write -/
def H_rhsUnqualified (fl : Flags) (d : Dml) : Prop :=
  fl.rhsElseRaises = false ∨ ∀ s ∈ d.sets, ∀ q ∈ s.2.quals, fl.rhsMatches q = true

/-- the predicate loop must not reject bare names either -/
def H_predUnqualified (fl : Flags) (d : Dml) : Prop :=
  fl.predElseRaises = false ∨ ∀ q ∈ d.pred.quals, fl.predMatches q = true

/-- a SQL-string predicate must be parsed -/
def H_predString (fl : Flags) (d : Dml) : Prop :=
  fl.predStringParsed = true ∨ d.pred.isSql = false

/-- an aliased assignment value (a top-level `F.when`, or `.alias(…)`) must lose its alias -/
def H_rhsAlias (fl : Flags) (d : Dml) : Prop := fl.rhsAliasStripped = true ∨ d.rhsAliased = false
instance (fl : Flags) (d : Dml) : Decidable (H_rhsAlias fl d) := by unfold H_rhsAlias; exact inferInstance

/-- the predicate loop must leave bare names alone, or no bare name inside a subquery is one that the
    subquery's own table has (re-targeting it to the target table would capture it) -/
def H_predCapture (fl : Flags) (ocols : List Name) (d : Dml) : Prop :=
  fl.predMatches .none = false ∨ (specPred d.pred).noCapture ocols false = true

/-- a SQL-string predicate must be read by a lexer that agrees with Spark SQL's on double-quoted
    tokens, backticks and backslash escapes, or contain none of them -/
def H_predDialect (fl : Flags) (d : Dml) : Prop :=
  fl.predLex = sparkLex ∨ d.pred.lexSensitive = false

instance (fl : Flags) (d : Dml) : Decidable (H_rhsUnqualified fl d) := by unfold H_rhsUnqualified; exact inferInstance
instance (fl : Flags) (d : Dml) : Decidable (H_predUnqualified fl d) := by unfold H_predUnqualified; exact inferInstance
instance (fl : Flags) (d : Dml) : Decidable (H_predString fl d) := by
  unfold H_predString; exact inferInstance
instance (fl : Flags) (oc : List Name) (d : Dml) : Decidable (H_predCapture fl oc d) := by unfold H_predCapture; exact inferInstance
instance (fl : Flags) (d : Dml) : Decidable (H_predDialect fl d) := by unfold H_predDialect; exact inferInstance

def InScope (fl : Flags) (ocols : List Name) (d : Dml) : Prop :=
  H_rhsUnqualified fl d ∧ H_predUnqualified fl d ∧ H_predString fl d ∧ H_rhsAlias fl d ∧ H_predCapture fl ocols d ∧ H_predDialect fl d
instance (fl : Flags) (oc : List Name) (d : Dml) : Decidable (InScope fl oc d) := by unfold InScope; exact inferInstance

def violated (ocols : List Name) (d : Dml) : List String :=
  (if H_rhsUnqualified genFlags d then [] else ["H_rhsUnqualified"]) ++
  (if H_predUnqualified genFlags d then [] else ["H_predUnqualified"]) ++
  (if H_predString genFlags d then [] else ["H_predString"]) ++
  (if H_rhsAlias genFlags d then [] else ["H_rhsAlias"]) ++
  (if H_predCapture genFlags ocols d then [] else ["H_predCapture"]) ++
  (if H_predDialect genFlags d then [] else ["H_predDialect"]) ++
  (if d.WF then [] else ["D_refStyles"])

/-- the decisions no hypothesis excuses -/
def flagsOk (fl : Flags) : Bool :=
  fl.defaultPred && fl.predMatches .cte && decide (fl.predTo = .phys) && fl.predAliasStripped &&
  fl.rhsMatches .cte && decide (fl.rhsTo = .phys) &&
  decide (fl.updateTarget = .phys) && decide (fl.deleteTarget = .phys) &&
  !fl.buildExecutes && fl.executeRuns &&
  !fl.predMatches .other && !fl.rhsMatches .other && !fl.predMatches .sub && !fl.rhsMatches .sub

end Sqlframe.C15
