/-
Impl/C10Names.lean — hand model of sqlframe's column-name bookkeeping over the regenerated `Gen.Names`
(sqlframe/base/dataframe.py, functions.py col(), column.py alias(), group.py, session.py).

Names go through sqlglot's identifier normalisation for the input dialect.  The model is abstract in it:
  `low`   the normalised text of a name (Spark input dialect: lower-cased),
  `key`   the display-map key of an identifier text (`quote_preserving_alias_or_name`: back-quoted when the
          identifier is flagged quoted),
  `typed` the name the engine's typed-column listing reports (back-quoted when sqlglot's generator finds
          it unsafe) — what `DataFrame.schema` looks up.
The laws the proofs need (`NameLaws`) are hypotheses; the check validates them, and that the real functions
are what the model's views compute with, on every generated name.

A frame is its select-list names as they stand in the expression (`cols`) and the display-name map
(`disp`, newest entry first).  Every naming site is a case of `step`; which sites write the map is decided
by `Gen.Names` flags.  The four views are `columns`, `fields` (Row fields after executing the statement whose
mapped columns are aliased to the quoted display name, and renormalising the engine's result names
execution → output dialect), `pandas` (same statement) and `schema` (typed columns looked up by `typed`).
-/
import SqlframeModel.Gen.Names
import SqlframeModel.Impl.C09Lex
namespace Sqlframe.C10
open Gen C09

structure NameFns where
  low : String → String
  key : String → String
  typed : String → String
  /-- what `_collect` makes of an engine result-column name: it is parsed as an identifier of the execution
      dialect and renormalised to the output dialect (identity on ordinary names; `Group By` -> `GROUP BY`) -/
  back : String → String

structure NameLaws (F : NameFns) : Prop where
  low_idem : ∀ s, F.low (F.low s) = F.low s
  key_inj : ∀ a b, F.key a = F.key b → a = b

structure NDF where
  cols : List String
  disp : List (String × String)
  deriving Repr

/-- one select item: a column named by a string, by `col(s)`, or any expression `.alias(n)` -/
inductive Item
  | name (s : String)
  | col (s : String)
  | alias (n : String)
  deriving DecidableEq, Repr

def Item.spelling : Item → String
  | .name s => s
  | .col s => s
  | .alias n => n

/-- the display name the item carries into `_update_display_name_mapping` -/
def Item.display : Item → Option String
  | .name s => some s
  | .col s => if colSetsDisplay then some s else none
  | .alias n => if aliasSetsDisplay then some n else none

inductive NStep
  | select (items : List Item)
  | withColumn (n : String)
  | withColumnRenamed (a b : String)
  | keep                                   -- where / orderBy / limit / distinct / union: no naming
  | drop (a : String)
  | reselect (method : String)             -- fillna / replace / dropna / dropDuplicates(subset)
  | toDF (ns : List String)
  | groupAgg (keys aliases : List String)  -- groupBy(keys).agg(e.alias(a), …)
  | joinUsing (k : String) (right : List String)   -- join(other, k); `right` = other's column spellings
  | unionByName (right : List String) (allowMissing : Bool)   -- `right` = other's column spellings
  deriving Repr

def entry (F : NameFns) (n : String) : String × String := (F.key (F.low n), n)

def itemEntries (F : NameFns) (items : List Item) : List (String × String) :=
  items.filterMap (fun it => it.display.map (fun d => (F.key (F.low it.spelling), d)))

/-- the public `select` on `col(<normalised name>)` columns: every column's display name becomes its
    normalised text -/
def reselectOf (F : NameFns) (m : String) (d : NDF) : NDF :=
  if reselectMethods.contains m && selectRecordsDisplay then
    { d with disp := d.cols.map (fun c => (F.key c, c)) ++ d.disp }
  else d

def create (F : NameFns) (names : List String) : NDF :=
  { cols := names.map F.low, disp := if createRecordsDisplay then names.map (entry F) else [] }

/-- columns of the other side that the receiver lacks (matched by normalised name) -/
def rightOnly (F : NameFns) (lows : List String) (right : List String) : List String :=
  right.filter (fun r => !(lows.contains (F.low r)))

/-- `unionByName`: without `allowMissingColumns` the receiver is left as it is; with it both sides are
    re-selected by their NORMALISED names given as strings (`self._columns`), through the public select:
    every column's display name becomes its normalised text, the other side's extra columns included -/
def unionStep (F : NameFns) (d : NDF) (right : List String) (allowMissing : Bool) : NDF :=
  if allowMissing && unionByNameReselects then
    let cols' := d.cols.map F.low ++ (rightOnly F (d.cols.map F.low) right).map F.low
    { cols := cols', disp := cols'.map (fun c => (F.key c, c)) ++ d.disp }
  else if allowMissing then
    { d with cols := d.cols.map F.low ++ (rightOnly F (d.cols.map F.low) right).map F.low }
  else d

def nstep (F : NameFns) (d : NDF) : NStep → NDF
  | .select items =>
    { cols := items.map (fun it => F.low it.spelling),
      disp := if selectRecordsDisplay then itemEntries F items ++ d.disp else d.disp }
  | .withColumn n =>
    -- the select list is rebuilt from `col(<name>)` of the outer columns: raw (toDF) aliases get normalised
    { cols := if (d.cols.map F.low).contains (F.low n) then d.cols.map F.low else d.cols.map F.low ++ [F.low n],
      disp := if withColumnsRecordsDisplay then entry F n :: d.disp else d.disp }
  | .withColumnRenamed a b =>
    { cols := (d.cols.map F.low).map (fun c => if c = F.low a then F.low b else c),
      disp := if renameRecordsDisplay then entry F b :: d.disp else d.disp }
  | .keep => d
  | .drop a => reselectOf F "drop" { d with cols := (d.cols.map F.low).filter (fun c => c ≠ F.low a) }
  | .reselect m => reselectOf F m { d with cols := d.cols.map F.low }
  | .toDF ns =>
    if toDFRecordsDisplay then { cols := ns.map F.low, disp := ns.map (entry F) ++ d.disp }
    else { cols := ns, disp := d.disp }
  | .groupAgg keys aliases =>
    { cols := (keys ++ aliases).map F.low,
      disp := if groupAggRecordsDisplay then (keys ++ aliases).map (entry F) ++ d.disp else d.disp }
  | .joinUsing k right =>
    { cols := F.low k :: (d.cols.map F.low).filter (fun c => c ≠ F.low k) ++ (right.map F.low).filter (fun c => c ≠ F.low k),
      disp := if joinKeepsRightDisplay then (right.filter (fun r => F.low r ≠ F.low k)).map (entry F) ++ d.disp
              else d.disp }
  | .unionByName right allowMissing => unionStep F d right allowMissing

def runSteps (F : NameFns) (d : NDF) : List NStep → NDF
  | [] => d
  | s :: ss => runSteps F (nstep F d s) ss

-- ------------------------------------------------------------------------------------------------
-- the four views
-- ------------------------------------------------------------------------------------------------

/-- `DataFrame.columns`: `_set_display_names` on a copy, then `named_selects` -/
def columns (F : NameFns) (d : NDF) : List String :=
  d.cols.map (fun c => (d.disp.lookup (F.key c)).getD c)

/-- Row fields of `collect()`: a mapped column is aliased to its quoted display name and comes back as
    written (`case_sensitive` + execution → output renormalisation); an unmapped one is normalised -/
def fields (F : NameFns) (d : NDF) : List String :=
  d.cols.map (fun c => match d.disp.lookup (F.key c) with
    | some s => if collectParsesNames then F.back s else s
    | none => if collectParsesNames then F.back (F.low c) else F.low c)

/-- `toPandas().columns`: the same statement, the engine's result names as they are -/
def pandas (F : NameFns) (d : NDF) : List String :=
  d.cols.map (fun c => match d.disp.lookup (F.key c) with | some s => s | none => F.low c)

/-- `DataFrame.schema` names: the typed column's own name looked up in the map -/
def schemaNames (F : NameFns) (d : NDF) : List String :=
  d.cols.map (fun c => (d.disp.lookup (F.typed (F.low c))).getD (F.typed (F.low c)))

/-- which select item a reference resolves to -/
def resolve (F : NameFns) (d : NDF) (ref : String) : Option Nat :=
  let i := d.cols.idxOf (F.low ref)
  if i < d.cols.length then some i else none

-- ------------------------------------------------------------------------------------------------
-- PySpark's spelling rule
-- ------------------------------------------------------------------------------------------------

def specStep (F : NameFns) (sp : List String) : NStep → List String
  | .select items => items.map Item.spelling
  | .withColumn n =>
    if (sp.map F.low).contains (F.low n) then sp.map (fun s => if F.low s = F.low n then n else s) else sp ++ [n]
  | .withColumnRenamed a b => sp.map (fun s => if F.low s = F.low a then b else s)
  | .keep => sp
  | .drop a => sp.filter (fun s => F.low s ≠ F.low a)
  | .reselect _ => sp
  | .toDF ns => ns
  | .groupAgg keys aliases => keys ++ aliases
  | .joinUsing k right =>
    sp.filter (fun s => F.low s = F.low k) ++ sp.filter (fun s => F.low s ≠ F.low k) ++
      right.filter (fun r => F.low r ≠ F.low k)
  | .unionByName right allowMissing => if allowMissing then sp ++ rightOnly F (sp.map F.low) right else sp

def specRun (F : NameFns) (sp : List String) : List NStep → List String
  | [] => sp
  | s :: ss => specRun F (specStep F sp s) ss

/-- what PySpark requires of a step (references resolve, result names distinct up to case) -/
def StepWF (F : NameFns) (sp : List String) : NStep → Prop
  | .select items => (items.map (fun it => F.low it.spelling)).Nodup
  | .withColumn _ => True
  | .withColumnRenamed a b => F.low a ∈ sp.map F.low ∧ (F.low b ∉ sp.map F.low ∨ F.low b = F.low a)
  | .keep => True
  | .drop _ => True
  | .reselect _ => True
  | .toDF ns => (ns.map F.low).Nodup
  | .groupAgg keys aliases => ((keys ++ aliases).map F.low).Nodup
  | .joinUsing k right =>
    F.low k ∈ sp.map F.low ∧ (right.map F.low).Nodup ∧
    ∀ r ∈ right, F.low r ≠ F.low k → F.low r ∉ sp.map F.low
  | .unionByName right _ => (right.map F.low).Nodup

-- ------------------------------------------------------------------------------------------------
-- named scope hypotheses (one per root cause)
-- ------------------------------------------------------------------------------------------------

/-- the frame shows `s` for the column `low s` -/
def Has (F : NameFns) (d : NDF) (s : String) : Prop := d.disp.lookup (F.key (F.low s)) = some s

instance (F : NameFns) (d : NDF) (s : String) : Decidable (Has F d s) := by unfold Has; exact inferInstance

/-- drop / fillna / replace / dropna / dropDuplicates re-select `col(<normalised name>)` columns through
    the public select: every remaining spelling is overwritten by its normalised text -/
def H_reselect (F : NameFns) (m : String) (remaining : List String) : Prop :=
  reselectMethods.contains m = false ∨ ∀ s ∈ remaining, F.low s = s

/-- toDF puts raw aliases into the expression and writes no map entry -/
def H_toDF : Prop := toDFRecordsDisplay = true

/-- GroupedData.agg returns a plain copy: neither the groupBy spelling nor the aggregate aliases are recorded -/
def H_groupAgg (F : NameFns) (d : NDF) (names : List String) : Prop :=
  groupAggRecordsDisplay = true ∨ ∀ n ∈ names, Has F d n

/-- join keeps the left frame's map only -/
def H_joinRight (F : NameFns) (d : NDF) (k : String) (right : List String) : Prop :=
  joinKeepsRightDisplay = true ∨ ∀ r ∈ right, F.low r ≠ F.low k → Has F d r

/-- a using-join whose key needs quoting is looked up by its back-quoted text and not found (raises) -/
def joinKeyOk (F : NameFns) (k : String) : Bool := !(joinKeyLookupQuotePreserving && F.key (F.low k) != F.low k)

def H_joinKeyQuoted (F : NameFns) (k : String) : Prop := joinKeyLookupQuotePreserving = false ∨ F.key (F.low k) = F.low k

/-- unionByName(allowMissingColumns=True) re-selects both sides by their normalised names -/
def H_unionMissing (F : NameFns) (sp right : List String) (allowMissing : Bool) : Prop :=
  allowMissing = false ∨
    (unionByNameReselects = true ∧ ∀ s ∈ sp ++ rightOnly F (sp.map F.low) right, F.low s = s)

/-- the map key and the engine's typed-column name agree on quoting (schema view) -/
def H_quoteAgree (F : NameFns) (sp : List String) : Prop := ∀ s ∈ sp, F.typed (F.low s) = F.key (F.low s)

/-- `_collect` parses every result column name as SQL text; a name that is a keyword phrase is rewritten -/
def H_collectReparse (F : NameFns) (sp : List String) : Prop := collectParsesNames = false ∨ ∀ s ∈ sp, F.back s = s

def StepInScope (F : NameFns) (d : NDF) (sp : List String) : NStep → Prop
  | .drop a => H_reselect F "drop" (sp.filter (fun s => F.low s ≠ F.low a))
  | .reselect m => H_reselect F m sp
  | .toDF _ => H_toDF
  | .groupAgg keys aliases => H_groupAgg F d (keys ++ aliases)
  | .joinUsing k right => H_joinKeyQuoted F k ∧ H_joinRight F d k right
  | .unionByName right allowMissing => H_unionMissing F sp right allowMissing
  | _ => True

/-- every step is well-formed and in scope for the state the previous steps produce -/
def StepsOK (F : NameFns) : NDF → List String → List NStep → Prop
  | _, _, [] => True
  | d, sp, s :: ss => StepWF F sp s ∧ StepInScope F d sp s ∧ StepsOK F (nstep F d s) (specStep F sp s) ss

instance (F : NameFns) (m : String) (l : List String) : Decidable (H_reselect F m l) := by
  unfold H_reselect; exact inferInstance
instance : Decidable H_toDF := by unfold H_toDF; exact inferInstance
instance (F : NameFns) (d : NDF) (l : List String) : Decidable (H_groupAgg F d l) := by
  unfold H_groupAgg; exact inferInstance
instance (F : NameFns) (d : NDF) (k : String) (l : List String) : Decidable (H_joinRight F d k l) := by
  unfold H_joinRight; exact inferInstance
instance (F : NameFns) (sp right : List String) (a : Bool) : Decidable (H_unionMissing F sp right a) := by
  unfold H_unionMissing; exact inferInstance
instance (F : NameFns) (k : String) : Decidable (H_joinKeyQuoted F k) := by
  unfold H_joinKeyQuoted; exact inferInstance
instance (F : NameFns) (sp : List String) : Decidable (H_quoteAgree F sp) := by
  unfold H_quoteAgree; exact inferInstance
instance (F : NameFns) (sp : List String) : Decidable (H_collectReparse F sp) := by
  unfold H_collectReparse; exact inferInstance

instance (F : NameFns) (d : NDF) (sp : List String) (s : NStep) : Decidable (StepInScope F d sp s) := by
  cases s <;> unfold StepInScope <;> exact inferInstance

instance (F : NameFns) (sp : List String) (s : NStep) : Decidable (StepWF F sp s) := by
  cases s <;> unfold StepWF <;> exact inferInstance

def stepsOKDec (F : NameFns) : (d : NDF) → (sp : List String) → (steps : List NStep) → Decidable (StepsOK F d sp steps)
  | _, _, [] => isTrue trivial
  | d, sp, s :: ss =>
    match (inferInstance : Decidable (StepWF F sp s)), (inferInstance : Decidable (StepInScope F d sp s)),
          stepsOKDec F (nstep F d s) (specStep F sp s) ss with
    | isTrue a, isTrue b, isTrue c => isTrue ⟨a, b, c⟩
    | isFalse a, _, _ => isFalse (fun h => a h.1)
    | _, isFalse b, _ => isFalse (fun h => b h.2.1)
    | _, _, isFalse c => isFalse (fun h => c h.2.2)

instance (F : NameFns) (d : NDF) (sp : List String) (steps : List NStep) : Decidable (StepsOK F d sp steps) :=
  stepsOKDec F d sp steps

/-- names of the scope hypotheses one step violates (for the driver / classifier) -/
def stepViolated (F : NameFns) (d : NDF) (sp : List String) (s : NStep) : List String :=
  if StepInScope F d sp s then []
  else match s with
    | .drop _ => ["H_reselect"]
    | .reselect _ => ["H_reselect"]
    | .toDF _ => ["H_toDF"]
    | .groupAgg _ _ => ["H_groupAgg"]
    | .joinUsing k right =>
      (if H_joinKeyQuoted F k then [] else ["H_joinKeyQuoted"]) ++ (if H_joinRight F d k right then [] else ["H_joinRight"])
    | .unionByName _ _ => ["H_unionMissing"]
    | _ => []

/-- does the program raise in the model (a using-join on a key that needs quoting)? -/
def raises (F : NameFns) (steps : List NStep) : Bool :=
  steps.any (fun s => match s with | .joinUsing k _ => !joinKeyOk F k | _ => false)

/-- well-formedness only (the property at full strength quantifies over these chains) -/
def StepsWF (F : NameFns) : List String → List NStep → Prop
  | _, [] => True
  | sp, s :: ss => StepWF F sp s ∧ StepsWF F (specStep F sp s) ss

/-- `orderBy(name)` renders the column to text and parses the text again: a name that is a keyword which
    cannot start an expression (`select`, `from`, …) does not survive (`reserved`: that lexical fact,
    sqlglot's, decided outside this model) -/
def orderByOk (reserved : Bool) : Bool := !(orderByReparsesText && reserved)

def H_orderByReserved (reserved : Bool) : Prop := orderByReparsesText = false ∨ reserved = false

instance (r : Bool) : Decidable (H_orderByReserved r) := by unfold H_orderByReserved; exact inferInstance

/-- DuckDB compares identifiers case-insensitively for ASCII letters only (assumed; the witness is replayed) -/
def engineFold (s : List Char) : List Char := s.map Char.toLower

/-- `ORDER BY "<normalised name>"` in the SELECT block whose item carries the display alias `"<display>"`:
    the engine finds the item iff the two texts are equal up to its own case folding.  sqlframe aliases a
    renamed / aliased column to its display name in the block that orders by the normalised name. -/
def aliasVisible (display normalised : List Char) : Bool := engineFold display == engineFold normalised

/-- is the column `normalised`, standing in an ORDER BY key (`bare`: the key is that column itself, not an
    expression over it), found by the engine in the block whose select item carries the display alias?
    `_set_display_names` spells bare keys (or all key columns) like the alias — `Gen.orderByRespell` -/
def orderKeyVisible (bare : Bool) (display normalised : List Char) : Bool :=
  match orderByRespell with
  | .all => true
  | .bare => bare || aliasVisible display normalised
  | .none => aliasVisible display normalised

def H_asciiFold (bare : Bool) (display normalised : List Char) : Prop :=
  orderByRespell = .all ∨ (orderByRespell = .bare ∧ bare = true) ∨ engineFold display = engineFold normalised

instance (b : Bool) (x y : List Char) : Decidable (H_asciiFold b x y) := by unfold H_asciiFold; exact inferInstance

end Sqlframe.C10
