/-
Impl/DataFrame.lean — hand model of the single-input part of `BaseDataFrame`
(sqlframe/base/dataframe.py) around the *generated* decisions in `Gen/`.

State: `src` is the value of the last frozen CTE (what `FROM <cte>` reads), `blk` the open
SELECT block being extended, `last` the `last_op` attribute.  `wrap` is `_convert_leaf_to_cte`
(freeze the open block into a CTE and start `SELECT <its columns> FROM <cte>`); like the real
code it keeps the stale `last`.  `wrapper` is `operation.wrapper` with every decision taken from
`Gen.Operations`.  Method bodies are transcribed from dataframe.py; the flags they consult come
from `Gen.Clauses`, their decorator tags from `Gen.Methods`.

Tied to the code by (a) regeneration of `Gen` on every run and (b) the C01 correspondence
stream (same programs on real sqlframe+DuckDB and on this model).
-/
import SqlframeModel.Core.Sql
import SqlframeModel.Gen.Operations
import SqlframeModel.Gen.Methods
import SqlframeModel.Gen.Clauses
namespace Sqlframe
open Gen

/-- the body of one frozen CTE of the statement: an ordinary SELECT block, or the UNION [ALL] `unpivot` builds -/
inductive CteBody
  | block (b : Block)
  | unpivot (ids vals : List Name) (var val : Name) (distinct : Bool)
  deriving Repr

structure DF where
  src : Table
  blk : Block
  last : Op
  /-- ghost state: the CTEs frozen so far, oldest first (each reads the one before it; the first reads the input).
      Nothing below consults it; `Props/C03Text.lean` shows `src` is always its value. -/
  hist : List CteBody := []
  deriving Repr

def DF.eval (d : DF) : Table := evalBlock d.blk d.src

/-- names of the open block's select list (`_get_outer_select_columns`) -/
def DF.outNames (d : DF) : List Name := d.blk.sel.map (·.1)

/-- `session.createDataFrame` / a table read: `last_op = INIT`, identity projection -/
def DF.init (T : Table) : DF := { src := T, blk := { sel := identSel T.cols }, last := .init }

/-- `_convert_leaf_to_cte` -/
def DF.wrap (d : DF) : DF :=
  let T := d.eval
  { src := T, blk := { sel := identSel T.cols }, last := d.last, hist := d.hist ++ [.block d.blk] }

/-- `operation(op).wrapper` around a method body; `none` = undecorated method -/
def wrapper (tag : Option Op) (body : DF → DF) (d : DF) : DF :=
  match tag with
  | none => body d
  | some op =>
    let d := if initCond d.last then { d.wrap with last := initReset } else d
    let new := newOp op d.last
    let d := if wrapCond d.last new then d.wrap else d
    let r := body d
    { r with last := lastAfter new r.last }

/-! ### projection lists built by the select-family bodies (pure list code) -/

/-- `withColumns`: replace the column of that name in place, else append -/
def withColItems (cols : List Name) (n : Name) (e : Expr) : List (Name × Expr) :=
  if n ∈ cols then cols.map (fun c => if c = n then (n, e) else (c, Expr.col c))
  else identSel cols ++ [(n, e)]

/-- `withColumnRenamed` -/
def renameItems (cols : List Name) (a b : Name) : List (Name × Expr) :=
  cols.map (fun c => (if c = a then b else c, Expr.col c))

/-- `drop` -/
def dropItems (cols : List Name) (ns : List Name) : List (Name × Expr) :=
  identSel (cols.filter (fun c => c ∉ ns))

/-- `fillna(value, subset)`: CASE WHEN c IS NULL THEN value ELSE c END for c in subset -/
def fillItems (cols : List Name) (v : Val) (sub : List Name) : List (Name × Expr) :=
  cols.map (fun c => if c ∈ sub then (c, Expr.ite (.isNull (.col c)) (.lit v) (.col c)) else (c, Expr.col c))

/-- the CASE chain `replace` builds for one column: `when(c == old₁, new₁).when(c == old₂, new₂)….otherwise(c)`
    (the first matching pair wins, i.e. a simultaneous lookup, not a cascade) -/
def replaceExpr (c : Name) : List (Val × Val) → Expr
  | [] => .col c
  | (o, n) :: rest => .ite (.bin .eq (.col c) (.lit o)) (.lit n) (replaceExpr c rest)

/-- `replace(to_replace, value, subset)` for a scalar, a list pair or a dict: the same chain for every column of subset -/
def replaceItems (cols : List Name) (pairs : List (Val × Val)) (sub : List Name) : List (Name × Expr) :=
  cols.map (fun c => if c ∈ sub then (c, replaceExpr c pairs) else (c, Expr.col c))

/-- `toDF(*names)`: the current select expressions, re-aliased positionally -/
def toDFItems (sel : List (Name × Expr)) (names : List Name) : List (Name × Expr) :=
  List.zipWith (fun it n => (n, it.2)) sel names

/-- `dropna`: the helper column counting NULLs among `sub` -/
def numNullsExpr : List Name → Expr
  | [] => .lit (.int 0)
  | [c] => .ite (.isNull (.col c)) (.lit (.int 1)) (.lit (.int 0))
  | c :: cs => .bin .add (.ite (.isNull (.col c)) (.lit (.int 1)) (.lit (.int 0))) (numNullsExpr cs)

/-- `minimum_num_nulls` of dropna(how, thresh, subset) -/
def dropnaMin (howAll : Bool) (thresh : Option Nat) (n : Nat) : Int :=
  match thresh with
  | some t => (n : Int) - (t : Int) + 1
  | none => if howAll then n else 1

/-- `unpivot(ids, values, var, val)`: one `SELECT ids…, '<name>' AS var, <name> AS val` per value column -/
def unpivotTable (T : Table) (ids vals : List Name) (var val : Name) : Table :=
  { cols := ids ++ [var, val],
    rows := vals.flatMap (fun v => T.rows.map (fun r => ids.map (lookup T.cols r) ++ [Val.str v, lookup T.cols r v])) }

/-! ### method bodies (what runs inside the wrapper) -/

def bodyWhere (p : Expr) (d : DF) : DF :=
  { d with blk := { d.blk with wher := if whereAppend then d.blk.wher ++ [p] else [p] } }

def bodySelect (items : List (Name × Expr)) (d : DF) : DF :=
  { d with blk := { d.blk with sel := if selectAppendDefault then d.blk.sel ++ items else items } }

def bodySelectNoAppend (append : Bool) (items : List (Name × Expr)) (d : DF) : DF :=
  { d with blk := { d.blk with sel := if append then d.blk.sel ++ items else items } }

def bodyDistinct (d : DF) : DF := { d with blk := { d.blk with distinct := true } }

def bodyOrderBy (keys : List OrdKey) (d : DF) : DF :=
  { d with blk := { d.blk with order := if orderByAppend then d.blk.order ++ keys else keys } }

def bodyLimit (n : Nat) (d : DF) : DF :=
  { d with blk := { d.blk with limit := some (mergeLimit n d.blk.limit) } }

inductive Step
  | wher (p : Expr)
  | select (items : List (Name × Expr))
  | withColumn (n : Name) (e : Expr)
  | withColumnRenamed (a b : Name)
  | drop (ns : List Name)
  | distinct
  | orderBy (keys : List OrdKey)
  | limit (n : Nat)
  | fillna (v : Val) (sub : List Name)
  | replace (pairs : List (Val × Val)) (sub : List Name)
  | toDF (names : List Name)
  | dropna (howAll : Bool) (thresh : Option Nat) (sub : List Name)
  | unpivot (ids vals : List Name) (var val : Name)
  deriving Repr

/-- one public method call, composed the way dataframe.py composes it -/
def DF.apply (d : DF) : Step → DF
  | .wher p => wrapper tag_where (bodyWhere p) d
  | .select items => wrapper tag_select (bodySelect items) d
  | .withColumn n e =>
      -- withColumn -> withColumns.__wrapped__ -> select.__wrapped__ (no second wrapper)
      wrapper tag_withColumn (fun d => bodySelect (withColItems d.outNames n e) d) d
  | .withColumnRenamed a b =>
      wrapper tag_withColumnRenamed (fun d => bodySelect (renameItems d.outNames a b) d) d
  | .drop ns =>
      -- drop -> self.copy().select(..., append=False): runs select's *wrapper* again
      wrapper tag_drop
        (fun d => wrapper tag_select (fun d' => bodySelectNoAppend dropSelectAppend (dropItems d.outNames ns) d') d) d
  | .distinct => wrapper tag_distinct bodyDistinct d
  | .orderBy keys => wrapper tag_orderBy (bodyOrderBy keys) d
  | .limit n => wrapper tag_limit (bodyLimit n) d
  | .fillna v sub =>
      -- fillna -> new_df = self.copy(); new_df.select(*cols): select's wrapper again
      wrapper tag_fillna
        (fun d => wrapper tag_select (fun d' => bodySelect (fillItems d.outNames v sub) d') d) d

  | .replace pairs sub =>
      wrapper tag_replace
        (fun d => wrapper tag_select (fun d' => bodySelect (replaceItems d.outNames pairs sub) d') d) d
  | .toDF names => wrapper tag_toDF (fun d => { d with blk := { d.blk with sel := toDFItems d.blk.sel names } }) d
  | .dropna howAll thresh sub =>
      -- dropna: new_df.select(num_nulls, append=True).where(num_nulls < k).select(*all_columns), each through its own wrapper
      wrapper tag_dropna
        (fun d =>
          let all := d.outNames
          let d1 := wrapper tag_select (bodySelectNoAppend true [("num_nulls", numNullsExpr sub)]) d
          let d2 := wrapper tag_where (bodyWhere (.bin .lt (.col "num_nulls") (.lit (.int (dropnaMin howAll thresh sub.length))))) d1
          wrapper tag_select (bodySelect (identSel all)) d2) d

  | .unpivot ids vals var val =>
      -- unpivot: wrap, UNION [ALL] of one select per value column over the frozen CTE, wrap again
      wrapper tag_unpivot
        (fun d =>
          let U := unpivotTable d.eval ids vals var val
          let U := if unpivotDistinct then { U with rows := dedup U.rows } else U
          { src := U, blk := { sel := identSel U.cols }, last := d.last,
            hist := d.hist ++ [.block d.blk, .unpivot ids vals var val unpivotDistinct] }) d

def DF.run (d : DF) (steps : List Step) : DF := steps.foldl DF.apply d

/-! ### PySpark's sequential meaning of the same steps (specification) -/
def specStep (T : Table) : Step → Table
  | .wher p => T.filter p
  | .select items => T.project items
  | .withColumn n e => T.project (withColItems T.cols n e)
  | .withColumnRenamed a b => T.project (renameItems T.cols a b)
  | .drop ns => T.project (dropItems T.cols ns)
  | .distinct => T.distinct
  | .orderBy keys => T.sort keys
  | .limit n => T.limit n
  | .fillna v sub => T.project (fillItems T.cols v sub)
  | .replace pairs sub => T.project (replaceItems T.cols pairs sub)
  | .toDF names => T.project (List.zipWith (fun c n => (n, Expr.col c)) T.cols names)
  | .dropna howAll thresh sub =>
      { T with rows := T.rows.filter (fun r =>
          decide (((sub.filter (fun c => lookup T.cols r c = .null)).length : Int) < dropnaMin howAll thresh sub.length)) }

  | .unpivot ids vals var val =>
      -- PySpark emits, for each row, one output row per value column (row-major); as a bag this is `unpivotTable`
      unpivotTable T ids vals var val

def specRun (T : Table) (steps : List Step) : Table := steps.foldl specStep T

end Sqlframe
