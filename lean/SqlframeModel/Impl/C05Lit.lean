/-
Impl/C05Lit.lean — how a plain Python value becomes a literal of the expression (`Column._lit`,
`Column.__init__`, `functions.lit`, the `@meta` decorator), driven by the regenerated `Gen.ColumnLit`,
and how the engine reads the literal's text back.

  PyVal      what the user writes: None, bool, int, float, str
  Tok        a sqlglot leaf: Null / Boolean / Literal(is_string=False, this=<text>) / Literal(is_string=True)
  LitNode    a leaf, or `CAST(<leaf> AS <type>)` (how NaN is written)
  rawLit     `Column._lit(v)`     initLit  `Column(v)`     fnNode  `functions.lit(v)` before the decorator
  pyStr      Python's `str(v)` — what `Literal.number(v)` stores as the node's text
  readNumber the engine's lexer on a numeric literal    LitNode.value?  what the engine reads (`none`: not a literal)

Python's `repr(float)` (shortest round-trip digits, exponent form iff the decimal point position is ≤ -4 or
> 16) and the engine's number lexer are third-party behaviour; they are written down here executably,
compared with the running code on every generated value, and `C05_lit_*` prove that the two are inverse
to each other for every int and every finite float.
-/
import SqlframeModel.Impl.C05Value
import SqlframeModel.Gen.ColumnLit
namespace Sqlframe.C05
open Sqlframe

/-! ## Python values -/

/-- a Python float by its shortest round-trip decimal `0.d₁d₂…dₙ · 10^pt` (what `repr` prints;
    `ds` has no leading or trailing zero, zero itself is `ds = [0], pt = 1`), or a special -/
inductive PyFloat
  | fin (neg : Bool) (ds : List Nat) (pt : Int)
  | nan
  | inf (neg : Bool)
  deriving DecidableEq, Repr

inductive PyVal
  | none
  | bool (b : Bool)
  | int (i : Int)
  | float (f : PyFloat)
  | str (s : String)
  deriving DecidableEq, Repr

/-- a Python float is given by genuine decimal digits (a representation invariant, not a restriction) -/
def PyVal.wf : PyVal → Bool
  | .float (.fin _ ds _) => !ds.isEmpty && ds.all (fun d => decide (d < 10))
  | _ => true

/-- not ±inf -/
def PyVal.finite : PyVal → Bool
  | .float (.inf _) => false
  | _ => true

/-! ## digits -/

def digitChar : Nat → Char
  | 0 => '0' | 1 => '1' | 2 => '2' | 3 => '3' | 4 => '4'
  | 5 => '5' | 6 => '6' | 7 => '7' | 8 => '8' | _ => '9'

def charDigit? : Char → Option Nat
  | '0' => some 0 | '1' => some 1 | '2' => some 2 | '3' => some 3 | '4' => some 4
  | '5' => some 5 | '6' => some 6 | '7' => some 7 | '8' => some 8 | '9' => some 9
  | _ => none

/-- decimal digits, least significant first -/
def digitsRev : Nat → Nat → List Nat
  | 0, _ => []
  | f + 1, n => if n < 10 then [n] else (n % 10) :: digitsRev f (n / 10)

/-- decimal digits, most significant first -/
def natDigits (n : Nat) : List Nat := (digitsRev (n + 1) n).reverse

def ofDigitsRev : List Nat → Nat
  | [] => 0
  | d :: ds => d + 10 * ofDigitsRev ds

/-- value of a digit string, most significant first -/
def ofDigits (ds : List Nat) : Nat := ofDigitsRev ds.reverse

def showDigits (ds : List Nat) : List Char := ds.map digitChar

/-- longest prefix of decimal digits, and the rest -/
def spanDigits : List Char → List Nat × List Char
  | [] => ([], [])
  | c :: cs =>
    match charDigit? c with
    | some d => (d :: (spanDigits cs).1, (spanDigits cs).2)
    | none => ([], c :: cs)

/-! ## Python's spelling of numbers -/

def showInt (i : Int) : List Char :=
  if i < 0 then '-' :: showDigits (natDigits i.natAbs) else showDigits (natDigits i.natAbs)

/-- exponents are printed with at least two digits -/
def pad2 (ds : List Nat) : List Nat := if ds.length < 2 then 0 :: ds else ds

/-- `e±XX` -/
def expText (x : Int) : List Char :=
  'e' :: (if x < 0 then '-' else '+') :: showDigits (pad2 (natDigits x.natAbs))

/-- `repr` of a non-negative finite float (`float_repr_style = 'short'`): exponent form `d₁[.d₂…dₙ]e±XX`
    (exponent `pt - 1`) iff `pt > 16 ∨ pt < -3`, else positional with at least one digit on either side of the point -/
def floatBody (ds : List Nat) (pt : Int) : List Char :=
  if pt > 16 ∨ pt < -3 then
    (match ds with
      | [] => ['0']
      | d :: rest => digitChar d :: (if rest.isEmpty then [] else '.' :: showDigits rest))
    ++ expText (pt - 1)
  else if pt ≤ 0 then
    '0' :: '.' :: (showDigits (List.replicate (-pt).toNat 0) ++ showDigits ds)
  else if pt.toNat < ds.length then
    showDigits (ds.take pt.toNat) ++ '.' :: showDigits (ds.drop pt.toNat)
  else
    showDigits ds ++ (showDigits (List.replicate (pt.toNat - ds.length) 0) ++ ['.', '0'])

def floatRepr (neg : Bool) (ds : List Nat) (pt : Int) : List Char :=
  if neg then '-' :: floatBody ds pt else floatBody ds pt

/-- Python's `str(v)` -/
def pyStr : PyVal → String
  | .none => "None"
  | .bool b => if b then "True" else "False"
  | .int i => String.ofList (showInt i)
  | .float (.fin neg ds pt) => String.ofList (floatRepr neg ds pt)
  | .float .nan => "nan"
  | .float (.inf neg) => if neg then "-inf" else "inf"
  | .str s => s

/-- the value the user means -/
def pyValue : PyVal → CVal
  | .none => .null
  | .bool b => .bool b
  | .int i => .int i
  | .float (.fin neg ds pt) =>
      .dbl (Dbl.mk (if neg then -(ofDigits ds : Int) else (ofDigits ds : Int)) (pt - ds.length))
  | .float .nan => .dbl .nan
  | .float (.inf neg) => .dbl (if neg then .ninf else .pinf)
  | .str s => .str s

/-! ## literal nodes and how the engine reads them -/

inductive Tok
  | null
  | boolean (b : Bool)
  | number (text : String)
  | string (s : String)
  deriving DecidableEq, Repr

inductive LitNode
  | tok (t : Tok)
  | cast (t : Tok) (ty : String)
  | opaque (what : String)        -- a construction outside the scalar model (struct, array, parsed SQL text, …)
  deriving DecidableEq, Repr

/-- sign character of an exponent / number -/
def signed (neg : Bool) (n : Nat) : Int := if neg then -(n : Int) else (n : Int)

/-- `[e[+-]digits]` after the mantissa digits `ds` with `frac` digits behind the point -/
def readExp (neg : Bool) (ds : List Nat) (frac : Nat) : List Char → Option CVal
  | [] => some (.dbl (Dbl.mk (signed neg (ofDigits ds)) (-(frac : Int))))
  | 'e' :: r =>
    let (eneg, r') := match r with
      | '-' :: r' => (true, r')
      | '+' :: r' => (false, r')
      | _ => (false, r)
    let (ed, rest) := spanDigits r'
    if ed.isEmpty || !rest.isEmpty then none
    else some (.dbl (Dbl.mk (signed neg (ofDigits ds)) (signed eneg (ofDigits ed) - (frac : Int))))
  | _ => none

/-- after the optional sign: `digits`, `digits.digits`, either followed by an exponent -/
def readUnsigned (neg : Bool) (cs : List Char) : Option CVal :=
  let (ip, r) := spanDigits cs
  if ip.isEmpty then none
  else match r with
    | [] => some (.int (signed neg (ofDigits ip)))
    | '.' :: r2 =>
      let (fp, r3) := spanDigits r2
      if fp.isEmpty then none else readExp neg (ip ++ fp) fp.length r3
    | 'e' :: r2 => readExp neg ip 0 ('e' :: r2)
    | _ => none

/-- the engine's reading of a numeric literal's text (`none`: not a number — an identifier or a syntax error) -/
def readNumber : List Char → Option CVal
  | '-' :: cs => readUnsigned true cs
  | cs => readUnsigned false cs

def Tok.value? : Tok → Option CVal
  | .null => some .null
  | .boolean b => some (.bool b)
  | .number t => readNumber t.toList
  | .string s => some (.str s)

/-- `CAST('<text>' AS DOUBLE)` -/
def castDouble? (s : String) : Option CVal :=
  if s = "NaN" ∨ s = "nan" then some (.dbl .nan)
  else if s = "inf" ∨ s = "Infinity" ∨ s = "infinity" ∨ s = "+inf" then some (.dbl .pinf)
  else if s = "-inf" ∨ s = "-Infinity" ∨ s = "-infinity" then some (.dbl .ninf)
  else match readNumber s.toList with
    | some (.int i) => some (.dbl (Dbl.mk i 0))
    | some (.dbl d) => some (.dbl d)
    | _ => none

def LitNode.value? : LitNode → Option CVal
  | .tok t => t.value?
  | .cast (.string s) "DOUBLE" => castDouble? s
  | .cast _ _ => none
  | .opaque _ => none

def LitNode.value (l : LitNode) : CVal := l.value?.getD .null

/-- is the node an `exp.Func` (what the `@meta` decorator aliases)? -/
def LitNode.isFunc : LitNode → Bool
  | .cast _ _ => true
  | _ => false

/-! ## the decision chains -/

/-- everything the literal conversion takes from the source (the generated instance is `theLitCfg`) -/
structure LitCfg where
  litChain : List (Gen.LitGuard × Gen.LitAction)
  litFall : Gen.LitAction
  fnChain : List (Gen.LitGuard × Gen.LitAction)
  fnFall : Gen.LitAction
  fnHasMeta : Bool
  whenHasMeta : Bool
  metaAliasesFunc : Bool
  initChain : List (Gen.InitGuard × Gen.InitAction)

def theLitCfg : LitCfg where
  litChain := Gen.litChain
  litFall := Gen.litFallthrough
  fnChain := Gen.litFnChain
  fnFall := Gen.litFnFallthrough
  fnHasMeta := Gen.litFnHasMeta
  whenHasMeta := Gen.whenHasMeta
  metaAliasesFunc := Gen.metaAliasesFunc
  initChain := Gen.initChain

/-- does a guard hold of a scalar Python value?  (Row / list / set / tuple / dict / datetime are not `PyVal`s) -/
def guardHolds : Gen.LitGuard → PyVal → Bool
  | .isFloatNan, .float .nan => true
  | .isFloatInf, .float (.inf _) => true
  | .isStr, .str _ => true
  | _, _ => false

def initGuardHolds : Gen.InitGuard → PyVal → Bool
  | .isColumn, _ => false
  | .isNoneOrNotStrOrExpr, .str _ => false
  | .isNoneOrNotStrOrExpr, _ => true
  | .isNotExpColumn, _ => true          -- a `str` (nothing else reaches this branch) is not an `exp.Column`

/-- the first branch whose guard holds, else the final `return` -/
def firstAction (chain : List (Gen.LitGuard × Gen.LitAction)) (fall : Gen.LitAction) (v : PyVal) : Gen.LitAction :=
  match chain.find? (fun ga => guardHolds ga.1 v) with
  | some ga => ga.2
  | none => fall

/-- sqlglot's type name for the string handed to `exp.DataType.build` -/
def sqlTypeName : String → String
  | "double" => "DOUBLE"
  | "float" => "FLOAT"
  | s => "?" ++ s

/-- sqlglot's `exp.convert` on a scalar: str → string literal, bool → Boolean, None and NaN → Null,
    any other number → `Literal.number(value)`, whose text is `str(value)` -/
def convert : PyVal → LitNode
  | .str s => .tok (.string s)
  | .bool b => .tok (.boolean b)
  | .none => .tok .null
  | .float .nan => .tok .null
  | v => .tok (.number (pyStr v))

/-- Python's `value > 0` on a number (never asked of anything else: the branch is guarded by a float test) -/
def pyPositive : PyVal → Bool
  | .int i => decide (0 < i)
  | .float (.fin neg ds _) => !neg && ds.any (fun d => decide (d ≠ 0))
  | .float (.inf neg) => !neg
  | _ => false

/-- a branch of `Column._lit` applied to a scalar -/
def actRaw : Gen.LitAction → PyVal → LitNode
  | .convert, v => convert v
  | .castStrConst s ty, _ => .cast (.string s) (sqlTypeName ty)
  | .castStrBySign pos neg ty, v => .cast (.string (if pyPositive v then pos else neg)) (sqlTypeName ty)
  | .stringOfValue, v => .tok (.string (pyStr v))
  | .stringOfStr, v => .tok (.string (pyStr v))
  | .columnInit, _ => .opaque "Column(value) inside _lit"
  | .structOfRow, _ => .opaque "struct"
  | .arrayOf, _ => .opaque "array"
  | .tupleOf, _ => .opaque "tuple"
  | .varMapOf, _ => .opaque "map"
  | .datetimeCast, _ => .opaque "timestamp"

/-- `Column._lit(v)` -/
def rawLit (c : LitCfg) (v : PyVal) : LitNode := actRaw (firstAction c.litChain c.litFall v) v

/-- `Column(v)` for a plain Python value -/
def initLit (c : LitCfg) (v : PyVal) : LitNode :=
  match c.initChain.find? (fun ga => initGuardHolds ga.1 v) with
  | some (_, .viaLit) => rawLit c v
  | some (_, .parseSql) => .opaque "SQL text parsed by Column(str)"
  | some (_, .takeExpression) => .opaque "Column(Column)"
  | none => .opaque "Column(value): no branch"

/-- `functions.lit(v)` before the decorator -/
def fnNode (c : LitCfg) (v : PyVal) : LitNode :=
  match firstAction c.fnChain c.fnFall v with
  | .columnInit => initLit c v
  | a => actRaw a v

/-- does the `@meta` decorator put its automatic alias on `lit(v)`? -/
def fnAliased (c : LitCfg) (v : PyVal) : Bool := c.fnHasMeta && c.metaAliasesFunc && (fnNode c v).isFunc

/-- the coercion of one call site -/
def coerceNode (c : LitCfg) : Gen.Coerce → PyVal → LitNode
  | .rawLit, v => rawLit c v
  | .strRawElseInit, .str s => rawLit c (.str s)
  | .strRawElseInit, v => initLit c v
  | .litFn, v => fnNode c v

/-- the engine reads the literal back as the value the user wrote -/
def readsBack (l : LitNode) (v : PyVal) : Bool := decide (l.value? = some (pyValue v))

/-! ## obligations on the generated chains -/

/-- every scalar reaches `exp.convert` except NaN, which is written as a cast of the string 'NaN' to DOUBLE
    (a bare `nan` would be read as a column name); `lit(str)` is a string literal; `Column(v)` sends a
    non-str value through `_lit` -/
def litChainOK (c : LitCfg) : Bool :=
  firstAction c.litChain c.litFall .none == .convert
  && firstAction c.litChain c.litFall (.bool true) == .convert
  && firstAction c.litChain c.litFall (.int 0) == .convert
  && firstAction c.litChain c.litFall (.float (.fin false [1] 1)) == .convert
  && firstAction c.litChain c.litFall (.str "") == .convert
  && (match firstAction c.litChain c.litFall (.float .nan) with
      | .castStrConst s ty => castDouble? s == some (.dbl .nan) && sqlTypeName ty == "DOUBLE"
      | _ => false)
  && (firstAction c.fnChain c.fnFall (.str "") == .stringOfValue || firstAction c.fnChain c.fnFall (.str "") == .stringOfStr)
  && firstAction c.fnChain c.fnFall .none == .columnInit
  && firstAction c.fnChain c.fnFall (.bool true) == .columnInit
  && firstAction c.fnChain c.fnFall (.int 0) == .columnInit
  && firstAction c.fnChain c.fnFall (.float (.fin false [1] 1)) == .columnInit
  && firstAction c.fnChain c.fnFall (.float .nan) == .columnInit
  && c.initChain.find? (fun ga => initGuardHolds ga.1 .none) == some (.isNoneOrNotStrOrExpr, .viaLit)

/-- through the coercion `k`, an infinite float is written in a way the engine reads back as that infinity -/
def infHandledVia (c : LitCfg) (k : Gen.Coerce) : Bool :=
  [true, false].all fun neg => readsBack (coerceNode c k (.float (.inf neg))) (.float (.inf neg))

/-- … through every coercion -/
def infHandled (c : LitCfg) : Bool :=
  infHandledVia c .rawLit && infHandledVia c .strRawElseInit && infHandledVia c .litFn

/-- the value is not ±inf, or the coercion it goes through handles ±inf -/
def infVia (c : LitCfg) (k : Gen.Coerce) (v : PyVal) : Bool := v.finite || infHandledVia c k

end Sqlframe.C05
