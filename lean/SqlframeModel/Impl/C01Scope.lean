/-
Impl/C01Scope.lean — decidable scope of `C01_partial` and well-formedness of programs.

`noAdjacentOrderBy` is a *determinism* scope, not a defect: PySpark's sort is not stable, so
`orderBy(k1).orderBy(k2)` may order ties of k2 in any way; the equality theorem therefore excludes
it and the pattern is covered by its own theorem `C01_orderBy_twice` (the result is the k2-sort of a
permutation of the input — it does not retain k1 as a leading key).
-/
import SqlframeModel.Impl.DataFrame
namespace Sqlframe
open Gen

def Step.isOrderBy : Step → Bool | .orderBy _ => true | _ => false
def Step.isDropna : Step → Bool | .dropna _ _ _ => true | _ => false

/-- no `orderBy` directly follows an `orderBy` -/
def noAdjacentOrderBy : List Step → Bool
  | a :: b :: rest => !(a.isOrderBy && b.isOrderBy) && noAdjacentOrderBy (b :: rest)
  | _ => true

/-- what PySpark requires of one step given the current column list -/
def Step.WF (cols : List Name) : Step → Prop
  | .wher p => ∀ n ∈ p.refs, n ∈ cols
  | .select items => (items.map (·.1)).Nodup ∧ ∀ it ∈ items, ∀ n ∈ it.2.refs, n ∈ cols
  | .withColumn _ e => ∀ n ∈ e.refs, n ∈ cols
  | .withColumnRenamed a b => a ∈ cols ∧ b ∉ cols
  | .drop _ => True
  | .distinct => True
  | .orderBy keys => keys ≠ [] ∧ ∀ k ∈ keys, k.name ∈ cols
  | .limit _ => True
  | .fillna _ sub => ∀ n ∈ sub, n ∈ cols
  | .replace pairs sub => pairs ≠ [] ∧ ∀ n ∈ sub, n ∈ cols
  | .toDF names => names.length = cols.length ∧ names.Nodup
  | .dropna _ _ sub => (∀ n ∈ sub, n ∈ cols) ∧ "num_nulls" ∉ cols
  | .unpivot ids vals var val => (∀ n ∈ ids ++ vals, n ∈ cols) ∧ vals ≠ [] ∧ (ids ++ [var, val]).Nodup

instance (cols : List Name) (s : Step) : Decidable (s.WF cols) := by
  cases s <;> unfold Step.WF <;> exact inferInstance

/-- every step is well-formed for the columns the previous steps produce -/
def StepsWF (T : Table) : List Step → Prop
  | [] => True
  | s :: ss => s.WF T.cols ∧ StepsWF (specStep T s) ss

/-- steps covered by `C01_partial` (the others are only compared executably: implementation vs `specStep`) -/
def Step.inTheorem : Step → Bool
  | _ => true

/-- an `unpivot` over at least two value columns: one UNION ALL with two or more branches over the same frozen CTE -/
def Step.isWideUnpivot : Step → Bool
  | .unpivot _ vals _ _ => decide (2 ≤ vals.length)
  | _ => false

/-- how far a program is into the pattern `orderBy … unpivot(≥2) … unpivot(≥2)` (0: nothing yet, 3: complete) -/
def sortUnionProgress : Nat → List Step → Nat
  | n, [] => n
  | 0, s :: ss => sortUnionProgress (if s.isOrderBy then 1 else 0) ss
  | 1, s :: ss => sortUnionProgress (if s.isWideUnpivot then 2 else 1) ss
  | 2, s :: ss => sortUnionProgress (if s.isWideUnpivot then 3 else 2) ss
  | n, _ :: _ => n

/-- **engine scope** (third party, not sqlframe's): the statement for `orderBy … unpivot(≥2 columns) … unpivot(≥2 columns)` is a
    UNION ALL nested in a UNION ALL over a CTE that carries an ORDER BY; DuckDB 1.2.2 run with more than one thread loses rows of
    the outer UNION's later branches on such a statement (with `SET threads=1`, or the sorted CTE `MATERIALIZED`, it returns
    all of them).  `Core/Sql.lean` is the engine's stated semantics, so the model and the specification agree on these
    programs; the implementation on the default multi-threaded engine does not. -/
def nestedUnionOverSort (steps : List Step) : Bool := sortUnionProgress 0 steps == 3

/-- named scope hypotheses violated by a program (no sqlframe defect is open after the `fix:` commits; `H_engine…` names an
    open defect of the engine) -/
def violated (steps : List Step) : List String :=
  (if noAdjacentOrderBy steps then [] else ["D_adjacentOrderBy"]) ++
  (if steps.all Step.inTheorem then [] else ["D_stepOutsideTheorem"]) ++
  (if nestedUnionOverSort steps then ["H_engineNestedUnionOverSort"] else [])

end Sqlframe
