/-
Impl/C01Scope.lean — decidable scope of `C01_partial` and well-formedness of programs.

`noAdjacentOrderBy` is a *determinism* scope, not a defect: PySpark's sort is not stable, so
`orderBy(k1).orderBy(k2)` may order ties of k2 in any way; the equality theorem therefore excludes
it and the pattern is covered by its own theorem `C01_orderBy_twice` (the result is the k2-sort of a
permutation of the input — it does not retain k1 as a leading key).
-/
import SqlframeModel.Impl.DataFrame
namespace Sqlframe
open Gen

def Step.isOrderBy : Step → Bool | .orderBy _ => true | _ => false
def Step.isDropna : Step → Bool | .dropna _ _ _ => true | _ => false

/-- no `orderBy` directly follows an `orderBy` -/
def noAdjacentOrderBy : List Step → Bool
  | a :: b :: rest => !(a.isOrderBy && b.isOrderBy) && noAdjacentOrderBy (b :: rest)
  | _ => true

/-- what PySpark requires of one step given the current column list -/
def Step.WF (cols : List Name) : Step → Prop
  | .wher p => ∀ n ∈ p.refs, n ∈ cols
  | .select items => (items.map (·.1)).Nodup ∧ ∀ it ∈ items, ∀ n ∈ it.2.refs, n ∈ cols
  | .withColumn _ e => ∀ n ∈ e.refs, n ∈ cols
  | .withColumnRenamed a b => a ∈ cols ∧ b ∉ cols
  | .drop _ => True
  | .distinct => True
  | .orderBy keys => keys ≠ [] ∧ ∀ k ∈ keys, k.name ∈ cols
  | .limit _ => True
  | .fillna _ sub => ∀ n ∈ sub, n ∈ cols
  | .replace pairs sub => pairs ≠ [] ∧ ∀ n ∈ sub, n ∈ cols
  | .toDF names => names.length = cols.length ∧ names.Nodup
  | .dropna _ _ sub => (∀ n ∈ sub, n ∈ cols) ∧ "num_nulls" ∉ cols
  | .unpivot ids vals var val => (∀ n ∈ ids ++ vals, n ∈ cols) ∧ vals ≠ [] ∧ (ids ++ [var, val]).Nodup

instance (cols : List Name) (s : Step) : Decidable (s.WF cols) := by
  cases s <;> unfold Step.WF <;> exact inferInstance

/-- every step is well-formed for the columns the previous steps produce -/
def StepsWF (T : Table) : List Step → Prop
  | [] => True
  | s :: ss => s.WF T.cols ∧ StepsWF (specStep T s) ss

/-- steps covered by `C01_partial` (the others are only compared executably: implementation vs `specStep`) -/
def Step.inTheorem : Step → Bool
  | _ => true

/-- named scope hypotheses violated by a program (none are open after the `fix:` commits) -/
def violated (steps : List Step) : List String :=
  (if noAdjacentOrderBy steps then [] else ["D_adjacentOrderBy"]) ++
  (if steps.all Step.inTheorem then [] else ["D_stepOutsideTheorem"])

end Sqlframe
