/-
Impl/C16.lean — model of what sqlframe does with a Python `str` in a ColumnOrName position.

Modelled (hand-written, driven by the decisions `tools/gen_c16.py` reads from sqlframe/base/column.py and
base/functions.py): `functions.col`, `Column.ensure_col`, `functions.lit`/`Column._lit`, the `Column(...)`
constructor and the operand rule of `Column.binary_op` / `inverse_binary_op`.
Assumed (third party, abstract): `parse : String → Ex`, sqlglot's `maybe_parse` of the text of a name.
Generated: `Gen.cells`, which coercion a string meets in every (function, engine, position) cell
(tools/props/c16_trace.py runs the real functions with a tracing `str`).
-/
import SqlframeModel.Gen.Functions
namespace Sqlframe.C16
open Sqlframe.Gen

/-- expression trees, as far as C16 needs them -/
inductive Ex
  | column (name : String)          -- `expression.to_column(name)`: a reference to the column called `name`
  | strLit (s : String)             -- `Literal.string(s)`
  | app (fn : String) (args : List Ex)
  deriving Repr, Inhabited

-- structural equality (hand-written: the nested `List Ex` is not handled by `deriving DecidableEq`)
mutual
def Ex.beq : Ex → Ex → Bool
  | .column a, .column b => a == b
  | .strLit a, .strLit b => a == b
  | .app f xs, .app g ys => f == g && Ex.beqList xs ys
  | _, _ => false
def Ex.beqList : List Ex → List Ex → Bool
  | [], [] => true
  | x :: xs, y :: ys => Ex.beq x y && Ex.beqList xs ys
  | _, _ => false
end

/-- a Python argument in a ColumnOrName position: the name as a `str`, or a Column object -/
inductive Arg
  | str (s : String)
  | colObj (e : Ex)
  deriving Repr

/-- what a coercion entry point whose source reads `Route` does with a `str` -/
def routeStr (parse : String → Ex) : Route → String → Ex
  | .columnRef, s => .column s
  | .ensureCol, s => .column s
  | .stringLiteral, s => .strLit s
  | .literal, s => .strLit s
  | .parse, s => parse s
  | .columnCtor, s => parse s

/-- `Column(x)` -/
def columnCtor (parse : String → Ex) : Arg → Ex
  | .colObj e => e   -- `if isinstance(expression, Column): expression = expression.expression`
  | .str s => routeStr parse columnCtorOnStr s

/-- `functions.col(x)` -/
def colFn (parse : String → Ex) : Arg → Ex
  | .str s => routeStr parse colOnStr s
  | .colObj e => match colOnOther with
    | .columnCtor => columnCtor parse (.colObj e)
    | _ => e

/-- `Column.ensure_col(x)` = `col(x)` (Gen.ensureColIsCol) -/
def ensureCol (parse : String → Ex) (a : Arg) : Ex := colFn parse a

/-- `functions.lit(x)` / `Column._lit(x)` -/
def litFn (parse : String → Ex) : Arg → Ex
  | .str s => routeStr parse litOnStr s
  | .colObj e => e

/-- the `other` operand of `Column.binary_op` (`inverse = false`) / `inverse_binary_op` (`inverse = true`) -/
def operand (parse : String → Ex) (inverse : Bool) : Arg → Ex
  | .str s => routeStr parse (if inverse then inverseBinaryOpOnStr else binaryOpOnStr) s
  | .colObj e => e

/-- Python `x + y` where `y` is a Column and `x` is whatever the caller passed: a `str` has no `__add__`
    for Columns, so Python calls `y.__radd__(x)` = `inverse_binary_op` -/
def pyAdd (parse : String → Ex) (x : Arg) (y : Ex) : Ex :=
  match x with
  | .colObj e => .app "+" [e, y]
  | .str _ => .app "+" [operand parse true x, y]

/-- Python `x * y`, same dispatch -/
def pyMul (parse : String → Ex) (x : Arg) (y : Ex) : Ex :=
  match x with
  | .colObj e => .app "*" [e, y]
  | .str _ => .app "*" [operand parse true x, y]

/-- a concrete stand-in for sqlglot's parser, used by the driver only: identifier-like text is a column
    reference, anything else is "some other SQL" (validated against the real parser by the check) -/
def isIdentChar (ch : Char) : Bool := ch.isAlphanum || ch == '_'
def identLike (s : String) : Bool := !s.isEmpty && s.toList.all isIdentChar
def parseStandIn (s : String) : Ex := if identLike s then .column s else .app "<parsed sql>" [.strLit s]

/-- the text sqlglot's `Identifier` renders for a column name after `col`'s normalisation (stand-in:
    identifier-like names are lower-cased by the Spark input dialect, any other name is kept and quoted) -/
def identText (n : String) : String := if identLike n then n.toLower else "\"" ++ n ++ "\""

/-- the text `session.format_time(value)` reads out of a Column: `f"'{value.expression.this}'"` -/
def Ex.text : Ex → String
  | .column n => identText n
  | .strLit s => s
  | .app f _ => f

/-- what the traced coercion does with the argument.  `text`: the parameter is consumed as Python text
    (a format string); a Column is reduced to its `.expression.this` first, so both forms become a string
    literal (the same one when the name is identifier-like).  `none`: the string form raises while the Column form works. -/
def coerce (parse : String → Ex) : Coercion → Arg → Option Ex
  | .ensureCol, a => some (ensureCol parse a)
  | .literal, a => some (litFn parse a)
  | .parsed, a => some (columnCtor parse a)
  | .text, .str s => some (.strLit s)
  | .text, .colObj e => some (.strLit e.text)
  | .none, .colObj e => some e
  | .none, .str _ => none

/-- the function's result with the rest of its body as a context `k` around the coerced argument -/
def resultWith (parse : String → Ex) (k : Ex → Ex) (c : Coercion) (a : Arg) : Option Ex :=
  (coerce parse c a).map k

/-- what PySpark builds for either form: the context around a reference to the column called `n` -/
def specResult (k : Ex → Ex) (n : String) : Option Ex := some (k (.column n))

/-- `log1p_from_log`: `log(col + lit(1))` -/
def log1pFromLog (parse : String → Ex) (a : Arg) : Ex :=
  .app "LN" [pyAdd parse a (.app "lit" [.strLit "1"])]

/-- `date_sub_by_date_add`: `date_add(col, days * lit(-1))` (the `days` operand) -/
def dateSubDays (parse : String → Ex) (days : Arg) : Ex :=
  pyMul parse days (.app "lit" [.strLit "-1"])

-- ------------------------------------------------------------------------------------------------
-- scope: the cells that are listed as known defects, by root cause
-- ------------------------------------------------------------------------------------------------

/-- (function, engines, positions) -/
abbrev Pattern := String × List Engine × List Nat

def Pattern.hits (p : Pattern) (c : Cell) : Bool :=
  p.2.2.contains c.pos && p.2.1.contains c.engine && p.1 == c.fn

/-- an engine alternative combines the raw argument with a Python operator (`col + lit(1)`, `days * lit(-1)`) -/
def rawOperatorCells : List Pattern := [
  ("log1p", [.duckdb, .postgres, .bigquery, .snowflake], [0]),
  ("date_sub", [.snowflake], [1])]

/-- `lit(x)` applied to whatever is not an `int` / not a Column, so a name becomes a string literal -/
def litOnNameCells : List Pattern := [
  ("slice", [.duckdb, .postgres, .bigquery, .snowflake], [1, 2]),
  ("overlay", [.standalone, .spark, .databricks, .postgres, .redshift], [2, 3]),
  ("array_repeat", [.standalone, .spark, .databricks, .redshift], [1])]

/-- PySpark's `format: ColumnOrName` is taken as a Python format string (never a column name) -/
def formatAsTextCells : List Pattern := [
  ("to_unix_timestamp", [.standalone, .spark, .databricks, .duckdb, .redshift], [1]),
  ("to_timestamp_ntz", [.duckdb, .postgres, .bigquery], [1]),
  ("try_to_timestamp", Engine.all, [1])]

/-- `Column(name)` instead of `ensure_col(name)`: the name's text is parsed as SQL -/
def parsedNameCells : List Pattern := [
  ("add_months", [.standalone, .spark, .databricks, .duckdb, .postgres, .bigquery, .redshift], [0]),
  ("trunc", Engine.all, [0]),
  ("date_trunc", Engine.all, [1]),
  ("overlay", [.standalone, .spark, .databricks, .postgres, .redshift], [1]),
  ("base64", [.duckdb, .postgres, .bigquery, .snowflake], [0]),
  ("unbase64", [.postgres, .snowflake], [0]),
  ("decode", [.duckdb, .postgres], [0]),
  ("collect_set", [.duckdb, .postgres, .bigquery], [0]),
  ("isnan", [.postgres, .snowflake], [0]),
  ("nanvl", [.postgres, .snowflake], [0]),
  ("position", [.bigquery], [2])]

def hitsAny (ps : List Pattern) (c : Cell) : Bool := ps.any (·.hits c)

/-- named scope hypotheses of `C16_table_partial`: the cell is not one of the listed defect cells -/
def H_rawOperator (c : Cell) : Prop := hitsAny rawOperatorCells c = false
def H_litOnName (c : Cell) : Prop := hitsAny litOnNameCells c = false
def H_formatAsText (c : Cell) : Prop := hitsAny formatAsTextCells c = false
def H_parsedName (c : Cell) : Prop := hitsAny parsedNameCells c = false

instance (c : Cell) : Decidable (H_rawOperator c) := by unfold H_rawOperator; exact inferInstance
instance (c : Cell) : Decidable (H_litOnName c) := by unfold H_litOnName; exact inferInstance
instance (c : Cell) : Decidable (H_formatAsText c) := by unfold H_formatAsText; exact inferInstance
instance (c : Cell) : Decidable (H_parsedName c) := by unfold H_parsedName; exact inferInstance

/-- `H_listedCells` -/
def listed (c : Cell) : Bool :=
  hitsAny rawOperatorCells c || hitsAny litOnNameCells c || hitsAny formatAsTextCells c || hitsAny parsedNameCells c

def InScope (c : Cell) : Prop := H_rawOperator c ∧ H_litOnName c ∧ H_formatAsText c ∧ H_parsedName c

instance (c : Cell) : Decidable (InScope c) := by unfold InScope; exact inferInstance

/-- names of the scope hypotheses a cell violates (driver output) -/
def violated (c : Cell) : List String :=
  (if hitsAny rawOperatorCells c then ["H_rawOperator"] else []) ++
  (if hitsAny litOnNameCells c then ["H_litOnName"] else []) ++
  (if hitsAny formatAsTextCells c then ["H_formatAsText"] else []) ++
  (if hitsAny parsedNameCells c then ["H_parsedName"] else [])

/-- the cell check `decide +kernel` runs over the generated table (good cells stop at the first disjunct) -/
def cellOk (c : Cell) : Bool := c.coercion == .ensureCol || listed c

/-- the table's entry for (function, engine, position, element) -/
def coercionAt (fn : String) (e : Engine) (pos sub : Nat) : Option Coercion :=
  (cells.find? (fun c => c.fn == fn && c.engine == e && c.pos == pos && c.sub == sub)).map (·.coercion)

end Sqlframe.C16
