/-
Impl/C16.lean — model of what sqlframe does with a Python `str` in a ColumnOrName position.

Modelled (hand-written, driven by the decisions `tools/gen_c16.py` reads from sqlframe/base/column.py and
base/functions.py): `functions.col`, `Column.ensure_col`, `functions.lit`/`Column._lit`, the `Column(...)`
constructor and the operand rule of `Column.binary_op` / `inverse_binary_op`.
Assumed (third party, abstract): `parse : String → Ex`, sqlglot's `maybe_parse` of the text of a name.
Generated: `Gen.cells`, which coercion a string meets in every (function, engine, position) cell
(tools/props/c16_trace.py runs the real functions with a tracing `str`); element 2 / 3 of a `*cols` position is the
first / a later element of ONE list argument (`f([a, b])`, where PySpark documents that form).
Second part (below `-- naming`): what NAME the result carries and how a collection argument is unpacked —
`struct`'s field names (`Gen.structFieldName`), the varargs-or-one-list rule of `array` / `create_map` / `map_concat` /
`struct` (`Gen.unpackSites`), the automatic alias of `func_metadata` (`Gen.autoAliasFromResultOnly`, `Gen.noAutoAlias`).
sqlglot's readings of a name (`Names`) are abstract there as well.
-/
import SqlframeModel.Gen.Functions
namespace Sqlframe.C16
open Sqlframe.Gen

/-- expression trees, as far as C16 needs them -/
inductive Ex
  | column (name : String)          -- `expression.to_column(name)`: a reference to the column called `name`
  | strLit (s : String)             -- `Literal.string(s)`
  | app (fn : String) (args : List Ex)
  deriving Repr, Inhabited

-- structural equality (hand-written: the nested `List Ex` is not handled by `deriving DecidableEq`)
mutual
def Ex.beq : Ex → Ex → Bool
  | .column a, .column b => a == b
  | .strLit a, .strLit b => a == b
  | .app f xs, .app g ys => f == g && Ex.beqList xs ys
  | _, _ => false
def Ex.beqList : List Ex → List Ex → Bool
  | [], [] => true
  | x :: xs, y :: ys => Ex.beq x y && Ex.beqList xs ys
  | _, _ => false
end

/-- a Python argument in a ColumnOrName position: the name as a `str`, or a Column object -/
inductive Arg
  | str (s : String)
  | colObj (e : Ex)
  deriving Repr

/-- what a coercion entry point whose source reads `Route` does with a `str` -/
def routeStr (parse : String → Ex) : Route → String → Ex
  | .columnRef, s => .column s
  | .ensureCol, s => .column s
  | .stringLiteral, s => .strLit s
  | .literal, s => .strLit s
  | .parse, s => parse s
  | .columnCtor, s => parse s

/-- `Column(x)` -/
def columnCtor (parse : String → Ex) : Arg → Ex
  | .colObj e => e   -- `if isinstance(expression, Column): expression = expression.expression`
  | .str s => routeStr parse columnCtorOnStr s

/-- `functions.col(x)` -/
def colFn (parse : String → Ex) : Arg → Ex
  | .str s => routeStr parse colOnStr s
  | .colObj e => match colOnOther with
    | .columnCtor => columnCtor parse (.colObj e)
    | _ => e

/-- `Column.ensure_col(x)` = `col(x)` (Gen.ensureColIsCol) -/
def ensureCol (parse : String → Ex) (a : Arg) : Ex := colFn parse a

/-- `functions.lit(x)` / `Column._lit(x)` -/
def litFn (parse : String → Ex) : Arg → Ex
  | .str s => routeStr parse litOnStr s
  | .colObj e => e

/-- the `other` operand of `Column.binary_op` (`inverse = false`) / `inverse_binary_op` (`inverse = true`) -/
def operand (parse : String → Ex) (inverse : Bool) : Arg → Ex
  | .str s => routeStr parse (if inverse then inverseBinaryOpOnStr else binaryOpOnStr) s
  | .colObj e => e

/-- Python `x + y` where `y` is a Column and `x` is whatever the caller passed: a `str` has no `__add__`
    for Columns, so Python calls `y.__radd__(x)` = `inverse_binary_op` -/
def pyAdd (parse : String → Ex) (x : Arg) (y : Ex) : Ex :=
  match x with
  | .colObj e => .app "+" [e, y]
  | .str _ => .app "+" [operand parse true x, y]

/-- Python `x * y`, same dispatch -/
def pyMul (parse : String → Ex) (x : Arg) (y : Ex) : Ex :=
  match x with
  | .colObj e => .app "*" [e, y]
  | .str _ => .app "*" [operand parse true x, y]

/-- a concrete stand-in for sqlglot's parser, used by the driver only: identifier-like text is a column
    reference, anything else is "some other SQL" (validated against the real parser by the check) -/
def isIdentChar (ch : Char) : Bool := ch.isAlphanum || ch == '_'
def identLike (s : String) : Bool :=
  match s.toList with
  | [] => false
  | ch :: rest => !ch.isDigit && isIdentChar ch && rest.all isIdentChar
def parseStandIn (s : String) : Ex := if identLike s then .column s else .app "<parsed sql>" [.strLit s]

/-- the text sqlglot's `Identifier` renders for a column name after `col`'s normalisation (stand-in:
    identifier-like names are lower-cased by the Spark input dialect, any other name is kept and quoted) -/
def identText (n : String) : String := if identLike n then n.toLower else "\"" ++ n ++ "\""

/-- the text `session.format_time(value)` reads out of a Column: `f"'{value.expression.this}'"` -/
def Ex.text : Ex → String
  | .column n => identText n
  | .strLit s => s
  | .app f _ => f

/-- what the traced coercion does with the argument.  `text`: the parameter is consumed as Python text
    (a format string); a Column is reduced to its `.expression.this` first, so both forms become a string
    literal (the same one when the name is identifier-like).  `none`: the string form raises while the Column form works. -/
def coerce (parse : String → Ex) : Coercion → Arg → Option Ex
  | .ensureCol, a => some (ensureCol parse a)
  | .literal, a => some (litFn parse a)
  | .parsed, a => some (columnCtor parse a)
  | .text, .str s => some (.strLit s)
  | .text, .colObj e => some (.strLit e.text)
  | .none, .colObj e => some e
  | .none, .str _ => none

/-- the function's result with the rest of its body as a context `k` around the coerced argument -/
def resultWith (parse : String → Ex) (k : Ex → Ex) (c : Coercion) (a : Arg) : Option Ex :=
  (coerce parse c a).map k

/-- what PySpark builds for either form: the context around a reference to the column called `n` -/
def specResult (k : Ex → Ex) (n : String) : Option Ex := some (k (.column n))

/-- `log1p_from_log`: `log(col + lit(1))` -/
def log1pFromLog (parse : String → Ex) (a : Arg) : Ex :=
  .app "LN" [pyAdd parse a (.app "lit" [.strLit "1"])]

/-- `date_sub_by_date_add`: `date_add(col, days * lit(-1))` (the `days` operand) -/
def dateSubDays (parse : String → Ex) (days : Arg) : Ex :=
  pyMul parse days (.app "lit" [.strLit "-1"])

-- ------------------------------------------------------------------------------------------------
-- scope: the cells that are listed as known defects, by root cause
-- ------------------------------------------------------------------------------------------------

/-- (function, engines, positions) -/
abbrev Pattern := String × List Engine × List Nat

def Pattern.hits (p : Pattern) (c : Cell) : Bool :=
  p.2.2.contains c.pos && p.2.1.contains c.engine && p.1 == c.fn

/-- an engine alternative combines the raw argument with a Python operator (`col + lit(1)`, `days * lit(-1)`) -/
def rawOperatorCells : List Pattern := [
  ("log1p", [.duckdb, .postgres, .bigquery, .snowflake], [0]),
  ("date_sub", [.snowflake], [1])]

/-- `lit(x)` applied to whatever is not an `int` / not a Column, so a name becomes a string literal -/
def litOnNameCells : List Pattern := [
  ("slice", [.duckdb, .postgres, .bigquery, .snowflake], [1, 2]),
  ("overlay", [.standalone, .spark, .databricks, .postgres, .redshift], [2, 3]),
  ("array_repeat", [.standalone, .spark, .databricks, .redshift], [1])]

/-- PySpark's `format: ColumnOrName` is taken as a Python format string (never a column name) -/
def formatAsTextCells : List Pattern := [
  ("to_unix_timestamp", [.standalone, .spark, .databricks, .duckdb, .redshift], [1]),
  ("to_timestamp_ntz", [.duckdb, .postgres, .bigquery], [1]),
  ("try_to_timestamp", Engine.all, [1])]

/-- `Column(name)` instead of `ensure_col(name)`: the name's text is parsed as SQL -/
def parsedNameCells : List Pattern := [
  ("add_months", [.standalone, .spark, .databricks, .duckdb, .postgres, .bigquery, .redshift], [0]),
  ("trunc", Engine.all, [0]),
  ("date_trunc", Engine.all, [1]),
  ("overlay", [.standalone, .spark, .databricks, .postgres, .redshift], [1]),
  ("base64", [.duckdb, .postgres, .bigquery, .snowflake], [0]),
  ("unbase64", [.postgres, .snowflake], [0]),
  ("decode", [.duckdb, .postgres], [0]),
  ("collect_set", [.duckdb, .postgres, .bigquery], [0]),
  ("isnan", [.postgres, .snowflake], [0]),
  ("nanvl", [.postgres, .snowflake], [0]),
  ("position", [.bigquery], [2])]

def hitsAny (ps : List Pattern) (c : Cell) : Bool := ps.any (·.hits c)

/-- a flattener that hands back the elements of ONE list argument -/
def _root_.Sqlframe.Gen.Flattener.splices : Flattener → Bool
  | .flatten => true
  | .ensureList => true
  | .sqlFunction => false
  | .unbound => false

/-- the cell is a list-form cell (`f([a, b])`) of a function whose unpacking site, for that engine, does not splice the
    list (generated `Gen.unpackSites`: repairing the source empties this set with no edit here) -/
def listFormBroken (c : Cell) : Bool :=
  decide (c.sub ≥ 2) && unpackSites.any (fun s => s.api == c.fn && s.engines.contains c.engine && !s.flattener.splices)

/-- named scope hypotheses of `C16_table_partial`: the cell is not one of the listed defect cells -/
def H_rawOperator (c : Cell) : Prop := hitsAny rawOperatorCells c = false
def H_litOnName (c : Cell) : Prop := hitsAny litOnNameCells c = false
def H_formatAsText (c : Cell) : Prop := hitsAny formatAsTextCells c = false
def H_parsedName (c : Cell) : Prop := hitsAny parsedNameCells c = false
def H_listForm (c : Cell) : Prop := listFormBroken c = false

instance (c : Cell) : Decidable (H_rawOperator c) := by unfold H_rawOperator; exact inferInstance
instance (c : Cell) : Decidable (H_litOnName c) := by unfold H_litOnName; exact inferInstance
instance (c : Cell) : Decidable (H_formatAsText c) := by unfold H_formatAsText; exact inferInstance
instance (c : Cell) : Decidable (H_parsedName c) := by unfold H_parsedName; exact inferInstance
instance (c : Cell) : Decidable (H_listForm c) := by unfold H_listForm; exact inferInstance

/-- `H_listedCells` -/
def listed (c : Cell) : Bool :=
  hitsAny rawOperatorCells c || hitsAny litOnNameCells c || hitsAny formatAsTextCells c || hitsAny parsedNameCells c ||
  listFormBroken c

def InScope (c : Cell) : Prop := H_rawOperator c ∧ H_litOnName c ∧ H_formatAsText c ∧ H_parsedName c ∧ H_listForm c

instance (c : Cell) : Decidable (InScope c) := by unfold InScope; exact inferInstance

/-- names of the scope hypotheses a cell violates (driver output) -/
def violated (c : Cell) : List String :=
  (if hitsAny rawOperatorCells c then ["H_rawOperator"] else []) ++
  (if hitsAny litOnNameCells c then ["H_litOnName"] else []) ++
  (if hitsAny formatAsTextCells c then ["H_formatAsText"] else []) ++
  (if hitsAny parsedNameCells c then ["H_parsedName"] else []) ++
  (if listFormBroken c then ["H_listForm"] else [])

/-- the cell check `decide +kernel` runs over the generated table (good cells stop at the first disjunct) -/
def cellOk (c : Cell) : Bool := c.coercion == .ensureCol || listed c

/-- the table's entry for (function, engine, position, element) -/
def coercionAt (fn : String) (e : Engine) (pos sub : Nat) : Option Coercion :=
  (cells.find? (fun c => c.fn == fn && c.engine == e && c.pos == pos && c.sub == sub)).map (·.coercion)

-- ------------------------------------------------------------------------------------------------
-- naming: struct fields, one-list arguments, the automatic alias
-- ------------------------------------------------------------------------------------------------

/-- sqlglot's readings of names (third party, abstract in every theorem) -/
structure Names where
  /-- `maybe_parse` of a `str` handed to `Column(...)` -/
  parse : String → Ex
  /-- `Column.alias_or_name`: the alias, else the LAST part of the reference, as the input dialect prints it -/
  aliasOf : Ex → String
  /-- `parse_identifier(text)`: the identifier a text denotes, as printed -/
  identOf : String → String
  /-- the first Identifier (else the first Literal) found in a tree: what the automatic alias is made of -/
  firstIdent : Ex → String

/-- the text `struct` names a field by, as `Gen.structFieldName` reads it from the source -/
def fieldNameText (N : Names) : NameSource → Arg → String
  | .resolved, a => N.aliasOf (colFn N.parse a)
  | .raw, .str s => s
  | .raw, .colObj e => N.aliasOf e

/-- one field of `struct`: `PropertyEQ(this = parse_identifier(<text>), expression = <resolved column>)` -/
def structField (N : Names) (src : NameSource) (a : Arg) : Ex :=
  .app "PropertyEQ" [.app "Identifier" [.strLit (N.identOf (fieldNameText N src a))], colFn N.parse a]

def structOf (N : Names) (src : NameSource) (as : List Arg) : Ex := .app "STRUCT" (as.map (structField N src))

/-- PySpark: every field is the referenced column, named after the LAST part of the reference -/
def specStruct (N : Names) (ns : List String) : Ex :=
  .app "STRUCT" (ns.map fun n => .app "PropertyEQ" [.app "Identifier" [.strLit (N.identOf (N.aliasOf (.column n)))], .column n])

/-- how PySpark code passes the columns of a `*cols` function that also documents the list form -/
inductive Call
  | varargs (as : List Arg)     -- f(a, b, …)
  | oneList (as : List Arg)     -- f([a, b, …])
  deriving Repr

/-- PySpark's meaning of either form: the elements -/
def Call.elems : Call → List Arg
  | .varargs as => as
  | .oneList as => as

/-- `cols' = [list(] F(cols) [)] if not isinstance(cols[0], (str, Column)) else cols`, resp. `ensure_list(col) + list(cols)`.
    `scalarGuard` = the isinstance test names the kind of the first argument (a `str` for a name, a Column otherwise).
    `none` = the call raises.  (`cols` non-empty: `cols[0]` of an empty call raises in sqlframe; PySpark's `array()` is out of C16.) -/
def unpack (f : Flattener) (guardStr guardColumn : Bool) : Call → Option (List Arg)
  | .varargs [] => none
  | .varargs (a :: as) =>
    let guarded := match a with
      | .str _ => guardStr
      | .colObj _ => guardColumn
    if guarded || f == .ensureList then some (a :: as)
    else match f with
      | .flatten => some (a :: as)      -- sqlglot.helper.flatten: `str` and Column are not iterable, nothing is spliced
      | .ensureList => some (a :: as)
      | .sqlFunction => none            -- list(<Column>) : not iterable
      | .unbound => none                -- NameError
  | .oneList as =>
    match f with
    | .flatten => some as
    | .ensureList => some as
    | .sqlFunction => none
    | .unbound => none

def _root_.Sqlframe.Gen.UnpackSite.unpack (s : UnpackSite) (c : Call) : Option (List Arg) := C16.unpack s.flattener s.guardStr s.guardColumn c

/-- the arguments as names / as `col(name)` objects -/
def strArgs (ns : List String) : List Arg := ns.map .str
def colArgs (ns : List String) : List Arg := ns.map fun n => .colObj (.column n)

/-- a `*cols` function over an unpacking site: every element goes through `ensure_col`, `k` is the rest of the body -/
def colsCall (parse : String → Ex) (s : UnpackSite) (k : List Ex → Ex) (c : Call) : Option Ex :=
  (s.unpack c).map fun as => k (as.map (ensureCol parse))

/-- `struct(...)` as a whole: unpack, then name the fields -/
def structCall (N : Names) (s : UnpackSite) (src : NameSource) (c : Call) : Option Ex :=
  (s.unpack c).map (structOf N src)

/-- `func_metadata.wrapper`: a result that is a function call and has no alias yet is given the alias
    `<function>__<first identifier of the result>__`; functions listed in `noAutoAlias` are left alone.
    `rawArgs` = what the wrapper could read besides the result (the caller's arguments); it is ignored exactly
    when `Gen.autoAliasFromResultOnly` -/
def autoAlias (N : Names) (fromResultOnly : Bool) (fn : String) (rawFirst : Option String) (result : Ex) : Ex :=
  if noAutoAlias.contains fn then result
  else
    let txt := if fromResultOnly then N.firstIdent result else (rawFirst.getD (N.firstIdent result))
    .app "Alias" [result, .app "f'{func.__name__}__{col_name}__'" [.strLit fn, .strLit txt]]

/-- the first argument as the wrapper sees it: the raw text of a name, nothing for a Column -/
def rawFirstOf : Arg → Option String
  | .str s => some s
  | .colObj _ => none

/-- a decorated function of one ColumnOrName argument: coercion, body `k`, then the wrapper -/
def decorated (N : Names) (fn : String) (k : Ex → Ex) (c : Coercion) (a : Arg) : Option Ex :=
  (resultWith N.parse k c a).map (autoAlias N autoAliasFromResultOnly fn (rawFirstOf a))

def specDecorated (N : Names) (fn : String) (k : Ex → Ex) (n : String) : Option Ex :=
  (specResult k n).map (autoAlias N true fn none)

/-- symbolic names, used by the driver: every reading of sqlglot stays visible in the output, and the check
    interprets it with the real sqlglot -/
def symNames : Names where
  parse := parseStandIn
  aliasOf e := "aliasOf(" ++ (match e with | .column n => "col[" ++ n ++ "]" | .strLit s => "'" ++ s ++ "'" | .app f _ => f) ++ ")"
  identOf t := "identOf(" ++ t ++ ")"
  firstIdent e := "firstIdent(" ++ (match e with | .column n => "col[" ++ n ++ "]" | .strLit s => "'" ++ s ++ "'" | .app f _ => f) ++ ")"

end Sqlframe.C16
