/-
Impl/C13Spec.lean — the value-level specification of a C13 history (what PySpark does): frames are
values; a temp view name denotes the value registered last under its normal form; `session.sql(q)` is the
value of `q` — read the way Spark reads a WITH list (`evalLex`) — over the database in which view names denote those values; `session.table` reads
the view, else the base table; DataFrame operators act on values.  No CTEs, no names, no splice.
-/
import SqlframeModel.Impl.C13Views
namespace Sqlframe.Views
open Sqlframe

structure SpecSt where
  views : List (Name × Option Table)
  vals : List (Option Table)
  deriving Repr

/-- the database extended with the views' values (same function as `withViews`, keyed by a value map) -/
def bindDb (norm : Name → Name) (views : List (Name × Option Table)) (db : Db) : Db :=
  fun n => match assoc views (norm n) with
    | some v => v
    | none => db n

def specStep (norm : Name → Name) (db : Db) (s : SpecSt) : Ev → SpecSt
  | .create T => { s with vals := s.vals ++ [some T] }
  | .register name i =>
    match s.vals[i]? with
    | some v => { s with views := setAssoc s.views (norm name) v }
    | none => s
  | .table name => { s with vals := s.vals ++ [bindDb norm s.views db name] }
  | .sql q => { s with vals := s.vals ++ [evalLex (bindDb norm s.views db) q] }
  | .transform i op =>
    match s.vals[i]? with
    | some v => { s with vals := s.vals ++ [v.bind op.apply] }
    | none => s
  | .joinBack i name k =>
    match s.vals[i]? with
    | some v => { s with vals := s.vals ++ [v.bind (fun L => (bindDb norm s.views db name).bind (fun R => (BinOp2.joinUsing k).apply L R))] }
    | none => s

def specRun (norm : Name → Name) (db : Db) : SpecSt → List Ev → SpecSt
  | s, [] => s
  | s, e :: es => specRun norm db (specStep norm db s e) es

/-- `bindDb` over a value map is `withViews` over a registry with the same keys and values -/
theorem bindDb_eq_withViews (norm : Name → Name) (reg : Registry) (views : List (Name × Option Table))
    (vals : Name → Option Table) (db : Db)
    (hk : ∀ k, (assoc reg k).isSome = (assoc views k).isSome)
    (hv : ∀ k v, assoc views k = some v → vals k = v) :
    bindDb norm views db = withViews norm reg vals db := by
  funext n
  unfold bindDb withViews
  have := hk (norm n)
  cases hr : assoc reg (norm n) with
  | none => rw [hr] at this; cases hvw : assoc views (norm n) with
    | none => rfl
    | some v => rw [hvw] at this; cases this
  | some e =>
    rw [hr] at this
    cases hvw : assoc views (norm n) with
    | none => rw [hvw] at this; cases this
    | some v => simp [hv _ _ hvw]

end Sqlframe.Views
