/-
Impl/C06Group.lean — grouping and aggregation (C06).

* aggregate functions on a group (`aggVal`): count(*) counts rows, count(c) non-NULLs, sum/min/max/avg skip
  NULLs and are NULL on an all-NULL / empty group, count_distinct counts distinct non-NULLs.  These pin
  the *assumed* agreement of the engine and Spark on the functions themselves (validated against DuckDB by
  the C06 correspondence stream and against live PySpark during construction).
  `avg` is an **exact rational**: `Val.int q` when the mean is integral, otherwise the text "num/den"
  (sum over count, not reduced); the check compares it with the engine's DOUBLE as a fraction.
* the *assumed* engine meaning of one SELECT block with GROUP BY (`evalGBlock`: hash aggregation — rows are
  inserted into the group of their key tuple, NULL being a key value like any other; no GROUP BY clause =
  one group, even over no rows) and with GROUP BY GROUPING SETS (`evalGSBlock`).
* PySpark's specification (`aggSpec`, `cubeSpec`): one row per distinct key tuple, computed from the
  distinct keys and a filter per key.
* the hand model of `DataFrame.groupBy`, `GroupedData.agg` / shortcuts / `count`, `DataFrame.agg`,
  `DataFrame.cube` on the `DF` state of Impl/DataFrame.lean; decisions come from Gen.Group, Gen.Methods,
  Gen.Operations.

Representation: the open aggregate block `SELECT keys, aggs FROM src WHERE … GROUP BY …` that the real
DataFrame carries after `agg` (last_op = SELECT) is represented by its *value* under an identity
projection.  Every later operation either freezes it first (where / select / groupBy / distinct: the wrap
rule) or appends ORDER BY / LIMIT, which SQL applies to the aggregated rows — the same as on the value.
GROUPING_ID expansion and the dict form of `agg` are not modelled.
-/
import SqlframeModel.Impl.C01Scope
import SqlframeModel.Gen.Group
namespace Sqlframe
open Gen

/-! ### aggregate functions -/

inductive AggFn
  | countStar | count | sum | avg | min | max | countDistinct
  deriving DecidableEq, Repr

/-- first-class expressions over aggregates -/
inductive AExpr
  | agg (fn : AggFn) (arg : Expr)
  | countDistinctN (args : List Expr)      -- count_distinct(c1, c2, …): several argument columns
  | lit (v : Val)
  | bin (op : BinOp) (a b : AExpr)
  deriving DecidableEq, Repr

def nonNull (vs : List Val) : List Val := vs.filter (fun v => v ≠ .null)

def intsOf : List Val → List Int
  | [] => []
  | .int i :: vs => i :: intsOf vs
  | _ :: vs => intsOf vs

def sumInts : List Int → Int
  | [] => 0
  | i :: is => i + sumInts is

/-- exact mean of `n` integers with sum `s` -/
def avgVal (s : Int) (n : Nat) : Val :=
  if n = 0 then .null
  else if s % (n : Int) = 0 then .int (s / (n : Int))
  else .str (toString s ++ "/" ++ toString n)

/-- the best value of a list under a "better than" test; NULL on the empty list -/
def pickBy (better : Val → Val → Bool) : List Val → Val
  | [] => .null
  | v :: vs => match pickBy better vs with
    | .null => v
    | w => if better v w then v else w

def distinctVals : List Val → List Val
  | [] => []
  | v :: vs => if v ∈ vs then distinctVals vs else v :: distinctVals vs

/-- an aggregate function applied to the argument values of a group's rows (one value per row) -/
def aggVal (fn : AggFn) (vs : List Val) : Val :=
  match fn with
  | .countStar => .int vs.length
  | .count => .int (nonNull vs).length
  | .sum => if intsOf vs = [] then .null else .int (sumInts (intsOf vs))
  | .avg => avgVal (sumInts (intsOf vs)) (intsOf vs).length
  | .min => pickBy (fun v w => v.le w) (nonNull vs)
  | .max => pickBy (fun v w => w.le v) (nonNull vs)
  | .countDistinct => .int (distinctVals (nonNull vs)).length

/-- the distinct key tuples of a list (one representative each) -/
def distinctL : List (List Val) → List (List Val)
  | [] => []
  | k :: ks => if k ∈ ks then distinctL ks else k :: distinctL ks

/-- a tuple of argument values takes part in a multi-argument aggregate only if *none* of them is NULL -/
def tupleNonNull (t : List Val) : Bool := t.all (fun v => v ≠ .null)

/-- `count(DISTINCT a, b, …)`: the number of distinct argument tuples among the rows in which every
    argument is non-NULL (Spark: "rows for which the supplied expressions are unique and non-null") -/
def countDistinctTuples (ts : List (List Val)) : Val := .int (distinctL (ts.filter tupleNonNull)).length

def evalAExpr (cols : List Name) (g : List Row) : AExpr → Val
  | .agg fn arg => aggVal fn (g.map (fun r => eval cols r arg))
  | .countDistinctN args => countDistinctTuples (g.map (fun r => args.map (eval cols r)))
  | .lit v => v
  | .bin op a b => binSem op (evalAExpr cols g a) (evalAExpr cols g b)

def AExpr.refs : AExpr → List Name
  | .agg _ arg => arg.refs
  | .countDistinctN args => args.flatMap Expr.refs
  | .lit _ => []
  | .bin _ a b => a.refs ++ b.refs

/-! ### one SELECT block with GROUP BY (assumed engine semantics) -/

inductive GItem
  | key (e : Expr)
  | agg (a : AExpr)
  deriving Repr

structure GBlock where
  wher : List Expr
  groupBy : List Expr
  sel : List (Name × GItem)
  deriving Repr

/-- hash aggregation: each row joins the group of its key tuple (created on first sight) -/
def groupR (keyOf : Row → List Val) : List Row → List (List Val × List Row)
  | [] => []
  | r :: rs =>
    let g := groupR keyOf rs
    if g.any (fun p => p.1 = keyOf r) then g.map (fun p => if p.1 = keyOf r then (p.1, r :: p.2) else p)
    else (keyOf r, [r]) :: g

/-- an expression without column references has one value, whatever the row -/
def constValue (e : Expr) : Val := if e.refs = [] then eval [] [] e else .null

/-- value of a select-list key expression inside a group with key tuple `kv`: a grouped expression has the
    value recorded in the key tuple; an expression that is not grouped is evaluated as it stands if it is a
    constant, and has no value otherwise (the engine rejects the statement) -/
def keyValue : List Expr → List Val → Expr → Val
  | g :: gs, v :: vs, e => if g = e then v else keyValue gs vs e
  | _, _, e => constValue e

def Expr.isIntLit : Expr → Bool
  | .lit (.int _) => true
  | _ => false

/-- **the engine reads a bare integer constant in GROUP BY as a position in the select list** (1-based): the
    term then stands for that select item's expression; a position outside the list, or one that names an
    aggregate, is rejected (`none`).  Every other expression stands for itself. -/
def groupByTerm (sel : List (Name × GItem)) : Expr → Option Expr
  | .lit (.int n) =>
    if n ≤ 0 then none
    else match sel[(n - 1).toNat]? with
      | some (_, .key e) => some e
      | _ => none
  | e => some e

def resolveGroupBy (sel : List (Name × GItem)) : List Expr → Option (List Expr)
  | [] => some []
  | e :: es =>
    match groupByTerm sel e, resolveGroupBy sel es with
    | some a, some as => some (a :: as)
    | _, _ => none

/-- the table standing for "the engine rejected the statement" -/
def aggErrTable : Table := { cols := [], rows := [] }

def evalGBlock (b : GBlock) (T0 : Table) : Table :=
  match resolveGroupBy b.sel b.groupBy with
  | none => aggErrTable
  | some gby =>
    let rows0 := stWhere b.wher T0
    let groups := if gby = [] then [([], rows0)] else groupR (fun r => gby.map (eval T0.cols r)) rows0
    { cols := b.sel.map (·.1),
      rows := groups.map (fun kg => b.sel.map (fun it =>
        match it.2 with
        | .key e => keyValue gby kg.1 e
        | .agg a => evalAExpr T0.cols kg.2 a)) }

/-- `GROUP BY GROUPING SETS (…)`: the union of the groupings; a key that is grouped in *some* set is NULL in
    the rows of the sets it is not in, a key expression grouped in no set is a constant; the empty set is one
    group even over no rows; integer constants inside a set are positions (as above) -/
structure GSBlock where
  wher : List Expr
  sets : List (List Expr)
  keys : List (Name × Expr)
  aggs : List (Name × AExpr)
  deriving Repr

def resolveSets (sel : List (Name × GItem)) : List (List Expr) → Option (List (List Expr))
  | [] => some []
  | S :: Ss =>
    match resolveGroupBy sel S, resolveSets sel Ss with
    | some a, some as => some (a :: as)
    | _, _ => none

def evalGSBlock (b : GSBlock) (T0 : Table) : Table :=
  let sel := b.keys.map (fun k => (k.1, GItem.key k.2)) ++ b.aggs.map (fun a => (a.1, GItem.agg a.2))
  match resolveSets sel b.sets with
  | none => aggErrTable
  | some sets =>
    let rows0 := stWhere b.wher T0
    { cols := b.keys.map (·.1) ++ b.aggs.map (·.1),
      rows := sets.flatMap (fun S =>
        let groups := if S = [] then [([], rows0)] else groupR (fun r => S.map (eval T0.cols r)) rows0
        groups.map (fun kg =>
          b.keys.map (fun k => if k.2 ∈ S then keyValue S kg.1 k.2
                               else if sets.any (fun S' => k.2 ∈ S') then .null else constValue k.2) ++
          b.aggs.map (fun a => evalAExpr T0.cols kg.2 a.2))) }

/-! ### PySpark's specification -/

/-- `T.groupBy(keys).agg(aggs)`: one row per distinct key tuple (NULL is a key value), keys then aggregates;
    no keys = one row, also over an empty table -/
def aggSpec (keys : List (Name × Expr)) (aggs : List (Name × AExpr)) (T : Table) : Table :=
  let keyOf := fun r => keys.map (fun k => eval T.cols r k.2)
  let ks := if keys = [] then [[]] else distinctL (T.rows.map keyOf)
  { cols := keys.map (·.1) ++ aggs.map (·.1),
    rows := ks.map (fun kv => kv ++ aggs.map (fun a => evalAExpr T.cols (T.rows.filter (fun r => keyOf r = kv)) a.2)) }

/-- all sub-lists, the canonical enumeration of the subsets of a duplicate-free list -/
def sublistsL {α} : List α → List (List α)
  | [] => [[]]
  | x :: xs => (sublistsL xs).map (x :: ·) ++ sublistsL xs

/-- `T.cube(keys).agg(aggs)`: for every subset S of the keys, one row per distinct S-tuple that occurs
    (so nothing at all over an empty table), the keys outside S being NULL -/
def cubeSpec (keys : List (Name × Expr)) (aggs : List (Name × AExpr)) (T : Table) : Table :=
  { cols := keys.map (·.1) ++ aggs.map (·.1),
    rows := (sublistsL keys).flatMap (fun S =>
      let keyOf := fun r => S.map (fun k => eval T.cols r k.2)
      (distinctL (T.rows.map keyOf)).map (fun kv =>
        keys.map (fun k => if k ∈ S then keyValue (S.map (·.2)) kv k.2 else .null) ++
        aggs.map (fun a => evalAExpr T.cols (T.rows.filter (fun r => keyOf r = kv)) a.2))) }

/-- PySpark's name and function for a GroupedData shortcut -/
def sparkShortcut : String → Option (String × AggFn)
  | "sum" => some ("sum", .sum)
  | "avg" => some ("avg", .avg)
  | "mean" => some ("avg", .avg)
  | "min" => some ("min", .min)
  | "max" => some ("max", .max)
  | _ => none

def sparkShortcutName (m : String) (c : Name) : Option Name :=
  (sparkShortcut m).map (fun p => p.1 ++ "(" ++ c ++ ")")

/-! ### the implementation model -/

/-- `itertools.combinations(xs, k)` -/
def combos {α} : List α → Nat → List (List α)
  | _, 0 => [[]]
  | [], _ + 1 => []
  | x :: xs, k + 1 => (combos xs k).map (x :: ·) ++ combos xs (k + 1)

/-- `cube`'s enumeration: for each generated size, all combinations of that size -/
def cubeSets {α} (keys : List α) : List (List α) := (cubeSizes keys.length).flatMap (combos keys)

structure GroupedData where
  df : DF
  keys : List (Name × Expr)
  sets : Option (List (List (Name × Expr)))
  deriving Repr

/-- what a decorated method's body receives (`operation.wrapper` up to the call of the body) -/
def enterOp (tag : Option Op) (d : DF) : DF :=
  match tag with
  | none => d
  | some op =>
    let d := if initCond d.last then { d.wrap with last := initReset } else d
    if wrapCond d.last (newOp op d.last) then d.wrap else d

/-- `group_operation(op).wrapper` (acts on the GroupedData's private `_df`) -/
def wrapperGroup (tag : Option Op) (body : DF → DF) (d : DF) : DF :=
  match tag with
  | none => body d
  | some op =>
    let d := if initCondGroup d.last then { d.wrap with last := initResetGroup } else d
    let new := newOpGroup op d.last
    let d := if wrapCondGroup d.last new then d.wrap else d
    let r := body d
    { r with last := lastAfterGroup new r.last }

/-- `groupBy(*cols)`: the body runs inside `operation(GROUP_BY)`; the GroupedData keeps a private copy of
    the receiver *with the last_op it had inside the body* (the wrapper's `df.last_op = new_op` lands on the
    GroupedData object, not on that copy) -/
def DF.groupBy (d : DF) (keys : List (Name × Expr)) : GroupedData :=
  { df := enterOp tag_groupBy d, keys := keys, sets := none }

/-- `cube(*cols)` (its decorator tag is generated too: none on the pinned tree) -/
def DF.cube (d : DF) (keys : List (Name × Expr)) : GroupedData :=
  { df := enterOp tag_cube d, keys := keys, sets := some (cubeSets keys) }

/-- the sqlglot class of a key's un-aliased expression (what `isinstance` / `is_string` tests in `agg` see) -/
def keyClass : Expr → KeyClass
  | .lit (.str _) => .strLit
  | .lit (.int _) => .numLit
  | .lit (.bool _) => .boolLit
  | .lit .null => .nullLit
  | .col _ => .column
  | _ => .other

/-- the GROUP BY list of the plain branch: `[x.column_expression for x in self.group_by_cols <if …>]` -/
def groupByList (keys : List (Name × Expr)) : List Expr :=
  (keys.filter (fun k => groupByKeeps (keyClass k.2))).map (·.2)

/-- the tuple of one grouping set: `[x.column_expression for x in grouping_set <if …>]` -/
def groupingSetList (S : List (Name × Expr)) : List Expr :=
  (S.filter (fun k => groupingSetKeeps (keyClass k.2))).map (·.2)

/-- body of `GroupedData.agg`: GROUP BY on the un-aliased expressions of the keys the generated filter keeps
    (all of them on the pinned tree), select list keys ++ aggregates
    replacing the previous list (`append=False`); WHERE is kept (a filter before the aggregation); a
    DISTINCT / ORDER BY / LIMIT left in the block would be applied *after* the aggregation by the engine,
    which is not what the program said (`aggErrTable`) -/
def bodyAgg (keys : List (Name × Expr)) (sets : Option (List (List (Name × Expr)))) (aggs : List (Name × AExpr)) (d : DF) : DF :=
  let T : Table :=
    if d.blk.distinct = false ∧ d.blk.order = [] ∧ d.blk.limit = none then
      match sets with
      | none =>
        evalGBlock { wher := d.blk.wher, groupBy := groupByList keys,
                     sel := keys.map (fun k => (k.1, GItem.key k.2)) ++ aggs.map (fun a => (a.1, GItem.agg a.2)) } d.src
      | some ss =>
        evalGSBlock { wher := d.blk.wher, sets := ss.map groupingSetList, keys := keys, aggs := aggs } d.src
    else aggErrTable
  { src := T, blk := { sel := identSel T.cols }, last := d.last }

def GroupedData.agg (g : GroupedData) (aggs : List (Name × AExpr)) : DF :=
  wrapperGroup groupAggTag (bodyAgg g.keys g.sets aggs) g.df

def aggFnOfName : String → Option AggFn
  | "sum" => some .sum
  | "avg" => some .avg
  | "min" => some .min
  | "max" => some .max
  | "count" => some .count
  | _ => none

/-- the aggregate list a shortcut method builds: `getattr(F, fn)(name).alias(f"{fn}({name})")` per column -/
def shortcutAggs (m : String) (cols : List Name) : Option (List (Name × AExpr)) :=
  match shortcutTable.lookup m with
  | none => none
  | some fn =>
    match aggFnOfName fn with
    | none => none
    | some f => some (cols.map (fun c => (shortcutAlias fn c, AExpr.agg f (.col c))))

/-- `count()` -/
def countAggs : List (Name × AExpr) :=
  [(countAlias, AExpr.agg (if countArgIsStar then AggFn.countStar else AggFn.count) (.lit (.int 1)))]

/-- `DataFrame.agg(*exprs)` = `operation(SELECT)` around `df.groupBy().agg(*cols)` -/
def DF.aggAll (d : DF) (aggs : List (Name × AExpr)) : DF :=
  wrapper tag_agg (fun d => (d.groupBy []).agg aggs) d

/-! ### programs: chains of plain steps and grouping operations -/

inductive GOp
  | groupAgg (keys : List (Name × Expr)) (aggs : List (Name × AExpr))
  | shortcut (keys : List (Name × Expr)) (m : String) (cols : List Name)
  | count (keys : List (Name × Expr))
  | dfAgg (aggs : List (Name × AExpr))
  | cube (keys : List (Name × Expr)) (aggs : List (Name × AExpr))
  deriving Repr

inductive GStep
  | plain (s : Step)
  | group (g : GOp)
  deriving Repr

/-- PySpark's (keys, aggregates) of a grouping operation -/
def specShortcutAggs (m : String) (cs : List Name) : Option (List (Name × AExpr)) :=
  (sparkShortcut m).map (fun p => cs.map (fun c => (p.1 ++ "(" ++ c ++ ")", AExpr.agg p.2 (.col c))))

def specCountAggs : List (Name × AExpr) := [("count", AExpr.agg .countStar (.lit (.int 1)))]

def GOp.specParts : GOp → Option (List (Name × Expr) × List (Name × AExpr))
  | .groupAgg keys aggs => some (keys, aggs)
  | .shortcut keys m cs => (specShortcutAggs m cs).map (fun a => (keys, a))
  | .count keys => some (keys, specCountAggs)
  | .dfAgg aggs => some ([], aggs)
  | .cube keys aggs => some (keys, aggs)

/-- the implementation's (keys, aggregates) of a grouping operation, from the generated tables -/
def GOp.implParts : GOp → Option (List (Name × Expr) × List (Name × AExpr))
  | .groupAgg keys aggs => some (keys, aggs)
  | .shortcut keys m cs => (shortcutAggs m cs).map (fun a => (keys, a))
  | .count keys => some (keys, countAggs)
  | .dfAgg aggs => some ([], aggs)
  | .cube keys aggs => some (keys, aggs)

def GOp.isCube : GOp → Bool
  | .cube _ _ => true
  | _ => false

def GOp.isDfAgg : GOp → Bool
  | .dfAgg _ => true
  | _ => false

def DF.applyG (d : DF) : GStep → DF
  | .plain s => d.apply s
  | .group g =>
    match g.implParts with
    | none => { src := aggErrTable, blk := { sel := [] }, last := d.last }   -- AttributeError: no such shortcut
    | some (keys, aggs) =>
      if g.isDfAgg then d.aggAll aggs
      else if g.isCube then (d.cube keys).agg aggs
      else (d.groupBy keys).agg aggs

def DF.runG (d : DF) (steps : List GStep) : DF := steps.foldl DF.applyG d

def specG (T : Table) : GStep → Table
  | .plain s => specStep T s
  | .group g =>
    match g.specParts with
    | none => aggErrTable
    | some (keys, aggs) => if g.isCube then cubeSpec keys aggs T else aggSpec keys aggs T

def specRunG (T : Table) (steps : List GStep) : Table := steps.foldl specG T

/-- what PySpark requires of a grouping operation over columns `cols` -/
def aggsWF (cols : List Name) (keys : List (Name × Expr)) (aggs : List (Name × AExpr)) : Prop :=
  (keys.map (·.1) ++ aggs.map (·.1)).Nodup ∧ (keys.map (·.2)).Nodup ∧
  (∀ k ∈ keys, ∀ n ∈ k.2.refs, n ∈ cols) ∧ (∀ a ∈ aggs, ∀ n ∈ a.2.refs, n ∈ cols)

instance (cols : List Name) (keys : List (Name × Expr)) (aggs : List (Name × AExpr)) : Decidable (aggsWF cols keys aggs) := by
  unfold aggsWF; exact inferInstance

def GOp.WF (cols : List Name) (g : GOp) : Prop :=
  match g.specParts with
  | some p => aggsWF cols p.1 p.2
  | none => False

instance (cols : List Name) (g : GOp) : Decidable (g.WF cols) := by
  unfold GOp.WF
  cases g.specParts <;> exact inferInstance

end Sqlframe

namespace Sqlframe
open Gen

def GStep.WF (cols : List Name) : GStep → Prop
  | .plain s => s.WF cols
  | .group g => g.WF cols

instance (cols : List Name) (s : GStep) : Decidable (s.WF cols) := by
  cases s <;> unfold GStep.WF <;> exact inferInstance

/-- every step is well-formed for the columns the previous steps produce -/
def GStepsWF (T : Table) : List GStep → Prop
  | [] => True
  | s :: ss => s.WF T.cols ∧ GStepsWF (specG T s) ss

instance decGStepsWF : (T : Table) → (steps : List GStep) → Decidable (GStepsWF T steps)
  | _, [] => Decidable.isTrue trivial
  | T, s :: ss => by unfold GStepsWF; exact @instDecidableAnd _ _ _ (decGStepsWF (specG T s) ss)

def GStep.isCube : GStep → Bool
  | .group g => g.isCube
  | _ => false

/-- **scope hypothesis** `H_cubeEmptyInput`: no `cube` is applied to an empty input.  (GROUP BY GROUPING
    SETS gives the grand-total row even over no rows; Spark's cube gives nothing.) -/
def noCubeOnEmpty (T : Table) : List GStep → Bool
  | [] => true
  | s :: ss => !(s.isCube && T.rows.isEmpty) && noCubeOnEmpty (specG T s) ss

/-- **scope hypothesis** `H_intLiteralKey`: no grouping key that reaches the GROUP BY clause is an integer
    literal.  (`groupBy(lit(7).alias("c"))` is emitted as `GROUP BY 7`, which the engine reads as the 7th
    select item: the statement is rejected, or — inside cube's grouping sets — groups by another key.
    PySpark groups by the constant.)  Dropping such keys from the clause (`groupByKeeps .numLit = false`)
    makes the hypothesis true for every input. -/
def GOp.intLitKeyInGroupBy (g : GOp) : Bool :=
  match g.specParts with
  | none => false
  | some p =>
    (if g.isCube then groupingSetKeeps .numLit else groupByKeeps .numLit) && p.1.any (fun k => k.2.isIntLit)

def GStep.intLitKeyInGroupBy : GStep → Bool
  | .group g => g.intLitKeyInGroupBy
  | _ => false

def noIntLitKey (steps : List GStep) : Bool := steps.all (fun s => !s.intLitKeyInGroupBy)

def violatedC06 (T : Table) (steps : List GStep) : List String :=
  (if noCubeOnEmpty T steps then [] else ["H_cubeEmptyInput"]) ++
  (if noIntLitKey steps then [] else ["H_intLiteralKey"])

/-- does the engine reject the statement some grouping step of the chain builds? (the model's result is
    then meaningless; the real code raises when the DataFrame is collected) -/
def DF.runGErr (d : DF) : List GStep → Bool
  | [] => false
  | s :: ss =>
    (match s with
     | .group _ => decide ((d.applyG s).eval.cols = [])
     | .plain _ => false) || (d.applyG s).runGErr ss

end Sqlframe
