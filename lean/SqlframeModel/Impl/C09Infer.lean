/-
Impl/C09Infer.lean — `get_default_data_type` (the first-row type inference inside `createDataFrame`) on whole
value TREES, over the regenerated decisions of `Gen.Values`:

  * `inferChain`           the `isinstance` chain in source order (which branch a value takes)
  * `inferFalsyFirst`      a leading `if not value: return None` (then the VALUE decides, not only its class:
                           0, 0.0, False, '', b'' would be left untyped)
  * `inferSeqEmptyGuard`   the sequence branch tests for an empty sequence
  * `inferStructUntyped`   what a Row field of unknown type does to the struct type

`inferTy` is the structured form of the type text the code builds (`STy.text` renders it exactly as the code
does: `struct<a: bigint, b: string>`, `array<…>`, `map<k, v>`); the column is then CAST to that type, so a field
the text leaves out is REMOVED from every row by the engine (a struct is cast field by field, by name: assumed,
validated by the stream).

`specTy` is PySpark's `_infer_type` restricted to what one value shows (first element of an array); where
PySpark would merge the types of all rows / elements the first-row rule is a named hypothesis
(`H_firstRowTyped`, Impl/C09Scope.lean).
-/
import SqlframeModel.Impl.C09Values
namespace Sqlframe.C09
open Gen

/-- a Spark type, structured -/
inductive STy
  | prim (t : String)
  | array (e : STy)
  | map (k v : STy)
  | struct (names : List String) (tys : List STy)
  deriving Repr

/-- a Python value as far as the inference looks at it: its class, whether it is falsy (`not value`), and the
    parts it recurses into -/
inductive PyVal
  | scalar (k : PyKind) (falsy : Bool)
  | seq (k : PyKind) (elems : List PyVal)              -- list / set / tuple
  | row (names : List String) (vals : List PyVal)      -- Row: `__fields__` and the values
  | dict (keys : List PyVal) (vals : List PyVal)
  deriving Repr

def PyKind.isScalar : PyKind → Bool
  | .list | .set | .tuple | .dict | .row => false
  | _ => true

def PyKind.isSeq : PyKind → Bool
  | .list | .set | .tuple => true
  | _ => false

def PyVal.kind : PyVal → PyKind
  | .scalar k _ => k
  | .seq k _ => k
  | .row _ _ => .row
  | .dict _ _ => .dict

/-- Python's `not value` -/
def PyVal.falsy : PyVal → Bool
  | .scalar k f => k = .none || f
  | .seq _ es => es.isEmpty
  | .row _ vs => vs.isEmpty
  | .dict ks _ => ks.isEmpty

/-- which branch of the chain the value takes -/
def branchOf (k : PyKind) : Option InferRes := (inferChain.find? (fun e => isInst k e.1)).map (·.2)

/-- the struct fields that get a type (`zip(value.__fields__, value)`); `none` = no type at all (giveUp) -/
def keepTyped (su : StructUntyped) : List String → List (Option STy) → Option (List String × List STy)
  | n :: ns, some t :: ts => (keepTyped su ns ts).map (fun r => (n :: r.1, t :: r.2))
  | _ :: ns, none :: ts => match su with
      | .skip => keepTyped su ns ts
      | .giveUp => none
  | _, _ => some ([], [])

mutual
  /-- `get_default_data_type`, for either treatment `su` of a Row field of unknown type and with (`ff`) or without
      a leading `if not value: return None` -/
  def inferTyW (su : StructUntyped) (ff : Bool) : PyVal → Option STy
    | .scalar k f =>
      if ff && (k = .none || f) then none
      else match branchOf k with
        | some (.prim t) => some (.prim t)
        | some (.tzSplit aware naive) => some (.prim (if k = .datetimeTz then aware else naive))
        | _ => none      -- a scalar in a composite branch: the code raises / returns nothing usable
    | .seq k es =>
      if ff && es.isEmpty then none
      else match branchOf k with
        | some (.prim t) => some (.prim t)
        | some .arrayOf =>
          match es with
          | [] => none
          | e :: _ => (inferTyW su ff e).map .array
        | _ => none
    | .row ns vs =>
      if ff && vs.isEmpty then none
      else match branchOf .row with
        | some (.prim t) => some (.prim t)
        | some .structOf => (keepTyped su ns (inferTysW su ff vs)).map (fun r => .struct r.1 r.2)
        | some .arrayOf =>
          match vs with
          | [] => none
          | e :: _ => (inferTyW su ff e).map .array
        | _ => none
    | .dict ks vs =>
      if ff && ks.isEmpty then none
      else match branchOf .dict with
        | some (.prim t) => some (.prim t)
        | some .mapOf =>
          match ks, vs with
          | k :: _, v :: _ =>
            match inferTyW su ff k, inferTyW su ff v with
            | some a, some b => some (.map a b)
            | _, _ => none
          | _, _ => none
        | _ => none
  def inferTysW (su : StructUntyped) (ff : Bool) : List PyVal → List (Option STy)
    | [] => []
    | v :: vs => inferTyW su ff v :: inferTysW su ff vs
end

/-- `get_default_data_type` as the source has it -/
def inferTy (v : PyVal) : Option STy := inferTyW inferStructUntyped inferFalsyFirst v

-- ------------------------------------------------------------------------------------------------
-- PySpark's inference on one value
-- ------------------------------------------------------------------------------------------------

def allSome : List (Option STy) → Option (List STy)
  | [] => some []
  | some t :: ts => (allSome ts).map (t :: ·)
  | none :: _ => none

mutual
  /-- `_infer_type` (first element of an array; every field of a struct must be typed) -/
  def specTy : PyVal → Option STy
    | .scalar k _ => if k.isScalar then (specType k).map .prim else none
    | .seq k es =>
      if k.isSeq then
        match es with
        | [] => none
        | e :: _ => (specTy e).map .array
      else none
    | .row ns vs => if ns.length = vs.length then (allSome (specTys vs)).map (.struct ns) else none
    | .dict ks vs =>
      match ks, vs with
      | k :: _, v :: _ =>
        match specTy k, specTy v with
        | some a, some b => some (.map a b)
        | _, _ => none
      | _, _ => none
  def specTys : List PyVal → List (Option STy)
    | [] => []
    | v :: vs => specTy v :: specTys vs
end

mutual
  /-- `timestamptz` and `timestamp` are one PySpark type, at every depth -/
  def STy.family : STy → STy
    | .prim t => .prim (tyFamily t)
    | .array e => .array e.family
    | .map k v => .map k.family v.family
    | .struct ns ts => .struct ns (STy.families ts)
  def STy.families : List STy → List STy
    | [] => []
    | t :: ts => t.family :: STy.families ts
end

-- ------------------------------------------------------------------------------------------------
-- the text handed to `exp.DataType.build(…, dialect="spark")`
-- ------------------------------------------------------------------------------------------------

mutual
  def STy.text : STy → String
    | .prim t => t
    | .array e => "array<" ++ e.text ++ ">"
    | .map k v => "map<" ++ k.text ++ ", " ++ v.text ++ ">"
    | .struct ns ts => "struct<" ++ ", ".intercalate (STy.fieldTexts ns ts) ++ ">"
  def STy.fieldTexts : List String → List STy → List String
    | n :: ns, t :: ts => (n ++ ": " ++ t.text) :: STy.fieldTexts ns ts
    | _, _ => []
end

end Sqlframe.C09
