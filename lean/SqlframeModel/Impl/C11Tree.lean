/-
Impl/C11Tree.lean — DataFrames whose statement is a *tree*: operands with their own clauses (ORDER BY, LIMIT,
DISTINCT, …) frozen into CTEs, combined by set operations, with further steps after the combination.

The actions of C11 add clauses to the *outer* SELECT of such a statement (`limit` for head / first / show /
isEmpty, a `count(*)` select list for count); whether they read or merge with a clause of an inner scope is a
decision of the source (`Gen.limitLookup`).  To state that, the model has to know which LIMIT nodes sit in the CTE
bodies of the statement: the ghost component `DF.hist` of the C01 model records every frozen block, and the
set-operation model of C07 (`DF.setop`, `DF.unionByName`, which drop it) is extended here to carry it along
(`setop11`, `unionByName11`: same `src` / `blk` / `last`, `hist` = the CTE lists of both operands in WITH order,
i.e. `_add_ctes_to_expression(self's, other's)`).

`Prog` (programs: base tables, C01 steps, set operations, unionByName — nested to any depth) is C07's; `run11`
runs it with `limit11` for every `limit` step and the `hist`-carrying set operations; `sem` is its sequential
meaning with the engine's positional set operators (`setopTable`; C07 relates those to PySpark's bags).
-/
import SqlframeModel.Impl.C11
import SqlframeModel.Impl.C07SetOps
namespace Sqlframe
open Gen

/-- the DataFrame `operation(tag).wrapper` hands to the method body (INIT branch, then the wrap test) -/
def enter11 (tag : Option Op) (d : DF) : DF :=
  match tag with
  | none => d
  | some op =>
    let d := if initCond d.last then { d.wrap with last := initReset } else d
    if wrapCond d.last (newOp op d.last) then d.wrap else d

/-- `a.<m>(b)` with the CTE list of the result: the receiver's CTEs (after the wrapper's own wraps), then those of
    `other._convert_leaf_to_cte()` -/
def DF.setop11 (m : SetMethod) (a b : DF) : DF :=
  { a.setop m b with hist := (enter11 m.tag a).hist ++ b.wrap.hist }

/-- the two operands `unionByName` hands to `_set_operation` (the `let`s of `bodyByName`) -/
def byNameRight (allowMissing : Bool) (other self : DF) : DF :=
  let l := self.outNames.map PItem.own
  let r := other.outNames.map PItem.own
  let st := if allowMissing then byNameMissing l r else byNameStrict l r
  other.wrap.apply (.select (st.r_expressions.map PItem.toItem))

def byNameLeft (allowMissing : Bool) (other self : DF) : DF :=
  let l := self.outNames.map PItem.own
  let r := other.outNames.map PItem.own
  let st := if allowMissing then byNameMissing l r else byNameStrict l r
  if allowMissing then self.wrap.apply (.select (st.l_expressions.map PItem.toItem)) else self

/-- `a.unionByName(b, allowMissingColumns)` with the CTE list of the result -/
def DF.unionByName11 (allowMissing : Bool) (a b : DF) : DF :=
  let s := enter11 tag_unionByName a
  { a.unionByName allowMissing b with
    hist := (byNameLeft allowMissing b s).hist ++ (byNameRight allowMissing b s).wrap.hist }

/-- run a program; every `limit` step is `limit11`, set operations carry the CTE list -/
def Prog.run11 (env : List Table) : Prog → DF
  | .base i => DF.init (env.getD i errTable)
  | .step p s => (p.run11 env).apply11 s
  | .setop m l r => (l.run11 env).setop11 m (r.run11 env)
  | .byName am l r => (l.run11 env).unionByName11 am (r.run11 env)

/-- the sequential meaning of a program: steps one after another (`specStep`), set operators positional on the
    operands' rows (`setopTable`; `C07_flags_bag`: as a bag this is PySpark's result), unionByName by name -/
def Prog.sem (env : List Table) : Prog → Table
  | .base i => env.getD i errTable
  | .step p s => specStep (p.sem env) s
  | .setop m l r => setopTable m.op (l.sem env) (r.sem env)
  | .byName am l r => byNameSpec am (l.sem env) (r.sem env)

/-- the last call of the program is an `orderBy` -/
def Prog.topOrderBy : Prog → Bool
  | .step _ s => s.isOrderBy
  | _ => false

/-- what PySpark requires of a program, with *every* C01 step kind allowed anywhere (orderBy / limit / unpivot /
    … inside operands and after the combination); an `orderBy` directly on an `orderBy` is the determinism scope of C01 -/
def Prog.WF11 (env : List Table) : Prog → Prop
  | .base i => i < env.length ∧ (env.getD i errTable).WF
  | .step p s => p.WF11 env ∧ s.WF (p.sem env).cols ∧ (s.isOrderBy = true → p.topOrderBy = false)
  | .setop _ l r => l.WF11 env ∧ r.WF11 env ∧ (r.sem env).cols.length = (l.sem env).cols.length
  | .byName am l r => l.WF11 env ∧ r.WF11 env ∧
      (am = false → (r.sem env).cols.length = (l.sem env).cols.length ∧ ∀ c ∈ (l.sem env).cols, c ∈ (r.sem env).cols)

instance decProgWF11 (env : List Table) : (p : Prog) → Decidable (p.WF11 env)
  | .base i => by unfold Prog.WF11; exact inferInstance
  | .step p s => by unfold Prog.WF11; exact @instDecidableAnd _ _ (decProgWF11 env p) _
  | .setop _ l r => by
      unfold Prog.WF11; exact @instDecidableAnd _ _ (decProgWF11 env l) (@instDecidableAnd _ _ (decProgWF11 env r) _)
  | .byName _ l r => by
      unfold Prog.WF11; exact @instDecidableAnd _ _ (decProgWF11 env l) (@instDecidableAnd _ _ (decProgWF11 env r) _)

/-- a chain of steps over one base table, as a program -/
def Prog.ofSteps (i : Nat) (steps : List Step) : Prog := steps.foldl Prog.step (.base i)

end Sqlframe
