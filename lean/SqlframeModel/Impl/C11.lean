/-
Impl/C11.lean — model of the DataFrame *actions* (count, isEmpty, head/first, show, limit().collect())
on top of the C01 DataFrame model, and of `Row._unique_field_names`.
Decisions come from Gen.Clauses (headLimit, countWrapsFirst, showWrapsFirst, …), Gen.Actions and Gen.Row.
-/
import SqlframeModel.Impl.C01Scope
import SqlframeModel.Gen.Row
import SqlframeModel.Gen.Actions
namespace Sqlframe
open Gen

/-! ### `Row._unique_field_names` -/

def maxLen (acc : List String) : Nat := acc.foldl (fun m s => max m s.length) 0

/-- `while field in fields: field = field + sfx` (fuel: see `freshen_not_mem`) -/
def freshen (acc : List String) (sfx : String) : Nat → String → String
  | 0, f => f
  | fuel + 1, f => if f ∈ acc then freshen acc sfx fuel (f ++ sfx) else f

def renameOne (acc : List String) (i : Nat) (f : String) : String :=
  match uniqueLoop with
  | .ifOnce => if f ∈ acc then f ++ uniqueSuffix i else f
  | .whileFresh => freshen acc (uniqueSuffix i) (maxLen acc + 1) f

def uniqueGo : Nat → List String → List String → List String
  | _, acc, [] => acc
  | i, acc, f :: fs => uniqueGo (i + 1) (acc ++ [renameOne acc i f]) fs

def uniqueFieldNames (fs : List String) : List String := uniqueGo 0 [] fs

/-! ### `limit` and the LIMIT node it consults

`limit(num)` first looks for a LIMIT that is already there and merges with it (`Gen.mergeLimit`).  WHERE it looks is a
decision of the source, regenerated as `Gen.limitLookup`: the outer SELECT of the statement (`ownBlock`), or the first
LIMIT node met by a breadth-first walk over the whole tree (`wholeTree`) -- the open block's own one if it has one,
otherwise the LIMIT of the oldest CTE that carries one (`DF.hist`, the ghost list of frozen CTE bodies; in WITH order, which is the
order `Expression.find` visits them: all CTE bodies sit at the same depth).  `limit11` is the `limit` method with
that decision; the C01 model's `DF.apply (.limit n)` is the special case `ownBlock` (`limit11_eq_apply`). -/

/-- the LIMIT values sitting in frozen CTE bodies, oldest CTE first -/
def histLimits (h : List CteBody) : List Nat :=
  h.filterMap (fun c => match c with | .block b => b.limit | .unpivot _ _ _ _ _ => none)

/-- the LIMIT `limit()` finds before merging, for a given lookup rule -/
def foundLimitWith (scope : LimitLookup) (d : DF) : Option Nat :=
  match scope with
  | .ownBlock => d.blk.limit
  | .wholeTree => (d.blk.limit.toList ++ histLimits d.hist).head?
  | .noLookup => none

def bodyLimitWith (scope : LimitLookup) (n : Nat) (d : DF) : DF :=
  { d with blk := { d.blk with limit := some (mergeLimit n (foundLimitWith scope d)) } }

/-- `df.limit(n)` under a given lookup rule (decorated: `operation(Operation.LIMIT)`) -/
def DF.limitWith (scope : LimitLookup) (d : DF) (n : Nat) : DF := wrapper tag_limit (bodyLimitWith scope n) d

/-- `df.limit(n)` as the source has it -/
def DF.limit11 (d : DF) (n : Nat) : DF := d.limitWith limitLookup n

/-- one public method call; `limit` through `limit11`, every other step as in the C01 model -/
def DF.apply11 (d : DF) : Step → DF
  | .limit n => d.limit11 n
  | s => d.apply s

def DF.run11 (d : DF) (steps : List Step) : DF := steps.foldl DF.apply11 d

/-! ### actions -/

/-- `count()`: `df = self._convert_leaf_to_cte(); select("count(*)", append=False)`; none = the engine rejects the statement -/
def countModel (d : DF) : Option Nat :=
  if countSelectAppend then none
  else if countWrapsFirst then some d.wrap.eval.rows.length
  else if d.blk.limit = none ∧ d.blk.order = [] then some (stWhere d.blk.wher d.src).length else none

/-- `head(n)` / `head()`: `self.limit(headLimit n).collect()` -/
def headRows (d : DF) (n : Option Nat) : List Row := (d.limit11 (headLimit n)).eval.rows

/-- `limit(n).collect()` -/
def limitRows (d : DF) (n : Nat) : List Row := (d.limit11 n).eval.rows

def firstRow (d : DF) : Option Row := (headRows d none).head?

/-- `isEmpty()`: `not bool(self.select(lit(True)).head())` -/
def isEmptyModel (d : DF) : Bool :=
  (firstRow (d.apply (.select [("true", .lit (.bool true))]))).isNone

/-- `show(n)`: [wrap,] `limit(n)`, collect; header = unique field names of the result's columns -/
def showModel (d : DF) (n : Nat) : List String × List Row :=
  let d0 := if showWrapsFirst then d.wrap else d
  let t := (d0.limit11 n).eval
  (if showHeaderNeedsRow && t.rows.isEmpty then [] else uniqueFieldNames t.cols, t.rows)

/-- H_showNonEmpty: `show` prints the column names only when the result has a row -/
def H_showNonEmpty (d : DF) (n : Nat) : Bool :=
  (showHeaderNeedsRow == false) || !(d.eval.rows.take n).isEmpty

end Sqlframe
