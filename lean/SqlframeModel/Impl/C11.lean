/-
Impl/C11.lean — model of the DataFrame *actions* (count, isEmpty, head/first, show, limit().collect())
on top of the C01 DataFrame model, and of `Row._unique_field_names`.
Decisions come from Gen.Clauses (headLimit, countWrapsFirst, showWrapsFirst, …), Gen.Actions and Gen.Row.
-/
import SqlframeModel.Impl.C01Scope
import SqlframeModel.Gen.Row
import SqlframeModel.Gen.Actions
namespace Sqlframe
open Gen

/-! ### `Row._unique_field_names` -/

def maxLen (acc : List String) : Nat := acc.foldl (fun m s => max m s.length) 0

/-- `while field in fields: field = field + sfx` (fuel: see `freshen_not_mem`) -/
def freshen (acc : List String) (sfx : String) : Nat → String → String
  | 0, f => f
  | fuel + 1, f => if f ∈ acc then freshen acc sfx fuel (f ++ sfx) else f

def renameOne (acc : List String) (i : Nat) (f : String) : String :=
  match uniqueLoop with
  | .ifOnce => if f ∈ acc then f ++ uniqueSuffix i else f
  | .whileFresh => freshen acc (uniqueSuffix i) (maxLen acc + 1) f

def uniqueGo : Nat → List String → List String → List String
  | _, acc, [] => acc
  | i, acc, f :: fs => uniqueGo (i + 1) (acc ++ [renameOne acc i f]) fs

def uniqueFieldNames (fs : List String) : List String := uniqueGo 0 [] fs

/-! ### actions -/

/-- `count()`: `df = self._convert_leaf_to_cte(); select("count(*)", append=False)`; none = the engine rejects the statement -/
def countModel (d : DF) : Option Nat :=
  if countSelectAppend then none
  else if countWrapsFirst then some d.wrap.eval.rows.length
  else if d.blk.limit = none ∧ d.blk.order = [] then some (stWhere d.blk.wher d.src).length else none

/-- `head(n)` / `head()`: `self.limit(headLimit n).collect()` -/
def headRows (d : DF) (n : Option Nat) : List Row := (d.apply (.limit (headLimit n))).eval.rows

def firstRow (d : DF) : Option Row := (headRows d none).head?

/-- `isEmpty()`: `not bool(self.select(lit(True)).head())` -/
def isEmptyModel (d : DF) : Bool :=
  (firstRow (d.apply (.select [("true", .lit (.bool true))]))).isNone

/-- `show(n)`: wrap, `limit(n)`, collect; header = unique field names of the result's columns -/
def showModel (d : DF) (n : Nat) : List String × List Row :=
  let d0 := if showWrapsFirst then d.wrap else d
  let t := (d0.apply (.limit n)).eval
  (if showHeaderNeedsRow && t.rows.isEmpty then [] else uniqueFieldNames t.cols, t.rows)

/-- H_showNonEmpty: `show` prints the column names only when the result has a row -/
def H_showNonEmpty (d : DF) (n : Nat) : Bool :=
  (showHeaderNeedsRow == false) || !(d.eval.rows.take n).isEmpty

end Sqlframe
