/-
Impl/C01ExprKey.lean — `orderBy`'s guard for sort keys that are *expressions* (executable definitions; the proofs are in
Lemmas/C01ExprKey.lean, the property theorem `C01_exprkey_resolution` in Props/C01.lean).
-/
import SqlframeModel.Impl.DataFrame
namespace Sqlframe
open Gen

/-- what sqlglot shows `orderBy` of the item `(n, e)`: an identity item may be a bare `Column` or `Alias(Column n, n)`;
    every other item is an `Alias` -/
structure Faithful (v : Name × Expr → SelItem) : Prop where
  alias_name : ∀ it, (v it).isAlias = true → (v it).alias = it.1
  col_item : ∀ it m, it.2 = .col m →
    ((v it).isAlias = false ∧ m = it.1) ∨ ((v it).isAlias = true ∧ (v it).thisIsCol = true ∧ (v it).thisName = m)
  other_item : ∀ it, (∀ m, it.2 ≠ .col m) → (v it).isAlias = true ∧ (v it).thisIsCol = false

/-- the view in which identity items are bare columns (what `_convert_leaf_to_cte` and `select('a')` produce) -/
def viewBare (it : Name × Expr) : SelItem :=
  match it.2 with
  | .col m => if m = it.1 then { isAlias := false, alias := "", thisIsCol := false, thisName := m }
              else { isAlias := true, alias := it.1, thisIsCol := true, thisName := m }
  | _ => { isAlias := true, alias := it.1, thisIsCol := false, thisName := "" }

/-- the view in which every item is an Alias (what `withColumns` produces) -/
def viewAliased (it : Name × Expr) : SelItem :=
  match it.2 with
  | .col m => { isAlias := true, alias := it.1, thisIsCol := true, thisName := m }
  | _ => { isAlias := true, alias := it.1, thisIsCol := false, thisName := "" }

/-- `redefined = {x.alias for x in self.expression.expressions if …}` -/
def redefinedNames (v : Name × Expr → SelItem) (sel : List (Name × Expr)) : List Name :=
  (sel.filter (fun it => orderRedefined (v it))).map (fun it => (v it).alias)

def Expr.isBare : Expr → Bool
  | .col _ => true
  | _ => false

/-- the test of the loop in `orderBy`: some sort expression mentions a redefined name -/
def exprKeyNeedsWrap (v : Name × Expr → SelItem) (sel : List (Name × Expr)) (keys : List Expr) : Bool :=
  orderExprGuard && keys.any (fun k => !(orderGuardSkipsBareKeys && k.isBare) && k.refs.any (fun n => n ∈ redefinedNames v sel))

/-- the same test on what the harness reads off the real select list (views) and the real keys (bare?, names mentioned) -/
def guardOnViews (items : List SelItem) (keys : List (Bool × List Name)) : Bool :=
  orderExprGuard && keys.any (fun k => !(orderGuardSkipsBareKeys && k.1) &&
    k.2.any (fun n => n ∈ (items.filter orderRedefined).map (·.alias)))

/-- what `orderBy` does before it writes the ORDER BY clause -/
def prepOrderBy (v : Name × Expr → SelItem) (keys : List Expr) (d : DF) : DF :=
  if exprKeyNeedsWrap v d.blk.sel keys then d.wrap else d

end Sqlframe
