/-
Props/C15.lean — property theorems for C15 (table.update / table.delete change exactly the rows the
predicate selects; nothing changes before execute()).

Model: Impl/C15Dml.lean around the regenerated Gen.Dml.  `C15_full_statement` vs the proved part: bottom.
`O` is the one other table a subquery inside a predicate may select from.
-/
import SqlframeModel.Lemmas.C15
namespace Sqlframe
open Gen.Dml C15

/-- the regenerated decisions no hypothesis excuses: default predicate TRUE, `table['c']` re-targeted
    to the physical table in predicate and assignment values, predicate alias stripped, statements
    issued on the physical table, nothing executed at build time, execute() runs the statement; no loop
    touches a reference that is qualified with a subquery's table -/
theorem C15_flags_sound : flagsOk genFlags = true := by decide

/-- the dialect that reads a SQL-string predicate has Spark SQL's lexer (double-quoted tokens are
    strings, backticks quote identifiers, a backslash escapes): `H_predDialect` holds for every input -/
theorem C15_dialect_sound (d : Dml) : H_predDialect genFlags d := Or.inl (by decide)

/-- the predicate loop leaves bare names alone: `H_predCapture` holds for every input -/
theorem C15_capture_sound (ocols : List Name) (d : Dml) : H_predCapture genFlags ocols d := Or.inl (by decide)

/-- **Re-qualification.** For every expression over the reference styles `table['c']` / `F.col('c')` —
    subqueries on another table included, at any nesting depth (structural induction inside
    `evalS_requal` / `binds_requal`) — every column list and row: the rewritten expression, evaluated where
    the statement runs (`UPDATE t …` on the physical table), has the value the user's expression has in a
    DataFrame on the handle, the Binder-error case included.  For the predicate loop as it is
    (`H_predCapture`), and for the assignment-value loop on expressions over the row's own values. -/
theorem C15_requalify (O : Table) (e : QExpr) (cols : List Name) (r : Row) (hq : ∀ q ∈ e.quals, userScope q = true) :
    (H_predCapture genFlags O.cols (.delete (.expr e false)) →
      evalQ dmlScope O cols r (e.mapQ (qmap Gen.Dml.predMatches Gen.Dml.predTo)) = evalQ userScope O cols r e) ∧
    (e.flat = true →
      evalQ dmlScope O cols r (e.mapQ (qmap Gen.Dml.rhsMatches Gen.Dml.rhsTo)) = evalQ userScope O cols r e) := by
  obtain ⟨_, hpc, hpt, _, hrc, hrt, _, _, _, _, hps, hrs⟩ := flagsOk_iff genFlags C15_flags_sound
  constructor
  · intro hcap
    obtain ⟨h1, h2⟩ := requal_ok Gen.Dml.predMatches Gen.Dml.predTo hpc hpt hps O cols e hq hcap
    simp only [evalQ, h1 r, h2]
  · intro hf
    obtain ⟨h1, h2⟩ := requal_ok Gen.Dml.rhsMatches Gen.Dml.rhsTo hrc hrt hrs O cols e hq (Or.inr (flat_noCapture O.cols e hf))
    simp only [evalQ, h1 r, h2]

/-- the rewrite never changes the shape of an expression, only qualifiers — everywhere, subqueries included -/
theorem C15_requalify_shape (f : Qual → Qual) (e : QExpr) :
    (e.mapQ f).quals = e.quals.map f ∧ (e.mapQ f).flat = e.flat := by
  refine ⟨quals_mapQ f e, ?_⟩
  induction e with
  | col q n => rfl
  | lit v => rfl
  | tok r d => rfl
  | bin op a b iha ihb => simp [QExpr.mapQ, QExpr.flat, iha, ihb]
  | not a ih => simpa [QExpr.mapQ, QExpr.flat] using ih
  | neg a ih => simpa [QExpr.mapQ, QExpr.flat] using ih
  | isNull a ih => simpa [QExpr.mapQ, QExpr.flat] using ih
  | ite c t e ihc iht ihe => simp [QExpr.mapQ, QExpr.flat, ihc, iht, ihe]
  | inList a vs ih => simpa [QExpr.mapQ, QExpr.flat] using ih
  | like a p ih => simpa [QExpr.mapQ, QExpr.flat] using ih
  | inSub a s w _ _ _ => rfl
  | exists_ w _ => rfl

/-- **Why a loop that also re-targets bare names is wrong.**  For *any* decisions `m`, `to` that send a
    bare name to the physical table: inside a subquery whose table has a column `n`, the rewritten
    reference reads the target row's `n`, the user's reference the subquery row's `n`. -/
theorem C15_capture_changes_meaning (m : Qual → Bool) (O : Table) (cols : List Name) (r i : Row) (inner : List Row) (n : Name)
    (hm : m .none = true) (hn : n ∈ O.cols) :
    evalS O cols r ((QExpr.col .none n).mapQ (qmap m .phys)) (i :: inner) = lookup cols r n ∧
    evalS O cols r (QExpr.col .none n) (i :: inner) = lookup O.cols i n := by
  simp [QExpr.mapQ, qmap, hm, evalS, resolve, hn]

/-- **SQL text.** What the lexer of `predLex` makes of a SQL-string predicate is what Spark SQL makes of it:
    for every syntax tree — same value in every row and subquery context, same binding — provided the
    lexer is Spark's or the text has no double-quoted token, backslash or backtick. -/
theorem C15_sql_reading (lx : Lex) (O : Table) (cols : List Name) (r : Row) (e : QExpr) (inner : List Row)
    (h : lx = sparkLex ∨ e.plainToks = true) :
    evalS O cols r (e.readTok lx) inner = evalS O cols r e inner ∧
    (∀ sc ins, binds sc O.cols cols (e.readTok lx) ins = binds sc O.cols cols e ins) := by
  rcases h with h | h
  · rw [h, readTok_spark]; exact ⟨rfl, fun _ _ => rfl⟩
  · exact ⟨readTok_plain_eval lx O cols r e inner h, fun sc ins => readTok_plain_binds lx sc O.cols cols e ins h⟩

/-- a lexer that takes double-quoted tokens for identifiers reads `"x"` as the column `x`, Spark SQL as
    the string 'x' — for every such lexer and every token -/
theorem C15_dq_reading (lx : Lex) (raw : String) (h : lx.dqString = false) :
    (QExpr.tok raw true).readTok lx = .col .none raw ∧
    ∀ O cols r inner, evalS O cols r (QExpr.tok raw true) inner = .str (String.ofList (unescape raw.toList)) := by
  simp [QExpr.readTok, h, evalS, tokVal]

/-- One statement, for every decision setting that is sound where no hypothesis excuses it. -/
theorem C15.dml_generic (fl : Flags) (hok : flagsOk fl = true) (O : Table) (d : Dml) (T : Table) (hwf : d.WF)
    (hs : InScope fl O.cols d) : applyDml fl O d T = specDml O d T := by
  obtain ⟨_, _, _, _, _, _, hut, hdt, _, _, _, _⟩ := flagsOk_iff fl hok
  obtain ⟨hrhs, hpu, hpstr, hral, hcap, hdia⟩ := hs
  cases d with
  | update sets p ral =>
    have hsal : (ral && !fl.rhsAliasStripped) = false := by
      rcases hral with h | h
      · simp [h]
      · simp only [Dml.rhsAliased] at h; simp [h]
    obtain ⟨hq, hqs, hsql, hflat⟩ := hwf
    obtain ⟨c, hc, hcs, hcb⟩ := buildPred_ok fl hok p O T.cols hq hpu hpstr hcap hdia
    have hqs' : ∀ s ∈ sets, ∀ q ∈ s.2.quals, userScope q = true := by
      intro s hs q hq'
      rcases hqs s hs q hq' with h | h <;> simp [h, userScope]
    obtain ⟨ss, hss, hasg, hbind⟩ := buildSets_ok fl hok sets O T.cols hqs' hflat hrhs
    simp only [applyDml, build, hc, hss, Option.bind, execStmt, hut, hcb, hbind, specDml, hsal,
      sqlUpdate_congr O T sets ss (specPred p) c hcs hasg]
    simp
  | delete p =>
    obtain ⟨hq, hsql⟩ := hwf
    obtain ⟨c, hc, hcs, hcb⟩ := buildPred_ok fl hok p O T.cols hq hpu hpstr hcap hdia
    simp only [applyDml, build, hc, Option.bind, execStmt, hdt, hcb, specDml, sqlDelete_congr O T (specPred p) c hcs]
    simp

/-- **update.** `table.update(sets, where).execute()` on any table: the rows are
    `rows.map (fun r => if pred r = TRUE then assign r else r)`, `assign` evaluating every right-hand
    side on the old row; an invalid call (unknown column, a column assigned twice) changes nothing. -/
theorem C15_update (O : Table) (sets : List (Name × QExpr)) (p : PredIn) (ral : Bool) (T : Table) (hwf : (Dml.update sets p ral).WF)
    (hs : InScope genFlags O.cols (.update sets p ral)) :
    applyDml genFlags O (.update sets p ral) T =
      (if binds userScope O.cols T.cols (specPred p) false && setsBind userScope O.cols T.cols sets
       then some { T with rows := T.rows.map (fun r =>
          if isTrue (evalS O T.cols r (specPred p) []) then assignRow O T.cols sets r else r) }
       else none) := by
  rw [C15.dml_generic genFlags C15_flags_sound O _ T hwf hs]
  rfl

/-- **delete.** exactly the rows whose predicate is TRUE are removed -/
theorem C15_delete (O : Table) (p : PredIn) (T : Table) (hwf : (Dml.delete p).WF) (hs : InScope genFlags O.cols (.delete p)) :
    applyDml genFlags O (.delete p) T =
      (if binds userScope O.cols T.cols (specPred p) false
       then some { T with rows := T.rows.filter (fun r => !isTrue (evalS O T.cols r (specPred p) [])) } else none) := by
  rw [C15.dml_generic genFlags C15_flags_sound O _ T hwf hs]
  rfl

/-- **NULL predicate.** A row for which the predicate is NULL (or FALSE) is neither updated nor deleted. -/
theorem C15_null_pred (O : Table) (d : Dml) (T T' : Table) (hwf : d.WF) (hs : InScope genFlags O.cols d)
    (h : applyDml genFlags O d T = some T')
    (hnull : ∀ r ∈ T.rows, evalS O T.cols r (specPred d.pred) [] ≠ .bool true) : T' = T := by
  rw [C15.dml_generic genFlags C15_flags_sound O d T hwf hs] at h
  cases d with
  | update sets p ral =>
    simp only [specDml] at h
    split at h
    · simp only [Option.some.injEq] at h
      subst h
      have : T.rows.map (fun r => if isTrue (evalS O T.cols r (specPred p) []) then assignRow O T.cols sets r else r) = T.rows.map id := by
        apply List.map_congr_left
        intro r hr
        have := hnull r hr
        simp [isTrue, Dml.pred] at this ⊢
        intro h; exact absurd h this
      simp [sqlUpdate, this]
    · simp at h
  | delete p =>
    simp only [specDml] at h
    split at h
    · simp only [Option.some.injEq] at h
      subst h
      have : T.rows.filter (fun r => !isTrue (evalS O T.cols r (specPred p) [])) = T.rows := by
        apply List.filter_eq_self.mpr
        intro r hr
        have := hnull r hr
        simp [isTrue, Dml.pred] at this ⊢
        exact this
      simp [sqlDelete, this]
    · simp at h

/-- **No excluded middle.** In every row and context, `p OR NOT p` is TRUE exactly when `p` is a (non-NULL)
    boolean, and NULL otherwise; likewise `NOT (p AND NOT p)`.  So neither is the constant TRUE:
    folding them (as a two-valued simplifier does) selects the rows on which `p` is NULL. -/
theorem C15_no_excluded_middle (O : Table) (cols : List Name) (r : Row) (inner : List Row) (p : QExpr) :
    evalS O cols r (.bin .or p (.not p)) inner = (match evalS O cols r p inner with | .bool _ => .bool true | _ => .null) ∧
    evalS O cols r (.not (.bin .and p (.not p))) inner = (match evalS O cols r p inner with | .bool _ => .bool true | _ => .null) := by
  simp only [evalS, binSem]
  cases evalS O cols r p inner with
  | bool b => cases b <;> simp [or3, and3, not3]
  | null => simp [or3, and3, not3]
  | int i => simp [or3, and3, not3]
  | str s => simp [or3, and3, not3]

/-- `delete(p | ~p)` keeps exactly the rows on which `p` is NULL (or not a boolean) -/
theorem C15_delete_tautology (O : Table) (e : QExpr) (T : Table) (hwf : (Dml.delete (.expr (.bin .or e (.not e)) false)).WF)
    (hs : InScope genFlags O.cols (.delete (.expr (.bin .or e (.not e)) false)))
    (hb : binds userScope O.cols T.cols e false = true) :
    applyDml genFlags O (.delete (.expr (.bin .or e (.not e)) false)) T =
      some { T with rows := T.rows.filter (fun r => match evalS O T.cols r e [] with | .bool _ => false | _ => true) } := by
  rw [C15_delete O _ T hwf hs]
  simp only [specPred, binds, hb, Bool.and_self, if_true]
  congr 2
  apply List.filter_congr
  intro r _
  rw [(C15_no_excluded_middle O T.cols r [] e).1]
  cases evalS O T.cols r e [] <;> simp [isTrue]

/-- **IN-lists.** `a IN (v1, …, vn)` is the three-valued `a = v1 OR … OR a = vn` (for every list, by induction) -/
theorem C15_inList_or (O : Table) (cols : List Name) (r : Row) (inner : List Row) (a : QExpr) (vs : List Val) :
    evalS O cols r (.inList a vs) inner =
      evalS O cols r (vs.foldl (fun acc v => QExpr.bin .or acc (.bin .eq a (.lit v))) (.lit (.bool false))) inner := by
  simp only [evalS, inSem]
  suffices h : ∀ (acc : QExpr) (av : Val), evalS O cols r acc inner = av →
      vs.foldl (fun acc v => or3 acc (binSem .eq (evalS O cols r a inner) v)) av =
        evalS O cols r (vs.foldl (fun acc v => QExpr.bin .or acc (.bin .eq a (.lit v))) acc) inner from
    h (.lit (.bool false)) (.bool false) rfl
  induction vs with
  | nil => intro acc av h; simp [h]
  | cons v rest ih =>
    intro acc av h
    simp only [List.foldl_cons]
    apply ih
    simp [evalS, binSem, h]

/-- on expressions of the shared Core language the semantics used here is Core/Expr's `eval`, whatever
    the (outer) qualifier and however many subquery rows are open — when no name is a subquery column -/
theorem C15_core_embedding (O : Table) (cols : List Name) (r : Row) (q : Qual) (hq : q ≠ .sub) (e : Expr) :
    evalS O cols r (ofCore q e) [] = eval cols r e := by
  induction e with
  | col n => cases q <;> simp_all [ofCore, evalS, resolve, eval]
  | lit v => rfl
  | bin op a b iha ihb => simp [ofCore, evalS, eval, iha, ihb]
  | not a ih => simp [ofCore, evalS, eval, ih]
  | neg a ih => simp only [ofCore, evalS, eval, ih]; cases eval cols r a <;> rfl
  | isNull a ih => simp [ofCore, evalS, eval, ih]
  | ite c t e ihc iht ihe => simp [ofCore, evalS, eval, ihc, iht, ihe]

/-- **Omitted predicate.** `where=None` selects every row: update assigns on all rows, delete empties the table. -/
theorem C15_no_pred (O : Table) (sets : List (Name × QExpr)) (ral : Bool) (T : Table) (hwf : (Dml.update sets .absent ral).WF)
    (hs : InScope genFlags O.cols (.update sets .absent ral)) :
    applyDml genFlags O (.delete .absent) T = some { T with rows := [] } ∧
    applyDml genFlags O (.update sets .absent ral) T =
      (if setsBind userScope O.cols T.cols sets
       then some { T with rows := T.rows.map (assignRow O T.cols sets) } else none) := by
  constructor
  · have hd : (Dml.delete .absent).WF := by simp [Dml.WF, PredIn.quals, PredIn.sqlBare]
    have hsd : InScope genFlags O.cols (.delete .absent) := by
      refine ⟨Or.inr (by simp [Dml.sets]), Or.inr (by simp [Dml.pred, PredIn.quals]), Or.inr (by simp [Dml.pred, PredIn.isSql]), Or.inr rfl,
        C15_capture_sound _ _, C15_dialect_sound _⟩
    rw [C15_delete O .absent T hd hsd]
    simp [specPred, binds, evalS, isTrue]
  · rw [C15_update O sets .absent ral T hwf hs]
    simp [specPred, binds, evalS, isTrue]

/-- **Laziness.** Whatever is built — any number of update / delete calls, valid or not — the table is
    unchanged until an `execute()`. -/
theorem C15_lazy (O : Table) (cs : List Cmd) (hb : ∀ c ∈ cs, ∃ d, c = .build d) : ∀ (s : Sess),
    (runCmds genFlags O cs s).tbl = s.tbl ∧ (runCmds genFlags O cs s).lazies.length = s.lazies.length + cs.length := by
  obtain ⟨_, _, _, _, _, _, _, _, hbe, _, _, _⟩ := flagsOk_iff genFlags C15_flags_sound
  induction cs with
  | nil => intro s; simp [runCmds]
  | cons c rest ih =>
    intro s
    obtain ⟨d, rfl⟩ := hb c (List.mem_cons_self ..)
    have := ih (fun c hc => hb c (List.mem_cons_of_mem _ hc)) (stepCmd genFlags O (.build d) s)
    simp only [runCmds, List.foldl_cons] at this ⊢
    rw [this.1, this.2]
    simp only [stepCmd, hbe]
    simp
    omega

/-- executing the i-th LazyExpression applies exactly the statement that call built, to the table as
    it is *then* -/
theorem C15_execute (O : Table) (s : Sess) (i : Nat) (st : Stmt) (h : listGet s.lazies i = some (some st)) :
    (stepCmd genFlags O (.exec i) s).tbl = (execStmt O st s.tbl).getD s.tbl ∧
    (stepCmd genFlags O (.exec i) s).lazies = s.lazies := by
  obtain ⟨_, _, _, _, _, _, _, _, _, her, _, _⟩ := flagsOk_iff genFlags C15_flags_sound
  simp [stepCmd, h, her]

/-- all statements of a sequence are in scope -/
def C15.SeqOk (ocols : List Name) (ds : List Dml) : Prop := ∀ d ∈ ds, d.WF ∧ InScope genFlags ocols d
instance (oc : List Name) (ds : List Dml) : Decidable (C15.SeqOk oc ds) := by unfold C15.SeqOk; exact inferInstance

/-- **Sequences.** For every sequence of update / delete statements (induction), each built and
    executed in turn on whatever the previous ones left: the table is the fold of the specification. -/
theorem C15_seq (O : Table) (ds : List Dml) (hok : C15.SeqOk O.cols ds) : ∀ T : Table, runDml genFlags O ds T = specRun O ds T := by
  induction ds with
  | nil => intro T; rfl
  | cons d rest ih =>
    intro T
    have hd := hok d (List.mem_cons_self ..)
    simp only [runDml, specRun, List.foldl_cons]
    rw [C15.dml_generic genFlags C15_flags_sound O d T hd.1 hd.2]
    exact ih (fun x hx => hok x (List.mem_cons_of_mem _ hx)) _

/-! ### counterexamples for the scope hypotheses (witnesses replayed on the real code by the check) -/

def C15.exT : Table := { cols := ["k", "z"], rows := [[.int 1, .int 10], [.int 2, .int 20], [.int 2, .int 20], [.null, .int 30]] }
def C15.exO : Table := { cols := ["k", "w"], rows := [[.int 2, .int 5], [.int 7, .int 0], [.null, .int 9]] }

/-- `tb.update({'z': tb['z'] + F.col('k')}, where=tb['k'] == 2)`: the unqualified `k` on the right-hand
    side falls into `else: raise ValueError` — no statement, nothing changes; the specification adds. -/
theorem C15_cex_rhsUnqualified : Gen.Dml.rhsElseRaises = true → Gen.Dml.rhsMatches .none = false →
    let d := Dml.update [("z", .bin .add (.col .cte "z") (.col .none "k"))] (.expr (.bin .eq (.col .cte "k") (.lit (.int 2))) false) false
    applyDml genFlags C15.exO d C15.exT = none ∧
    specDml C15.exO d C15.exT = some { C15.exT with rows := [[.int 1, .int 10], [.int 2, .int 22], [.int 2, .int 22], [.null, .int 30]] } := by
  decide

/-- `tb.delete(where="k = 2")`: the string is taken for a column name; the statement does not bind.
    (Only a text that is one parenthesised expression, like "(k = 2)", gets parsed.) -/
theorem C15_cex_predString : Gen.Dml.predStringParsed = false →
    let d := Dml.delete (.sql (.bin .eq (.col .none "k") (.lit (.int 2))) "k = 2" false false)
    applyDml genFlags C15.exO d C15.exT = none ∧
    specDml C15.exO d C15.exT = some { C15.exT with rows := [[.int 1, .int 10], [.null, .int 30]] } := by
  decide

/-- `tb.update({'z': F.when(tb['k'] > 1, 1).otherwise(2)})`: the value keeps its automatic alias
    (`SET z = CASE … END AS when__k__`), which the engine rejects. -/
theorem C15_cex_rhsAlias : Gen.Dml.rhsAliasStripped = false →
    let d := Dml.update [("z", .ite (.bin .gt (.col .cte "k") (.lit (.int 1))) (.lit (.int 1)) (.lit (.int 2)))] .absent true
    applyDml genFlags C15.exO d C15.exT = none ∧
    specDml C15.exO d C15.exT = some { C15.exT with rows := [[.int 1, .int 2], [.int 2, .int 1], [.int 2, .int 1], [.null, .int 2]] } := by
  decide

/-- `tb.delete(where="k IN (SELECT k FROM o WHERE k > 1)")` when the predicate loop also re-targets bare
    names: the statement becomes `… WHERE tb.k IN (SELECT tb.k FROM o WHERE tb.k > 1)` and removes every
    row with k > 1 (as long as `o` has a row), the specification only those whose k occurs in `o`. -/
theorem C15_cex_predCapture :
    let fl := { genFlags with predMatches := fun q => decide (q = Qual.none) || Gen.Dml.predMatches q }
    let T : Table := { cols := ["k", "z"], rows := [[.int 1, .int 10], [.int 2, .int 20], [.int 3, .int 30], [.null, .int 40]] }
    let d := Dml.delete (.sql (.inSub (.col .none "k") (.col .none "k") (.bin .gt (.col .none "k") (.lit (.int 1)))) "k IN (SELECT k FROM o WHERE k > 1)" false false)
    flagsOk fl = true ∧
    applyDml fl C15.exO d T = some { T with rows := [[.int 1, .int 10], [.null, .int 40]] } ∧
    specDml C15.exO d T = some { T with rows := [[.int 1, .int 10], [.int 3, .int 30], [.null, .int 40]] } := by
  decide

/-- `tb.delete(where='k = "z"')` on a table with string columns k, z, read by a lexer for which a
    double-quoted token is an identifier: the statement compares the columns k and z; Spark SQL compares
    k with the string 'z'. -/
theorem C15_cex_predDialect :
    let fl := { genFlags with predLex := lexOf "" }
    let T : Table := { cols := ["k", "z"], rows := [[.str "z", .str "p"], [.str "q", .str "q"], [.null, .str "z"]] }
    let d := Dml.delete (.sql (.bin .eq (.col .none "k") (.tok "z" true)) "k = \"z\"" false false)
    flagsOk fl = true ∧
    applyDml fl C15.exO d T = some { T with rows := [[.str "z", .str "p"], [.null, .str "z"]] } ∧
    specDml C15.exO d T = some { T with rows := [[.str "q", .str "q"], [.null, .str "z"]] } := by
  decide

/-- OUTSIDE the property (`Dml.WF` asks for assignment values over the row's own columns), recorded because the
    model contains it: the assignment-value loop re-targets bare names, so in
    `tb.update({'z': F.expr("CASE WHEN k IN (SELECT k FROM o) THEN 1 ELSE 0 END")})` the subquery's own `k`
    becomes `tb.k` and every row with a non-NULL k gets 1. -/
theorem C15_cex_rhsCapture : Gen.Dml.rhsMatches .none = true →
    let T : Table := { cols := ["k", "z"], rows := [[.int 1, .int 10], [.int 2, .int 20], [.int 3, .int 30], [.null, .int 40]] }
    let d := Dml.update [("z", .ite (.inSub (.col .none "k") (.col .none "k") (.lit (.bool true))) (.lit (.int 1)) (.lit (.int 0)))] .absent true
    ¬ d.WF ∧
    applyDml genFlags C15.exO d T = some { T with rows := [[.int 1, .int 1], [.int 2, .int 1], [.int 3, .int 1], [.null, .int 0]] } ∧
    specDml C15.exO d T = some { T with rows := [[.int 1, .int 0], [.int 2, .int 1], [.int 3, .int 0], [.null, .int 0]] } := by
  decide

/-! ### non-vacuity -/

def C15.exSeq : List Dml :=
  [ .update [("z", .bin .add (.col .cte "z") (.col .cte "k"))] (.expr (.bin .gt (.col .none "k") (.lit (.int 1))) true) false,
    .update [("k", .col .cte "z"), ("z", .col .cte "k")] .absent false,                  -- swap: right-hand sides read the old row
    .delete (.expr (.bin .eq (.col .cte "z") (.lit .null)) false),                 -- NULL predicate: nothing deleted
    .delete (.sql (.isNull (.col .none "z")) "(z IS NULL)" true false),
    -- a correlated subquery, a bare name only the target has (z), one both have (k), one qualified with o
    .delete (.sql (.inSub (.col .none "z") (.col .none "k") (.bin .gt (.col .sub "w") (.col .none "z"))) "z IN (SELECT k FROM o WHERE o.w > z)" false false),
    .delete (.sql (.bin .or (.inList (.col .none "z") [.int 1]) (.not (.inList (.col .none "z") [.int 1]))) "z IN (1) OR NOT z IN (1)" false false) ]

example : C15.SeqOk C15.exO.cols C15.exSeq := by decide
example : runDml genFlags C15.exO (C15.exSeq.take 4) C15.exT =
    { cols := ["k", "z"], rows := [[.int 10, .int 1], [.int 22, .int 2], [.int 22, .int 2]] } := by decide
example : runDml genFlags C15.exO (C15.exSeq.take 5) C15.exT =
    { cols := ["k", "z"], rows := [[.int 10, .int 1]] } := by decide
example : runDml genFlags C15.exO (C15.exSeq.drop 5) { cols := ["k", "z"], rows := [[.int 1, .int 1], [.int 1, .null], [.int 1, .int 3]] } =
    { cols := ["k", "z"], rows := [[.int 1, .null]] } := by decide
example : (∀ q ∈ (QExpr.bin .add (.col .cte "z") (.col .none "k")).quals, userScope q = true) := by decide
example : (runCmds genFlags C15.exO [.build (.update [("z", .bin .add (.col .cte "z") (.col .cte "k"))] (.expr (.bin .gt (.col .none "k") (.lit (.int 1))) true) false), .build (.delete .absent), .exec 0] { tbl := C15.exT }).tbl =
    { cols := ["k", "z"], rows := [[.int 1, .int 10], [.int 2, .int 22], [.int 2, .int 22], [.null, .int 30]] } := by decide
/-- `C15_sql_reading` is about texts with tokens: a double-quoted one and a backslash escape -/
example : evalS C15.exO ["s"] [.str "a\\b"] (.bin .eq (.col .none "s") ((QExpr.tok "a\\\\b" true).readTok sparkLex)) [] = .bool true := by decide

/-! ### the full statement, for the record

`C15_full_statement`: every update / delete over the reference styles of the property has the specified
effect.  `C15_update`, `C15_delete`, `C15_seq` prove it under `H_rhsUnqualified`, `H_predUnqualified`,
`H_predString`, `H_rhsAlias`, `H_predCapture`, `H_predDialect`; on the pinned tree every one of them holds for
every well-formed input (`C15_full`), after the three repairs recorded in /repo's history (the `C15_cex_*`
theorems with a `Gen.Dml.… = …` premise describe the unrepaired decisions; `C15_cex_predCapture` /
`C15_cex_predDialect` show what the two new hypotheses exclude).

Assumed, not proved: the SQL meaning of UPDATE / DELETE itself (`sqlUpdate`, `sqlDelete`, `evalS`: Core/Expr's
three-valued logic, IN, LIKE, name resolution inside a subquery), which qualifiers bind inside a DML statement
(`dmlScope`), and sqlglot's lexers (`lexOf`) — validated against DuckDB / the installed sqlglot by the
correspondence stream.  Not modelled: typing of assignments (the generator only produces well-typed ones),
subqueries inside assignment values (`Dml.WF` asks for values over the row's own columns), `merge`. -/
def C15_full_statement : Prop :=
  ∀ (O : Table) (ds : List Dml) (T : Table), (∀ d ∈ ds, d.WF) → runDml genFlags O ds T = specRun O ds T

/-- on the pinned tree the scope hypotheses hold for every well-formed statement: the full statement -/
theorem C15_full : C15_full_statement := by
  intro O ds T hwf
  apply C15_seq
  intro d hd
  have hw := hwf d hd
  refine ⟨hw, ?_, Or.inl (by decide), Or.inl (by decide), Or.inl (by decide), C15_capture_sound _ _, C15_dialect_sound _⟩
  -- the assignment loop raises for references it does not match: a well-formed value has only table['c'] / F.col('c')
  right
  intro s hs q hq
  cases d with
  | delete p => simp [Dml.sets] at hs
  | update sets p ral =>
    rcases hw.2.1 s hs q hq with h | h <;> (subst h; decide)

end Sqlframe
