/-
Props/C15.lean — property theorems for C15 (table.update / table.delete change exactly the rows the
predicate selects; nothing changes before execute()).

Model: Impl/C15Dml.lean around the regenerated Gen.Dml.  `C15_full_statement` vs the proved part: bottom.
-/
import SqlframeModel.Lemmas.C15
namespace Sqlframe
open Gen.Dml C15

/-- the regenerated decisions no hypothesis excuses: default predicate TRUE, `table['c']` re-targeted
    to the physical table in predicate and assignment values, predicate alias stripped, statements
    issued on the physical table, nothing executed at build time, execute() runs the statement -/
theorem C15_flags_sound : flagsOk genFlags = true := by decide

/-- **Re-qualification.** For every expression over the reference styles `table['c']` / `F.col('c')`
    (structural induction inside `strip_mapQ` / `quals_mapQ`), every column list and row: the rewritten
    expression, evaluated where the statement runs (`UPDATE t …` on the physical table), has the value
    the user's expression has in a DataFrame on the handle — including the Binder-error case. -/
theorem C15_requalify (e : QExpr) (cols : List Name) (r : Row) (hq : ∀ q ∈ e.quals, userScope q = true) :
    evalQ dmlScope cols r (e.mapQ (qmap Gen.Dml.predMatches Gen.Dml.predTo)) = evalQ userScope cols r e ∧
    evalQ dmlScope cols r (e.mapQ (qmap Gen.Dml.rhsMatches Gen.Dml.rhsTo)) = evalQ userScope cols r e := by
  obtain ⟨_, hpc, hpt, _, hrc, hrt, _, _, _, _⟩ := flagsOk_iff genFlags C15_flags_sound
  have hu : e.quals.all userScope = true := by
    simp only [List.all_eq_true]; exact hq
  have hall : ∀ (m : Qual → Bool) (to : Qual), m .cte = true → to = .phys →
      (e.mapQ (qmap m to)).quals.all dmlScope = true := by
    intro m to hc ht
    rw [quals_mapQ]
    simp only [List.all_map, List.all_eq_true, Function.comp]
    intro q hqm
    exact qmap_scope m to hc ht q (hq q hqm)
  have ha1 := hall Gen.Dml.predMatches Gen.Dml.predTo hpc hpt
  have ha2 := hall Gen.Dml.rhsMatches Gen.Dml.rhsTo hrc hrt
  constructor
  · simp only [evalQ, ha1, hu, strip_mapQ, Bool.true_and]
  · simp only [evalQ, ha2, hu, strip_mapQ, Bool.true_and]

/-- the rewrite never changes which columns an expression reads, only their qualifiers -/
theorem C15_requalify_shape (f : Qual → Qual) (e : QExpr) :
    (e.mapQ f).strip = e.strip ∧ (e.mapQ f).quals = e.quals.map f := ⟨strip_mapQ f e, quals_mapQ f e⟩

/-- One statement, for every decision setting that is sound where no hypothesis excuses it. -/
theorem C15.dml_generic (fl : Flags) (hok : flagsOk fl = true) (d : Dml) (T : Table) (hwf : d.WF)
    (hs : InScope fl d) : applyDml fl d T = specDml d T := by
  obtain ⟨_, _, _, _, _, _, hut, hdt, _, _⟩ := flagsOk_iff fl hok
  obtain ⟨hrhs, hpu, hpstr, hral⟩ := hs
  cases d with
  | update sets p ral =>
    have hsal : (ral && !fl.rhsAliasStripped) = false := by
      rcases hral with h | h
      · simp [h]
      · simp only [Dml.rhsAliased] at h; simp [h]
    obtain ⟨hq, hqs, hsql⟩ := hwf
    obtain ⟨c, hc, hcs, hcb⟩ := buildPred_ok fl hok p T.cols hq hpu hpstr
    obtain ⟨ss, hss, hstrip, hbind⟩ := buildSets_ok fl hok sets T.cols hqs hrhs
    simp only [applyDml, build, hc, hss, Option.bind, execStmt, hut, hcb, hbind, hcs, hstrip, specDml, hsal]
    have e1 : (decide True && !false && !false) = true := by decide
    rw [e1, Bool.true_and, Bool.and_assoc]
  | delete p =>
    obtain ⟨hq, hsql⟩ := hwf
    obtain ⟨c, hc, hcs, hcb⟩ := buildPred_ok fl hok p T.cols hq hpu hpstr
    simp only [applyDml, build, hc, Option.bind, execStmt, hdt, hcb, hcs, specDml]
    simp

/-- **update.** `table.update(sets, where).execute()` on any table: the rows are
    `rows.map (fun r => if pred r = TRUE then assign r else r)`, `assign` evaluating every right-hand
    side on the old row; an invalid call (unknown column, a column assigned twice) changes nothing. -/
theorem C15_update (sets : List (Name × QExpr)) (p : PredIn) (ral : Bool) (T : Table) (hwf : (Dml.update sets p ral).WF)
    (hs : InScope genFlags (.update sets p ral)) :
    applyDml genFlags (.update sets p ral) T =
      (if refsIn T.cols (specPred p) && sets.all (fun s => decide (s.1 ∈ T.cols) && refsIn T.cols s.2.strip) && decide (sets.map (·.1)).Nodup
       then some { T with rows := T.rows.map (fun r =>
          if isTrue (eval T.cols r (specPred p)) then assignRow T.cols (sets.map (fun s => (s.1, s.2.strip))) r else r) }
       else none) := by
  rw [C15.dml_generic genFlags C15_flags_sound _ T hwf hs]
  rfl

/-- **delete.** exactly the rows whose predicate is TRUE are removed -/
theorem C15_delete (p : PredIn) (T : Table) (hwf : (Dml.delete p).WF) (hs : InScope genFlags (.delete p)) :
    applyDml genFlags (.delete p) T =
      (if refsIn T.cols (specPred p) then some { T with rows := T.rows.filter (fun r => !isTrue (eval T.cols r (specPred p))) } else none) := by
  rw [C15.dml_generic genFlags C15_flags_sound _ T hwf hs]
  rfl

/-- **NULL predicate.** A row for which the predicate is NULL (or FALSE) is neither updated nor deleted. -/
theorem C15_null_pred (d : Dml) (T T' : Table) (hwf : d.WF) (hs : InScope genFlags d)
    (h : applyDml genFlags d T = some T')
    (hnull : ∀ r ∈ T.rows, eval T.cols r (specPred d.pred) ≠ .bool true) : T' = T := by
  rw [C15.dml_generic genFlags C15_flags_sound d T hwf hs] at h
  cases d with
  | update sets p ral =>
    simp only [specDml] at h
    split at h
    · simp only [Option.some.injEq] at h
      subst h
      have : T.rows.map (fun r => if isTrue (eval T.cols r (specPred p)) then assignRow T.cols (sets.map (fun s => (s.1, s.2.strip))) r else r) = T.rows.map id := by
        apply List.map_congr_left
        intro r hr
        have := hnull r hr
        simp [isTrue, Dml.pred] at this ⊢
        intro h; exact absurd h this
      simp [sqlUpdate, this]
    · simp at h
  | delete p =>
    simp only [specDml] at h
    split at h
    · simp only [Option.some.injEq] at h
      subst h
      have : T.rows.filter (fun r => !isTrue (eval T.cols r (specPred p))) = T.rows := by
        apply List.filter_eq_self.mpr
        intro r hr
        have := hnull r hr
        simp [isTrue, Dml.pred] at this ⊢
        exact this
      simp [sqlDelete, this]
    · simp at h

/-- **Omitted predicate.** `where=None` selects every row: update assigns on all rows, delete empties the table. -/
theorem C15_no_pred (sets : List (Name × QExpr)) (ral : Bool) (T : Table) (hwf : (Dml.update sets .absent ral).WF)
    (hs : InScope genFlags (.update sets .absent ral)) :
    applyDml genFlags (.delete .absent) T = some { T with rows := [] } ∧
    applyDml genFlags (.update sets .absent ral) T =
      (if sets.all (fun s => decide (s.1 ∈ T.cols) && refsIn T.cols s.2.strip) && decide (sets.map (·.1)).Nodup
       then some { T with rows := T.rows.map (assignRow T.cols (sets.map (fun s => (s.1, s.2.strip)))) } else none) := by
  constructor
  · have hd : (Dml.delete .absent).WF := by simp [Dml.WF, PredIn.quals, PredIn.sqlBare]
    have hsd : InScope genFlags (.delete .absent) := by
      refine ⟨Or.inr (Or.inr (by simp [Dml.sets])), Or.inr (Or.inr (by simp [Dml.pred, PredIn.quals])), Or.inr (by simp [Dml.pred, PredIn.isSql]), Or.inr rfl⟩
    rw [C15_delete .absent T hd hsd]
    simp [specPred, refsIn, Expr.refs, eval, isTrue]
  · rw [C15_update sets .absent ral T hwf hs]
    simp only [specPred, refsIn, Expr.refs, List.all_nil, Bool.true_and, eval, isTrue]
    simp
    rfl

/-- **Laziness.** Whatever is built — any number of update / delete calls, valid or not — the table is
    unchanged until an `execute()`. -/
theorem C15_lazy (cs : List Cmd) (hb : ∀ c ∈ cs, ∃ d, c = .build d) : ∀ (s : Sess),
    (runCmds genFlags cs s).tbl = s.tbl ∧ (runCmds genFlags cs s).lazies.length = s.lazies.length + cs.length := by
  obtain ⟨_, _, _, _, _, _, _, _, hbe, _⟩ := flagsOk_iff genFlags C15_flags_sound
  induction cs with
  | nil => intro s; simp [runCmds]
  | cons c rest ih =>
    intro s
    obtain ⟨d, rfl⟩ := hb c (List.mem_cons_self ..)
    have := ih (fun c hc => hb c (List.mem_cons_of_mem _ hc)) (stepCmd genFlags (.build d) s)
    simp only [runCmds, List.foldl_cons] at this ⊢
    rw [this.1, this.2]
    simp only [stepCmd, hbe]
    simp
    omega

/-- executing the i-th LazyExpression applies exactly the statement that call built, to the table as
    it is *then* -/
theorem C15_execute (s : Sess) (i : Nat) (st : Stmt) (h : listGet s.lazies i = some (some st)) :
    (stepCmd genFlags (.exec i) s).tbl = (execStmt st s.tbl).getD s.tbl ∧
    (stepCmd genFlags (.exec i) s).lazies = s.lazies := by
  obtain ⟨_, _, _, _, _, _, _, _, _, her⟩ := flagsOk_iff genFlags C15_flags_sound
  simp [stepCmd, h, her]

/-- all statements of a sequence are in scope -/
def C15.SeqOk (ds : List Dml) : Prop := ∀ d ∈ ds, d.WF ∧ InScope genFlags d
instance (ds : List Dml) : Decidable (C15.SeqOk ds) := by unfold C15.SeqOk; exact inferInstance

/-- **Sequences.** For every sequence of update / delete statements (induction), each built and
    executed in turn on whatever the previous ones left: the table is the fold of the specification. -/
theorem C15_seq (ds : List Dml) (hok : C15.SeqOk ds) : ∀ T : Table, runDml genFlags ds T = specRun ds T := by
  induction ds with
  | nil => intro T; rfl
  | cons d rest ih =>
    intro T
    have hd := hok d (List.mem_cons_self ..)
    simp only [runDml, specRun, List.foldl_cons]
    rw [C15.dml_generic genFlags C15_flags_sound d T hd.1 hd.2]
    exact ih (fun x hx => hok x (List.mem_cons_of_mem _ hx)) _

/-! ### counterexamples for the scope hypotheses (witnesses replayed on the real code by the check) -/

def C15.exT : Table := { cols := ["k", "z"], rows := [[.int 1, .int 10], [.int 2, .int 20], [.int 2, .int 20], [.null, .int 30]] }

/-- `tb.update({'z': tb['z'] + F.col('k')}, where=tb['k'] == 2)`: the unqualified `k` on the right-hand
    side falls into `else: raise ValueError` — no statement, nothing changes; the specification adds. -/
theorem C15_cex_rhsUnqualified : Gen.Dml.rhsElseRaises = true → Gen.Dml.rhsMatches .none = false →
    let d := Dml.update [("z", .bin .add (.col .cte "z") (.col .none "k"))] (.expr (.bin .eq (.col .cte "k") (.lit (.int 2))) false) false
    applyDml genFlags d C15.exT = none ∧
    specDml d C15.exT = some { C15.exT with rows := [[.int 1, .int 10], [.int 2, .int 22], [.int 2, .int 22], [.null, .int 30]] } := by
  decide

/-- `tb.delete(where="k = 2")`: the string is taken for a column name; the statement does not bind.
    (Only a text that is one parenthesised expression, like "(k = 2)", gets parsed.) -/
theorem C15_cex_predString : Gen.Dml.predStringParsed = false →
    let d := Dml.delete (.sql (.bin .eq (.col .none "k") (.lit (.int 2))) "k = 2" false)
    applyDml genFlags d C15.exT = none ∧
    specDml d C15.exT = some { C15.exT with rows := [[.int 1, .int 10], [.null, .int 30]] } := by
  decide

/-- `tb.update({'z': F.when(tb['k'] > 1, 1).otherwise(2)})`: the value keeps its automatic alias
    (`SET z = CASE … END AS when__k__`), which the engine rejects. -/
theorem C15_cex_rhsAlias : Gen.Dml.rhsAliasStripped = false →
    let d := Dml.update [("z", .ite (.bin .gt (.col .cte "k") (.lit (.int 1))) (.lit (.int 1)) (.lit (.int 2)))] .absent true
    applyDml genFlags d C15.exT = none ∧
    specDml d C15.exT = some { C15.exT with rows := [[.int 1, .int 2], [.int 2, .int 1], [.int 2, .int 1], [.null, .int 2]] } := by
  decide

/-! ### non-vacuity -/

def C15.exSeq : List Dml :=
  [ .update [("z", .bin .add (.col .cte "z") (.col .cte "k"))] (.expr (.bin .gt (.col .none "k") (.lit (.int 1))) true) false,
    .update [("k", .col .cte "z"), ("z", .col .cte "k")] .absent false,                  -- swap: right-hand sides read the old row
    .delete (.expr (.bin .eq (.col .cte "z") (.lit .null)) false),                 -- NULL predicate: nothing deleted
    .delete (.sql (.isNull (.col .none "z")) "(z IS NULL)" true) ]

example : C15.SeqOk C15.exSeq := by decide
example : runDml genFlags C15.exSeq C15.exT =
    { cols := ["k", "z"], rows := [[.int 10, .int 1], [.int 22, .int 2], [.int 22, .int 2]] } := by decide
example : (∀ q ∈ (QExpr.bin .add (.col .cte "z") (.col .none "k")).quals, userScope q = true) := by decide
example : (runCmds genFlags [.build (.update [("z", .bin .add (.col .cte "z") (.col .cte "k"))] (.expr (.bin .gt (.col .none "k") (.lit (.int 1))) true) false), .build (.delete .absent), .exec 0] { tbl := C15.exT }).tbl =
    { cols := ["k", "z"], rows := [[.int 1, .int 10], [.int 2, .int 22], [.int 2, .int 22], [.null, .int 30]] } := by decide

/-! ### the full statement, for the record

`C15_full_statement`: every update / delete over the three reference styles — in particular with
`F.col('c')` on a right-hand side and with SQL-string predicates — has the specified effect.  On the
pinned tree it is refuted by `C15_cex_rhsUnqualified`, `C15_cex_predString` and `C15_cex_rhsAlias`; `C15_update`,
`C15_delete`, `C15_seq` prove it under `H_rhsUnqualified`, `H_predUnqualified` (true for every input on
the pinned tree), `H_predString` and `H_rhsAlias`.

Assumed, not proved: the SQL meaning of UPDATE / DELETE itself (`sqlUpdate`, `sqlDelete`, Core/Expr's
three-valued logic) and which qualifiers bind inside a DML statement (`dmlScope`) — validated against
DuckDB by the correspondence stream.  Not modelled: typing of assignments (the generator only produces
well-typed ones), `merge`. -/
def C15_full_statement : Prop :=
  ∀ (ds : List Dml) (T : Table), (∀ d ∈ ds, d.WF) → runDml genFlags ds T = specRun ds T

end Sqlframe
