/-
Props/C12.lean — C12: the same pipeline means the same thing on every supported engine.

WHAT IS PROVED HERE (about sqlframe's own code, through the generated tables of Gen/Engines.lean):
  * name sanitising (`_sanitize_column_name`): idempotent, safe, length preserving, identity on names without the
    removed characters, applied exactly on the engines that need it — for EVERY string;
  * the engine table: every supported engine has a session module; its execution dialect is the engine's own dialect,
    input = output = spark; exactly its own `_is_<engine>` flag is true; every flag the function dispatch refers to
    is owned by exactly one engine;
  * the three-dialect plumbing: statements are rendered input -> execution and written by the execution dialect's
    generator; reported column names are renormalised execution -> output (marked case sensitive first, so the
    renormalisation returns them exactly); symbolic dialect names mean what they say;
  * a definition and its lower-cased reference reach the statement with the same spelling on every engine (C12_refs_resolve);
  * round(): with the generated Postgres NUMERIC-cast decision, F.round over a double equals Spark's HALF_UP on every multiple
    of 1/2 on every engine — under an ASSUMED table of the engines' ROUND primitives (C12_round_ties, C12_cex_roundNoCast);
  * names: for every assignment of normalisation strategies to dialects, every identifier and every pair of sessions,
    the column name the user gets back equals the DuckDB session's name up to letter case and the engine's sanitising
    (`C12_names`) — under the stated assumption on how an engine reports aliases (`engineReports`).

WHAT IS NOT PROVED (and not claimed): `C12_full_statement` — that the TEXT sqlglot's generator writes for dialect E
parses in E, is a fixed point of re-rendering, and denotes the same rows / column order as the DuckDB text. The text
is produced by sqlglot (third party) and the real BigQuery / Snowflake / Postgres / Databricks / Redshift engines are
not reachable; that part is *validated per program* by tools/props/c12.py (sqlglot's reading of each dialect,
executed on DuckDB), and is labelled validation in the evidence.
-/
import SqlframeModel.Lemmas.C12
import SqlframeModel.Impl.C12Round
namespace Sqlframe
open Sqlframe.Gen Sqlframe.C12

/-! ### obligations on the generated tables (break when the source changes) -/

/-- the generated replacement chain never produces a character it consumes -/
theorem C12_chain_clean : CleanChain sanitizeReplacements := by decide

/-- … and touches no ASCII letter -/
theorem C12_chain_caseless : CaselessChain sanitizeReplacements := by decide

/-! ### sanitising -/

/-- sanitising twice is sanitising once, for every string -/
theorem C12_sanitize_idem (s : List Char) : sanitize (sanitize s) = sanitize s := by
  simp only [sanitize, sanitizeWith, List.map_map]
  apply List.map_congr_left
  intro c _
  exact sanitizeChar_idem _ C12_chain_clean c

/-- no character the chain removes survives, for every string -/
theorem C12_sanitize_safe (s : List Char) : ∀ c ∈ sanitize s, c ∉ sources sanitizeReplacements := by
  intro c hc hsrc
  simp only [sanitize, sanitizeWith, List.mem_map] at hc
  obtain ⟨c0, _, rfl⟩ := hc
  simp only [sources, List.mem_map] at hsrc
  obtain ⟨q, hq, hqe⟩ := hsrc
  exact sanitizeChar_safe _ C12_chain_clean c0 q hq hqe.symm

/-- the length (hence every position) is preserved -/
theorem C12_sanitize_len (s : List Char) : (sanitize s).length = s.length := by
  simp [sanitize, sanitizeWith]

/-- a name without removed characters is returned unchanged -/
theorem C12_sanitize_id (s : List Char) (h : ∀ c ∈ s, c ∉ sources sanitizeReplacements) : sanitize s = s := by
  simp only [sanitize, sanitizeWith]
  conv => rhs; rw [← List.map_id s]
  apply List.map_congr_left
  intro c hc
  apply sanitizeChar_not_source
  intro p hp hcp
  exact h c hc (by simp only [sources, List.mem_map]; exact ⟨p, hp, hcp.symm⟩)

/-- the guard: a session without SANITIZE_COLUMN_NAMES returns every name unchanged, one with it sanitises -/
theorem C12_sanitize_guard (s : List Char) :
    sanitizeColumnName false s = s ∧ sanitizeColumnName true s = sanitize s := by
  have h : sanitizeGuarded = true := by decide
  simp [sanitizeColumnName, h]

/-! ### the engine table -/

/-- every supported engine has a session module; for each module: the execution dialect is the engine's own, input and
    output are spark, the only true `_is_<engine>` flag is its own, and names are sanitised exactly where documented -/
theorem C12_defaults :
    (∀ e ∈ supportedEngines, ∃ r ∈ engines, r.engine = e) ∧
    (∀ r ∈ engines, r.executionDialect = ownDialect r.engine ∧ r.inputDialect = "spark" ∧ r.outputDialect = "spark" ∧
        trueFlags r = ["_is_" ++ r.engine] ∧ r.sanitize = mustSanitize r.engine) ∧
    (engines.map (·.engine)).Nodup := by
  decide

/-- every `_is_<engine>` name the function dispatch uses is a property of the base session (default false) and is true on
    exactly one engine — the one it is named after -/
theorem C12_flags :
    ∀ f ∈ flagsUsed, (f, false) ∈ baseFlags ∧ (engines.filter (fun r => (f, true) ∈ r.flags)).map (fun r => "_is_" ++ r.engine) = [f] := by
  decide

/-- a fresh session of every engine: the statement is written by the generator of the engine's own dialect -/
theorem C12_stmt_dialect : ∀ r ∈ engines, stmtDialect (rowDialects r) = ownDialect r.engine ∧
    (rowDialects r).input = "spark" ∧ (rowDialects r).output = "spark" := by
  decide

/-- the generated dialect pairs are the right ones: `_to_sql` goes input -> execution (and honours `dialect=`), the
    result columns and map keys are renormalised execution -> output (Spark's own `_collect` too), the symbolic names
    mean what they say, normalisation runs from-dialect first, the text is generated and quoted in the to-dialect, and
    the builder hands each default to the attribute of the same name -/
theorem C12_dialect_pairs :
    toSqlPair = (.input, .execution) ∧ toSqlTakesOverride = true ∧
    collectRenormPair = (.execution, .output) ∧ mapKeyRenormPair = (.execution, .output) ∧
    (∀ r ∈ engines, r.ownCollect = none ∨ ∃ m, r.ownCollect = some (.execution, .output, m)) ∧
    strToDialect = [("input", .input), ("output", .output), ("execution", .execution)] ∧
    normalizeOrder = [.from_, .to_] ∧ renderIn = .to_ ∧ quoteIn = .to_ ∧
    sessionInit = [(.input, .input), (.output, .output), (.execution, .execution)] ∧
    builderInit = [(.input, .input), (.output, .output), (.execution, .execution)] ∧
    builderApply = [(.input, .input), (.output, .output), (.execution, .execution)] := by
  decide

/-! ### names through the plumbing -/

theorem normalizeString_caseEq (strat : String → Strategy) (f t : String) (m : Bool) (i : Ident) :
    CaseEq (normalizeString strat f t m i).name i.name :=
  foldl_normalize_caseEq (fun side => strat (match side with | .from_ => f | .to_ => t)) m normalizeOrder i

/-- when `_collect` marks the reported column names case sensitive before the renormalisation (as the source currently
    does: `Gen.collectMarksCaseSensitive`, see the `example` below), it hands them back exactly, whatever the pair and
    the dialects' strategies are -/
theorem C12_renorm_exact (pair : DialRole × DialRole) (strat : String → Strategy) (d : Dialects) (reported : List Char) :
    collectNameWith pair true strat d reported = reported := by
  unfold collectNameWith normalizeString
  exact congrArg Ident.name
    (foldl_normalize_marked (fun side => strat (match side with
      | .from_ => d.get pair.1 | .to_ => d.get pair.2)) normalizeOrder _)

/-- renormalising the engine-folded name gives the identifier back up to letter case: for every strategy assignment,
    every session configuration, every identifier (quoted or not), every renormalisation pair, marked or not -/
theorem C12_renorm (pair : DialRole × DialRole) (marks : Bool) (strat : String → Strategy) (d : Dialects) (i : Ident) :
    CaseEq (resultNameWith pair marks strat d i) i.name := by
  unfold resultNameWith collectNameWith engineReports stmtIdent
  refine (normalizeString_caseEq strat _ _ _ _).trans ?_
  refine (normalizeIdent_caseEq _ _ _).1.trans ?_
  exact normalizeString_caseEq strat _ _ _ _

/-- the name a session with dialects `d` and sanitising flag `san` returns for an alias `n` agrees with the name any
    other (non-sanitising) session `d'` returns, up to letter case and the sanitising — for every strategy assignment,
    every string, whatever the quoting and whichever `_collect` variants the two sessions run -/
theorem C12_names (pair pair' : DialRole × DialRole) (marks marks' : Bool) (strat : String → Strategy) (d d' : Dialects)
    (san q q' : Bool) (n : List Char) :
    NameEquiv san (resultNameWith pair marks strat d ⟨sanitizeColumnName san n, q⟩) (resultNameWith pair' marks' strat d' ⟨n, q'⟩) := by
  have hg := C12_sanitize_guard n
  have h1 := C12_renorm pair marks strat d ⟨sanitizeColumnName san n, q⟩
  have h2 := C12_renorm pair' marks' strat d' ⟨n, q'⟩
  unfold NameEquiv
  cases san
  · simp only [hg.1] at h1 ⊢
    exact h1.trans h2.symm
  · simp only [hg.2] at h1 ⊢
    exact h1.trans (sanitizeWith_caseEq _ C12_chain_caseless h2.symm)

theorem C12_duck_row : ∃ r ∈ engines, r.engine = "duckdb" ∧ rowDialects r = duckDialects ∧ r.sanitize = false := by decide

/-! ### references keep resolving (why `normalize_string` normalises in the from-dialect first) -/

/-- A column definition spelled `n` (as the user wrote it, e.g. a createDataFrame name in the VALUES alias list) and a
    reference to it that was lower-cased when the Column object was built reach the statement with the SAME spelling on
    every session whose input dialect folds all identifiers (Spark: CASE_INSENSITIVE) — whatever the execution dialect's
    strategy, quoted or not. This is what keeps quoted mixed-case names resolvable on Postgres / Snowflake. -/
theorem C12_refs_resolve (strat : String → Strategy) (d : Dialects) (n : List Char) (q : Bool)
    (hin : strat d.input = .caseInsensitive) :
    stmtIdent strat d ⟨n, q⟩ = stmtIdent strat d ⟨lower n, q⟩ := by
  have ho : normalizeOrder = [.from_, .to_] := by decide
  have hp : toSqlPair = (.input, .execution) := by decide
  unfold stmtIdent normalizeString
  rw [ho, hp]
  simp only [List.foldl_cons, List.foldl_nil, Dialects.get]
  have h1 : normalizeIdent (strat d.input) false ⟨n, q⟩ = normalizeIdent (strat d.input) false ⟨lower n, q⟩ := by
    rw [hin]; simp [normalizeIdent, lower_lower]
  rw [h1]

/-- without the from-dialect pass (only the to-dialect one) it fails: on Postgres the quoted definition "Order Id" keeps its
    spelling while its reference is "order id" -/
theorem C12_cex_noFromPass :
    normalizeIdent (strategyOf "postgres") false ⟨"Order Id".toList, true⟩
      ≠ normalizeIdent (strategyOf "postgres") false ⟨lower "Order Id".toList, true⟩ := by decide

/-! ### a per-engine function decision: round() -/

/-- with the generated decision (the Postgres branch casts to NUMERIC whether or not a scale is given), on every supported
    engine `F.round(col)` over a double equals PySpark's HALF_UP round on EVERY multiple of 1/2 — in particular on every tie
    x.5 — and `F.round(col, scale)` is a call the engine has.  Relies on the ASSUMED primitive table `primRound`. -/
theorem C12_round_ties : ∀ e ∈ supportedEngines, (∀ h : Int, sqlframeRound e h = sparkRound h) ∧ sqlframeRoundScaleValid e = true := by
  have h1 : roundPgCastNoScale = true := by decide
  have h2 : roundPgCastWithScale = true := by decide
  intro e he
  simp only [supportedEngines, List.mem_cons, List.mem_nil_iff, or_false] at he
  rcases he with rfl | rfl | rfl | rfl | rfl | rfl | rfl <;>
    simp [sqlframeRound, sqlframeRoundScaleValid, sparkRound, roundOperand, primRound, primRoundScaleExists, h1, h2]

/-- the decision's other value: without the cast Postgres rounds 0.5, 2.5 and -2.5 to 0, 2 and -2, Spark to 1, 3 and -3;
    and round(double precision, integer) does not exist there -/
theorem C12_cex_roundNoCast :
    primRound "postgres" (roundOperand "postgres" false) 1 ≠ sparkRound 1 ∧
    primRound "postgres" (roundOperand "postgres" false) 5 ≠ sparkRound 5 ∧
    primRound "postgres" (roundOperand "postgres" false) (-5) ≠ sparkRound (-5) ∧
    primRoundScaleExists "postgres" (roundOperand "postgres" false) = false := by decide

-- non-vacuity: ties really are rounded differently by the two rules, and equally off ties
example : halfAway 5 = 3 ∧ halfEven 5 = 2 ∧ halfAway 3 = 2 ∧ halfEven 3 = 2 ∧ halfAway (-5) = -3 ∧ halfEven (-5) = -2 ∧ halfAway 4 = 2 ∧ halfEven 4 = 2 := by decide
example : sqlframeRound "postgres" 5 = 3 ∧ sqlframeRound "duckdb" 5 = 3 := by decide
-- an instance of C12_refs_resolve's hypothesis: the spark input dialect of every session in the table
example : strategyOf duckDialects.input = .caseInsensitive := by decide
example : (stmtIdent strategyOf { input := "spark", output := "spark", execution := "postgres" } ⟨"Order Id".toList, true⟩).name = "order id".toList := by decide

/-! ### the property -/

/-- what is outside sqlframe: how text is written for a dialect, read back, and what it means there -/
structure World where
  Program : Type
  Input : Type
  Result : Type
  /-- the statement the `engine` session sends for a pipeline on an input (written by sqlglot's generator) -/
  stmt : String → Program → Input → String
  /-- the text parses in the dialect and re-rendering the parse is a fixed point -/
  valid : String → String → Prop
  /-- rows, column order and column names the text denotes under the dialect -/
  denote : String → String → Option Result
  /-- same rows, same column order, names up to letter case and (if the flag is set) sanitising -/
  equiv : Bool → Result → Result → Prop

/-- C12 at full strength.  NOT PROVED: it quantifies over sqlglot's generators and the engines' semantics. -/
def C12_full_statement (W : World) : Prop :=
  ∀ e ∈ supportedEngines, ∀ (p : W.Program) (inp : W.Input),
    W.valid e (W.stmt e p inp) ∧
    ∃ r rd, W.denote e (W.stmt e p inp) = some r ∧ W.denote "duckdb" (W.stmt "duckdb" p inp) = some rd ∧
      W.equiv (mustSanitize e) r rd

/-- the part that is sqlframe's own, for every supported engine: a session module exists; its statements are written in
    the engine's own dialect from spark-normalised input; only its own dispatch flag is on; names are sanitised exactly
    where documented; and every column alias comes back equal to the DuckDB session's up to case and that sanitising -/
theorem C12_partial :
    ∀ e ∈ supportedEngines, ∃ r ∈ engines, r.engine = e ∧
      stmtDialect (rowDialects r) = e ∧ (rowDialects r).input = "spark" ∧ (rowDialects r).output = "spark" ∧
      trueFlags r = ["_is_" ++ e] ∧ r.sanitize = mustSanitize e ∧
      ∀ (strat : String → Strategy) (n : List Char) (q q' : Bool),
        NameEquiv (mustSanitize e) (rowResultName r strat ⟨sanitizeColumnName r.sanitize n, q⟩)
          (resultName strat duckDialects ⟨n, q'⟩) := by
  have key : ∀ e ∈ supportedEngines, ∃ r ∈ engines, r.engine = e ∧
      stmtDialect (rowDialects r) = e ∧ (rowDialects r).input = "spark" ∧ (rowDialects r).output = "spark" ∧
      trueFlags r = ["_is_" ++ e] ∧ r.sanitize = mustSanitize e := by decide
  intro e he
  obtain ⟨r, hr, h1, h2, h3, h4, h5, h6⟩ := key e he
  refine ⟨r, hr, h1, h2, h3, h4, h5, h6, ?_⟩
  intro strat n q q'
  rw [← h6]
  exact C12_names _ _ _ _ strat (rowDialects r) duckDialects r.sanitize q q' n

/-! ### non-vacuity -/

-- the chain really removes something, and leaves the rest alone
example : sanitize "sum(x)".toList = "sum_x_".toList := by decide
example : sanitize "a_b".toList = "a_b".toList := by decide
example : sources sanitizeReplacements = ['(', ')'] := by decide
-- an instance of C12_sanitize_id's hypothesis
example : ∀ c ∈ "count_x".toList, c ∉ sources sanitizeReplacements := by decide
-- a chain that is NOT clean is not idempotent: the cleanliness obligation is what carries C12_sanitize_idem
example : sanitizeWith [('b', 'c'), ('a', 'b')] (sanitizeWith [('b', 'c'), ('a', 'b')] ['a']) ≠ sanitizeWith [('b', 'c'), ('a', 'b')] ['a'] := by decide
example : ¬ CleanChain [('b', 'c'), ('a', 'b')] := by decide

-- the same alias on a Snowflake and on a DuckDB session: different spellings, equal up to case
def snowDialects : Dialects := { input := "spark", output := "spark", execution := "snowflake" }
example : (stmtIdent strategyOf snowDialects ⟨"MyCol".toList, false⟩).name = "MYCOL".toList := by decide
example : (stmtIdent strategyOf duckDialects ⟨"MyCol".toList, false⟩).name = "mycol".toList := by decide
example : engineReports strategyOf snowDialects (stmtIdent strategyOf snowDialects ⟨"MyCol".toList, false⟩)
    ≠ engineReports strategyOf duckDialects (stmtIdent strategyOf duckDialects ⟨"MyCol".toList, false⟩) := by decide
example : CaseEq (resultName strategyOf snowDialects ⟨"MyCol".toList, false⟩) (resultName strategyOf duckDialects ⟨"MyCol".toList, false⟩) := by decide
-- an instance of C12_renorm_exact (its hypothesis is read from the source: `Gen.collectMarksCaseSensitive`)
example (h : collectMarksCaseSensitive = true) : collectName strategyOf snowDialects "MyCol".toList = "MyCol".toList := by
  unfold collectName; rw [h]; exact C12_renorm_exact _ strategyOf snowDialects _
-- BigQuery: the aggregate alias is sanitised, DuckDB's is not; equal under NameEquiv true, not under NameEquiv false
def bqDialects : Dialects := { input := "spark", output := "spark", execution := "bigquery" }
example : NameEquiv true (resultName strategyOf bqDialects ⟨sanitizeColumnName true "SUM(x)".toList, true⟩) (resultName strategyOf duckDialects ⟨"SUM(x)".toList, true⟩) := by decide
example : ¬ NameEquiv false (resultName strategyOf bqDialects ⟨sanitizeColumnName true "SUM(x)".toList, true⟩) (resultName strategyOf duckDialects ⟨"SUM(x)".toList, true⟩) := by decide
-- the order of the `_to_sql` pair matters: swapped, an unquoted name reaches a Snowflake statement in lower case
example : (normalizeString strategyOf snowDialects.execution snowDialects.input false ⟨"a".toList, false⟩).name
    ≠ (stmtIdent strategyOf snowDialects ⟨"a".toList, false⟩).name := by decide
example : renderDialect snowDialects.execution snowDialects.input ≠ stmtDialect snowDialects := by decide

end Sqlframe
