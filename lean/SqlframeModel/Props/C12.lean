/-
Props/C12.lean — C12: the same pipeline means the same thing on every supported engine.

WHAT IS PROVED HERE (about sqlframe's own code, through the generated tables of Gen/Engines.lean):
  * name sanitising (`_sanitize_column_name`): idempotent, safe, length preserving, identity on names without the
    removed characters, applied exactly on the engines that need it — for EVERY string;
  * the engine table: every supported engine has a session module; its execution dialect is the engine's own dialect,
    input = output = spark; exactly its own `_is_<engine>` flag is true; every flag the function dispatch refers to
    is owned by exactly one engine;
  * the three-dialect plumbing: statements are rendered input -> execution and written by the execution dialect's
    generator; reported column names are renormalised execution -> output (marked case sensitive first, so the
    renormalisation returns them exactly); symbolic dialect names mean what they say;
  * a definition and its lower-cased reference reach the statement with the same spelling on every engine (C12_refs_resolve);
  * round(): with the generated Postgres NUMERIC-cast decision, F.round over a double equals Spark's HALF_UP on every multiple
    of 1/2 on every engine — under an ASSUMED table of the engines' ROUND primitives (C12_round_ties, C12_cex_roundNoCast);
  * names: for every assignment of normalisation strategies to dialects, every identifier and every pair of sessions,
    the column name the user gets back equals the DuckDB session's name up to letter case and the engine's sanitising
    (`C12_names`) — under the stated assumption on how an engine reports aliases (`engineReports`).

WHAT IS NOT PROVED (and not claimed): `C12_full_statement` — that the TEXT sqlglot's generator writes for dialect E
parses in E, is a fixed point of re-rendering, and denotes the same rows / column order as the DuckDB text. The text
is produced by sqlglot (third party) and the real BigQuery / Snowflake / Postgres / Databricks / Redshift engines are
not reachable; that part is *validated per program* by tools/props/c12.py (sqlglot's reading of each dialect,
executed on DuckDB), and is labelled validation in the evidence.
-/
import SqlframeModel.Lemmas.C12
import SqlframeModel.Lemmas.C12Fns
import SqlframeModel.Lemmas.C12Format
import SqlframeModel.Impl.C12Round
namespace Sqlframe
open Sqlframe.Gen Sqlframe.C12

/-! ### obligations on the generated tables (break when the source changes) -/

/-- the generated replacement chain never produces a character it consumes -/
theorem C12_chain_clean : CleanChain sanitizeReplacements := by decide

/-- … and touches no ASCII letter -/
theorem C12_chain_caseless : CaselessChain sanitizeReplacements := by decide

/-! ### sanitising -/

/-- sanitising twice is sanitising once, for every string -/
theorem C12_sanitize_idem (s : List Char) : sanitize (sanitize s) = sanitize s := by
  simp only [sanitize, sanitizeWith, List.map_map]
  apply List.map_congr_left
  intro c _
  exact sanitizeChar_idem _ C12_chain_clean c

/-- no character the chain removes survives, for every string -/
theorem C12_sanitize_safe (s : List Char) : ∀ c ∈ sanitize s, c ∉ sources sanitizeReplacements := by
  intro c hc hsrc
  simp only [sanitize, sanitizeWith, List.mem_map] at hc
  obtain ⟨c0, _, rfl⟩ := hc
  simp only [sources, List.mem_map] at hsrc
  obtain ⟨q, hq, hqe⟩ := hsrc
  exact sanitizeChar_safe _ C12_chain_clean c0 q hq hqe.symm

/-- the length (hence every position) is preserved -/
theorem C12_sanitize_len (s : List Char) : (sanitize s).length = s.length := by
  simp [sanitize, sanitizeWith]

/-- a name without removed characters is returned unchanged -/
theorem C12_sanitize_id (s : List Char) (h : ∀ c ∈ s, c ∉ sources sanitizeReplacements) : sanitize s = s := by
  simp only [sanitize, sanitizeWith]
  conv => rhs; rw [← List.map_id s]
  apply List.map_congr_left
  intro c hc
  apply sanitizeChar_not_source
  intro p hp hcp
  exact h c hc (by simp only [sources, List.mem_map]; exact ⟨p, hp, hcp.symm⟩)

/-- the guard: a session without SANITIZE_COLUMN_NAMES returns every name unchanged, one with it sanitises -/
theorem C12_sanitize_guard (s : List Char) :
    sanitizeColumnName false s = s ∧ sanitizeColumnName true s = sanitize s := by
  have h : sanitizeGuarded = true := by decide
  simp [sanitizeColumnName, h]

/-! ### the engine table -/

/-- every supported engine has a session module; for each module: the execution dialect is the engine's own, input and
    output are spark, the only true `_is_<engine>` flag is its own, and names are sanitised exactly where documented -/
theorem C12_defaults :
    (∀ e ∈ supportedEngines, ∃ r ∈ engines, r.engine = e) ∧
    (∀ r ∈ engines, r.executionDialect = ownDialect r.engine ∧ r.inputDialect = "spark" ∧ r.outputDialect = "spark" ∧
        trueFlags r = ["_is_" ++ r.engine] ∧ r.sanitize = mustSanitize r.engine) ∧
    (engines.map (·.engine)).Nodup := by
  decide

/-- every `_is_<engine>` name the function dispatch uses is a property of the base session (default false) and is true on
    exactly one engine — the one it is named after -/
theorem C12_flags :
    ∀ f ∈ flagsUsed, (f, false) ∈ baseFlags ∧ (engines.filter (fun r => (f, true) ∈ r.flags)).map (fun r => "_is_" ++ r.engine) = [f] := by
  decide

/-- a fresh session of every engine: the statement is written by the generator of the engine's own dialect -/
theorem C12_stmt_dialect : ∀ r ∈ engines, stmtDialect (rowDialects r) = ownDialect r.engine ∧
    (rowDialects r).input = "spark" ∧ (rowDialects r).output = "spark" := by
  decide

/-- the generated dialect pairs are the right ones: `_to_sql` goes input -> execution (and honours `dialect=`), the
    result columns and map keys are renormalised execution -> output (Spark's own `_collect` too), the symbolic names
    mean what they say, normalisation runs from-dialect first, the text is generated and quoted in the to-dialect, and
    the builder hands each default to the attribute of the same name -/
theorem C12_dialect_pairs :
    toSqlPair = (.input, .execution) ∧ toSqlTakesOverride = true ∧
    collectRenormPair = (.execution, .output) ∧ mapKeyRenormPair = (.execution, .output) ∧
    (∀ r ∈ engines, r.ownCollect = none ∨ ∃ m, r.ownCollect = some (.execution, .output, m)) ∧
    strToDialect = [("input", .input), ("output", .output), ("execution", .execution)] ∧
    normalizeOrder = [.from_, .to_] ∧ renderIn = .to_ ∧ quoteIn = .to_ ∧
    sessionInit = [(.input, .input), (.output, .output), (.execution, .execution)] ∧
    builderInit = [(.input, .input), (.output, .output), (.execution, .execution)] ∧
    builderApply = [(.input, .input), (.output, .output), (.execution, .execution)] := by
  decide

/-! ### names through the plumbing -/

theorem normalizeString_caseEq (strat : String → Strategy) (f t : String) (m : Bool) (i : Ident) :
    CaseEq (normalizeString strat f t m i).name i.name :=
  foldl_normalize_caseEq (fun side => strat (match side with | .from_ => f | .to_ => t)) m normalizeOrder i

/-- when `_collect` marks the reported column names case sensitive before the renormalisation (as the source currently
    does: `Gen.collectMarksCaseSensitive`, see the `example` below), it hands them back exactly, whatever the pair and
    the dialects' strategies are -/
theorem C12_renorm_exact (pair : DialRole × DialRole) (strat : String → Strategy) (d : Dialects) (reported : List Char) :
    collectNameWith pair true strat d reported = reported := by
  unfold collectNameWith normalizeString
  exact congrArg Ident.name
    (foldl_normalize_marked (fun side => strat (match side with
      | .from_ => d.get pair.1 | .to_ => d.get pair.2)) normalizeOrder _)

/-- renormalising the engine-folded name gives the identifier back up to letter case: for every strategy assignment,
    every session configuration, every identifier (quoted or not), every renormalisation pair, marked or not -/
theorem C12_renorm (pair : DialRole × DialRole) (marks : Bool) (strat : String → Strategy) (d : Dialects) (i : Ident) :
    CaseEq (resultNameWith pair marks strat d i) i.name := by
  unfold resultNameWith collectNameWith engineReports stmtIdent
  refine (normalizeString_caseEq strat _ _ _ _).trans ?_
  refine (normalizeIdent_caseEq _ _ _).1.trans ?_
  exact normalizeString_caseEq strat _ _ _ _

/-- the name a session with dialects `d` and sanitising flag `san` returns for an alias `n` agrees with the name any
    other (non-sanitising) session `d'` returns, up to letter case and the sanitising — for every strategy assignment,
    every string, whatever the quoting and whichever `_collect` variants the two sessions run -/
theorem C12_names (pair pair' : DialRole × DialRole) (marks marks' : Bool) (strat : String → Strategy) (d d' : Dialects)
    (san q q' : Bool) (n : List Char) :
    NameEquiv san (resultNameWith pair marks strat d ⟨sanitizeColumnName san n, q⟩) (resultNameWith pair' marks' strat d' ⟨n, q'⟩) := by
  have hg := C12_sanitize_guard n
  have h1 := C12_renorm pair marks strat d ⟨sanitizeColumnName san n, q⟩
  have h2 := C12_renorm pair' marks' strat d' ⟨n, q'⟩
  unfold NameEquiv
  cases san
  · simp only [hg.1] at h1 ⊢
    exact h1.trans h2.symm
  · simp only [hg.2] at h1 ⊢
    exact h1.trans (sanitizeWith_caseEq _ C12_chain_caseless h2.symm)

theorem C12_duck_row : ∃ r ∈ engines, r.engine = "duckdb" ∧ rowDialects r = duckDialects ∧ r.sanitize = false := by decide

/-! ### references keep resolving (why `normalize_string` normalises in the from-dialect first) -/

/-- A column definition spelled `n` (as the user wrote it, e.g. a createDataFrame name in the VALUES alias list) and a
    reference to it that was lower-cased when the Column object was built reach the statement with the SAME spelling on
    every session whose input dialect folds all identifiers (Spark: CASE_INSENSITIVE) — whatever the execution dialect's
    strategy, quoted or not. This is what keeps quoted mixed-case names resolvable on Postgres / Snowflake. -/
theorem C12_refs_resolve (strat : String → Strategy) (d : Dialects) (n : List Char) (q : Bool)
    (hin : strat d.input = .caseInsensitive) :
    stmtIdent strat d ⟨n, q⟩ = stmtIdent strat d ⟨lower n, q⟩ := by
  have ho : normalizeOrder = [.from_, .to_] := by decide
  have hp : toSqlPair = (.input, .execution) := by decide
  unfold stmtIdent normalizeString
  rw [ho, hp]
  simp only [List.foldl_cons, List.foldl_nil, Dialects.get]
  have h1 : normalizeIdent (strat d.input) false ⟨n, q⟩ = normalizeIdent (strat d.input) false ⟨lower n, q⟩ := by
    rw [hin]; simp [normalizeIdent, lower_lower]
  rw [h1]

/-- without the from-dialect pass (only the to-dialect one) it fails: on Postgres the quoted definition "Order Id" keeps its
    spelling while its reference is "order id" -/
theorem C12_cex_noFromPass :
    normalizeIdent (strategyOf "postgres") false ⟨"Order Id".toList, true⟩
      ≠ normalizeIdent (strategyOf "postgres") false ⟨lower "Order Id".toList, true⟩ := by decide

/-! ### a per-engine function decision: round() -/

/-- with the generated decision (the Postgres branch casts to NUMERIC whether or not a scale is given), on every supported
    engine `F.round(col)` over a double equals PySpark's HALF_UP round on EVERY multiple of 1/2 — in particular on every tie
    x.5 — and `F.round(col, scale)` is a call the engine has.  Relies on the ASSUMED primitive table `primRound`. -/
theorem C12_round_ties : ∀ e ∈ supportedEngines, (∀ h : Int, sqlframeRound e h = sparkRound h) ∧ sqlframeRoundScaleValid e = true := by
  have h1 : roundPgCastNoScale = true := by decide
  have h2 : roundPgCastWithScale = true := by decide
  intro e he
  simp only [supportedEngines, List.mem_cons, List.mem_nil_iff, or_false] at he
  rcases he with rfl | rfl | rfl | rfl | rfl | rfl | rfl <;>
    simp [sqlframeRound, sqlframeRoundScaleValid, sparkRound, roundOperand, primRound, primRoundScaleExists, h1, h2]

/-- the decision's other value: without the cast Postgres rounds 0.5, 2.5 and -2.5 to 0, 2 and -2, Spark to 1, 3 and -3;
    and round(double precision, integer) does not exist there -/
theorem C12_cex_roundNoCast :
    primRound "postgres" (roundOperand "postgres" false) 1 ≠ sparkRound 1 ∧
    primRound "postgres" (roundOperand "postgres" false) 5 ≠ sparkRound 5 ∧
    primRound "postgres" (roundOperand "postgres" false) (-5) ≠ sparkRound (-5) ∧
    primRoundScaleExists "postgres" (roundOperand "postgres" false) = false := by decide

-- non-vacuity: ties really are rounded differently by the two rules, and equally off ties
example : halfAway 5 = 3 ∧ halfEven 5 = 2 ∧ halfAway 3 = 2 ∧ halfEven 3 = 2 ∧ halfAway (-5) = -3 ∧ halfEven (-5) = -2 ∧ halfAway 4 = 2 ∧ halfEven 4 = 2 := by decide
example : sqlframeRound "postgres" 5 = 3 ∧ sqlframeRound "duckdb" 5 = 3 := by decide
-- an instance of C12_refs_resolve's hypothesis: the spark input dialect of every session in the table
example : strategyOf duckDialects.input = .caseInsensitive := by decide
example : (stmtIdent strategyOf { input := "spark", output := "spark", execution := "postgres" } ⟨"Order Id".toList, true⟩).name = "order id".toList := by decide

/-! ### per-engine function decisions (Gen/EngineFns.lean, Impl/C12Fns.lean) -/

/-! #### time formats -/

/-- fresh sessions of two engines (input = output = spark) -/
def snowflakeSession : Dialects := { input := "spark", output := "spark", execution := "snowflake" }
def postgresSession : Dialects := { input := "spark", output := "spark", execution := "postgres" }

/-- the generated roles are the right ones: PySpark formats are read in the INPUT dialect; the default handed to an engine
    function and the translation of an explicit format are written in the EXECUTION dialect -/
theorem C12_time_roles :
    defaultTimeFormatRole = .input ∧ formatTimeReadRole = .input ∧
    execTimeDefaultRole = .execution ∧ execTimeReadRole = .input ∧ execTimeWriteRole = .execution := by decide

/-- on a fresh session of EVERY engine package, the default format `format_execution_time(None)` spells, read in that engine's
    own format language, means what Spark's default format means in Spark's — relative to sqlglot's tables (Impl/C12TimeTables) -/
theorem C12_default_time_format :
    ∀ r ∈ engines, engineReads (rowDialects r) (formatExecutionTime (rowDialects r) none) = sparkReads none := by
  decide +kernel

/-- … and so does the format literal of the statement `try_to_timestamp(col)` sends (through whichever helper the engine's
    branch uses: `format_time` for DuckDB / BigQuery, `format_execution_time` for the others) -/
theorem C12_try_to_timestamp_default :
    ∀ r ∈ engines, (tryToTimestampLiteral r.engine (rowDialects r) none).map (engineReads (rowDialects r)) = some (sparkReads none) := by
  decide +kernel

/-- explicit formats (every element and separator the check's pools use) keep their meaning through `format_execution_time` on every engine -/
theorem C12_explicit_time_formats :
    ∀ r ∈ engines, ∀ f ∈ ["yyyy/MM/dd HH:mm:ss", "dd-MM-yyyy HH:mm", "MM/dd/yyyy"],
      engineReads (rowDialects r) (formatExecutionTime (rowDialects r) (some f.toList)) = sparkReads (some f.toList) := by
  decide +kernel

/-- the role matters: spelled in the OUTPUT dialect (Spark) the default means something else to Snowflake / Postgres / Redshift -/
theorem C12_cex_defaultFormatRole :
    engineReads snowflakeSession (timeFormatOf snowflakeSession.output).toList ≠ sparkReads none ∧
    engineReads postgresSession (timeFormatOf postgresSession.output).toList ≠ sparkReads none := by
  decide +kernel

example : sparkReads none = "%Y-%m-%d %H:%M:%S".toList := by decide +kernel
example : formatExecutionTime snowflakeSession none = "YYYY-MM-DD HH24:MI:SS".toList := by decide +kernel
example : formatExecutionTime snowflakeSession (some "dd/MM/yyyy HH:mm".toList) = "DD/mm/yyyy hh24:mi".toList := by decide +kernel

/-! #### explicit formats, of any length -/

/-- the three tables the literal of `format_execution_time(fmt)` passes: read (generated role), written (generated role), and
    finally read by the engine itself -/
def execReadTbl (d : Dialects) : Tbl := tblOf (timeMappingOf (d.get execTimeReadRole))
def execWriteTbl (d : Dialects) : Tbl := inverseOf (tblOf (timeMappingOf (d.get execTimeWriteRole)))
def engineTbl (d : Dialects) : Tbl := tblOf (timeMappingOf d.execution)

/-- scope of C12_format_execution_time: the format is a separated sequence of elements for each of the three tables in turn,
    and every element comes back from the engine's language as the directive it started as -/
def FormatTranslatable (d : Dialects) (segs : List Seg) : Prop :=
  Functional (execReadTbl d) ∧ Functional (execWriteTbl d) ∧ Functional (engineTbl d) ∧
  SegsOk (execReadTbl d) segs ∧
  SegsOk (execWriteTbl d) (mapSegs (execReadTbl d) segs) ∧
  SegsOk (engineTbl d) (mapSegs (execWriteTbl d) (mapSegs (execReadTbl d) segs)) ∧
  mapSegs (engineTbl d) (mapSegs (execWriteTbl d) (mapSegs (execReadTbl d) segs)) = mapSegs (execReadTbl d) segs

instance (d : Dialects) (segs : List Seg) : Decidable (FormatTranslatable d segs) := by
  unfold FormatTranslatable; infer_instance

/-- for EVERY format that is a separated sequence of translatable elements — any number of elements, any separators — the
    literal `format_execution_time(fmt)` hands to the engine means, in the engine's own language, what fmt means in the dialect
    the caller wrote it in.  (sqlglot's rewriting is `fmtTime`; the tables enter only through the decidable hypothesis.) -/
theorem C12_format_execution_time (d : Dialects) (segs : List Seg) (h : FormatTranslatable d segs) :
    engineReads d (formatExecutionTime d (some (flatSegs segs))) = readFormat (d.get execTimeReadRole) (flatSegs segs) := by
  obtain ⟨f1, f2, f3, s1, s2, s3, hround⟩ := h
  unfold engineReads formatExecutionTime readFormat writeFormat
  show fmtTime (engineTbl d) (fmtTime (execWriteTbl d) (fmtTime (execReadTbl d) (flatSegs segs))) = fmtTime (execReadTbl d) (flatSegs segs)
  rw [fmtTime_segments _ f1 segs s1, fmtTime_segments _ f2 _ s2, fmtTime_segments _ f3 _ s3, hround]

/-- `yyyy-MM-dd HH:mm:ss` cut into its elements -/
def stdSegs : List Seg :=
  [⟨"yyyy".toList, "-".toList⟩, ⟨"MM".toList, "-".toList⟩, ⟨"dd".toList, " ".toList⟩, ⟨"HH".toList, ":".toList⟩, ⟨"mm".toList, ":".toList⟩, ⟨"ss".toList, []⟩]

/-- the hypothesis is met on the fresh session of every engine that has a format language of its own (Snowflake, Postgres,
    Redshift, Spark, Databricks), e.g. by the default format and by a day-first format with a 12-hour clock -/
theorem C12_format_translatable_instances :
    ∀ e ∈ ["snowflake", "postgres", "redshift", "spark", "databricks"],
      FormatTranslatable { input := "spark", output := "spark", execution := e } stdSegs ∧
      FormatTranslatable { input := "spark", output := "spark", execution := e }
        [⟨"dd".toList, "/".toList⟩, ⟨"MM".toList, "/".toList⟩, ⟨"yy".toList, " ".toList⟩, ⟨"hh".toList, ".".toList⟩, ⟨"mm".toList, []⟩] := by
  decide +kernel

example : flatSegs stdSegs = "yyyy-MM-dd HH:mm:ss".toList := by decide
-- outside the scope, rightly: BigQuery's writer folds %m/%d/%y into the single element %D, so MM/dd/yy is not translated element by element
example : ¬ FormatTranslatable { input := "spark", output := "spark", execution := "bigquery" }
    [⟨"MM".toList, "/".toList⟩, ⟨"dd".toList, "/".toList⟩, ⟨"yy".toList, []⟩] := by decide +kernel

/-- engines whose format language is strftime itself (DuckDB): nothing is rewritten on the way, for any format whatsoever -/
theorem C12_format_execution_time_strftime (d : Dialects) (f : List Char)
    (hw : timeMappingOf (d.get execTimeWriteRole) = []) (he : timeMappingOf d.execution = []) :
    engineReads d (formatExecutionTime d (some f)) = readFormat (d.get execTimeReadRole) f := by
  have hid : ∀ s : List Char, fmtTime [] s = s := by
    intro s
    have : ∀ (n : Nat) (s : List Char), s.length ≤ n → fmtTimeAux [] n s = s := by
      intro n
      induction n with
      | zero => intro s hs; have : s = [] := List.eq_nil_of_length_eq_zero (by omega); subst this; rfl
      | succ n ih =>
        intro s hs
        cases s with
        | nil => rfl
        | cons c rest =>
          rw [fmtTimeAux_cons]
          have : longestMatch [] (c :: rest) = none := rfl
          rw [this]
          simp only [List.length_cons] at hs
          rw [ih rest (by omega)]
    exact this s.length s (Nat.le_refl _)
  unfold engineReads formatExecutionTime readFormat writeFormat
  rw [hw, he]
  simp only [tblOf, List.map_nil, inverseOf, List.foldl_nil]
  rw [hid, hid]

example : timeMappingOf "duckdb" = [] := by decide

/-! #### overlay -/

/-- the generated pieces of `overlay_from_substr` and the generated `len` decisions of both branches -/
theorem C12_overlay_decisions :
    overlayHeadLenOffset = -1 ∧ overlayTailStartOffset = 0 ∧
    (∀ f, overlayEmulKeepsLen f = (match f with | .omitted => false | _ => true)) ∧
    (∀ f, overlayNativeHasFor f = (match f with | .omitted => false | _ => true)) := by
  refine ⟨by decide, by decide, ?_, ?_⟩ <;> intro f <;> cases f <;> decide

/-- scope hypothesis of the open finding H_overlayNullOnDuckdb: the engine's CONCAT does not skip NULLs, or the engine runs the
    native OVERLAY, or no operand of the row is NULL -/
def H_overlayNullOnDuckdb (e : String) (form : ArgForm) (x : OverlayRow) : Prop :=
  concatSkipsNull e = false ∨ overlayIsEmulated e = false ∨ x.allPresent form = true

instance (e : String) (form : ArgForm) (x : OverlayRow) : Decidable (H_overlayNullOnDuckdb e form x) := by
  unfold H_overlayNullOnDuckdb; infer_instance

/-- `F.overlay(src, replace, pos[, len])` means PySpark's overlay on EVERY engine, for every way of passing `len` (omitted, a
    Python int, a column), every string, every position ≥ 1 and every length ≥ 0, NULL operands included — the emulation
    (BigQuery, DuckDB, Snowflake) and the native OVERLAY (the others) agree.  Under H_overlayNullOnDuckdb. -/
theorem C12_overlay (e : String) (form : ArgForm) (x : OverlayRow) (hd : x.inDomain) (hN : H_overlayNullOnDuckdb e form x) :
    sqlframeOverlay e form x = overlaySpec form x := by
  obtain ⟨hh, ht, hk, hf⟩ := C12_overlay_decisions
  have emul : strictOverlay (emulOverlayCore form) form x = overlaySpec form x := by
    unfold overlaySpec
    apply strictOverlay_congr
    intro s r p l _ _ hp hl
    have h1 : 1 ≤ p := hd.1 p hp
    have h2 : 0 ≤ l := by
      rcases hl with ⟨_, h0⟩ | ⟨_, hl⟩
      · omega
      · exact hd.2 l hl
    exact emulOverlayCore_eq form s r p l h1 h2 hh ht hk
  have nat : strictOverlay (nativeOverlayCore form) form x = overlaySpec form x := by
    unfold overlaySpec
    apply strictOverlay_congr
    intro s r p l _ _ _ _
    exact nativeOverlayCore_eq form s r p l hf
  unfold sqlframeOverlay
  cases he : overlayIsEmulated e with
  | false => simp only [Bool.false_eq_true, if_false]; exact nat
  | true =>
    simp only [if_true]
    cases hc : concatSkipsNull e with
    | false => simp only [Bool.false_eq_true, if_false]; exact emul
    | true =>
      simp only [if_true]
      rcases hN with h | h | h
      · rw [hc] at h; cases h
      · rw [he] at h; cases h
      · rw [skippingOverlay_present form x h hk]; exact emul

/-- every supported engine is covered, and exactly BigQuery, DuckDB and Snowflake take the emulation -/
theorem C12_overlay_dispatch :
    supportedEngines.filter overlayIsEmulated = ["bigquery", "snowflake", "duckdb"] ∧
    (∀ e ∈ supportedEngines, ∃ p ∈ overlayEmulated, p.1 = e) := by decide

/-- the hypothesis is needed: on DuckDB a NULL source gives 'CORE', PySpark (and the native OVERLAY) NULL -/
theorem C12_cex_overlayNull :
    sqlframeOverlay "duckdb" .omitted ⟨none, some "CORE".toList, some 7, none⟩ = some "CORE".toList ∧
    overlaySpec .omitted ⟨none, some "CORE".toList, some 7, none⟩ = none ∧
    sqlframeOverlay "postgres" .omitted ⟨none, some "CORE".toList, some 7, none⟩ = none ∧
    ¬ H_overlayNullOnDuckdb "duckdb" .omitted ⟨none, some "CORE".toList, some 7, none⟩ := by decide

-- non-vacuity: PySpark's documented examples, through the emulation and through the native branch
example : sqlframeOverlay "duckdb" .omitted ⟨some "SPARK_SQL".toList, some "CORE".toList, some 7, none⟩ = some "SPARK_CORE".toList := by decide
example : sqlframeOverlay "duckdb" .column ⟨some "SPARK_SQL".toList, some "CORE".toList, some 7, some 0⟩ = some "SPARK_CORESQL".toList := by decide
example : sqlframeOverlay "postgres" .pyInt ⟨some "SPARK_SQL".toList, some "CORE".toList, some 7, some 2⟩ = some "SPARK_COREL".toList := by decide
example : (⟨some "SPARK_SQL".toList, some "CORE".toList, some 7, some 2⟩ : OverlayRow).inDomain ∧
    H_overlayNullOnDuckdb "duckdb" .column ⟨some "SPARK_SQL".toList, some "CORE".toList, some 7, some 2⟩ := by decide
-- what the `len` decision is for: if a column-valued len fell back to LENGTH(replace), 'SPARK_CORE' would come out instead of 'SPARK_CORESQL'
example : nativeOverlay "SPARK_SQL".toList "CORE".toList 7 4 ≠ nativeOverlay "SPARK_SQL".toList "CORE".toList 7 0 := by decide

/-! #### sequence -/

/-- scope hypothesis of the open finding H_sequenceDescendingNoStep: the rendering does not use a constant step, or the range ascends -/
def H_sequenceDescendingNoStep (rule : StepRule) (a b : Int) : Prop := rule = .direction ∨ rule = .native ∨ a ≤ b

/-- the generated default-step rules: DuckDB's emulation follows the direction, Spark / Databricks run SEQUENCE natively,
    BigQuery's emulation passes the constant 1 -/
theorem C12_sequence_rules :
    seqRuleOf "duckdb" = some .direction ∧ seqRuleOf "spark" = some .native ∧ seqRuleOf "databricks" = some .native ∧
    seqRuleOf "bigquery" = some (.const 1) := by decide

/-- `F.sequence(start, stop)` without a step is Spark's sequence on the DuckDB, Spark, Databricks and BigQuery sessions, for all
    integers start and stop — under H_sequenceDescendingNoStep (which only BigQuery's constant step needs) -/
theorem C12_sequence_noStep : ∀ e ∈ sequenceEngines, ∃ rule, seqRuleOf e = some rule ∧
    ∀ a b : Int, H_sequenceDescendingNoStep rule a b → sqlframeSequence rule a b = sparkSequence a b := by
  have key : ∀ e ∈ sequenceEngines, ∃ rule, seqRuleOf e = some rule ∧ (rule = .direction ∨ rule = .native ∨ rule = .const 1) := by decide
  intro e he
  obtain ⟨rule, hr, hk⟩ := key e he
  refine ⟨rule, hr, ?_⟩
  intro a b hH
  rcases hk with rfl | rfl | rfl
  · exact sqlframeSequence_direction a b
  · rfl
  · rcases hH with h | h | h
    · cases h
    · cases h
    · exact sqlframeSequence_const_one a b h

/-- on DuckDB no hypothesis is needed: the emulation counts down when start > stop -/
theorem C12_sequence_duckdb (a b : Int) : ∃ rule, seqRuleOf "duckdb" = some rule ∧ sqlframeSequence rule a b = sparkSequence a b :=
  ⟨.direction, C12_sequence_rules.1, sqlframeSequence_direction a b⟩

/-- the hypothesis is needed: BigQuery's constant step gives [] for every descending range, Spark's rule never does -/
theorem C12_cex_sequenceDescending (a b : Int) (h : b < a) :
    sqlframeSequence (.const 1) a b = [] ∧ sparkSequence a b ≠ [] ∧ ¬ H_sequenceDescendingNoStep (.const 1) a b := by
  obtain ⟨h1, h2⟩ := sqlframeSequence_const_one_desc a b h
  refine ⟨h1, h2, ?_⟩
  unfold H_sequenceDescendingNoStep
  intro hh
  rcases hh with hh | hh | hh
  · cases hh
  · cases hh
  · omega

example : sparkSequence 3 1 = [3, 2, 1] ∧ sparkSequence 1 4 = [1, 2, 3, 4] ∧ sparkSequence 2 2 = [2] := by decide
example : sqlframeSequence .direction 3 1 = [3, 2, 1] ∧ sqlframeSequence (.const 1) 3 1 = [] := by decide
example : H_sequenceDescendingNoStep (.const 1) 1 4 := Or.inr (Or.inr (by decide))

/-! #### rint -/

/-- scope hypothesis of the open finding H_rintHalfAwayEmulation: the engine's rendering is not `round(col, 0)`, or the value is
    not a tie (h/2 with h odd) -/
def H_rintHalfAwayEmulation (rule : RintRule) (h : Int) : Prop := rule ≠ .fromRound ∨ h % 2 = 0

instance (rule : RintRule) (h : Int) : Decidable (H_rintHalfAwayEmulation rule h) := by
  unfold H_rintHalfAwayEmulation; infer_instance

/-- the generated dispatch: DuckDB renders rint() as ROUND_EVEN(col, 0), Spark / Databricks / Redshift run RINT, and exactly
    BigQuery, Postgres and Snowflake go through round(col, 0) -/
theorem C12_rint_rules :
    rintRuleOf "duckdb" = some .roundEven ∧ rintRuleOf "spark" = some .native ∧ rintRuleOf "databricks" = some .native ∧
    rintRuleOf "redshift" = some .native ∧
    supportedEngines.filter (fun e => rintRuleOf e = some .fromRound) = ["bigquery", "snowflake", "postgres"] := by decide

/-- on the DuckDB session rint() is PySpark's rint (ties to even) on EVERY multiple of 1/2 — no hypothesis -/
theorem C12_rint_duckdb (h : Int) : ∃ rule, rintRuleOf "duckdb" = some rule ∧ sqlframeRint rule h = sparkRint h :=
  ⟨.roundEven, C12_rint_rules.1, rfl⟩

/-- on every supported engine, under H_rintHalfAwayEmulation -/
theorem C12_rint : ∀ e ∈ supportedEngines, ∃ rule, rintRuleOf e = some rule ∧
    ∀ h : Int, H_rintHalfAwayEmulation rule h → sqlframeRint rule h = sparkRint h := by
  have key : ∀ e ∈ supportedEngines, ∃ rule, rintRuleOf e = some rule := by
    have k2 : ∀ e ∈ supportedEngines, (rintRuleOf e).isSome = true := by decide
    intro e he
    exact Option.isSome_iff_exists.1 (k2 e he)
  intro e he
  obtain ⟨rule, hr⟩ := key e he
  refine ⟨rule, hr, ?_⟩
  intro h hH
  cases rule with
  | roundEven => rfl
  | native => rfl
  | fromRound =>
    rcases hH with hH | hH
    · exact absurd rfl hH
    · simp [sqlframeRint, sparkRint, halfAway, halfEven, hH]

/-- the hypothesis is needed: through round(col, 0), 0.5 and 2.5 come out as 1 and 3; rint gives 0 and 2 -/
theorem C12_cex_rintHalfAway :
    sqlframeRint .fromRound 1 = 1 ∧ sparkRint 1 = 0 ∧ sqlframeRint .fromRound 5 = 3 ∧ sparkRint 5 = 2 ∧
    ¬ H_rintHalfAwayEmulation .fromRound 1 := by decide

example : H_rintHalfAwayEmulation .fromRound 4 ∧ sqlframeRint .fromRound 4 = 2 := by decide

/-! #### regexp_replace -/

/-- the generated renderings carry the 'g' option wherever the engine would otherwise replace only the first match — with and
    without a start position -/
theorem C12_regexp_rows : ∀ e ∈ supportedEngines, ∃ r, regexpRowOf e = some r ∧
    (regexpFirstOnly e = true → r.gNoPos = true ∧ r.gWithPos = true) := by decide

/-- `F.regexp_replace(str, pattern, replacement[, 1])` replaces EVERY match on every supported engine, whatever the subject and
    however many matches it has, with or without the position argument -/
theorem C12_regexp_replace_all : ∀ e ∈ supportedEngines, ∀ (posGiven : Bool) (ps : List Piece),
    sqlframeRegexpReplace e posGiven ps = replaceAll ps := by
  intro e he posGiven ps
  obtain ⟨r, hr, hg⟩ := C12_regexp_rows e he
  unfold sqlframeRegexpReplace
  rw [hr]
  cases hf : regexpFirstOnly e with
  | false => simp
  | true =>
    obtain ⟨h1, h2⟩ := hg hf
    cases posGiven <;> simp [h1, h2]

/-- what the option is for: a first-match-only rendering differs from Spark's exactly on subjects with two or more matches -/
theorem C12_regexp_first_only (ps : List Piece) : replaceFirst ps ≠ replaceAll ps ↔ 2 ≤ hits ps := by
  rw [Ne, replaceFirst_eq_replaceAll_iff]
  omega

example : replaceFirst [.ch 'a', .hit, .ch 'b', .hit, .ch 'c'] = [.ch 'a', .replaced, .ch 'b', .kept, .ch 'c'] := by decide
example : replaceAll [.ch 'a', .hit, .ch 'b', .hit, .ch 'c'] = [.ch 'a', .replaced, .ch 'b', .replaced, .ch 'c'] := by decide
example : regexpFirstOnly "duckdb" = true ∧ regexpFirstOnly "spark" = false := by decide

/-! ### the property -/

/-- what is outside sqlframe: how text is written for a dialect, read back, and what it means there -/
structure World where
  Program : Type
  Input : Type
  Result : Type
  /-- the statement the `engine` session sends for a pipeline on an input (written by sqlglot's generator) -/
  stmt : String → Program → Input → String
  /-- the text parses in the dialect and re-rendering the parse is a fixed point -/
  valid : String → String → Prop
  /-- rows, column order and column names the text denotes under the dialect -/
  denote : String → String → Option Result
  /-- same rows, same column order, names up to letter case and (if the flag is set) sanitising -/
  equiv : Bool → Result → Result → Prop

/-- C12 at full strength.  NOT PROVED: it quantifies over sqlglot's generators and the engines' semantics. -/
def C12_full_statement (W : World) : Prop :=
  ∀ e ∈ supportedEngines, ∀ (p : W.Program) (inp : W.Input),
    W.valid e (W.stmt e p inp) ∧
    ∃ r rd, W.denote e (W.stmt e p inp) = some r ∧ W.denote "duckdb" (W.stmt "duckdb" p inp) = some rd ∧
      W.equiv (mustSanitize e) r rd

/-- the part that is sqlframe's own, for every supported engine: a session module exists; its statements are written in
    the engine's own dialect from spark-normalised input; only its own dispatch flag is on; names are sanitised exactly
    where documented; and every column alias comes back equal to the DuckDB session's up to case and that sanitising -/
theorem C12_partial :
    ∀ e ∈ supportedEngines, ∃ r ∈ engines, r.engine = e ∧
      stmtDialect (rowDialects r) = e ∧ (rowDialects r).input = "spark" ∧ (rowDialects r).output = "spark" ∧
      trueFlags r = ["_is_" ++ e] ∧ r.sanitize = mustSanitize e ∧
      ∀ (strat : String → Strategy) (n : List Char) (q q' : Bool),
        NameEquiv (mustSanitize e) (rowResultName r strat ⟨sanitizeColumnName r.sanitize n, q⟩)
          (resultName strat duckDialects ⟨n, q'⟩) := by
  have key : ∀ e ∈ supportedEngines, ∃ r ∈ engines, r.engine = e ∧
      stmtDialect (rowDialects r) = e ∧ (rowDialects r).input = "spark" ∧ (rowDialects r).output = "spark" ∧
      trueFlags r = ["_is_" ++ e] ∧ r.sanitize = mustSanitize e := by decide
  intro e he
  obtain ⟨r, hr, h1, h2, h3, h4, h5, h6⟩ := key e he
  refine ⟨r, hr, h1, h2, h3, h4, h5, h6, ?_⟩
  intro strat n q q'
  rw [← h6]
  exact C12_names _ _ _ _ strat (rowDialects r) duckDialects r.sanitize q q' n

/-! ### non-vacuity -/

-- the chain really removes something, and leaves the rest alone
example : sanitize "sum(x)".toList = "sum_x_".toList := by decide
example : sanitize "a_b".toList = "a_b".toList := by decide
example : sources sanitizeReplacements = ['(', ')'] := by decide
-- an instance of C12_sanitize_id's hypothesis
example : ∀ c ∈ "count_x".toList, c ∉ sources sanitizeReplacements := by decide
-- a chain that is NOT clean is not idempotent: the cleanliness obligation is what carries C12_sanitize_idem
example : sanitizeWith [('b', 'c'), ('a', 'b')] (sanitizeWith [('b', 'c'), ('a', 'b')] ['a']) ≠ sanitizeWith [('b', 'c'), ('a', 'b')] ['a'] := by decide
example : ¬ CleanChain [('b', 'c'), ('a', 'b')] := by decide

-- the same alias on a Snowflake and on a DuckDB session: different spellings, equal up to case
def snowDialects : Dialects := { input := "spark", output := "spark", execution := "snowflake" }
example : (stmtIdent strategyOf snowDialects ⟨"MyCol".toList, false⟩).name = "MYCOL".toList := by decide
example : (stmtIdent strategyOf duckDialects ⟨"MyCol".toList, false⟩).name = "mycol".toList := by decide
example : engineReports strategyOf snowDialects (stmtIdent strategyOf snowDialects ⟨"MyCol".toList, false⟩)
    ≠ engineReports strategyOf duckDialects (stmtIdent strategyOf duckDialects ⟨"MyCol".toList, false⟩) := by decide
example : CaseEq (resultName strategyOf snowDialects ⟨"MyCol".toList, false⟩) (resultName strategyOf duckDialects ⟨"MyCol".toList, false⟩) := by decide
-- an instance of C12_renorm_exact (its hypothesis is read from the source: `Gen.collectMarksCaseSensitive`)
example (h : collectMarksCaseSensitive = true) : collectName strategyOf snowDialects "MyCol".toList = "MyCol".toList := by
  unfold collectName; rw [h]; exact C12_renorm_exact _ strategyOf snowDialects _
-- BigQuery: the aggregate alias is sanitised, DuckDB's is not; equal under NameEquiv true, not under NameEquiv false
def bqDialects : Dialects := { input := "spark", output := "spark", execution := "bigquery" }
example : NameEquiv true (resultName strategyOf bqDialects ⟨sanitizeColumnName true "SUM(x)".toList, true⟩) (resultName strategyOf duckDialects ⟨"SUM(x)".toList, true⟩) := by decide
example : ¬ NameEquiv false (resultName strategyOf bqDialects ⟨sanitizeColumnName true "SUM(x)".toList, true⟩) (resultName strategyOf duckDialects ⟨"SUM(x)".toList, true⟩) := by decide
-- the order of the `_to_sql` pair matters: swapped, an unquoted name reaches a Snowflake statement in lower case
example : (normalizeString strategyOf snowDialects.execution snowDialects.input false ⟨"a".toList, false⟩).name
    ≠ (stmtIdent strategyOf snowDialects ⟨"a".toList, false⟩).name := by decide
example : renderDialect snowDialects.execution snowDialects.input ≠ stmtDialect snowDialects := by decide

end Sqlframe
