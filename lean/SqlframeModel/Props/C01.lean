/-
Props/C01.lean — property theorems for C01 (transformation chains give PySpark's sequential result).

Model: Impl/DataFrame.lean around the regenerated Gen.Operations / Gen.Methods / Gen.Clauses.
Full statement (`C01_full_statement`) vs what is proved (`C01_partial`): see the bottom of the file.
-/
import SqlframeModel.Lemmas.C01Steps
import SqlframeModel.Lemmas.C01Dropna
import SqlframeModel.Lemmas.Sorted
import SqlframeModel.Lemmas.C01ExprKey
import SqlframeModel.Lemmas.C01Bodies
import SqlframeModel.Lemmas.C01Memo
import SqlframeModel.Lemmas.C01Narrow
namespace Sqlframe
open Gen

/-- Everything the wrap rule of `operation.wrapper` must guarantee (generated predicate, 81 cases). -/
theorem C01_wrap_sound : ∀ last new : Op, wrapCond last new = false →
    last.toInt ≤ new.toInt ∧ ¬ (last = .select ∧ new = .select) := wrapCond_sound

/-- the `group_operation` copy of the wrapper takes the same decisions -/
theorem C01_wrap_sound_group : ∀ last new : Op, wrapCondGroup last new = false →
    last.toInt ≤ new.toInt ∧ ¬ (last = .select ∧ new = .select) := by
  intro last new; cases last <;> cases new <;> decide

private theorem inv_of_ready_select (d : DF) (hi : Inv d) (hr : Ready d) (items : List (Name × Expr))
    (hn : (items.map (·.1)).Nodup) (b : Block) (hb : b = { d.blk with sel := items }) :
    Inv { src := d.src, blk := b, last := Op.select } := by
  subst hb
  exact ⟨hi.1, hn, fun hlt => by simp [Op.toInt] at hlt, fun _ => hr.2.2.1, fun _ => hr.2.2.2⟩

/-- `C01_step` for every method whose body runs in one wrapper (or one nested select wrapper). -/
theorem C01_step_basic (d : DF) (s : Step) (h : Inv d) (hs : s.WF d.eval.cols)
    (hno : s.isOrderBy = true → d.last ≠ .orderBy) (hin : s.inTheorem = true) (hb : s.isDropna = false) :
    (d.apply s).eval = specStep d.eval s ∧ Inv (d.apply s) ∧
      (s.isOrderBy = false → (d.apply s).last ≠ .orderBy) := by
  cases s with
  | wher p =>
    have hop : Op.wher ≠ Op.noOp := by decide
    obtain ⟨hi, he⟩ := enter_inv .wher d h
    have hr := enter_ready .wher hop (by decide) d h
    simp only [DF.apply, tag_where, wrapper_eq _ hop, specStep]
    refine ⟨?_, ?_, fun _ => by simp⟩
    · rw [← he]; exact clause_where _ hi hr p
    · refine ⟨hi.1, ?_, fun _ => ⟨hr.1, hr.2.1⟩, fun _ => hr.2.2.1, fun _ => hr.2.2.2⟩
      simpa [bodyWhere] using hi.2.1
  | select items =>
    have hop : Op.select ≠ Op.noOp := by decide
    obtain ⟨hi, he⟩ := enter_inv .select d h
    have hr := enter_ready .select hop (by decide) d h
    simp only [DF.apply, tag_select, wrapper_eq _ hop, specStep]
    refine ⟨?_, ?_, fun _ => by simp⟩
    · rw [← he]; exact clause_select _ hi hr items
    · exact inv_of_ready_select _ hi hr items hs.1 _ (by simp [bodySelect, selectAppendDefault])
  | withColumn n e =>
    have hop : Op.select ≠ Op.noOp := by decide
    obtain ⟨hi, he⟩ := enter_inv .select d h
    have hr := enter_ready .select hop (by decide) d h
    have hcols : (enter .select d).outNames = d.eval.cols := by
      rw [ready_outNames _ hr, ← he, ready_eval _ hi hr]
    simp only [DF.apply, tag_withColumn, wrapper_eq _ hop, specStep, hcols]
    refine ⟨?_, ?_, fun _ => by simp⟩
    · rw [← he]; exact clause_select _ hi hr _
    · refine inv_of_ready_select _ hi hr (withColItems d.eval.cols n e) ?_ _ (by simp [bodySelect, selectAppendDefault])
      apply withColItems_nodup
      rw [← he, ready_eval _ hi hr]; exact hi.1.1
  | withColumnRenamed a b =>
    have hop : Op.select ≠ Op.noOp := by decide
    obtain ⟨hi, he⟩ := enter_inv .select d h
    have hr := enter_ready .select hop (by decide) d h
    have hcols : (enter .select d).outNames = d.eval.cols := by
      rw [ready_outNames _ hr, ← he, ready_eval _ hi hr]
    simp only [DF.apply, tag_withColumnRenamed, wrapper_eq _ hop, specStep, hcols]
    refine ⟨?_, ?_, fun _ => by simp⟩
    · rw [← he]; exact clause_select _ hi hr _
    · refine inv_of_ready_select _ hi hr (renameItems d.eval.cols a b) ?_ _ (by simp [bodySelect, selectAppendDefault])
      apply renameItems_nodup _ _ _ _ hs.2
      rw [← he, ready_eval _ hi hr]; exact hi.1.1
  | drop ns =>
    have hop : Op.select ≠ Op.noOp := by decide
    obtain ⟨hi, he⟩ := enter_inv .select d h
    have hr := enter_ready .select hop (by decide) d h
    -- the body runs select's wrapper once more on what the outer wrapper handed it
    obtain ⟨hi2, he2⟩ := enter_inv .select (enter .select d) hi
    have hr2 := enter_ready .select hop (by decide) (enter .select d) hi
    have hcols : (enter .select d).outNames = d.eval.cols := by
      rw [ready_outNames _ hr, ← he, ready_eval _ hi hr]
    simp only [DF.apply, tag_drop, tag_select, wrapper_eq _ hop, specStep, hcols]
    refine ⟨?_, ?_, fun _ => by simp⟩
    · rw [← he, ← he2]; exact clause_selectNoAppend _ hi2 hr2 _
    · refine inv_of_ready_select _ hi2 hr2 (dropItems d.eval.cols ns) ?_ _ (by simp [bodySelectNoAppend, dropSelectAppend])
      apply dropItems_nodup
      rw [← he, ready_eval _ hi hr]; exact hi.1.1
  | distinct =>
    have hop : Op.select ≠ Op.noOp := by decide
    obtain ⟨hi, he⟩ := enter_inv .select d h
    have hr := enter_ready .select hop (by decide) d h
    simp only [DF.apply, tag_distinct, wrapper_eq _ hop, specStep]
    refine ⟨?_, ?_, fun _ => by simp⟩
    · rw [← he]; exact clause_distinct _ hi hr
    · refine ⟨hi.1, ?_, fun hlt => by simp [Op.toInt] at hlt, fun _ => hr.2.2.1, fun _ => hr.2.2.2⟩
      simpa [bodyDistinct] using hi.2.1
  | orderBy keys =>
    have hop : Op.orderBy ≠ Op.noOp := by decide
    obtain ⟨hi, he⟩ := enter_inv .orderBy d h
    have hr := enter_readyO d h (hno rfl)
    simp only [DF.apply, tag_orderBy, wrapper_eq _ hop, specStep]
    refine ⟨?_, ?_, fun hf => by simp [Step.isOrderBy] at hf⟩
    · rw [← he]; exact clause_orderBy _ hr keys hs.1
    · refine ⟨hi.1, ?_, fun hlt => by simp [Op.toInt] at hlt, fun hlt => by simp [Op.toInt] at hlt, fun _ => hr.2⟩
      simpa [bodyOrderBy] using hi.2.1
  | limit n =>
    have hop : Op.limit ≠ Op.noOp := by decide
    obtain ⟨hi, he⟩ := enter_inv .limit d h
    simp only [DF.apply, tag_limit, wrapper_eq _ hop, specStep]
    refine ⟨?_, ?_, fun _ => by simp⟩
    · rw [← he]; exact clause_limit _ n
    · refine ⟨hi.1, ?_, fun hlt => by simp [Op.toInt] at hlt, fun hlt => by simp [Op.toInt] at hlt, fun hlt => by simp [Op.toInt] at hlt⟩
      simpa [bodyLimit] using hi.2.1
  | fillna v sub =>
    have hop : Op.select ≠ Op.noOp := by decide
    obtain ⟨hi, he⟩ := enter_inv .select d h
    have hr := enter_ready .select hop (by decide) d h
    obtain ⟨hi2, he2⟩ := enter_inv .select (enter .select d) hi
    have hr2 := enter_ready .select hop (by decide) (enter .select d) hi
    have hcols : (enter .select d).outNames = d.eval.cols := by
      rw [ready_outNames _ hr, ← he, ready_eval _ hi hr]
    simp only [DF.apply, tag_fillna, tag_select, wrapper_eq _ hop, specStep, hcols]
    refine ⟨?_, ?_, fun _ => by simp⟩
    · rw [← he, ← he2]; exact clause_select _ hi2 hr2 _
    · refine inv_of_ready_select _ hi2 hr2 (fillItems d.eval.cols v sub) ?_ _ (by simp [bodySelect, selectAppendDefault])
      rw [fillItems_names, ← he, ready_eval _ hi hr]; exact hi.1.1

  | replace pairs sub =>
    have hop : Op.select ≠ Op.noOp := by decide
    obtain ⟨hi, he⟩ := enter_inv .select d h
    have hr := enter_ready .select hop (by decide) d h
    obtain ⟨hi2, he2⟩ := enter_inv .select (enter .select d) hi
    have hr2 := enter_ready .select hop (by decide) (enter .select d) hi
    have hcols : (enter .select d).outNames = d.eval.cols := by
      rw [ready_outNames _ hr, ← he, ready_eval _ hi hr]
    simp only [DF.apply, tag_replace, tag_select, wrapper_eq _ hop, specStep, hcols]
    refine ⟨?_, ?_, fun _ => by simp⟩
    · rw [← he, ← he2]; exact clause_select _ hi2 hr2 _
    · refine inv_of_ready_select _ hi2 hr2 (replaceItems d.eval.cols pairs sub) ?_ _ (by simp [bodySelect, selectAppendDefault])
      rw [replaceItems_names, ← he, ready_eval _ hi hr]; exact hi.1.1
  | toDF names =>
    have hop : Op.select ≠ Op.noOp := by decide
    obtain ⟨hi, he⟩ := enter_inv .select d h
    have hr := enter_ready .select hop (by decide) d h
    have hcols : (enter .select d).src.cols = d.eval.cols := by
      rw [← he, ready_eval _ hi hr]
    have hsel : toDFItems (enter .select d).blk.sel names
        = List.zipWith (fun c n => (n, Expr.col c)) d.eval.cols names := by
      rw [hr.1, toDFItems_ident, hcols]
    simp only [DF.apply, tag_toDF, wrapper_eq _ hop, specStep, hsel]
    have hb : ({ (enter .select d) with blk := { (enter .select d).blk with sel := List.zipWith (fun c n => (n, Expr.col c)) d.eval.cols names } } : DF)
        = bodySelect (List.zipWith (fun c n => (n, Expr.col c)) d.eval.cols names) (enter .select d) := by
      simp [bodySelect, selectAppendDefault]
    have hcl := clause_select _ hi hr (List.zipWith (fun c n => (n, Expr.col c)) d.eval.cols names)
    rw [he] at hcl
    refine ⟨?_, ?_, fun _ => by simp⟩
    · show (({ (enter .select d) with blk := { (enter .select d).blk with sel := List.zipWith (fun c n => (n, Expr.col c)) d.eval.cols names }, last := Op.select } : DF)).eval = _
      have e1 : (({ (enter .select d) with blk := { (enter .select d).blk with sel := List.zipWith (fun c n => (n, Expr.col c)) d.eval.cols names }, last := Op.select } : DF)).eval
          = (bodySelect (List.zipWith (fun c n => (n, Expr.col c)) d.eval.cols names) (enter .select d)).eval := by
        simp [bodySelect, selectAppendDefault, DF.eval]
      rw [e1, hcl]
    · refine inv_of_ready_select _ hi hr (List.zipWith (fun c n => (n, Expr.col c)) d.eval.cols names) ?_ _ rfl
      rw [zipWith_names _ _ hs.1]; exact hs.2
  | dropna howAll thresh sub => simp [Step.isDropna] at hb
  | unpivot ids vals var val =>
    have hop : Op.select ≠ Op.noOp := by decide
    obtain ⟨hi, he⟩ := enter_inv .select d h
    obtain ⟨_, _, hnd⟩ := hs
    have hU : (unpivotTable d.eval ids vals var val).WF := by
      refine ⟨hnd, ?_⟩
      intro r hr
      simp only [unpivotTable, List.mem_flatMap, List.mem_map] at hr
      obtain ⟨v, _, x, _, rfl⟩ := hr
      simp [unpivotTable]
    let U := unpivotTable d.eval ids vals var val
    have hf : ∀ hh, Fresh ({ src := U, blk := { sel := identSel U.cols }, last := (enter .select d).last, hist := hh } : DF) :=
      fun _ => ⟨hU, rfl, rfl, rfl, rfl, rfl⟩
    simp only [DF.apply, tag_unpivot, wrapper_eq _ hop, specStep, unpivotDistinct, Bool.false_eq_true, if_false, he]
    exact ⟨fresh_eval _ ((hf _).setLast _), ((hf _).setLast _).inv, fun _ => by simp⟩

/-- `dropna`: its body runs three decorated calls (select-append of the helper column, where, re-select);
    each is an instance of `C01_step_basic`, and their composition is the null-count filter. -/
theorem C01_step_dropna (d : DF) (howAll : Bool) (thresh : Option Nat) (sub : List Name) (h : Inv d)
    (hs : (Step.dropna howAll thresh sub).WF d.eval.cols) :
    (d.apply (.dropna howAll thresh sub)).eval = specStep d.eval (.dropna howAll thresh sub) ∧
      Inv (d.apply (.dropna howAll thresh sub)) ∧
      ((Step.dropna howAll thresh sub).isOrderBy = false → (d.apply (.dropna howAll thresh sub)).last ≠ .orderBy) := by
    -- the body runs three decorated calls; each is a step of this very theorem's induction
    have hop : Op.select ≠ Op.noOp := by decide
    obtain ⟨hi, he⟩ := enter_inv .select d h
    have hr := enter_ready .select hop (by decide) d h
    have hcols : (enter .select d).outNames = d.eval.cols := by
      rw [ready_outNames _ hr, ← he, ready_eval _ hi hr]
    have hwfT : d.eval.WF := by rw [← he, ready_eval _ hi hr]; exact ⟨hi.1.1, stWhere_len _ _ hi.1⟩
    obtain ⟨hsub, hnn⟩ := hs
    let d0 := enter .select d
    let items1 : List (Name × Expr) := identSel d.eval.cols ++ [("num_nulls", numNullsExpr sub)]
    let pred : Expr := .bin .lt (.col "num_nulls") (.lit (.int (dropnaMin howAll thresh sub.length)))
    -- (1) select(num_nulls, append=True)
    have e1 : wrapper tag_select (bodySelectNoAppend true [("num_nulls", numNullsExpr sub)]) d0
        = d0.apply (.select items1) := by
      have hr0 := enter_ready .select hop (by decide) d0 hi
      have hc0 : (enter .select d0).src.cols = d.eval.cols := by
        have := (enter_inv .select d0 hi)
        rw [← he, ← this.2, ready_eval _ this.1 hr0]
      simp only [DF.apply, tag_select, wrapper_eq _ hop, bodySelectNoAppend, bodySelect, selectAppendDefault, if_true,
        Bool.false_eq_true, if_false, items1]
      rw [hr0.1, hc0]
    have hd0e : d0.eval = d.eval := he
    have hnd1 : ((identSel d.eval.cols ++ [("num_nulls", numNullsExpr sub)]).map (·.1)).Nodup := by
      rw [List.map_append, identSel_names, List.nodup_append]
      refine ⟨hwfT.1, by simp, ?_⟩
      intro a ha b hb
      simp at hb; subst hb
      exact fun e => hnn (e ▸ ha)
    have s1 := C01_step_basic d0 (.select items1) hi
      (by
        rw [hd0e]
        refine ⟨hnd1, ?_⟩
        intro it hit n hn
        simp only [items1, List.mem_append, List.mem_singleton] at hit
        rcases hit with hit | rfl
        · simp only [identSel, List.mem_map] at hit
          obtain ⟨c, hc, rfl⟩ := hit
          simp only [Expr.refs, List.mem_singleton] at hn
          exact hn ▸ hc
        · exact hsub n (numNulls_refs sub n hn))
      (by simp [Step.isOrderBy]) rfl rfl
    -- (2) where(num_nulls < k)
    have s2 := C01_step_basic (d0.apply (.select items1)) (.wher pred) s1.2.1
      (by
        rw [s1.1, hd0e]
        intro n hn
        simp only [pred, Expr.refs, List.append_nil, List.mem_singleton] at hn
        subst hn
        simp [specStep, Table.project, items1])
      (by simp [Step.isOrderBy]) rfl rfl
    -- (3) select(*all_columns)
    have s3 := C01_step_basic ((d0.apply (.select items1)).apply (.wher pred)) (.select (identSel d.eval.cols)) s2.2.1
      (by
        rw [s2.1, s1.1, hd0e]
        refine ⟨by rw [identSel_names]; exact hwfT.1, ?_⟩
        intro it hit n hn
        simp only [identSel, List.mem_map] at hit
        obtain ⟨c, hc, rfl⟩ := hit
        simp only [Expr.refs, List.mem_singleton] at hn
        subst hn
        simp [specStep, Table.project, Table.filter, items1, hc])
      (by simp [Step.isOrderBy]) rfl rfl
    have hbody : (wrapper tag_select (bodySelect (identSel d0.outNames))
          (wrapper tag_where (bodyWhere pred)
            (wrapper tag_select (bodySelectNoAppend true [("num_nulls", numNullsExpr sub)]) d0)))
        = ((d0.apply (.select items1)).apply (.wher pred)).apply (.select (identSel d.eval.cols)) := by
      rw [e1, hcols]
      rfl
    simp only [DF.apply, tag_dropna, wrapper_eq _ hop, specStep]
    show (({ (wrapper tag_select (bodySelect (identSel d0.outNames))
          (wrapper tag_where (bodyWhere pred)
            (wrapper tag_select (bodySelectNoAppend true [("num_nulls", numNullsExpr sub)]) d0))) with last := Op.select } : DF)).eval = _ ∧ _
    rw [hbody]
    have hlast : (((d0.apply (.select items1)).apply (.wher pred)).apply (.select (identSel d.eval.cols))).last = Op.select := by
      simp [DF.apply, tag_select, wrapper_eq _ hop]
    have hsame : ({ (((d0.apply (.select items1)).apply (.wher pred)).apply (.select (identSel d.eval.cols))) with last := Op.select } : DF)
        = (((d0.apply (.select items1)).apply (.wher pred)).apply (.select (identSel d.eval.cols))) := by
      cases hx : (((d0.apply (.select items1)).apply (.wher pred)).apply (.select (identSel d.eval.cols)))
      simp [hx] at hlast ⊢
      exact hlast.symm
    rw [hsame]
    refine ⟨?_, s3.2.1, fun _ => by first | (rw [hlast]; decide) | decide⟩
    rw [s3.1, s2.1, s1.1, hd0e]
    simp only [specStep]
    have := dropna_table d.eval sub (dropnaMin howAll thresh sub.length) hwfT hnn
    simp only [nullCount] at this
    exact this

/-- One public method call: the model's result is the specification's result, and the clause-order
    invariant is re-established.  (`hno`: an `orderBy` does not directly follow an `orderBy`.) -/
theorem C01_step (d : DF) (s : Step) (h : Inv d) (hs : s.WF d.eval.cols)
    (hno : s.isOrderBy = true → d.last ≠ .orderBy) (hin : s.inTheorem = true) :
    (d.apply s).eval = specStep d.eval s ∧ Inv (d.apply s) ∧
      (s.isOrderBy = false → (d.apply s).last ≠ .orderBy) := by
  by_cases hb : s.isDropna = true
  · cases s <;> simp [Step.isDropna] at hb
    exact C01_step_dropna d _ _ _ h hs
  · exact C01_step_basic d s h hs hno hin (by simpa using hb)

/-- chains from any state satisfying the invariant -/
theorem C01_run (steps : List Step) : ∀ (d : DF), Inv d → StepsWF d.eval steps →
    noAdjacentOrderBy steps = true → steps.all Step.inTheorem = true →
    ((∃ k rest, steps = Step.orderBy k :: rest) → d.last ≠ .orderBy) →
    (d.run steps).eval = specRun d.eval steps := by
  induction steps with
  | nil => intro d _ _ _ _ _; rfl
  | cons s ss ih =>
    intro d h hwf hadj hall hfirst
    have hall' : s.inTheorem = true ∧ ss.all Step.inTheorem = true := by simpa using hall
    have hno : s.isOrderBy = true → d.last ≠ .orderBy := by
      intro hs; cases s <;> simp [Step.isOrderBy] at hs
      exact hfirst ⟨_, _, rfl⟩
    obtain ⟨he, hi, hl⟩ := C01_step d s h hwf.1 hno hall'.1
    simp only [DF.run, specRun, List.foldl_cons]
    have hwf' : StepsWF (d.apply s).eval ss := by rw [he]; exact hwf.2
    have hadj' : noAdjacentOrderBy ss = true := by
      cases ss with
      | nil => rfl
      | cons b rest => simp [noAdjacentOrderBy] at hadj; exact hadj.2
    have hfirst' : (∃ k rest, ss = Step.orderBy k :: rest) → (d.apply s).last ≠ .orderBy := by
      rintro ⟨k, rest, rfl⟩
      apply hl
      simp [noAdjacentOrderBy, Step.isOrderBy] at hadj
      cases s <;> simp_all [Step.isOrderBy]
    have := ih (d.apply s) hi hwf' hadj' hall'.2 hfirst'
    simp only [DF.run, specRun] at this
    rw [this, he]

/-- **C01 (proved part).** For every well-formed input table, every chain — of any length, in any
    order — of where / select / withColumn / withColumnRenamed / drop / toDF / distinct / orderBy / limit /
    fillna / replace / dropna / unpivot steps that PySpark accepts, the SQL pipeline sqlframe builds evaluates (under Core/Sql's
    clause order) to exactly the table obtained by applying the steps one after another. -/
theorem C01_partial (T : Table) (steps : List Step) (hT : T.WF) (hs : StepsWF T steps)
    (hsc : noAdjacentOrderBy steps = true) (hin : steps.all Step.inTheorem = true) :
    ((DF.init T).run steps).eval = specRun T steps := by
  have hf := init_fresh T hT
  have he : (DF.init T).eval = T := fresh_eval _ hf
  have := C01_run steps (DF.init T) hf.inv (by rw [he]; exact hs) hsc hin (fun _ => by simp [DF.init])
  rw [this, he]

/-- The pattern excluded from `C01_partial`: a second `orderBy` *replaces* the first — the result is
    the k₂-sort of the rows as they were before the first ordering (a permutation of the input), and
    the first keys do not survive as leading keys. -/
theorem C01_orderBy_twice (d : DF) (h : Inv d) (hl : d.last = .orderBy) (k2 : List OrdKey) (hk : k2 ≠ []) :
    (d.apply (.orderBy k2)).eval = ({ d with blk := { d.blk with order := [] } } : DF).eval.sort k2 ∧
    (({ d with blk := { d.blk with order := [] } } : DF).eval.rows).Perm d.eval.rows := by
  have hop : Op.orderBy ≠ Op.noOp := by decide
  have hlim : d.blk.limit = none := h.2.2.2.2 (by rw [hl]; decide)
  have hi0 : initCond Op.orderBy = false := by decide
  have hw0 : wrapCond Op.orderBy Op.orderBy = false := by decide
  have hent : enter .orderBy d = d := by
    simp [enter, afterInit, maybeWrap, hl, newOp_tag _ _ hop, hi0, hw0]
  constructor
  · simp only [DF.apply, tag_orderBy, wrapper_eq _ hop, hent]
    simp only [bodyOrderBy, orderByAppend, DF.eval, Table.sort, evalBlock, hlim, stLimit, stOrder]
    cases k2 with
    | nil => exact absurd rfl hk
    | cons k ks => simp
  · simp only [DF.eval, evalBlock, hlim, stLimit, stOrder]
    cases d.blk.order with
    | nil => exact List.Perm.refl _
    | cons k ks => exact (sortBy_perm _ _).symm

/-- The specification's `orderBy` really sorts, for every table and key list (directions and NULL
    placement included): same columns, a permutation of the rows, every earlier row may precede every
    later one.  (`Table.sort` uses one particular stable sort; nothing is claimed about tie order.) -/
theorem C01_sort_spec (T : Table) (keys : List OrdKey) :
    (T.sort keys).cols = T.cols ∧ (T.sort keys).rows.Perm T.rows ∧
    (T.sort keys).rows.Pairwise (fun r1 r2 => rowLe T.cols keys r1 r2 = true) := sort_spec T keys

/-- **row order after the last orderBy**: for any in-scope chain that ends with `orderBy keys`, what the
    pipeline returns is a permutation of the sequential result *before* that step, sorted by the keys. -/
theorem C01_last_orderBy_sorted (T : Table) (steps : List Step) (keys : List OrdKey) (hT : T.WF)
    (hs : StepsWF T (steps ++ [Step.orderBy keys])) (hsc : noAdjacentOrderBy (steps ++ [Step.orderBy keys]) = true)
    (hin : (steps ++ [Step.orderBy keys]).all Step.inTheorem = true) :
    let out := ((DF.init T).run (steps ++ [Step.orderBy keys])).eval
    out.cols = (specRun T steps).cols ∧ out.rows.Perm (specRun T steps).rows ∧
    out.rows.Pairwise (fun r1 r2 => rowLe (specRun T steps).cols keys r1 r2 = true) := by
  intro out
  have h := C01_partial T (steps ++ [Step.orderBy keys]) hT hs hsc hin
  have e : out = (specRun T steps).sort keys := by
    simp only [out, h, specRun, List.foldl_append, List.foldl_cons, List.foldl_nil, specStep]
  rw [e]
  exact sort_spec _ keys

/-! ### what `replace` computes per cell: a simultaneous lookup, not a cascade of single replacements -/

/-- the value of the first pair whose key equals the cell (SQL `=`: never for NULL), else the cell itself -/
def replaceVal (v : Val) : List (Val × Val) → Val
  | [] => v
  | (o, n) :: rest => if isTrue (binSem .eq v o) then n else replaceVal v rest

theorem C01_replace_lookup (cols : List Name) (r : Row) (c : Name) (pairs : List (Val × Val)) :
    eval cols r (replaceExpr c pairs) = replaceVal (lookup cols r c) pairs := by
  induction pairs with
  | nil => simp [replaceExpr, eval, replaceVal]
  | cons p rest ih => obtain ⟨o, n⟩ := p; simp [replaceExpr, eval, replaceVal, ih]

/-- a swap stays a swap: 1 ↦ 2 and 2 ↦ 1 at once (a cascade would send both to 1) -/
example : replaceVal (.int 1) [(.int 1, .int 2), (.int 2, .int 1)] = .int 2
        ∧ replaceVal (.int 2) [(.int 1, .int 2), (.int 2, .int 1)] = .int 1
        ∧ replaceVal .null [(.int 1, .int 2)] = .null := by decide

/-! ### non-vacuity: a concrete program and table meet every hypothesis -/

def exTable : Table := { cols := ["x", "y"], rows := [[.int 1, .null], [.int 1, .null], [.null, .int 3], [.int 2, .int 0]] }
def exSteps : List Step :=
  [ .fillna (.int 7) ["y"], .replace [(.int 1, .int 2), (.int 2, .int 1)] ["x"], .wher (.bin .gt (.col "y") (.lit (.int 0))), .distinct,
    .withColumn "z" (.bin .add (.col "x") (.col "y")), .orderBy [{ name := "z", desc := true, nullsFirst := false }], .limit 2,
    .wher (.not (.isNull (.col "x"))), .drop ["y"] ]

instance decStepsWF : (T : Table) → (steps : List Step) → Decidable (StepsWF T steps)
  | _, [] => Decidable.isTrue trivial
  | T, s :: ss => by unfold StepsWF; exact @instDecidableAnd _ _ _ (decStepsWF (specStep T s) ss)

example : exTable.WF ∧ StepsWF exTable exSteps ∧ noAdjacentOrderBy exSteps = true ∧ exSteps.all Step.inTheorem = true := by decide
example : ((DF.init exTable).run exSteps).eval = { cols := ["x", "z"], rows := [[.int 2, .int 9]] } := by decide

/-! ### sort keys that are expressions

The engine reads a name inside an ORDER BY *expression* as the input column of the block; PySpark sorts by the value of
the expression over the output of the previous step.  `orderBy` (its guard regenerated as `Gen.orderRedefined`,
`Gen.orderExprGuard`, `Gen.orderGuardSkipsBareKeys`) freezes the block first when a sort expression mentions a name the
block redefined. -/

/-- **expression sort keys.** For every DataFrame state reachable by a chain (any `d` with the invariant), whatever
    faithful view sqlglot gives of the select list, every list of sort expressions over the current columns: after
    `orderBy`'s preparation the DataFrame still means the same table, and on EVERY input row each non-bare key has the
    same value under the engine's reading (names = input columns of the open block) as under PySpark's (names = columns
    of the current result).  The sort the engine performs is therefore the sort by PySpark's key values. -/
theorem C01_exprkey_resolution (v : Name × Expr → SelItem) (hv : Faithful v) (d : DF) (keys : List Expr)
    (h : Inv d) (hrefs : ∀ k ∈ keys, ∀ n ∈ k.refs, n ∈ d.outNames) :
    (prepOrderBy v keys d).eval = d.eval ∧ Inv (prepOrderBy v keys d) ∧
    ∀ k ∈ keys, k.isBare = false → ∀ r : Row,
      eval (prepOrderBy v keys d).outNames
        ((prepOrderBy v keys d).blk.sel.map (fun it => eval (prepOrderBy v keys d).src.cols r it.2)) k
      = eval (prepOrderBy v keys d).src.cols r k := by
  unfold prepOrderBy
  by_cases hw : exprKeyNeedsWrap v d.blk.sel keys = true
  · -- frozen: every item of the new block is an identity item
    rw [if_pos hw]
    refine ⟨wrap_eval d h, (wrap_fresh d h).inv, ?_⟩
    intro k hk _ r
    have hsel : d.wrap.blk.sel = identSel d.eval.cols := rfl
    have hcols : d.eval.cols = d.outNames := rfl
    show eval (d.wrap.blk.sel.map (·.1)) _ k = _
    apply eval_project_ident
    intro n hn
    refine ⟨(n, .col n), ?_, rfl⟩
    rw [hsel]
    exact find_identSel _ n (by rw [hcols]; exact hrefs k hk n hn)
  · -- not frozen: no sort expression mentions a redefined name, so every name it mentions is an identity item
    rw [if_neg hw]
    refine ⟨rfl, h, ?_⟩
    intro k hk hb r
    show eval (d.blk.sel.map (·.1)) _ k = _
    apply eval_project_ident
    intro n hn
    have hmem : n ∈ d.blk.sel.map (·.1) := hrefs k hk n hn
    obtain ⟨it, hit, hname⟩ := List.mem_map.mp hmem
    cases hf : d.blk.sel.find? (fun it => it.1 = n) with
    | none =>
      have := List.find?_eq_none.mp hf it hit
      simp [hname] at this
    | some it' =>
      refine ⟨it', rfl, ?_⟩
      have hit' : it' ∈ d.blk.sel := List.mem_of_find?_eq_some hf
      have hn' : it'.1 = n := by simpa using List.find?_some hf
      have hnr : orderRedefined (v it') = false := by
        cases hr : orderRedefined (v it') with
        | false => rfl
        | true =>
          exfalso
          apply hw
          have hin := redefined_mem v hv d.blk.sel it' hit' hr
          rw [hn'] at hin
          have hg : orderExprGuard = true := rfl
          have hs : orderGuardSkipsBareKeys = true := rfl
          unfold exprKeyNeedsWrap
          simp only [hg, hs, Bool.true_and, List.any_eq_true, Bool.and_eq_true, Bool.not_eq_true', decide_eq_true_eq]
          exact ⟨k, hk, hb, n, hn, hin⟩
      have := not_redefined_ident v hv it' hnr
      rw [this, hn']

/-- both ways sqlglot can show an identity item are covered -/
example : Faithful viewBare ∧ Faithful viewAliased := ⟨viewBare_faithful, viewAliased_faithful⟩

/-- non-vacuity: `select((v * -1).alias('v'), 'k').orderBy(col('v') + 1)` is frozen first, `select('k', 'v').orderBy(col('v') + 1)` is not -/
example :
    exprKeyNeedsWrap viewBare [("v", .bin .mul (.col "v") (.lit (.int (-1)))), ("k", .col "k")] [.bin .add (.col "v") (.lit (.int 1))] = true ∧
    exprKeyNeedsWrap viewBare [("k", .col "k"), ("v", .col "v")] [.bin .add (.col "v") (.lit (.int 1))] = false ∧
    exprKeyNeedsWrap viewAliased [("w", .col "v")] [.neg (.col "w")] = true ∧
    exprKeyNeedsWrap viewBare [("v", .neg (.col "v"))] [.col "v"] = false := by decide

/-! ### the composition of the method bodies is the one the source has now (Gen.C01Bodies)

Which further DataFrame methods a body runs, and whether it enters them through the `@operation` wrapper (which applies the
wrap rule again) or around it (`.__wrapped__`), or writes its clause into `self.expression` itself, decides in which SELECT
block the clause lands.  These decisions are regenerated; `DF.applyGen` composes the bodies from them. -/

/-- the hand-written composition in `DF.apply` is the regenerated one, for every DataFrame state and every step -/
theorem C01_bodies_agree (d : DF) (s : Step) : d.applyGen s = d.apply s := applyGen_eq d s

/-- **C01 for the regenerated composition**: the chain theorem holds for the pipeline built with the inner calls exactly as
    dataframe.py makes them now -/
theorem C01_partial_gen (T : Table) (steps : List Step) (hT : T.WF) (hs : StepsWF T steps)
    (hsc : noAdjacentOrderBy steps = true) (hin : steps.all Step.inTheorem = true) :
    (steps.foldl DF.applyGen (DF.init T)).eval = specRun T steps := by
  have e : DF.applyGen = DF.apply := by funext d s; exact applyGen_eq d s
  rw [e]
  exact C01_partial T steps hT hs hsc hin

/-! ### a chain's answer does not depend on the chains built before it

`_get_outer_select_columns` is recomputed on every call and `withColumns` writes its items into the list it was handed
(both regenerated).  `runHistory memo inpl` is the process semantics with the helper memoised (`memo`) and the write in place
(`inpl`) as parameters. -/

/-- remembering the column list is sound exactly as long as nobody writes into the remembered list: for either flag
    off, every call in every history — on whatever DataFrames the program holds — returns what the call returns alone -/
theorem C01_memo_sound (memo inpl : Bool) (hf : memo = false ∨ inpl = false) (calls : List (DF × Step)) :
    runHistory memo inpl [] calls = calls.map (fun c => c.1.apply c.2) :=
  runHistory_sound memo inpl hf calls [] memoOK_nil

/-- the source as it is now: the helper is not memoised, or the list it returns is not written into -/
theorem C01_gen_columns_not_shared : outerColsMemoised = false ∨ withColumnsMutatesOuterCols = false := by decide

/-- **history independence**, for the regenerated flags -/
theorem C01_history_independent (calls : List (DF × Step)) :
    runHistory outerColsMemoised withColumnsMutatesOuterCols [] calls = calls.map (fun c => c.1.apply c.2) :=
  C01_memo_sound _ _ C01_gen_columns_not_shared calls

/-- **C01 for several chains in one interpreter**: whatever chains over a source ran before, each in-scope chain returns
    PySpark's sequential result for that chain -/
theorem C01_scenario (T : Table) (chains : List (List Step)) (hT : T.WF)
    (hc : ∀ c ∈ chains, StepsWF T c ∧ noAdjacentOrderBy c = true ∧ c.all Step.inTheorem = true) :
    runScenarioGen T chains = chains.map (specRun T) := by
  unfold runScenarioGen runScenario
  rw [runScenarioFrom_sound _ _ C01_gen_columns_not_shared T chains [] memoOK_nil]
  apply List.map_congr_left
  intro c hmem
  obtain ⟨h1, h2, h3⟩ := hc c hmem
  exact C01_partial T c hT h1 h2 h3

/-- both flags on is unsound: after `df.withColumn('d', x + 1)`, the chain `df.drop('y')` over the *same* DataFrame returns a
    column it never asked for (with either flag off it returns `x` alone) -/
theorem C01_memo_written_unsound :
    let T : Table := { cols := ["x", "y"], rows := [[.int 1, .int 2]] }
    let c1 : List Step := [.withColumn "d" (.bin .add (.col "x") (.lit (.int 1)))]
    let c2 : List Step := [.drop ["y"]]
    runScenario true true T [c1, c2] = [{ cols := ["x", "y", "d"], rows := [[.int 1, .int 2, .int 2]] }, { cols := ["x", "d"], rows := [[.int 1, .int 2]] }]
    ∧ runScenario true false T [c1, c2] = [specRun T c1, specRun T c2]
    ∧ runScenario false true T [c1, c2] = [specRun T c1, specRun T c2]
    ∧ specRun T c2 = { cols := ["x"], rows := [[.int 1]] } := by decide

/-- non-vacuity of `C01_scenario`: two chains sharing their first step, the second built after the first -/
example :
    let T := exTable
    let chains : List (List Step) := [[.wher (.not (.isNull (.col "x"))), .withColumn "z" (.col "x")], [.wher (.not (.isNull (.col "x"))), .fillna (.int 0) ["y"]]]
    T.WF ∧ (∀ c ∈ chains, StepsWF T c ∧ noAdjacentOrderBy c = true ∧ c.all Step.inTheorem = true) := by decide

/-! ### why `drop` may not be folded into the open block

`drop` is a SELECT-class step that runs `select` through its wrapper (regenerated: `Gen.tag_drop`, `Gen.inner_drop`), so after a
DISTINCT, ORDER BY or LIMIT it projects from a new block.  Removing the items from the open block's own select list instead
is equivalent exactly under the two side conditions below — SQL de-duplicates and sorts the *projected* rows. -/

/-- for every block (any WHERE, select list, ORDER BY, LIMIT) that does not de-duplicate and sorts by none of the dropped
    names: narrowing its select list in place is PySpark's `drop` applied to the block's result -/
theorem C01_fold_narrow (b : Block) (T0 : Table) (ns : List Name) (hnd : (b.sel.map (·.1)).Nodup)
    (hd : b.distinct = false) (hk : ∀ k ∈ b.order, k.name ∉ ns) :
    evalBlock (b.narrow ns) T0 = specStep (evalBlock b T0) (.drop ns) :=
  evalBlock_narrow b T0 ns hnd hd hk

/-- non-vacuity: a block with WHERE, a computed item, ORDER BY and LIMIT meets the hypotheses -/
example :
    let b : Block := { wher := [.bin .gt (.col "a") (.lit (.int 0))], sel := [("a", .col "a"), ("k", .neg (.col "b")), ("c", .col "c")],
                       order := [{ name := "k" }], limit := some 2 }
    (b.sel.map (·.1)).Nodup ∧ b.distinct = false ∧ (∀ k ∈ b.order, k.name ∉ ["a"]) := by decide

/-- the first side condition is needed: with DISTINCT, rows that differ only in the dropped column collapse -/
theorem C01_fold_narrow_distinct_cex :
    let T0 : Table := { cols := ["a", "b"], rows := [[.int 1, .int 10], [.int 2, .int 10]] }
    let b : Block := { sel := identSel ["a", "b"], distinct := true, limit := some 5 }
    (evalBlock (b.narrow ["a"]) T0).rows = [[.int 10]] ∧ (specStep (evalBlock b T0) (.drop ["a"])).rows = [[.int 10], [.int 10]] := by decide

/-- so is the second: a dropped sort key is no longer there to sort by -/
theorem C01_fold_narrow_sortkey_cex :
    let T0 : Table := { cols := ["a", "b"], rows := [[.int 2, .int 10], [.int 1, .int 20]] }
    let b : Block := { sel := identSel ["a", "b"], order := [{ name := "a" }] }
    (evalBlock (b.narrow ["a"]) T0).rows = [[.int 10], [.int 20]] ∧ (specStep (evalBlock b T0) (.drop ["a"])).rows = [[.int 20], [.int 10]] := by decide

/-! ### engine scope: a statement the multi-threaded engine answers wrongly (third party)

The witness of the open known finding `H_engineNestedUnionOverSort`.  sqlframe's statement for it is right: the model (whose
block semantics is `Core/Sql.lean`) and the specification agree, and DuckDB itself returns the specification's rows when run
single-threaded; the check accepts the finding only under that condition. -/

def engineWitnessTable : Table := { cols := ["x", "y"], rows := [[.int (-1), .null], [.int 0, .int (-1)], [.int 1, .int (-1)]] }
def engineWitnessSteps : List Step :=
  [ .orderBy [{ name := "x", desc := true, nullsFirst := true }, { name := "y", desc := true, nullsFirst := false }],
    .unpivot [] ["x", "y"] "var" "val",
    .select [("w", .lit (.int 0)), ("p", .bin .add (.bin .mul (.lit (.int (-1))) (.lit (.int 2))) (.lit (.int (-1))))],
    .unpivot [] ["w", "p"] "var" "val" ]

/-- the witness is in the scope of `C01_partial`, is flagged by the driver, and means twelve rows (six per value column) -/
theorem C01_engine_witness :
    engineWitnessTable.WF ∧ StepsWF engineWitnessTable engineWitnessSteps ∧ noAdjacentOrderBy engineWitnessSteps = true ∧
    violated engineWitnessSteps = ["H_engineNestedUnionOverSort"] ∧
    (specRun engineWitnessTable engineWitnessSteps).rows.length = 12 ∧
    ((DF.init engineWitnessTable).run engineWitnessSteps).eval = specRun engineWitnessTable engineWitnessSteps := by decide

/-- the scope predicate is about the order of three steps, not about their neighbours: programs without the full pattern are
    not flagged -/
example : nestedUnionOverSort [.unpivot [] ["x", "y"] "var" "val", .orderBy [{ name := "val" }], .unpivot [] ["var", "val"] "a" "b"] = false
        ∧ nestedUnionOverSort [.orderBy [{ name := "x" }], .unpivot [] ["x"] "var" "val", .unpivot [] ["var", "val"] "a" "b"] = false
        ∧ nestedUnionOverSort exSteps = false := by decide

/-! ### the full statement, for the record

C01 as given quantifies over *all* single-input transformations.  `C01_partial` proves it for the
thirteen step kinds above.  Not covered by a theorem (they are exercised only by the correspondence
stream, implementation vs executable specification): 
`dropDuplicates(subset)`, `groupBy().agg()` as a step (see C06), the sort over expression keys as a step of the chain
(their *values* are settled by `C01_exprkey_resolution`), and the
tie order of a second `orderBy` (see `C01_orderBy_twice`). -/
def C01_full_statement : Prop :=
  ∀ (T : Table) (steps : List Step), T.WF → StepsWF T steps → ((DF.init T).run steps).eval = specRun T steps

end Sqlframe
