/-
Props/C20.lean — property theorems for C20 (activate() redirects every pyspark.sql import and is fully reversible).

Model: Impl/C20Activate.lean (import state + activate / deactivate / activate_context driven by Gen/Activate.lean);
specification: Impl/C20Spec.lean.  The full statement is `C20_full_statement` at the bottom; it is FALSE for the code
as it stands (see the `C20_cex_*` theorems); what is proved is listed in the header of each theorem.
-/
import SqlframeModel.Lemmas.C20Side
namespace Sqlframe.C20
open Sqlframe.Gen.Act Sqlframe.Gen.ActS

/-! ## 1. redirection -/

/-- result of one import statement issued right after `activate(e)` in a fresh interpreter -/
def importAfterActivate (e : String) (f : ImportForm) : Res :=
  (userImport Env.absent (activate Env.absent (some e) none none State.fresh).1 f).2

/-- one pass over the documented statements: activate succeeded, each statement yields the expected object up
    to `Obj.canon`, and exactly (see `C20_redirect_exact`) -/
def isFunctionsModuleImport (f : ImportForm) : Bool :=
  f == .importAs ["pyspark", "sql", "functions"] || f == .importModule ["pyspark", "sql", "functions"]

def redirectOk (e : String) : Bool :=
  let r := activate Env.absent (some e) none none State.fresh
  r.2 == none &&
  documentedImports.all (fun f =>
    match (userImport Env.absent r.1 f).2, expectedImport e f with
    | .ok o, some x =>
      o.canon == x && (if isFunctionsModuleImport f && !preimportFunctions then o == .dup e "functions" else o == x)
    | _, _ => false)

private theorem redirect_table : ∀ e ∈ engines, redirectOk e = true := by decide +kernel

/-- **C20_redirect.** For every engine of ENGINE_TO_PREFIX and every documented import statement (the package,
    its ten submodules, each documented class from the package and from its submodule, `pyspark.testing`),
    `activate(engine)` in a fresh interpreter succeeds and the statement yields sqlframe's object for that
    engine (the object named by the engine package's own export table; a module loaded a second time under
    the name `pyspark.sql.<f>` counts as that module — `Obj.canon`). -/
theorem C20_redirect : ∀ e ∈ engines,
    (activate Env.absent (some e) none none State.fresh).2 = none ∧
    ∀ f ∈ documentedImports, ∃ o, importAfterActivate e f = .ok o ∧ expectedImport e f = some o.canon := by
  intro e he
  have h := redirect_table e he
  unfold redirectOk at h
  simp only [Bool.and_eq_true, beq_iff_eq, List.all_eq_true] at h
  refine ⟨h.1, ?_⟩
  intro f hf
  have h2 := h.2 f hf
  unfold importAfterActivate
  cases hr : (userImport Env.absent (activate Env.absent (some e) none none State.fresh).1 f).2 with
  | error x => rw [hr] at h2; simp at h2
  | ok o =>
    rw [hr] at h2
    cases hx : expectedImport e f with
    | none => rw [hx] at h2; simp at h2
    | some x =>
      rw [hx] at h2
      simp only [Bool.and_eq_true, beq_iff_eq] at h2
      exact ⟨o, rfl, by rw [h2.1]⟩

/-- **C20_redirect_exact.** Identity, not only origin: every documented statement yields *the* sqlframe
    module/class object, except `import pyspark.sql.functions as F` / `importlib.import_module("pyspark.sql.functions")`,
    which in a fresh interpreter execute sqlframe/<e>/functions.py a second time under the name
    pyspark.sql.functions (unless activate pre-imports the engine's `functions`). -/
theorem C20_redirect_exact : ∀ e ∈ engines, ∀ f ∈ documentedImports,
    importAfterActivate e f =
      .ok (if isFunctionsModuleImport f && !preimportFunctions then .dup e "functions"
           else (expectedImport e f).getD .mock) := by
  intro e he f hf
  have h := redirect_table e he
  unfold redirectOk at h
  simp only [Bool.and_eq_true, beq_iff_eq, List.all_eq_true] at h
  have h2 := h.2 f hf
  unfold importAfterActivate
  cases hr : (userImport Env.absent (activate Env.absent (some e) none none State.fresh).1 f).2 with
  | error x => rw [hr] at h2; simp at h2
  | ok o =>
    rw [hr] at h2
    cases hx : expectedImport e f with
    | none => rw [hx] at h2; simp at h2
    | some x =>
      rw [hx] at h2
      simp only [Bool.and_eq_true, beq_iff_eq] at h2
      have h3 := h2.2
      cases hc : (isFunctionsModuleImport f && !preimportFunctions) with
      | true =>
        have hc' : isFunctionsModuleImport f = true ∧ (!preimportFunctions) = true := by
          simpa [Bool.and_eq_true] using hc
        rw [if_pos hc'] at h3
        simp only [beq_iff_eq] at h3
        simp [h3]
      | false =>
        have hc' : ¬ (isFunctionsModuleImport f = true ∧ (!preimportFunctions) = true) := by
          intro h; have : (isFunctionsModuleImport f && !preimportFunctions) = true := by simpa [Bool.and_eq_true] using h
          rw [hc] at this; cases this
        rw [if_neg hc'] at h3
        simp only [beq_iff_eq] at h3
        simp [h3]

/-! ## 2. deactivate -/

/-- **C20_deactivate (real pyspark absent).** From any state whose modelled sys.modules keys start with
    "pyspark" (every reachable state: `C20_reachable_keys`), `deactivate()` completes, leaves no `pyspark*`
    entry in sys.modules and clears ACTIVATE_CONFIG — the pre-activation state of an interpreter without
    pyspark. -/
theorem C20_deactivate_absent (st : State) (hK : KeysOk st) :
    (deactivate Env.absent st).2 = none ∧ (deactivate Env.absent st).1.mods = [] ∧
    (deactivate Env.absent st).1.config = [] := by
  obtain ⟨_, _, _, _, _, _, _, hcfg, hexc, habs⟩ := deactivate_spec Env.absent envOk_absent st hK
  have hnone : (deactivate Env.absent st).2 = none := by
    cases h : (deactivate Env.absent st).2 with
    | none => rfl
    | some x =>
      obtain ⟨rm, hrm, _⟩ := hexc x h
      simp [Env.absent] at hrm
  have hclears : stepsB1 deactSteps = true ∨ stepsB2 deactSteps = true := by decide
  refine ⟨hnone, habs rfl, hcfg ?_⟩
  rcases hclears with h | h
  · exact Or.inl h
  · exact Or.inr ⟨h, hnone⟩

/-- **C20_deactivate (real pyspark importable).** If every tracked real module re-imports without raising,
    `deactivate()` completes, clears the configuration, and every remaining `pyspark*` entry is a real pyspark
    module (no mock, no sqlframe module is left). -/
theorem C20_deactivate_importable (env : Env) (hE : EnvOk env) (hok : ∀ rm ∈ env.real, rm.raises = none)
    (st : State) (hK : KeysOk st) :
    (deactivate env st).2 = none ∧ (deactivate env st).1.config = [] ∧
    (∀ k o, aget (deactivate env st).1.mods k = some o → o.isReal = true) := by
  obtain ⟨_, hreal, _, _, _, _, _, hcfg, hexc, _⟩ := deactivate_spec env hE st hK
  have hnone : (deactivate env st).2 = none := by
    cases h : (deactivate env st).2 with
    | none => rfl
    | some x =>
      obtain ⟨rm, hrm, hr⟩ := hexc x h
      rw [hok rm hrm] at hr; cases hr
  have hclears : stepsB1 deactSteps = true ∨ stepsB2 deactSteps = true := by decide
  refine ⟨hnone, hcfg ?_, hreal⟩
  rcases hclears with h | h
  · exact Or.inl h
  · exact Or.inr ⟨h, hnone⟩

/-- the repaired shape: when the configuration is cleared before the re-import, it is cleared even if a real
    re-import raises (vacuous for the source as it stands, where it is cleared last) -/
theorem C20_deactivate_clears_first (env : Env) (hE : EnvOk env) (st : State) (hK : KeysOk st)
    (h : stepsB1 deactSteps = true) : (deactivate env st).1.config = [] :=
  (deactivate_spec env hE st hK).2.2.2.2.2.2.2.1 (Or.inl h)

/-- `deactivate()` can only fail with an exception raised by a real re-import (ImportError is caught). -/
theorem C20_deactivate_failure_source (env : Env) (hE : EnvOk env) (st : State) (hK : KeysOk st) (x : Exc)
    (h : (deactivate env st).2 = some x) : ∃ rm ∈ env.real, rm.raises = some x :=
  (deactivate_spec env hE st hK).2.2.2.2.2.2.2.2.1 x h

/-- the environment of this sandbox, reduced to what matters: `import pyspark` works,
    `import pyspark.testing` raises AttributeError (numpy 2: `np.NaN`) -/
def sandboxEnv : Env :=
  { real := [ { name := "pyspark", raises := none, closure := ["pyspark", "pyspark.sql", "pyspark.sql.functions"] },
              { name := "pyspark.testing", raises := some .attributeError,
                closure := ["pyspark", "pyspark.sql", "pyspark.sql.functions", "pyspark.testing.utils"] } ],
    brokenPkgs := [] }

/-- **counterexample for H_realImportsOk.** `activate("duckdb", conn=c1); deactivate()` where the real
    `pyspark.testing` raises while being re-imported: `deactivate()` raises that exception and
    ACTIVATE_CONFIG keeps the connection. -/
theorem C20_cex_realImportsOk : deactGuarded deactSteps = false →
    let r := step sandboxEnv (step sandboxEnv State.fresh (.activate (some "duckdb") (some 1) none)).1 .deactivate
    r.2 = .raised .attributeError ∧ r.1.config = [("sqlframe.conn", .conn 1)] := by decide +kernel

/-! ## 3. activate_context -/

private theorem runCalls_nil (env : Env) (st : State) : runCalls env none none none [] st = (st, none) := rfl

private theorem runCalls_deact (env : Env) (st : State) :
    runCalls env none none none [.deactivate] st = deactivate env st := by
  simp only [runCalls, runCall]
  cases h : deactivate env st with
  | mk s r => cases r <;> rfl

/-- **C20_context (structure).** Leaving an `activate_context` block in a way whose handler / else / finally
    contains `deactivate()` (`exitCleansUp k`, i.e. `H_ctxFinally` for that exit) runs `deactivate()` exactly once —
    for the normal exit, an `Exception`, and a `BaseException` that is not an `Exception` alike. -/
theorem C20_context_runs_deactivate (env : Env) (st : State) (n : Nat) (hc : st.ctx = n + 1) (k : ExitKind)
    (h : exitCleansUp k = true) :
    (ctxExit env k st).1 = (deactivate env { st with ctx := n }).1 := by
  have hshape : ∀ k : ExitKind, exitCleansUp k = true →
      (exitSegment ctxIR k = [.deactivate] ∧ ctxIR.fin = []) ∨ (exitSegment ctxIR k = [] ∧ ctxIR.fin = [.deactivate]) := by
    intro k; cases k <;> decide
  unfold ctxExit
  simp only [hc]
  rcases hshape k h with ⟨h1, h2⟩ | ⟨h1, h2⟩
  · simp only [h1, h2, runCalls_deact, runCalls_nil]
  · simp only [h1, h2, runCalls_deact, runCalls_nil]

/-- **C20_context (real pyspark absent).** If the block was entered (depth ≥ 1) and the exit kind is covered
    (`H_ctxFinally ∨ normal`), then after the exit no `pyspark*` entry and no stored configuration is left:
    the state of an interpreter in which sqlframe was never activated. -/
theorem C20_context_partial (st : State) (hK : KeysOk st) (n : Nat) (hc : st.ctx = n + 1) (k : ExitKind)
    (h : exitCleansUp k = true) :
    (ctxExit Env.absent k st).1.mods = [] ∧ (ctxExit Env.absent k st).1.config = [] ∧
    (ctxExit Env.absent k st).1.ctx = n := by
  rw [C20_context_runs_deactivate Env.absent st n hc k h]
  have hK' : KeysOk { st with ctx := n } := hK
  obtain ⟨_, h2, h3⟩ := C20_deactivate_absent _ hK'
  exact ⟨h2, h3, (deactivate_spec Env.absent envOk_absent _ hK').2.2.2.1⟩

/-- the source as it stands cleans up on every kind of exit (fails to check when a kind is left uncovered) -/
theorem C20_context_all_exits : ∀ k : ExitKind, exitCleansUp k = true := by intro k; cases k <;> decide

/-- **counterexample for H_ctxFinally.** `with activate_context("duckdb", conn=c1): raise <k>` where the exit kind
    `k` is not cleaned up: the exception skips `deactivate()`; the mock package, the redirected modules and the
    connection stay.  (Vacuous while every exit kind is covered.) -/
theorem C20_cex_ctxFinally : ∀ k : ExitKind, exitCleansUp k = false →
    let st := run Env.absent State.fresh [.ctxEnter (some "duckdb") (some 1) none, .ctxExit k]
    aget st.mods "pyspark" = some .mock ∧ aget st.mods "pyspark.sql" = some (.pkg "duckdb") ∧
    st.config = [("sqlframe.conn", .conn 1)] ∧ st.cur = some "duckdb" := by
  intro k; cases k <;> decide +kernel

/-- **counterexample for H_ctxNotNested.** `activate("duckdb"); with activate_context("standalone"): pass`:
    the block's exit deactivates everything instead of restoring the duckdb activation. -/
theorem C20_cex_ctxNotNested :
    let evs := [Event.activate (some "duckdb") none none, .ctxEnter (some "standalone") none none, .ctxExit .normal]
    (run Env.absent State.fresh evs).mods = [] ∧
    ((specTrace Env.absent Spec.init evs).getLast?.map (·.2.active)) = some (some "duckdb") := by decide +kernel

/-! ## 4. no mixture (any number of activations, in any order) -/

/-- what "no mixture" means for one state: every entry under a documented `pyspark.sql*` key belongs to the
    engine whose activation is in force; when none is in force the entries are real pyspark modules -/
def NoMixture (st : State) : Prop :=
  ∀ k ∈ docSqlKeys, ∀ o, aget st.mods k = some o →
    match st.cur with
    | some e => o.owner = some e
    | none => o.isReal = true

theorem noMixture_of_inv (st : State) (h : Inv st) : NoMixture st := by
  intro k hk o ho
  have hm := h.mix k o ho
  unfold ownedBy at hm
  cases hc : st.cur with
  | some e =>
    simp only
    cases hown : o.owner with
    | some e' => rw [hown, hc] at hm; simp only at hm; cases hm; rfl
    | none => rw [hown] at hm; simp only at hm; have := (hm hk).1; rw [hc] at this; cases this
  | none =>
    simp only
    cases hown : o.owner with
    | some e' => rw [hown, hc] at hm; simp only at hm; cases hm
    | none => rw [hown] at hm; exact (hm hk).2

/-- **C20_no_mixture_partial.** For every environment and every list — of any length — of
    activate / deactivate / activate_context-enter / activate_context-exit events (any engine names, known or not,
    any connection/config arguments, any exit kinds, any nesting), started in a fresh interpreter: under
    `H_functionsRebound` (activate always rebinds `functions`, or no engine is activated after an event that may
    have loaded a `pyspark.sql.functions` module) the final import state has no mixture. -/
theorem C20_no_mixture_partial (env : Env) (hE : EnvOk env) (evs : List Event)
    (hact : evs.all Event.actOnly = true) (hH : H_functionsRebound env evs = true) :
    NoMixture (run env State.fresh evs) := by
  apply noMixture_of_inv
  apply run_inv env hE evs State.fresh hact inv_fresh (Or.inl fnState_fresh)
  unfold H_functionsRebound at hH
  simpa [Bool.or_eq_true] using hH

/-- **counterexample for H_functionsRebound.** `activate("duckdb"); import pyspark.sql.functions as F;
    activate("standalone")`: the standalone package has no `functions` attribute yet, so
    sys.modules["pyspark.sql.functions"] stays the module loaded from sqlframe/duckdb/functions.py while every
    other entry is standalone's (a mixture), and `import pyspark.sql.functions as F` now raises ImportError. -/
theorem C20_cex_functionsRebound : preimportFunctions = false →
    let st := run Env.absent State.fresh
      [.activate (some "duckdb") none none, .userImport (.importAs ["pyspark", "sql", "functions"]),
       .activate (some "standalone") none none]
    st.cur = some "standalone" ∧ aget st.mods "pyspark.sql.functions" = some (.dup "duckdb" "functions") ∧
    aget st.mods "pyspark.sql.session" = some (.file "standalone" "session") ∧
    (userImport Env.absent st (.importAs ["pyspark", "sql", "functions"])).2 = .error .importError := by
  decide +kernel

/-- the same root cause with a real pyspark installed: `activate("duckdb"); deactivate(); activate("duckdb")`
    leaves the REAL `pyspark.sql.functions` (re-imported by deactivate) in place while duckdb is active. -/
theorem C20_cex_functionsRebound_real : preimportFunctions = false →
    let env : Env := { real := [{ name := "pyspark", raises := none,
                                   closure := ["pyspark", "pyspark.sql", "pyspark.sql.functions"] }], brokenPkgs := [] }
    let st := run env State.fresh [.activate (some "duckdb") none none, .deactivate, .activate (some "duckdb") none none]
    st.cur = some "duckdb" ∧ aget st.mods "pyspark.sql.functions" = some (.real "pyspark.sql.functions") := by
  decide +kernel

/-! ## 5. history independence -/

/-- **C20_history.** After ANY activation-only history (in scope), a successful `activate(e)` binds every
    documented `pyspark.sql*` key (all but `functions` unless activate pre-imports it) to exactly engine e's
    module for that key: the redirect table is a function of the last activation alone. -/
theorem C20_history (env : Env) (hE : EnvOk env) (evs : List Event) (e0 : String) (c : Option Nat) (d : Option String)
    (hact : evs.all Event.actOnly = true)
    (hH : H_functionsRebound env (evs ++ [.activate (some e0) c d]) = true)
    (he : lower e0 ∈ engines) (hb : env.brokenPkgs.contains (lower e0) = false) :
    let st := run env State.fresh (evs ++ [.activate (some e0) c d])
    st.cur = some (lower e0) ∧
    ∀ k ∈ docSqlKeys, (k ≠ fnKey ∨ preimportFunctions = true) →
      (k = "pyspark.sql" ∧ aget st.mods k = some (.pkg (lower e0))) ∨
      (∃ f, k = "pyspark.sql." ++ f ∧ aget st.mods k = some (.file (lower e0) f)) := by
  -- the state before the last activation satisfies the invariant
  have hrun : ∀ (l : List Event) (s : State), run env s (l ++ [.activate (some e0) c d]) =
      (step env (run env s l) (.activate (some e0) c d)).1 := by
    intro l
    induction l with
    | nil => intro s; rfl
    | cons a t ih => intro s; simp only [List.cons_append, run]; exact ih _
  have hHH : preimportFunctions = true ∨ noActivationAfterFunctions env (evs ++ [.activate (some e0) c d]) = true := by
    unfold H_functionsRebound at hH; simpa [Bool.or_eq_true] using hH
  -- split the hypothesis: the prefix is in scope, and FnState holds before the last activation
  have hpre : ∀ (l : List Event) (s : State), l.all Event.actOnly = true → Inv s → FnState s →
      (preimportFunctions = true ∨ noActivationAfterFunctions env (l ++ [.activate (some e0) c d]) = true) →
      Inv (run env s l) ∧ FnState (run env s l) := by
    intro l
    induction l with
    | nil => intro s _ hI hF _; exact ⟨hI, hF⟩
    | cons a t ih =>
      intro s ha hI hF hh
      simp only [List.all_cons, Bool.and_eq_true] at ha
      obtain ⟨h1, h2⟩ := step_inv env hE s a ha.1 hI (Or.inl hF)
      simp only [run]
      have hF1 : FnState (step env s a).1 := by
        rcases hh with hp | hp
        · exact h2 hF (Or.inl hp)
        · simp only [List.cons_append, noActivationAfterFunctions, Bool.and_eq_true] at hp
          cases ht : a.touchesFunctions env with
          | false => exact h2 hF (Or.inr ht)
          | true =>
            have := hp.1
            simp [ht, Event.isEngineActivation] at this
      apply ih _ ha.2 h1 hF1
      rcases hh with hp | hp
      · exact Or.inl hp
      · right
        simp only [List.cons_append, noActivationAfterFunctions, Bool.and_eq_true] at hp
        exact hp.2
  obtain ⟨hI, hF⟩ := hpre evs State.fresh hact inv_fresh fnState_fresh hHH
  simp only [hrun]
  -- unfold the last activation
  obtain ⟨hpI, hpF⟩ := activatePre_inv c d (run env State.fresh evs) hI
  have hp : prefixOf (lower e0) = some (preOf (lower e0)) := (facts_of (lower e0) he).pre
  obtain ⟨_, _, _, _, hcur, hbind⟩ := activateEngine_inv (lower e0) he _ hpI (hpF hF)
  have hstep : (step env (run env State.fresh evs) (.activate (some e0) c d)).1 =
      (activateEngine (lower e0) (preOf (lower e0)) (activatePre c d (run env State.fresh evs))).1 := by
    simp only [step, activate, hp, hb, Bool.false_eq_true, if_false]
  rw [hstep]
  exact ⟨hcur, hbind⟩

/-! ## 6. reachable states -/

/-- every state reached by activation events keeps all modelled sys.modules keys under the `pyspark` prefix
    (the hypothesis of the `C20_deactivate_*` / `C20_context_*` theorems) -/
theorem C20_reachable_keys (env : Env) (hE : EnvOk env) (evs : List Event)
    (hact : evs.all Event.actOnly = true) (hH : H_functionsRebound env evs = true) :
    KeysOk (run env State.fresh evs) := by
  have := run_inv env hE evs State.fresh hact inv_fresh (Or.inl fnState_fresh)
    (by unfold H_functionsRebound at hH; simpa [Bool.or_eq_true] using hH)
  exact this.keys

/-! ## 7. sessions -/

/-- the session `SparkSession.builder.getOrCreate()` yields right after a single activation, for the modelled
    engines and argument shapes, is the one the specification demands (engine's class, the given connection
    or a default one, the configured input dialect). -/
def sessionCases : List (String × Option Nat × Option String) :=
  [("duckdb", none, none), ("duckdb", some 1, none), ("duckdb", none, some "duckdb"), ("duckdb", some 2, some "bigquery"),
   ("standalone", none, none), ("standalone", some 1, none), ("standalone", none, some "duckdb"), ("DuckDB", some 3, none)]

def sessionOk (x : String × Option Nat × Option String) : Bool :=
  let evs := [Event.activate (some x.1) x.2.1 x.2.2, .sessionCreate]
  match (trace Env.absent State.fresh evs).getLast?, (specTrace Env.absent Spec.init evs).getLast? with
  | some (o, _), some (w, _) => w.meets o && (match o with | .session _ _ _ => true | _ => false)
  | _, _ => false

theorem C20_session_cases : ∀ x ∈ sessionCases, sessionOk x = true := by decide +kernel

/-- **counterexample for H_sessionSingleton.** `activate("duckdb"); getOrCreate(); activate("standalone");
    getOrCreate()` returns the DuckDB session again: the session object is a process-wide singleton. -/
theorem C20_cex_sessionSingleton :
    (trace Env.absent State.fresh
      [.activate (some "duckdb") (some 1) none, .sessionCreate, .activate (some "standalone") none none, .sessionCreate]).getLast?.map (·.1)
      = some (.session "duckdb" (.given 1) "spark") := by decide +kernel

/-- **counterexample for H_knownEngine.** `activate("duckdb"); activate("nosuchengine")` raises ValueError only
    after it has installed a fresh mock: `import pyspark.sql.types as T` now yields a MagicMock. -/
theorem C20_cex_knownEngine :
    let st := run Env.absent State.fresh [.activate (some "duckdb") none none, .activate (some "nosuchengine") none none]
    (step Env.absent (run Env.absent State.fresh [.activate (some "duckdb") none none]) (.activate (some "nosuchengine") none none)).2
      = .raised .valueError ∧
    (userImport Env.absent st (.importAs ["pyspark", "sql", "types"])).2 = .ok .mock := by decide +kernel

/-! ## 8. non-vacuity -/

def exEvents : List Event :=
  [.activate (some "duckdb") (some 1) none, .ctxEnter (some "standalone") none (some "duckdb"), .activate (some "Postgres") none none,
   .ctxExit .exn, .activate none none none, .deactivate, .activate (some "snowflake") (some 2) none, .activate (some "nosuchengine") none none]

/-- the hypotheses of C20_no_mixture_partial are met by a non-trivial history that ends with an engine active -/
example : exEvents.all Event.actOnly = true ∧ H_functionsRebound Env.absent exEvents = true ∧
    (run Env.absent State.fresh exEvents).cur = some "snowflake" ∧
    aget (run Env.absent State.fresh exEvents).mods "pyspark.sql.session" = some (.file "snowflake" "session") := by
  decide +kernel

/-- … and in an environment with a real pyspark -/
example : H_functionsRebound sandboxEnv [.activate (some "duckdb") none none, .activate (some "standalone") none none, .deactivate] = true ∧
    EnvOk sandboxEnv := by
  refine ⟨by decide +kernel, ?_⟩
  intro r hr
  simp only [sandboxEnv, List.mem_cons, List.not_mem_nil, or_false] at hr
  rcases hr with rfl | rfl <;> decide

/-- the hypothesis of C20_context_partial: a block entered from a fresh interpreter -/
example : (run Env.absent State.fresh [.ctxEnter (some "duckdb") (some 1) none]).ctx = 0 + 1 ∧
    (run Env.absent State.fresh [.ctxEnter (some "duckdb") (some 1) none]).config ≠ [] := by decide +kernel

/-- C20_deactivate_importable is not vacuous: an environment where everything re-imports -/
example : let env : Env := { real := [{ name := "pyspark", raises := none, closure := ["pyspark", "pyspark.sql"] }], brokenPkgs := [] }
    (∀ rm ∈ env.real, rm.raises = none) ∧
    aget (deactivate env (run env State.fresh [.activate (some "duckdb") none none])).1.mods "pyspark.sql" = some (.real "pyspark.sql") := by
  decide +kernel

/-- does the model satisfy the specification at every step of the event list? -/
def specOk (env : Env) (evs : List Event) : Bool :=
  ((specTrace env Spec.init evs).zip (trace env State.fresh evs)).all
    (fun x => x.1.1.meets x.2.1 && stateMeets x.1.2 x.2.2)

/-! ## 8a. the caller's config dict is only read -/

/-- the conn/config statements of `activate()` as they stand never store into a dict that may be the caller's
    (fails to check when `config[...] = conn` is reachable with `config` bound to the caller's dict) -/
theorem C20_cfg_alias_free : aliasFree cfgStmts false = true := by decide

theorem sessionCreate_caller (env : Env) (st : State) : (sessionCreate env st).1.caller = st.caller := by
  have h1 := (userImport_side env st (.fromImport ["pyspark", "sql"] "SparkSession")).caller
  unfold sessionCreate
  cases hu : userImport env st (.fromImport ["pyspark", "sql"] "SparkSession") with
  | mk st1 r =>
    rw [hu] at h1
    simp only at h1
    cases r with
    | error x => exact h1
    | ok o =>
      cases o with
      | cls e n =>
        simp only
        split
        · exact h1
        · split
          · exact h1
          · rw [createVia_side]; exact h1
      | _ => exact h1

theorem step_callerIntact (env : Env) (st : State) (ev : Event) (h : callerIntact st = true) :
    callerIntact (step env st ev).1 = true := by
  cases ev with
  | activate e c d => exact (activate_keeps C20_cfg_alias_free env e c d st).caller h
  | deactivate => exact (Keeps.of_side (deactivate_side env st)).caller h
  | ctxEnter e c d => exact (ctxEnter_keeps C20_cfg_alias_free env e c d st).caller h
  | ctxExit k => exact (ctxExit_keeps C20_cfg_alias_free env k st).caller h
  | userImport f =>
    have h1 := (Keeps.of_side (userImport_side env st f)).caller h
    simp only [step]
    cases hu : userImport env st f with
    | mk st1 r => rw [hu] at h1; cases r <;> exact h1
  | sessionCreate =>
    simp only [step]
    unfold callerIntact at h ⊢
    rw [sessionCreate_caller]; exact h

/-- **C20_caller_config_untouched.** For every environment and every event list — activations and context blocks
    with any arguments (the same settings dict object handed to any number of them), deactivations, exits of any
    kind, user imports, session creations, in any order and number — every config dict the caller ever passed still
    has exactly the content it was created with: nothing an activation was given (its connection in particular) can
    travel to a later activation through the caller's own dict. -/
theorem C20_caller_config_untouched (env : Env) (evs : List Event) :
    callerIntact (run env State.fresh evs) = true := by
  have : ∀ (l : List Event) (st : State), callerIntact st = true → callerIntact (run env st l) = true := by
    intro l
    induction l with
    | nil => intro st h; exact h
    | cons ev rest ih => intro st h; exact ih _ (step_callerIntact env st ev h)
  exact this evs State.fresh rfl

/-- a non-trivial instance: the same settings dict is handed to two activations, the first of which is also given a
    connection; the dict keeps its one entry and the second activation's stored configuration has no connection -/
example :
    let st := run Env.absent State.fresh [.activate (some "duckdb") (some 1) (some "duckdb"), .deactivate,
                                          .activate (some "standalone") none (some "duckdb")]
    st.caller = [("duckdb", callerInit "duckdb")] ∧ st.config = [("sqlframe.input.dialect", .str "duckdb")] := by
  decide +kernel

/-- … and the stored configuration after `activate(engine, conn, config)` from a cleared configuration is exactly what
    the call was given (instances over the argument shapes; the settings dict is the caller's shared object) -/
theorem C20_config_is_given : ∀ c ∈ [none, some 1], ∀ d ∈ [none, some "duckdb"],
    (activatePre c d State.fresh).config =
      (match c with | some n => [("sqlframe.conn", Cfg.conn n)] | none => []) ++
      (match d with | some x => [("sqlframe.input.dialect", Cfg.str x)] | none => []) := by decide +kernel

/-- **counterexample shape (vacuous for the source as it stands).** If `activate` stored the connection into its
    `config` argument (`config = config or {}; if conn: config[k] = conn; ACTIVATE_CONFIG.update(config)`), the caller's
    dict would carry the connection into a later activation that is given none. -/
theorem C20_cex_aliasing :
    let ss : List CfgStmt := [.rebind false, .connToLocal "sqlframe.conn", .itemsToGlobal]
    let st1 := (storeCfg (some 1) ss (ensureCaller State.fresh "duckdb", .alias "duckdb")).1
    let st2 := (storeCfg none ss ({ st1 with config := [] }, .alias "duckdb")).1
    aliasFree ss false = false ∧ callerIntact st1 = false ∧ aget st2.config "sqlframe.conn" = some (.conn 1) := by
  decide +kernel

/-! ## 8b. session creation that fails leaves nothing behind -/

/-- `DuckDBSession.__init__` as it stands makes the object look initialised (the base initialiser sets `_connection`,
    which the guard tests) only after every use of the connection that can raise (fails to check otherwise) -/
theorem C20_init_marks_last : marksLast duckInit = true := by decide

theorem sessionCreate_pristine (env : Env) (st : State) (hp : st.inst.pristine = true)
    (hno : ∀ e c d, (sessionCreate env st).2 ≠ .session e c d) : (sessionCreate env st).1.inst.pristine = true := by
  have h1 := (userImport_side env st (.fromImport ["pyspark", "sql"] "SparkSession")).inst
  unfold sessionCreate at hno ⊢
  cases hu : userImport env st (.fromImport ["pyspark", "sql"] "SparkSession") with
  | mk st1 r =>
    rw [hu] at h1 hno
    simp only at h1
    have hp1 : st1.inst.pristine = true := by rw [h1]; exact hp
    cases r with
    | error x => exact hp1
    | ok o =>
      cases o with
      | cls e n =>
        simp only at hno ⊢
        split
        · exact hp1
        · split
          · exact hp1
          · rename_i h2 h3
            simp only [h2, h3, if_false] at hno
            exact createVia_pristine C20_init_marks_last env e st1 hp1 hno
      | _ => exact hp1

theorem step_pristine (env : Env) (st : State) (ev : Event) (hp : st.inst.pristine = true)
    (hno : ∀ e c d, (step env st ev).2 ≠ .session e c d) : (step env st ev).1.inst.pristine = true := by
  cases ev with
  | activate e c d => simp only [step]; rw [(activate_keeps C20_cfg_alias_free env e c d st).inst]; exact hp
  | deactivate => simp only [step]; rw [(deactivate_side env st).inst]; exact hp
  | ctxEnter e c d => simp only [step]; rw [(ctxEnter_keeps C20_cfg_alias_free env e c d st).inst]; exact hp
  | ctxExit k => simp only [step]; rw [(ctxExit_keeps C20_cfg_alias_free env k st).inst]; exact hp
  | userImport f =>
    have h1 := (userImport_side env st f).inst
    simp only [step]
    cases hu : userImport env st f with
    | mk st1 r => rw [hu] at h1; cases r <;> (simp only at h1 ⊢; rw [h1]; exact hp)
  | sessionCreate => exact sessionCreate_pristine env st hp hno

/-- **C20_failed_sessions_leave_nothing.** For every environment (any set of unusable connections) and every event
    list of any length — activations, context blocks left in any way, deactivations, imports, and any number of
    `getOrCreate()` calls none of which returned a session (they raised: a connection that cannot be used, an unknown
    dialect, nothing active; or yielded a non-sqlframe object) — started in a state without a usable session object,
    there is still no usable session object afterwards: a session creation that fails leaves nothing that a later
    `getOrCreate()` of the duckdb engine would return as it is. -/
theorem C20_failed_sessions_leave_nothing (env : Env) (evs : List Event) :
    ∀ st : State, st.inst.pristine = true →
      (∀ os ∈ trace env st evs, ∀ e c d, os.1 ≠ .session e c d) →
      (run env st evs).inst.pristine = true := by
  induction evs with
  | nil => intro st hp _; exact hp
  | cons ev rest ih =>
    intro st hp hno
    simp only [run]
    apply ih
    · exact step_pristine env st ev hp (fun e c d => hno ((step env st ev).2, (step env st ev).1) (by simp [trace]) e c d)
    · intro os hos
      exact hno os (by simp only [trace, List.mem_cons]; exact Or.inr hos)

/-- **C20_session_after_failures.** In any state without a usable session object (in particular after any history of
    failed creations: `C20_failed_sessions_leave_nothing`), if `from pyspark.sql import SparkSession` yields the duckdb
    engine's session class and the activation gave a usable connection n and an accepted dialect,
    `SparkSession.builder.getOrCreate()` returns a DuckDB session on exactly that connection with that dialect. -/
theorem C20_session_after_failures (env : Env) (st st1 : State) (n : Nat)
    (himp : userImport env st (.fromImport ["pyspark", "sql"] "SparkSession") = (st1, .ok (.cls "duckdb" "DuckDBSession")))
    (hp : st.inst.pristine = true)
    (hc : (applyCfg (getBuilder st1 "duckdb") st1.config).conn = some n)
    (hgood : env.badConns.contains n = false)
    (hd : validDialects.contains (applyCfg (getBuilder st1 "duckdb") st1.config).dialect = true) :
    (sessionCreate env st).2 = .session "duckdb" (.given n) (applyCfg (getBuilder st1 "duckdb") st1.config).dialect := by
  have h1 := (userImport_side env st (.fromImport ["pyspark", "sql"] "SparkSession")).inst
  rw [himp] at h1
  simp only at h1
  have hp1 : st1.inst.pristine = true := by rw [h1]; exact hp
  have hinit : runInit env duckInit (.given n) none = (some (.given n), none) := by
    have hb : connIsBad env (.given n) = false := hgood
    simp [duckInit, runInit, hb]
  unfold sessionCreate
  rw [himp]
  have hpre : (some "DuckDBSession" == (prefixOf "duckdb").map (· ++ "Session")) = true := by decide
  simp only [hpre, Bool.not_true, Bool.false_eq_true, if_false, Bool.or_true, Bool.true_or, decide_true]
  exact createVia_good env st1 n hp1 hc hgood hd hinit

/-- the environment of the examples below: connection 3 cannot be used -/
def faultEnv : Env := { real := [], brokenPkgs := [], badConns := [3] }

/-- a history of failed session creations (an unusable connection inside a plain activation and inside a context block
    left by the exception, an unknown dialect), then an activation that gives everything anew -/
def exFailures : List Event :=
  [.activate (some "duckdb") (some 3) none, .sessionCreate, .deactivate,
   .ctxEnter (some "duckdb") (some 3) (some "nope"), .sessionCreate, .ctxExit .exn,
   .activate (some "duckdb") (some 2) (some "duckdb")]

/-- the hypotheses of the two theorems are met by that history, and the conclusion is the session the specification
    demands -/
example : (∀ os ∈ trace faultEnv State.fresh exFailures, ∀ e c d, os.1 ≠ .session e c d) ∧
    (run faultEnv State.fresh exFailures).inst = .allocated "duckdb" ∧
    (userImport faultEnv (run faultEnv State.fresh exFailures) (.fromImport ["pyspark", "sql"] "SparkSession")).2
      = .ok (.cls "duckdb" "DuckDBSession") ∧
    (applyCfg (getBuilder (run faultEnv State.fresh exFailures) "duckdb") (run faultEnv State.fresh exFailures).config).conn = some 2 ∧
    (sessionCreate faultEnv (run faultEnv State.fresh exFailures)).2 = .session "duckdb" (.given 2) "duckdb" ∧
    violated faultEnv (exFailures ++ [.sessionCreate]) = [] ∧ specOk faultEnv (exFailures ++ [.sessionCreate]) = true := by
  refine ⟨?_, by decide +kernel, by decide +kernel, by decide +kernel, by decide +kernel, by decide +kernel, by decide +kernel⟩
  have : (trace faultEnv State.fresh exFailures).all (fun os => match os.1 with | .session _ _ _ => false | _ => true) = true := by
    decide +kernel
  intro os hos e c d heq
  have := List.all_eq_true.mp this os hos
  rw [heq] at this
  cases this

/-- **counterexample for H_sessionSingleton (failed creation).** `activate("duckdb", conn=<unusable>); getOrCreate()`
    raises; `deactivate(); activate("standalone"); getOrCreate()` then returns the half-built DuckDBSession object
    (no connection): `_BaseSession.__new__` stored it before `__init__` ran. -/
theorem C20_cex_sessionSingleton_failed : singletonInNew = true →
    (trace faultEnv State.fresh
      [.activate (some "duckdb") (some 3) none, .sessionCreate, .deactivate, .activate (some "standalone") none none,
       .sessionCreate]).getLast?.map (·.1) = some (.session "duckdb" .none "spark") := by decide +kernel

/-- **counterexample for H_builderFresh.** `activate("duckdb", config={dialect: "nope"}); getOrCreate()` raises;
    after `deactivate(); activate("duckdb")` the next `getOrCreate()` raises again: the class-level builder still holds
    the dialect, although the stored configuration is empty. -/
theorem C20_cex_builderFresh :
    let evs := [Event.activate (some "duckdb") none (some "nope"), .sessionCreate, .deactivate,
                .activate (some "duckdb") none none, .sessionCreate]
    (trace Env.absent State.fresh evs).getLast?.map (·.1) = some (.raised .valueError) ∧
    (run Env.absent State.fresh evs).config = [] ∧
    (specTrace Env.absent Spec.init evs).getLast?.map (·.1) = some (.session "duckdb" .default "spark") ∧
    violated Env.absent evs = ["H_builderFresh"] := by decide +kernel

/-- **counterexample shape (vacuous for the source as it stands).** With the base initialiser BEFORE the registration
    that can raise (`super().__init__(conn or duckdb.connect()); …; self._conn.create_function(…)`), a failed
    `__init__` leaves `_connection` set: the guard of the next `__init__` skips the object. -/
theorem C20_cex_initOrder :
    let steps : List InitStep := [.superInit true, .setAttr "_last_result", .useConn true [.importError]]
    marksLast steps = false ∧ runInit faultEnv steps (.given 3) none = (some (.given 3), some .exception) := by
  decide +kernel

/-! ## 9. the full statement -/

/-- **C20 at full strength**: in every environment, for every event list (activations, deactivations, context
    enter/exit of any kind, user imports, session creation), every event's outcome and the import state after it
    are what the documentation promises.  NOT a theorem of the current code: `C20_full_statement_fails`. -/
def C20_full_statement : Prop := ∀ env evs, EnvOk env → specOk env evs = true

theorem C20_full_statement_fails : ¬ C20_full_statement := by
  intro h
  have := h Env.absent [.activate (some "duckdb") none none, .ctxEnter (some "standalone") none none, .ctxExit .normal]
    envOk_absent
  revert this
  decide +kernel

/-- every named scope hypothesis holds for this history and the model meets the specification on it (an instance;
    the general implication is established per component by the theorems above and is checked on every generated
    case by the correspondence harness, which reports a model-vs-specification failure without a violated
    hypothesis as a VIOLATION) -/
def exInScope : List Event :=
  [.activate (some "duckdb") (some 1) (some "duckdb"), .userImport (.fromImport ["pyspark", "sql", "session"] "SparkSession"),
   .sessionCreate, .deactivate, .ctxEnter (some "standalone") none none,
   .userImport (.fromImport ["pyspark", "sql"] "functions"), .ctxExit .normal]

example : violated Env.absent exInScope = [] ∧ specOk Env.absent exInScope = true := by decide +kernel

end Sqlframe.C20
