/-
Props/C13.lean — property theorems for C13 (temp views and `session.sql` interoperate faithfully with DataFrames).

Model: Impl/C13Views.lean around the regenerated Gen.Views (decisions of createOrReplaceTempView,
reader.table, catalog.add_table and the splice in session.sql).  Scope hypotheses: Impl/C13Scope.lean.

Reading guide
  `Evaluates db q T`            statement `q` evaluates to `T` over database `db` (engine semantics, name-based WITH)
  `evalLex db q`                value of `q` read the way Spark reads a WITH list (a CTE is visible to later
                                definitions and to the main query only)
  `splice norm reg q`           what `session.sql` builds from the parsed statement `q` and the registry `reg`
  `withViews norm reg vals db`  the specification (“bind”): every registered view name denotes a table holding
                                the registered frame's rows `vals`
Full statement vs what is proved: see the bottom of the file.
-/
import SqlframeModel.Lemmas.C13History
namespace Sqlframe
open Sqlframe.Views Sqlframe.Gen

/-! ### the decisions the theorems rest on (regenerated from the source on every run) -/

/-- the splice adds a view CTE iff no CTE of that name is present, appends, and targets the view's last CTE -/
theorem C13_gen_splice : genCfg.append = .ifAbsent ∧ genCfg.target = .last ∧ genCfg.pos = .append := by decide

/-- createOrReplaceTempView stores a wrapped copy under the normalised name; reader.table normalises the
    name the same way and consults the registry first; only table references are visited and renamed;
    the result of session.sql is wrapped -/
theorem C13_gen_registry :
    viewStores = .wrappedCopy ∧ viewNormalizesName = true ∧ tableNormalizesName = true ∧
    tableChecksViewsFirst = true ∧ viewRegistersColumns = true ∧
    spliceVisitsKinds = ["Table"] ∧ spliceRenamesKinds = ["Table"] ∧ spliceLookupKey = "name" ∧
    sqlWrapsResult = true := by decide

/-- `_convert_leaf_to_cte` moves the whole leaf SELECT into the new CTE (only its WITH list is cleared, and that
    list is kept in front of the new CTE); the new leaf is `SELECT <outer columns> FROM <new cte>` and nothing else -/
theorem C13_gen_wrap :
    cteClearedArgs = ["with"] ∧ wrapKeepsChain = true ∧ wrapLeafBuilders = ["from_", "select"] ∧
    wrapSelectsOuterColumns = true := by decide

/-! ### the splice -/

/-- **C13_splice.**  For every database, registry and parsed statement that meet the named scope hypotheses,
    the statement `session.sql` builds evaluates (over the plain database, WITH list bound by name as the
    engine does) to exactly what the user's statement means when it is read the way Spark reads it (`evalLex`:
    a CTE is visible to later definitions and to the main query only) over the database in which each view
    name denotes the registered frame's rows.  In particular a CTE named like a view hides the view exactly
    where it is in scope: a reference inside its own or an earlier definition still reads the view. -/
theorem C13_splice (norm : Name → Name) (reg : Registry) (q : Query) (db : Db) (vals : Name → Option Table)
    (H_noUserCteShadowsView : noShadow genCfg norm reg q = true)
    (H_noCteNameClash : noClash genCfg norm reg q = true)
    (H_noCteCapturesViewTable : noCapture genCfg norm reg q = true)
    (H_closedViews : viewsClosed genCfg norm reg q = true)
    (H_reregisterKeepsColumns : schemaFresh genCfg norm reg q = true)
    (H_uniqueOutputNames : ViewsWF genCfg norm reg q db)
    (H_starSourcesOrdered : starsOrdered q = true)
    (H_lexicalCtes : ctesNodup q = true ∧ lexicalRefs genCfg norm reg q = true)
    (hvals : ViewVals db reg vals) (T : Table) :
    Evaluates db (splice norm reg q) T ↔ evalLex (withViews norm reg vals db) q = some T :=
  splice_correct genCfg norm reg q C13_gen_splice.1 C13_gen_splice.2.1 C13_gen_splice.2.2
    H_noUserCteShadowsView H_noCteNameClash H_closedViews H_noCteCapturesViewTable H_reregisterKeepsColumns
    H_starSourcesOrdered H_lexicalCtes.1 H_lexicalCtes.2 db vals hvals H_uniqueOutputNames T

/-- what the execution of the frame returns (after the duplicate-name check of the hash renaming) is a value
    of the statement -/
theorem C13_exec_sound (db : Db) (fr : Frame) (T : Table) (h : execFrame db fr = some T) : Evaluates db fr.query T := by
  unfold execFrame at h
  split at h
  · exact ⟨_, h⟩
  · cases h

/-- **C13_lexical_nameBased.**  On every statement whose CTE names are pairwise distinct and whose definitions
    refer only to CTEs defined before them (or to names that are no CTE of the statement), Spark's reading of
    the WITH list and the engine's by-name reading agree — so for such statements “what the engine returns for
    q” and “what Spark means by q” are the same thing, and `C13_splice` speaks about both. -/
theorem C13_lexical_nameBased (db : Db) (q : Query) (hD : (names q.ctes).Nodup) (hO : orderedCtes q = true) (T : Table) :
    Evaluates db q T ↔ evalLex db q = some T := lexical_nameBased db q hD hO T

/-- **C13_chain_verbatim.**  Whatever else the statement mentions, the CTEs of a referenced view arrive in the
    statement `session.sql` builds exactly as the registry holds them: no table reference inside them is
    renamed (in particular a read of an engine table stays a read of that table when a temp view of the same
    name is referenced by the same statement). -/
theorem C13_chain_verbatim (norm : Name → Name) (reg : Registry) (q : Query)
    (H_noCteNameClash : noClash genCfg norm reg q = true)
    (H_noCteCapturesViewTable : noCapture genCfg norm reg q = true)
    (H_closedViews : viewsClosed genCfg norm reg q = true)
    (e : Entry) (he : e ∈ visited genCfg norm reg q) (n : Name) (b : Body) (hb : assoc e.frame.ctes n = some b) :
    assoc (splice norm reg q).ctes n = some b :=
  assoc_spliced_chain genCfg norm reg q C13_gen_splice.1 C13_gen_splice.2.2 H_noCteNameClash H_closedViews
    H_noCteCapturesViewTable e he n b hb

/-! ### session.table -/

/-- **C13_table.**  After `df.createOrReplaceTempView(name)`, `session.table(name')` for any spelling `name'`
    with the same normal form is the wrapped frame of `df`; other names are unaffected. -/
theorem C13_table (nm : Namer) (norm : Name → Name) (reg : Registry) (name name' : Name) (fr : Frame) (cols : List Name) :
    (norm name' = norm name → tableLookup norm (register nm norm reg name fr cols) name' = some (wrap nm fr)) ∧
    (norm name' ≠ norm name → tableLookup norm (register nm norm reg name fr cols) name' = tableLookup norm reg name') := by
  obtain ⟨hs, hvn, htn, htf, _⟩ := C13_gen_registry
  constructor
  · intro h
    simp only [tableLookup, htf, if_true, tableKey, htn, register, regKey, hvn, h, assoc_setAssoc_self,
      Option.map_some, storeFrame, hs]
  · intro h
    simp only [tableLookup, htf, if_true, tableKey, htn, register, regKey, hvn]
    rw [assoc_setAssoc_other _ _ _ _ h]

/-- … and the registered frame has exactly `df`'s rows and columns (given that the new CTE name is fresh and
    `df`'s column names are pairwise distinct) -/
theorem C13_table_value (nm : Namer) (db : Db) (fr : Frame) (hf : FreshName (nm fr.ctes fr.leaf) fr)
    (H_uniqueOutputNames : ∀ T₀, Evaluates db fr.query T₀ → T₀.WF) (T : Table) :
    Evaluates db (wrap nm fr).query T ↔ Evaluates db fr.query T :=
  wrap_value_wf C13_gen_wrap.1 C13_gen_wrap.2.1 nm db fr hf H_uniqueOutputNames T

/-- **C13_register_last_step.**  Whatever the last DataFrame operator of the registered frame is — `where`,
    `select`, `distinct` / `dropDuplicates`, `groupBy.agg`, `orderBy`, `limit` — the frame the registry holds has
    exactly the value of that operator applied to the value of the frame before it: the leaf → CTE conversion
    moves the whole leaf (all its clauses) into the CTE the view is later read through. -/
theorem C13_register_last_step (nm : Namer) (db : Db) (fr : Frame) (op : UnOp)
    (hf : FreshName (nm fr.ctes (.un op fr.leaf)) (transform fr op))
    (H_uniqueOutputNames : ∀ T₀, Evaluates db (transform fr op).query T₀ → T₀.WF) (T : Table) :
    Evaluates db (storeFrame nm (transform fr op)).query T ↔ ∃ T₀, Evaluates db fr.query T₀ ∧ op.apply T₀ = some T := by
  have hs : viewStores = .wrappedCopy := C13_gen_registry.1
  simp only [storeFrame, hs]
  rw [wrap_value_wf C13_gen_wrap.1 C13_gen_wrap.2.1 nm db (transform fr op) hf H_uniqueOutputNames T]
  exact transform_value db fr op T

/-- … and what a reference to the view is replaced by — the frame's last CTE — has that value too (the
    registered frame is wrapped: its leaf only reads the last CTE back by name) -/
theorem C13_register_last_cte (nm : Namer) (fr : Frame) :
    (storeFrame nm fr).Wrapped ∧ (storeFrame nm fr).ctes.getLast? = some (nm fr.ctes fr.leaf, fr.leaf) := by
  have hs : viewStores = .wrappedCopy := C13_gen_registry.1
  simp only [storeFrame, hs]
  refine ⟨wrap_wrapped nm fr, ?_⟩
  rw [wrap_eq C13_gen_wrap.1 C13_gen_wrap.2.1]
  simp

/-! ### histories -/

/-- **C13_history (lookups).**  In every history: after `frames[i].createOrReplaceTempView(name)` and any
    further events that do not register the same (normalised) name again — other registrations,
    re-registrations of other names, queries, transformations — `session.table` under every spelling of the
    name is that frame, wrapped; in particular a re-registration makes later lookups see the new frame. -/
theorem C13_history_lookup (nm : Namer) (norm : Name → Name) (db : Db) (σ : St) (name name' : Name) (i : Nat) (fr : Frame)
    (evs : List Ev) (hi : σ.frames[i]? = some fr) (hn : norm name' = norm name)
    (hno : ∀ e ∈ evs, e.registersKey norm (regKey norm name) = false) :
    tableLookup norm (run nm norm db σ (.register name i :: evs)).reg name' = some (wrap nm fr) := by
  obtain ⟨_, hvn, htn, htf, _⟩ := C13_gen_registry
  have h1 := (C13_table nm norm σ.reg name name' fr (frameCols db fr)).1 hn
  simp only [run, step, hi]
  simp only [tableLookup, htf, if_true, tableKey, htn] at h1 ⊢
  have hk : norm name' = regKey norm name := by simp [regKey, hvn, hn]
  rw [hk] at h1 ⊢
  rw [run_reg_other nm norm db (regKey norm name) evs hno]
  exact h1

/-- **C13_history (frames).**  In every history, a frame that exists keeps its place and its definition:
    no later event (registration, re-registration, query, transformation) changes it.  Its value
    `Evaluates db fr.query` does not mention the registry, so it keeps its meaning too. -/
theorem C13_history_frames (nm : Namer) (norm : Name → Name) (db : Db) (σ : St) (evs : List Ev) (i : Nat) (fr : Frame)
    (hi : σ.frames[i]? = some fr) : (run nm norm db σ evs).frames[i]? = some fr := by
  obtain ⟨ext, h⟩ := run_frames_prefix nm norm db evs σ
  rw [h]
  have hlt : i < σ.frames.length := by
    rcases Nat.lt_or_ge i σ.frames.length with h | h
    · exact h
    · rw [List.getElem?_eq_none h] at hi; cases hi
  rw [List.getElem?_append_left hlt]; exact hi

/-- **C13_history (invariants).**  In every history that starts from a registry of wrapped frames (e.g. the
    empty one), every registered frame is wrapped; and the catalog's column lists stay exact provided
    `add_table` replaces on re-registration or every re-registration keeps the column list. -/
theorem C13_history_invariants (nm : Namer) (norm : Name → Name) (db : Db) (σ : St) (evs : List Ev)
    (hw : RegWrapped σ.reg) (hf : RegFresh σ.reg)
    (H_reregisterKeepsColumns : viewSchemaKeptOnReregister = false ∨ KeepsColumns nm norm db σ evs) :
    RegWrapped (run nm norm db σ evs).reg ∧ RegFresh (run nm norm db σ evs).reg :=
  ⟨run_wrapped nm norm db C13_gen_registry.1 evs σ hw, run_fresh nm norm db evs σ H_reregisterKeepsColumns hf⟩

/-- the result frame of `session.sql` -/
theorem C13_sqlFrame_value (nm : Namer) (norm : Name → Name) (reg : Registry) (q : Query) (db : Db)
    (vals : Name → Option Table)
    (hS : noShadow genCfg norm reg q = true) (hC : noClash genCfg norm reg q = true)
    (hV : viewsClosed genCfg norm reg q = true) (hF : schemaFresh genCfg norm reg q = true)
    (hN : noCapture genCfg norm reg q = true)
    (hW : ViewsWF genCfg norm reg q db) (hU : ∀ T₀, evalLex (withViews norm reg vals db) q = some T₀ → T₀.WF)
    (hO : starsOrdered q = true) (hL : ctesNodup q = true ∧ lexicalRefs genCfg norm reg q = true)
    (hvals : ViewVals db reg vals)
    (hfresh : FreshName (nm (splice norm reg q).ctes (splice norm reg q).final) ⟨(splice norm reg q).ctes, (splice norm reg q).final⟩)
    (T : Table) :
    Evaluates db (sqlFrame nm norm reg q).query T ↔ evalLex (withViews norm reg vals db) q = some T := by
  have hw : sqlWrapsResult = true := C13_gen_registry.2.2.2.2.2.2.2.2
  unfold sqlFrame
  simp only [hw, if_true]
  have hsp := C13_splice norm reg q db vals hS hC hN hV hF hW hO hL hvals
  rw [wrap_value_wf C13_gen_wrap.1 C13_gen_wrap.2.1 nm db _ hfresh (fun T₀ h => hU T₀ ((hsp T₀).1 h)) T]
  exact hsp T

/-- **C13_result_is_df.**  The frame `session.sql(q)` returns is an ordinary wrapped frame (its leaf is the
    identity select over its last CTE, like every frame entering the operation chain of C01/C02), and any
    further DataFrame operator acts on exactly the specified value of `q`. -/
theorem C13_result_is_df (nm : Namer) (norm : Name → Name) (reg : Registry) (q : Query) (db : Db)
    (vals : Name → Option Table)
    (hS : noShadow genCfg norm reg q = true) (hC : noClash genCfg norm reg q = true)
    (hV : viewsClosed genCfg norm reg q = true) (hF : schemaFresh genCfg norm reg q = true)
    (hN : noCapture genCfg norm reg q = true)
    (hW : ViewsWF genCfg norm reg q db) (hU : ∀ T₀, evalLex (withViews norm reg vals db) q = some T₀ → T₀.WF)
    (hO : starsOrdered q = true) (hL : ctesNodup q = true ∧ lexicalRefs genCfg norm reg q = true)
    (hvals : ViewVals db reg vals)
    (hfresh : FreshName (nm (splice norm reg q).ctes (splice norm reg q).final) ⟨(splice norm reg q).ctes, (splice norm reg q).final⟩)
    (op : UnOp) (T' : Table) :
    (sqlFrame nm norm reg q).Wrapped ∧
    (Evaluates db (transform (sqlFrame nm norm reg q) op).query T' ↔
      ∃ T, evalLex (withViews norm reg vals db) q = some T ∧ op.apply T = some T') := by
  have hw : sqlWrapsResult = true := C13_gen_registry.2.2.2.2.2.2.2.2
  refine ⟨by unfold sqlFrame; simp only [hw, if_true]; exact wrap_wrapped nm _, ?_⟩
  rw [transform_value]
  constructor
  · rintro ⟨T, h1, h2⟩
    exact ⟨T, (C13_sqlFrame_value nm norm reg q db vals hS hC hV hF hN hW hU hO hL hvals hfresh T).1 h1, h2⟩
  · rintro ⟨T, h1, h2⟩
    exact ⟨T, (C13_sqlFrame_value nm norm reg q db vals hS hC hV hF hN hW hU hO hL hvals hfresh T).2 h1, h2⟩

/-- **C13_partial.**  For every history `evs₁ ++ [sql q] ++ evs₂` from a state whose registry holds wrapped
    frames with exact catalog columns: if the statement meets the scope hypotheses at the moment it is
    issued, the frame it produces has the specified value — the value of `q` over the views *as registered
    at that moment* — and the frame is still there, unchanged, after every continuation `evs₂`
    (re-registrations included). -/
theorem C13_partial (nm : Namer) (norm : Name → Name) (db : Db) (σ : St) (evs₁ evs₂ : List Ev) (q : Query)
    (vals : Name → Option Table)
    (hw : RegWrapped σ.reg) (hf : RegFresh σ.reg)
    (H_reregisterKeepsColumns : viewSchemaKeptOnReregister = false ∨ KeepsColumns nm norm db σ evs₁)
    (H_noUserCteShadowsView : noShadow genCfg norm (run nm norm db σ evs₁).reg q = true)
    (H_noCteNameClash : noClash genCfg norm (run nm norm db σ evs₁).reg q = true)
    (H_noCteCapturesViewTable : noCapture genCfg norm (run nm norm db σ evs₁).reg q = true)
    (H_closedViews : viewsClosed genCfg norm (run nm norm db σ evs₁).reg q = true)
    (H_uniqueOutputNames : ViewsWF genCfg norm (run nm norm db σ evs₁).reg q db ∧
      ∀ T₀, evalLex (withViews norm (run nm norm db σ evs₁).reg vals db) q = some T₀ → T₀.WF)
    (H_starSourcesOrdered : starsOrdered q = true)
    (H_lexicalCtes : ctesNodup q = true ∧ lexicalRefs genCfg norm (run nm norm db σ evs₁).reg q = true)
    (hvals : ViewVals db (run nm norm db σ evs₁).reg vals)
    (hfresh : let s := splice norm (run nm norm db σ evs₁).reg q; FreshName (nm s.ctes s.final) ⟨s.ctes, s.final⟩) :
    let σ₁ := run nm norm db σ evs₁
    let fr := sqlFrame nm norm σ₁.reg q
    (run nm norm db σ (evs₁ ++ .sql q :: evs₂)).frames[σ₁.frames.length]? = some fr ∧
    ∀ T, Evaluates db fr.query T ↔ evalLex (withViews norm σ₁.reg vals db) q = some T := by
  intro σ₁ fr
  have hfr := (C13_history_invariants nm norm db σ evs₁ hw hf H_reregisterKeepsColumns).2
  have hF : schemaFresh genCfg norm σ₁.reg q = true := by
    unfold schemaFresh
    rw [List.all_eq_true]
    intro e he
    obtain ⟨k, hk⟩ := visited_registered genCfg norm σ₁.reg q e he
    simp [hfr k e hk]
  constructor
  · rw [run_append]
    simp only [run]
    apply C13_history_frames
    simp [step, σ₁, fr, sqlFrameChecked_eq nm norm db _ q hF]
  · intro T
    exact C13_sqlFrame_value nm norm σ₁.reg q db vals H_noUserCteShadowsView H_noCteNameClash H_closedViews hF
      H_noCteCapturesViewTable H_uniqueOutputNames.1 H_uniqueOutputNames.2 H_starSourcesOrdered H_lexicalCtes hvals hfresh T

/-! ### non-vacuity: a concrete instance meets every hypothesis -/

namespace C13Ex

def tA : Table := ⟨["k", "s"], [[.int 1, .str "x"], [.int 2, .str "y"], [.int 3, .null]]⟩
def tB : Table := ⟨["k", "w"], [[.int 1, .int 10], [.int 5, .int 50]]⟩

/-- a toy content-dependent namer (the code uses a CRC of the SQL text) -/
def code : Body → String
  | .lit T => "L" ++ String.join T.cols
  | .scan n => "S" ++ n
  | .un _ b => "U" ++ code b
  | .bin _ l r => "B" ++ code l ++ code r
def nm : Namer := fun cs b => "t" ++ toString cs.length ++ code b
def norm : Name → Name := String.toLower
def db : Db := fun _ => none

/-- history: two frames, `vb` is a filtered frame, both registered (one under an upper-case spelling) -/
def evs : List Ev :=
  [.create tA, .create tB, .transform 1 (.filter (.bin .gt (.col "w") (.lit (.int 0)))),
   .register "VA" 0, .register "vb" 2]

def σ : St := run nm norm db ⟨[], []⟩ evs

/-- WITH c AS (SELECT x.k AS k FROM va AS x WHERE x.k > 0) SELECT c.k AS k, y.w AS w FROM c AS c JOIN vb AS y ON c.k = y.k -/
def q : Query :=
  { ctes := [("c", .un (.project [("k", .col "x.k")]) (.un (.filter (.bin .gt (.col "x.k") (.lit (.int 0)))) (.un (.qual "x") (.scan "va"))))],
    final := .un (.project [("k", .col "c.k"), ("w", .col "y.w")])
      (.un (.filter (.bin .eq (.col "c.k") (.col "y.k"))) (.bin .cross (.un (.qual "c") (.scan "c")) (.un (.qual "y") (.scan "vb")))) }

end C13Ex

open C13Ex in
/-- the hypotheses of `C13_splice` hold for the example, and both sides evaluate to the one joined row -/
example : noShadow genCfg norm σ.reg q = true ∧ noClash genCfg norm σ.reg q = true ∧
    viewsClosed genCfg norm σ.reg q = true ∧ noCapture genCfg norm σ.reg q = true ∧
    schemaFresh genCfg norm σ.reg q = true ∧
    uniqueNames db norm σ.reg q = true ∧ starsOrdered q = true ∧ ctesNodup q = true ∧ lexicalRefs genCfg norm σ.reg q = true ∧
    evalQuery db (splice norm σ.reg q) = some ⟨["k", "w"], [[.int 1, .int 10]]⟩ ∧
    evalLex (withViews norm σ.reg (canonVals db σ.reg) db) q = some ⟨["k", "w"], [[.int 1, .int 10]]⟩ := by
  decide +kernel

namespace C13Ex

/-- WITH c AS (SELECT x.k AS k FROM va AS x WHERE x.k > 1), va AS (SELECT c.k AS k FROM c AS c)
    SELECT va.k AS k FROM va AS va — the first definition reads the *view* `va`, the main query the CTE -/
def qLex : Query :=
  { ctes := [("c", .un (.project [("k", .col "x.k")]) (.un (.filter (.bin .gt (.col "x.k") (.lit (.int 1)))) (.un (.qual "x") (.scan "va")))),
             ("va", .un (.project [("k", .col "c.k")]) (.un (.qual "c") (.scan "c")))],
    final := .un (.project [("k", .col "va.k")]) (.un (.qual "va") (.scan "va")) }

/-- WITH va AS (SELECT x.k AS k FROM va AS x WHERE x.k > 1) SELECT va.k AS k FROM va AS va -/
def qSelf : Query :=
  { ctes := [("va", .un (.project [("k", .col "x.k")]) (.un (.filter (.bin .gt (.col "x.k") (.lit (.int 1)))) (.un (.qual "x") (.scan "va"))))],
    final := .un (.project [("k", .col "va.k")]) (.un (.qual "va") (.scan "va")) }

/-- `tB.orderBy(w desc).limit(1)` as the last steps of a frame -/
def topOne : Frame := transform (transform ⟨[], .lit tB⟩ (.sort [⟨"w", true, false⟩])) (.limit 1)

end C13Ex

open C13Ex in
/-- the hypotheses of `C13_splice` hold for statements whose CTE is named like the view it reads (in its own
    definition / in an earlier definition); both sides evaluate to the rows with k > 1 of the view — while the
    by-name reading of the user's statement is a reference cycle -/
example : (∀ q ∈ [qLex, qSelf],
      noShadow genCfg norm σ.reg q = true ∧ noClash genCfg norm σ.reg q = true ∧
      viewsClosed genCfg norm σ.reg q = true ∧ noCapture genCfg norm σ.reg q = true ∧
      schemaFresh genCfg norm σ.reg q = true ∧ uniqueNames db norm σ.reg q = true ∧ starsOrdered q = true ∧
      ctesNodup q = true ∧ lexicalRefs genCfg norm σ.reg q = true ∧
      evalQuery db (splice norm σ.reg q) = some ⟨["k"], [[.int 2], [.int 3]]⟩ ∧
      evalLex (withViews norm σ.reg (canonVals db σ.reg) db) q = some ⟨["k"], [[.int 2], [.int 3]]⟩ ∧
      evalQuery (withViews norm σ.reg (canonVals db σ.reg) db) q = none) := by
  decide +kernel

open C13Ex in
/-- C13_lexical_nameBased instance: the example statement `q` (its CTE reads a view, the main query the CTE) is ordered -/
example : (names q.ctes).Nodup ∧ orderedCtes q = true := by decide +kernel

open C13Ex in
/-- C13_register_last_step instance: a frame ending in orderBy + limit, registered: the stored frame is wrapped,
    its last CTE holds the whole leaf (ORDER BY and LIMIT included), and it evaluates to the top row -/
example : (storeFrame nm topOne).ctes.getLast? = some (nm topOne.ctes topOne.leaf, topOne.leaf) ∧
    evalQuery db (storeFrame nm topOne).query = some ⟨["k", "w"], [[.int 5, .int 50]]⟩ := by
  decide +kernel

open C13Ex in
/-- … and the hypotheses of C13_register_last_step hold for it: the new CTE name is fresh for the frame being
    wrapped (`transform (… sort) (limit 1)`), whose only value has pairwise distinct column names -/
example : FreshName (nm (transform ⟨[], .lit tB⟩ (.sort [⟨"w", true, false⟩])).ctes
      (.un (.limit 1) (transform ⟨[], .lit tB⟩ (.sort [⟨"w", true, false⟩])).leaf)) topOne ∧
    (evalQuery db topOne.query).map (fun T => decide T.WF) = some true := by
  unfold FreshName
  decide +kernel

open C13Ex in
/-- C13_chain_verbatim instance: the example statement references two views, whose chains are non-empty -/
example : (visited genCfg norm σ.reg q).map (fun e => e.frame.ctes.length) = [1, 1] := by decide +kernel

open C13Ex in
/-- `ViewVals` is satisfiable: the canonical values of the example registry -/
example : ViewVals db σ.reg (canonVals db σ.reg) := by
  apply viewVals_canon
  intro k e he
  have : ∀ ke ∈ σ.reg, (evalQuery db ke.2.frame.query).isSome = true := by decide +kernel
  exact this (k, e) (assoc_some_pair_mem _ k e he)

open C13Ex in
/-- C13_history_lookup / C13_table instance: the upper-case registration is found under the lower-case name -/
example : tableLookup norm σ.reg "va" = some (wrap nm ⟨[], .lit tA⟩) := by decide +kernel

/-! ### counterexamples for the scope hypotheses (the model reproduces the confirmed defects) -/

namespace C13Cex
open C13Ex

/-- registry after `a.createOrReplaceTempView("va")` -/
def regA : Registry := (run nm norm db ⟨[], []⟩ [.create tA, .register "va" 0]).reg

/-- WITH va AS (SELECT 1 AS k) SELECT * FROM va -/
def qShadow : Query :=
  { ctes := [("va", .lit ⟨["k"], [[.int 1]]⟩)], final := .un .star (.un (.qual "va") (.scan "va")) }

/-- vd = session.sql("WITH c AS (SELECT x.k AS k FROM va AS x WHERE x.k > 1) SELECT c.k AS k FROM c"), registered -/
def qD : Query :=
  { ctes := [("c", .un (.project [("k", .col "x.k")]) (.un (.filter (.bin .gt (.col "x.k") (.lit (.int 1)))) (.un (.qual "x") (.scan "va"))))],
    final := .un (.project [("k", .col "c.k")]) (.un (.qual "c") (.scan "c")) }
def regD : Registry := (run nm norm db ⟨[], []⟩ [.create tA, .register "va" 0, .sql qD, .register "vd" 1]).reg

/-- WITH c AS (SELECT 99 AS k) SELECT vd.k AS a, c.k AS b FROM vd CROSS JOIN c -/
def qClash : Query :=
  { ctes := [("c", .lit ⟨["k"], [[.int 99]]⟩)],
    final := .un (.project [("a", .col "vd.k"), ("b", .col "c.k")]) (.bin .cross (.un (.qual "vd") (.scan "vd")) (.un (.qual "c") (.scan "c"))) }

/-- WITH c AS (SELECT x.k AS k FROM va AS x), d AS (SELECT x.k AS k FROM va AS x) SELECT c.k AS a FROM c -/
def qDup : Query :=
  { ctes := [("c", .un (.project [("k", .col "x.k")]) (.un (.qual "x") (.scan "va"))),
             ("d", .un (.project [("k", .col "x.k")]) (.un (.qual "x") (.scan "va")))],
    final := .un (.project [("a", .col "c.k")]) (.un (.qual "c") (.scan "c")) }

/-- registry after registering (k, s) and then (k, w) under the same name -/
def regStale : Registry := (run nm norm db ⟨[], []⟩ [.create tA, .create tB, .register "va" 0, .register "va" 1]).reg
def qStar : Query := { ctes := [], final := .un .star (.un (.qual "va") (.scan "va")) }

/-- both `va (k, s)` and `vb (k, w)` registered;  SELECT * FROM va CROSS JOIN vb -/
def regAB : Registry := (run nm norm db ⟨[], []⟩ [.create tA, .create tB, .register "va" 0, .register "vb" 1]).reg
def qSubFirst : Query :=
  { ctes := [], final := .un .star (.bin .cross
      (.un (.qual "q") (.un (.project [("j", .col "x.k")]) (.un (.qual "x") (.scan "va")))) (.un (.qual "vb") (.scan "vb"))) }
def qCross : Query :=
  { ctes := [], final := .un .star (.bin .cross (.un (.qual "va") (.scan "va")) (.un (.qual "vb") (.scan "vb"))) }

end C13Cex

open C13Ex C13Cex in
/-- **H_noUserCteShadowsView is needed**: with a view `va` registered, the statement's own CTE `va` is
    replaced by the view — the spliced statement returns the view's rows (in the CTE's column list, which
    `qualify` had already written for `*`), the specification the CTE's. -/
theorem C13_cex_userCteShadowsView : spliceSkipsCteBound = false →
    (noShadow genCfg norm regA qShadow = false ∧
    evalQuery db (splice norm regA qShadow) = some ⟨["k"], [[.int 1], [.int 2], [.int 3]]⟩ ∧
    evalLex (withViews norm regA (canonVals db regA) db) qShadow = some ⟨["k"], [[.int 1]]⟩) := by
  decide +kernel

open C13Ex C13Cex in
/-- **H_noCteNameClash is needed**: a view built by a statement that had a CTE `c` is used in a statement
    with its own CTE `c`; the view's chain is bound to the new `c`. -/
theorem C13_cex_cteNameClash :
    noClash genCfg norm regD qClash = false ∧
    evalQuery db (splice norm regD qClash) = some ⟨["a", "b"], [[.int 99, .int 99]]⟩ ∧
    evalLex (withViews norm regD (canonVals db regD) db) qClash = some ⟨["a", "b"], [[.int 2, .int 99], [.int 3, .int 99]]⟩ := by
  decide +kernel

open C13Ex C13Cex in
/-- **H_distinctCteBodies is needed** while the hash renaming does not keep unique names: two CTEs with the
    same text get the same content-hash name; the execution fails although the statement has a value.
    (Repaired in the source by “do not give two CTEs the same hashed name”: the premise is then false.) -/
theorem C13_cex_distinctCteBodies : rehashKeepsUniqueNames = false →
    (execFrame db (sqlFrame nm norm regA qDup) = none ∧
    evalLex (withViews norm regA (canonVals db regA) db) qDup = some ⟨["a"], [[.int 1], [.int 2], [.int 3]]⟩) := by
  decide +kernel

open C13Ex C13Cex in
/-- **H_reregisterKeepsColumns is needed**: after re-registering `va` with other columns the catalog still
    holds the old list; `SELECT * FROM va` is expanded with it and fails, the specification returns the new frame. -/
theorem C13_cex_reregisterKeepsColumns : viewSchemaKeptOnReregister = true →
    (schemaFresh genCfg norm regStale qStar = false ∧
    evalQuery db (splice norm regStale qStar) = none ∧
    evalLex (withViews norm regStale (canonVals db regStale) db) qStar = some tB) := by
  decide +kernel

open C13Ex C13Cex in
/-- **H_uniqueOutputNames is needed**: `SELECT * FROM va CROSS JOIN vb` has two columns named `k`; the result
    frame reads its columns back by name, so the second `k` shows the first one's values. -/
theorem C13_cex_uniqueOutputNames :
    uniqueNames db norm regAB qCross = false ∧
    execFrame db (sqlFrame nm norm regAB qCross) = some ⟨["k", "s", "k", "w"],
      [[.int 1, .str "x", .int 1, .int 10], [.int 1, .str "x", .int 1, .int 50],
       [.int 2, .str "y", .int 2, .int 10], [.int 2, .str "y", .int 2, .int 50],
       [.int 3, .null, .int 3, .int 10], [.int 3, .null, .int 3, .int 50]]⟩ ∧
    evalLex (withViews norm regAB (canonVals db regAB) db) qCross = some ⟨["k", "s", "k", "w"],
      [[.int 1, .str "x", .int 1, .int 10], [.int 1, .str "x", .int 5, .int 50],
       [.int 2, .str "y", .int 1, .int 10], [.int 2, .str "y", .int 5, .int 50],
       [.int 3, .null, .int 1, .int 10], [.int 3, .null, .int 5, .int 50]]⟩ := by
  decide +kernel

open C13Ex C13Cex in
/-- **H_starSourcesOrdered is needed**: `SELECT * FROM (SELECT x.k AS j FROM va AS x) AS q CROSS JOIN vb` —
    sqlglot's star expansion lists the named source `vb` before the subquery `q`. -/
theorem C13_cex_starSourcesOrdered :
    starsOrdered qSubFirst = false ∧
    (evalQuery db (splice norm regAB qSubFirst)).map (·.cols) = some ["k", "w", "j"] ∧
    (evalLex (withViews norm regAB (canonVals db regAB) db) qSubFirst).map (·.cols) = some ["j", "k", "w"] := by
  decide +kernel

namespace C13Cex
open C13Ex

def tT : Table := ⟨["k", "s"], [[.int 1, .str "a"], [.int 2, .str "b"], [.int 3, .str "c"]]⟩
/-- a database with one engine table `tb` -/
def dbT : Db := fun n => if n = "tb" then some tT else none
/-- `session.table("tb").where(k > 1).createOrReplaceTempView("va")` -/
def regT : Registry :=
  (run nm norm dbT ⟨[], []⟩ [.table "tb", .transform 0 (.filter (.bin .gt (.col "k") (.lit (.int 1)))), .register "va" 1]).reg
/-- WITH tb AS (SELECT 10 AS k, 'z' AS s) SELECT va.k AS k, va.s AS s FROM va -/
def qCapture : Query :=
  { ctes := [("tb", .lit ⟨["k", "s"], [[.int 10, .str "z"]]⟩)],
    final := .un (.project [("k", .col "va.k"), ("s", .col "va.s")]) (.un (.qual "va") (.scan "va")) }

end C13Cex

open C13Ex C13Cex in
/-- **H_noCteCapturesViewTable is needed**: the view `va` reads the engine table `tb`; the statement has its own
    CTE `tb`; the view's CTEs are added to the statement's WITH list unchanged, so the view reads the CTE. -/
theorem C13_cex_cteCapturesViewTable :
    noCapture genCfg norm regT qCapture = false ∧
    evalQuery dbT (splice norm regT qCapture) = some ⟨["k", "s"], [[.int 10, .str "z"]]⟩ ∧
    evalLex (withViews norm regT (canonVals dbT regT) dbT) qCapture = some ⟨["k", "s"], [[.int 2, .str "b"], [.int 3, .str "c"]]⟩ := by
  decide +kernel

/-! ### the full statement -/

/-- C13 at full strength: in every history, every `session.sql` statement over closed, wrapped views — with no
    restriction on CTE names, repeated CTE texts or re-registered column lists — executes to exactly the
    value of the statement over the views as registered at that moment, and `session.table` returns the
    latest registration.  `C13_partial` proves it under H_noUserCteShadowsView, H_noCteNameClash, H_noCteCapturesViewTable,
    H_reregisterKeepsColumns, H_uniqueOutputNames, H_starSourcesOrdered (and H_distinctCteBodies for the execution;
    H_lexicalCtes excludes statements Spark itself rejects or reads differently from every by-name engine); the `C13_cex_*` theorems show
    that each of them is needed for the code as it is. -/
def C13_full_statement : Prop :=
  ∀ (nm : Namer) (norm : Name → Name) (db : Db) (evs : List Ev) (q : Query) (vals : Name → Option Table),
    let σ₁ := run nm norm db ⟨[], []⟩ evs
    viewsClosed genCfg norm σ₁.reg q = true → ViewVals db σ₁.reg vals →
    ∀ T, evalLex (withViews norm σ₁.reg vals db) q = some T → execFrame db (sqlFrameChecked nm norm db σ₁.reg q) = some T

end Sqlframe
