/-
Props/C18.lean — property theorems for C18 (a pipeline's meaning does not depend on session history; its SQL
is reproducible).

Model: Impl/C18Session.lean around the regenerated Gen.SessionIds (how ids are produced, which registries
`normalize` consults and over which CTEs it iterates, what is hashed into CTE names) and Gen.Views
(whether a re-registration refreshes the catalog's column list).

Reading guide
  `Ev.step own st`              a construction step of the program P (`own = true`) or of other work H
  `Ev.query ctx joined ident`   P normalises the identifier `ident` against an expression whose CTE chain is `ctx`
  `Ev.readView n`               a `session.sql` statement of P is qualified against the catalog's columns of view `n`
  `Ev.readSql srcs cols`        a `session.sql` statement of P over the sources `srcs` whose unqualified columns `cols` sqlglot's
                                `qualify` attributes to a source, given the catalog's column lists and `infer_schema`
  `outs σ I`                    everything P observes of the session along the interleaving `I`, in order
  `onlyOwn I`                   the same program in a session that did nothing else
  `CEv.apply own path refs ctx joined`   a statement hands identifiers — of Column objects the user holds (`Ref.held`) or of
                                Columns built for the call — to `normalize` on one of the two paths
  `outsC cp σ h I`              P's observations along a history over the heap `h` of held Column objects
-/
import SqlframeModel.Lemmas.C18
import SqlframeModel.Lemmas.C18Columns
namespace Sqlframe
open Sqlframe.Sess Sqlframe.Gen

/-! ### the decisions the theorems rest on (regenerated from the source on every run) -/

/-- ids are uuid4 values recorded in `known_ids`; `alias` appends a fresh sequence id; both lookups of
    `normalize` iterate over the CTEs of the expression being normalised (latest first); a CTE name is a
    hash of the SQL text only; the uuid literal is inserted only on a CTE-name clash; a schema lookup goes
    through a TEMPORARY view -/
theorem C18_gen_decisions :
    sessIdSource = .uuid4 ∧ sessAliasAppendsFreshSeq = true ∧
    sessAliasScope = .expressionCtes ∧ sessIdScope = .expressionCtes ∧
    sessAliasOrder = .latestFirst ∧ sessIdOrder = .latestFirst ∧
    sessHashParts = [.sqlText] ∧ sessLiteralOnlyOnClash = true ∧
    sessSchemaViaView = true ∧ sessSchemaViewTemporary = true ∧ sessCounterStart = 1 ∧ sessCounterStep = 1 := by decide

/-- both paths into `normalize` hand it a deep copy of the caller's Column -/
theorem C18_normalize_copies : ∀ p : NormPath, pathCopies p = true := by
  intro p; cases p <;> decide

/-- no method of BaseDataFrame edits `self.expression` in place, and `session.read`, `df.write`, `df.na`,
    `df.stat` hand out a new object at every access -/
theorem C18_sites_fresh : ∀ s : Site, siteInPlace s = false := by
  intro s
  cases s with
  | builder m =>
    have h : sessInPlaceBuilderMethods = [] := by decide
    simp [siteInPlace, h]
  | accessor a => cases a <;> decide

/-- the `infer_schema` argument of `session.sql`'s qualify step is the same in every session state -/
theorem C18_sql_infer_stateless : sqlInferConst = true := by decide

/-! ### alias resolution is scoped -/

/-- **C18_alias_scope.**  The alias lookup depends only on the part of the session's alias map that concerns
    the sequence ids of the expression's own CTE chain. -/
theorem C18_alias_scope (m₁ m₂ : List (Name × List Id)) (ctx : List Cte) (n : Name)
    (h : ∀ c ∈ ctx, (c.seq ∈ lookupAlias m₁ n ↔ c.seq ∈ lookupAlias m₂ n)) :
    resolveAlias m₁ ctx n = resolveAlias m₂ ctx n := resolveAlias_scope m₁ m₂ ctx n h

/-- … and so does the whole normalisation of one identifier: two sessions that agree on everything not
    involving the ids `X` normalise it alike when the identifier and its CTE chain do not involve `X`. -/
theorem C18_ident_scope (X : List Id) (σ σ' : Session) (hag : AgreeOff X σ σ') (ctx : List Cte) (joined : List Name)
    (ident : Name) (hq : ∀ n ∈ queryNames ctx ident, n ∉ X) :
    resolveIdent σ ctx joined ident = resolveIdent σ' ctx joined ident := resolveIdent_agree X σ σ' hag ctx joined ident hq

/-! ### history independence -/

/-- **C18_history.**  For every session state and every interleaving `I` of the construction steps of a
    program P with the steps of any other work H — other DataFrames, reuse of the same alias names, schema
    lookups, actions, actions that raise, registrations of other view names — everything P observes of the
    session (every identifier after normalisation, every catalog column list its SQL statements are
    qualified against) is what it observes when the session does nothing else.  Hypotheses:
    `H_idsFresh` — no id drawn by H occurs among P's identifiers or in P's CTE chains (uuid4 freshness; user
    names are not of the generated shape); `H_viewsOwn` — P reads no view name that H registers;
    `H_tableLookupsOwn` — P's `session.sql` statements read no permanent table whose columns a lookup of H
    (`session.table`) made the catalog cache (a confirmed defect: see `C18_cex_tableLookups`);
    `H_ctesHaveIds` — every CTE of the expressions P normalises against carries ids (none comes from the
    text of a `session.sql` statement), or the lookups skip CTEs without ids (`Gen.sessLookupTotal`).
    The `infer_schema` argument of `session.sql` is the same in every session (`C18_sql_infer_stateless`,
    regenerated). -/
theorem C18_history (σ₀ : Session) (I : List Ev)
    (H_idsFresh : idsFresh I (foreignIds I) = true)
    (H_viewsOwn : viewsOwn I (foreignViews I) = true)
    (H_tableLookupsOwn : viewsOwn I (foreignLookups I) = true)
    (H_ctesHaveIds : ctesHaveIds I = true) :
    outs σ₀ I = outs σ₀ (onlyOwn I) :=
  outs_interleaved (foreignIds I) (foreignViews I ++ foreignLookups I) I σ₀ σ₀ (agree_refl _ σ₀) (fun _ _ => rfl)
    (fun _ h => h) (foreignCat_sub I) H_idsFresh (viewsOwn_append I _ _ H_viewsOwn H_tableLookupsOwn) H_ctesHaveIds
    (Or.inl C18_sql_infer_stateless)

/-- **C18_sql_qualify_scope.**  What `session.sql` makes of a statement's unqualified columns depends only on
    the catalog's column lists for the statement's own sources: two sessions that agree on those — whatever
    else they registered, looked up, or hold as temp views — attribute every column to the same source. -/
theorem C18_sql_qualify_scope (σ σ' : Session) (srcs : List (Name × Name)) (cols : List Name)
    (h : ∀ s ∈ srcs, colsOf σ.catalogCols s.2 = colsOf σ'.catalogCols s.2) :
    resolveSql σ srcs cols = resolveSql σ' srcs cols := by
  have hs : sourceCols σ srcs = sourceCols σ' srcs := by
    unfold sourceCols
    apply List.map_congr_left
    intro s hs
    rw [h s hs]
  unfold resolveSql
  rw [sqlInfer_const C18_sql_infer_stateless σ σ', hs]

/-- a statement over one source never leaves a column unattributed while `infer_schema` is on and the
    catalog does not know the source: that is why `SELECT c FROM t` works in every history -/
theorem C18_sql_single_source (σ : Session) (a t c : Name) (h : colsOf σ.catalogCols t = none) :
    resolveSql σ [(a, t)] [c] = [some a] := by
  have hi : sqlInfer σ = true := by
    have := sqlInfer_const C18_sql_infer_stateless σ Session.fresh
    rw [this]; decide
  simp [resolveSql, sourceCols, h, resolveCol, occurrences, withoutSchema, hi]

/-! ### Column objects the user holds -/

/-- **C18_columns_immutable.**  No history — whatever P and the other work apply their Column objects to, on
    either path, whatever siblings they derive from a DataFrame that is kept, whatever they set on a reader /
    writer / na / stat object they were handed — changes an object that outlives the statement: a Column or
    DataFrame the user holds, the state of the object an accessor hands out next. -/
theorem C18_columns_immutable (σ : Session) (h : Heap) (I : List CEv) : heapAfter Copying.real σ h I = h := by
  unfold heapAfter
  rw [runC_copy Copying.real C18_normalize_copies C18_sites_fresh h I σ]

/-- **C18_history_columns.**  `C18_history` for programs that share objects with the other work — Column objects,
    DataFrames both derive siblings from, the session's reader: along every interleaving, P's identifiers after
    normalisation (those of the held objects included), the state of every kept object P uses, and the catalog
    columns / column attributions of its statements are what they are alone.  The hypotheses are those
    of `C18_history`, read on the history in which P's applications are spelled out as queries. -/
theorem C18_history_columns (σ₀ : Session) (h : Heap) (I : List CEv)
    (H_idsFresh : idsFresh (lower h I) (foreignIds (lower h I)) = true)
    (H_viewsOwn : viewsOwn (lower h I) (foreignViews (lower h I)) = true)
    (H_tableLookupsOwn : viewsOwn (lower h I) (foreignLookups (lower h I)) = true)
    (H_ctesHaveIds : ctesHaveIds (lower h I) = true) :
    outsC Copying.real σ₀ h I = outsC Copying.real σ₀ h (onlyOwnC I) := by
  unfold outsC
  rw [runC_copy Copying.real C18_normalize_copies C18_sites_fresh h I σ₀,
    runC_copy Copying.real C18_normalize_copies C18_sites_fresh h (onlyOwnC I) σ₀, lower_onlyOwnC]
  exact C18_history σ₀ (lower h I) H_idsFresh H_viewsOwn H_tableLookupsOwn H_ctesHaveIds

/-- **C18_first_use_same.**  Even a path that does *not* copy yields, at the first use, the identifiers the
    copying path yields (no identifier is handed over twice in one call): single-pipeline tests cannot tell
    the two apart — only a second use of the object can. -/
theorem C18_first_use_same (σ : Session) (ctx : List CteO) (j : List Name) (refs : List Ref) (h : Heap)
    (hnd : refs.Nodup) : (normInPlace σ ctx j h refs).1 = normOnCopy σ ctx j h refs :=
  normInPlace_obs σ ctx j refs h hnd

/-- removing the actions that raise from a history changes nothing -/
def dropFailed : List Ev → List Ev
  | [] => []
  | .step _ .failedAction :: r => dropFailed r
  | e :: r => e :: dropFailed r

/-- **C18_failed_action_no_state.**  In every history, the actions that raised (P's own or H's) leave no
    trace: P's observations and the final session are those of the history without them. -/
theorem C18_failed_action_no_state (I : List Ev) : ∀ σ : Session,
    outs σ I = outs σ (dropFailed I) ∧ finalSession σ I = finalSession σ (dropFailed I) := by
  induction I with
  | nil => intro σ; exact ⟨rfl, rfl⟩
  | cons e r ih =>
    intro σ
    cases e with
    | step own st =>
      cases st <;> simp only [dropFailed, outs, finalSession, applyStep] <;> first | exact ih _ | skip
      all_goals (try exact ih σ)
      all_goals (split <;> exact ih _)
    | query ctx j ident => simp only [dropFailed, outs, finalSession, (ih σ).1, (ih σ).2]; exact ⟨trivial, trivial⟩
    | readView n => simp only [dropFailed, outs, finalSession, (ih σ).1, (ih σ).2]; exact ⟨trivial, trivial⟩
    | readSql srcs cols => simp only [dropFailed, outs, finalSession, (ih σ).1, (ih σ).2]; exact ⟨trivial, trivial⟩
    | observe ts => simp only [dropFailed, outs, finalSession, (ih σ).1, (ih σ).2]; exact ⟨trivial, trivial⟩

/-- **C18_readonly_no_objects.**  Every sequence of read-only steps — DataFrame construction, aliases,
    transformations, `collect` / `count` / `show` / `columns`, schema lookups, actions that raise — leaves
    the set of objects the catalog API reports unchanged. -/
theorem C18_readonly_no_objects (σ : Session) (steps : List Step) (h : ∀ st ∈ steps, st.readOnly = true) :
    (runSteps σ steps).catalogObjects = σ.catalogObjects :=
  readOnly_catalog steps σ C18_gen_decisions.2.2.2.2.2.2.2.2.2.1 h

/-! ### reproducible text -/

theorem hashInput_eraseIds (c : TCte) : hashInput sessHashParts c = hashInput sessHashParts c.eraseIds := by
  have h : sessHashParts = [.sqlText] := C18_gen_decisions.2.2.2.2.2.2.1
  rw [h]
  simp [hashInput, TCte.eraseIds]

/-- **C18_text.**  The rendered CTE chain (names re-hashed from the bodies, references renamed) does not
    depend on the branch ids, sequence ids or counter values attached to the CTEs: two builds of a program
    that agree on the bodies, the reference structure and the inserted literals produce identical text. -/
theorem C18_text (H : String → Name) (chain chain' : List TCte)
    (h : chain.map TCte.eraseIds = chain'.map TCte.eraseIds) :
    rehash H sessHashParts chain = rehash H sessHashParts chain' := by
  have key : ∀ ch : List TCte, rehash H sessHashParts ch = rehash H sessHashParts (ch.map TCte.eraseIds) := by
    intro ch
    unfold rehash
    simp only [List.map_map]
    have hren : (ch.map fun c => (c.name, H (hashInput sessHashParts c)))
        = (ch.map ((fun c => (c.name, H (hashInput sessHashParts c))) ∘ TCte.eraseIds)) := by
      apply List.map_congr_left
      intro c _
      simp only [Function.comp]
      rw [← hashInput_eraseIds c]
      rfl
    rw [← hren]
    apply List.map_congr_left
    intro c _
    rfl
  rw [key chain, key chain', h]

/-! ### non-vacuity -/

namespace C18Ex

/-- P: a = createDataFrame; x = a.alias("x"); x.select("x.k")     H: b = createDataFrame; b.alias("x"); b.schema;
    an action that raises; a view of its own — interleaved -/
def I : List Ev :=
  [ .step true (.create "rb1" "rs1"),
    .step false (.create "rb2" "rs2"),
    .step false (.alias "x" "rs3"),
    .step true (.alias "x" "rs4"),
    .step false (.schemaLookup "rv1"),
    .step false .failedAction,
    .step false (.registerView "vh" ["k"]),
    .step true (.registerView "vp" ["k", "s"]),
    .query [⟨"t1", some ("rb1", "rs1")⟩, ⟨"t2", some ("rb1", "rs4")⟩] [] "x",
    .query [⟨"t1", some ("rb1", "rs1")⟩, ⟨"t2", some ("rb1", "rs4")⟩] [] "rb1",
    .readView "vp" ]

end C18Ex

open C18Ex in
/-- the hypotheses of `C18_history` hold for a history that reuses the alias name `x`, and P's alias and
    handle resolve to its own latest CTE in both runs -/
example : idsFresh I (foreignIds I) = true ∧ viewsOwn I (foreignViews I) = true ∧ ctesHaveIds I = true ∧
    outs Session.fresh I = [.ident "t2", .ident "t2", .viewCols (some ["k", "s"])] ∧
    outs Session.fresh (onlyOwn I) = [.ident "t2", .ident "t2", .viewCols (some ["k", "s"])] := by decide

/-- C18_readonly_no_objects instance -/
example : (runSteps Session.fresh [.create "b" "s", .alias "x" "s2", .schemaLookup "v", .action, .failedAction]).catalogObjects = [] ∧
    (runSteps Session.fresh [.create "b" "s", .alias "x" "s2", .schemaLookup "v", .action, .failedAction]).engineTemp = ["v"] := by decide

/-- C18_history_columns instance: P and the other work both filter through the held predicate `x.k > …`
    under the alias name `x`; P's `x` is its own CTE in both runs and the object is unchanged -/
example :
    let h : Heap := [["k", "x"]]
    let I : List CEv :=
      [ .base (.step false (.create "rb1" "rs1")), .base (.step false (.alias "x" "rs2")),
        .base (.step true (.create "rb3" "rs3")), .base (.step true (.alias "x" "rs4")),
        .apply false .single [.held 0 0, .held 0 1] [⟨"t1", some ("rb1", "rs1")⟩, ⟨"t2", some ("rb1", "rs2")⟩] [],
        .apply true .single [.held 0 0, .held 0 1] [⟨"t3", some ("rb3", "rs3")⟩, ⟨"t4", some ("rb3", "rs4")⟩] [] ]
    idsFresh (lower h I) (foreignIds (lower h I)) = true ∧ viewsOwn (lower h I) (foreignViews (lower h I)) = true ∧
    viewsOwn (lower h I) (foreignLookups (lower h I)) = true ∧ ctesHaveIds (lower h I) = true ∧
    outsC Copying.real Session.fresh h I = [.ident "k", .ident "t4"] ∧ heapAfter Copying.real Session.fresh h I = h := by decide

/-- C18_history_columns instance: other work derives `distinct()` / `where` siblings from the kept DataFrame 0 and
    reads a file through `session.read.format(…).option(…)`; P then collects the kept DataFrame and reads through
    `session.read.option("header", …)`: it sees the DataFrame as it was built and only its own reader settings -/
example :
    let h : Heap := [["where"], []]
    let I : List CEv :=
      [ .edit false (.builder "distinct") 0 "distinct" false, .edit false (.builder "where") 0 "where" false,
        .edit false (.accessor .read) 1 "format=csv" false, .edit false (.accessor .read) 1 "skip=1" false, .use false 1 [],
        .use true 0 [], .edit true (.accessor .read) 1 "header=true" false, .use true 1 ["header=true"] ]
    outsC Copying.real Session.fresh h I = [.state ["where"], .state ["header=true"]] ∧
    outsC Copying.real Session.fresh h (onlyOwnC I) = [.state ["where"], .state ["header=true"]] ∧
    heapAfter Copying.real Session.fresh h I = h := by decide

/-- C18_sql_qualify_scope / C18_history instance: P's two-source statement after other work registered an
    unrelated view and looked up an unrelated table -/
example :
    let I : List Ev :=
      [ .step true (.registerView "va" ["k", "s"]), .step false (.registerView "scratch" ["n"]),
        .step false (.cacheCols "other" ["k", "q"]), .readSql [("va", "va"), ("items", "items")] ["s", "z"] ]
    viewsOwn I (foreignViews I) = true ∧ viewsOwn I (foreignLookups I) = true ∧
    outs Session.fresh I = [.resolved [some "va", some "items"]] := by decide

/-! ### counterexamples for the scope hypotheses -/

/-- **H_idsFresh is needed**: if other work had drawn the very sequence id P's alias uses (two equal uuid4
    values), P's alias `x` would resolve differently with and without that work. -/
theorem C18_cex_idsFresh :
    let I : List Ev := [ .step false (.alias "x" "rs1"), .query [⟨"t1", some ("rb1", "rs1")⟩] [] "x" ]
    idsFresh I (foreignIds I) = false ∧ outs Session.fresh I ≠ outs Session.fresh (onlyOwn I) := by decide

/-- **H_viewColumnsStable is needed** while `catalog.add_table` keeps the old column list: other work registered
    the view name first with other columns; P re-registers it and its statement is still qualified against
    the old list — in a fresh session it sees its own. -/
theorem C18_cex_viewColumnsStable : viewSchemaKeptOnReregister = true →
    (let I : List Ev := [ .step false (.registerView "v" ["k", "s"]), .step true (.registerView "v" ["k", "w"]), .readView "v" ]
     outs Session.fresh I = [.viewCols (some ["k", "s"])] ∧ outs Session.fresh (onlyOwn I) = [.viewCols (some ["k", "w"])]) := by
  decide

/-- **H_ctesHaveIds is needed** while the lookups index `cte.args["sequence_id"]`: P filters the result of a
    `session.sql` statement that had its own CTE `c` (a CTE without ids) on column `k`; other work has
    aliased some DataFrame as `k`.  Alone, the identifier `k` is left as it is; after that work the alias
    lookup runs over P's CTEs and raises KeyError. -/
theorem C18_cex_ctesHaveIds : sessLookupTotal = false →
    (let I : List Ev := [ .step false (.alias "k" "rs9"), .query [⟨"c", none⟩, ⟨"t1", some ("rb1", "rs1")⟩] [] "k" ]
     ctesHaveIds I = false ∧ outs Session.fresh I = [.raised] ∧ outs Session.fresh (onlyOwn I) = [.ident "k"]) := by
  decide

/-- **H_tableLookupsOwn is needed**: `session.sql` qualifies against whatever columns the catalog happens to
    have cached.  Alone, P's two-table statement with the unqualified column `z` is rejected (neither table is
    known, two candidates); after other work merely looked the table `items` up, `z` is attributed to it. -/
theorem C18_cex_tableLookups :
    let I : List Ev := [ .step false (.cacheCols "items" ["k", "z"]), .readSql [("items", "items"), ("other", "other")] ["z"] ]
    viewsOwn I (foreignLookups I) = false ∧
    outs Session.fresh I = [.resolved [some "items"]] ∧ outs Session.fresh (onlyOwn I) = [.resolved [none]] := by decide

/-- **the copies are needed**: were `normalize` handed the caller's own object on the single-column path
    (`cp .single = false`), a predicate `x.k > …` that other work applied under its alias `x` would stay bound
    to that work's CTE: P, applying the same object under *its* alias `x`, no longer gets its own CTE — although
    every hypothesis of `C18_history_columns` holds — and the held object has changed. -/
theorem C18_cex_normalizeInPlace :
    let cp : Copying := ⟨fun p => match p with | .single => false | .multi => true, siteInPlace⟩
    let h : Heap := [["k", "x"]]
    let I : List CEv :=
      [ .base (.step false (.create "rb1" "rs1")), .base (.step false (.alias "x" "rs2")),
        .base (.step true (.create "rb3" "rs3")), .base (.step true (.alias "x" "rs4")),
        .apply false .single [.held 0 0, .held 0 1] [⟨"t1", some ("rb1", "rs1")⟩, ⟨"t2", some ("rb1", "rs2")⟩] [],
        .apply true .single [.held 0 0, .held 0 1] [⟨"t3", some ("rb3", "rs3")⟩, ⟨"t4", some ("rb3", "rs4")⟩] [] ]
    idsFresh (lower h I) (foreignIds (lower h I)) = true ∧ ctesHaveIds (lower h I) = true ∧
    outsC cp Session.fresh h I = [.ident "k", .ident "t2"] ∧ outsC cp Session.fresh h (onlyOwnC I) = [.ident "k", .ident "t4"] ∧
    heapAfter cp Session.fresh h I = [["k", "t2"]] := by decide

/-- **builder calls must copy**: were `distinct` to edit `self.expression` in place, a `distinct()` sibling that other
    work derives from a kept `where` result (the wrapper does not move a WHERE-level receiver into a new CTE for a
    SELECT-level operation: not shielded) would turn the kept DataFrame itself into SELECT DISTINCT — P, collecting
    it afterwards, sees another DataFrame than alone.  After `select` the wrapper shields the receiver and nothing leaks. -/
theorem C18_cex_builderInPlace :
    let k : Copying := ⟨pathCopies, fun s => s == .builder "distinct"⟩
    let h : Heap := [["where"]]
    outsC k Session.fresh h [.edit false (.builder "distinct") 0 "distinct" false, .use true 0 []] = [.state ["where", "distinct"]] ∧
    outsC k Session.fresh h (onlyOwnC [.edit false (.builder "distinct") 0 "distinct" false, .use true 0 []]) = [.state ["where"]] ∧
    outsC k Session.fresh h [.edit false (.builder "distinct") 0 "distinct" true, .use true 0 []] = [.state ["where"]] := by decide

/-- **accessors must hand out new objects**: were `session.read` cached on the session, the `format` / `option`
    settings of a read chain of other work would still be on the reader P is handed for its own read. -/
theorem C18_cex_accessorCached :
    let k : Copying := ⟨pathCopies, fun s => s == .accessor .read⟩
    let I : List CEv := [ .edit false (.accessor .read) 0 "format=csv" false, .edit false (.accessor .read) 0 "skip=1" false,
                          .use false 0 [], .use true 0 ["header=true"] ]
    outsC k Session.fresh [[]] I = [.state ["format=csv", "skip=1", "header=true"]] ∧
    outsC k Session.fresh [[]] (onlyOwnC I) = [.state ["header=true"]] := by decide

/-- **a state-dependent `infer_schema` breaks it**: were the argument `not self.temp_views`, registering any
    view — one P never mentions — would make P's single-table statement with an unqualified column unresolvable. -/
theorem C18_cex_inferDependsOnState :
    let infer : Session → Bool := fun σ => σ.catalogObjects.isEmpty
    let σH := applyStep Session.fresh (.registerView "scratch" ["n"])
    [resolveCol (infer Session.fresh) (sourceCols Session.fresh [("payments", "payments")]) "amount",
     resolveCol (infer σH) (sourceCols σH [("payments", "payments")]) "amount"] = [some "payments", none] := by decide

/-! ### the full statement -/

/-- C18 at full strength: along every interleaving with any other work whose ids are fresh, P observes what it
    observes alone — also for view names the other work registered *before* P registered them itself
    (`lastOwnBefore`); the rendered text ignores ids; read-only steps leave no catalog-visible object.
    `C18_history_columns` / `C18_columns_immutable` prove the first part for names the history neither registers
    nor looks up; `C18_cex_tableLookups` shows that a mere lookup of a table P's statement reads changes the
    statement's qualification for the code as it is; `C18_cex_viewColumnsStable` is the re-registration case
    (repaired in the source: `Gen.viewSchemaKeptOnReregister = false`). -/
def C18_full_statement : Prop :=
  (∀ (σ₀ : Session) (h : Heap) (I : List CEv),
      idsFresh (lower h I) (foreignIds (lower h I)) = true →   -- no H_ctesHaveIds, no H_viewsOwn, no H_tableLookupsOwn
      (∀ pre n post, lower h I = pre ++ .readView n :: post →
        ∃ pre₁ cols pre₂, pre = pre₁ ++ .step true (.registerView n cols) :: pre₂ ∧ n ∉ foreignViews pre₂) →
      -- a statement's sources are P's own views (as above) or names the other work never registers — it may look them up
      (∀ pre srcs cols post, lower h I = pre ++ .readSql srcs cols :: post → ∀ s ∈ srcs,
        (∃ pre₁ cs pre₂, pre = pre₁ ++ .step true (.registerView s.2 cs) :: pre₂ ∧ s.2 ∉ foreignViews pre₂) ∨
        s.2 ∉ foreignViews (lower h I)) →
      outsC Copying.real σ₀ h I = outsC Copying.real σ₀ h (onlyOwnC I) ∧ heapAfter Copying.real σ₀ h I = h) ∧
  (∀ (H : String → Name) (chain chain' : List TCte), chain.map TCte.eraseIds = chain'.map TCte.eraseIds →
      rehash H sessHashParts chain = rehash H sessHashParts chain') ∧
  (∀ (σ : Session) (steps : List Step), (∀ st ∈ steps, st.readOnly = true) →
      (runSteps σ steps).catalogObjects = σ.catalogObjects)

end Sqlframe
