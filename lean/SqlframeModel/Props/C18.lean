/-
Props/C18.lean — property theorems for C18 (a pipeline's meaning does not depend on session history; its SQL
is reproducible).

Model: Impl/C18Session.lean around the regenerated Gen.SessionIds (how ids are produced, which registries
`normalize` consults and over which CTEs it iterates, what is hashed into CTE names) and Gen.Views
(whether a re-registration refreshes the catalog's column list).

Reading guide
  `Ev.step own st`              a construction step of the program P (`own = true`) or of other work H
  `Ev.query ctx joined ident`   P normalises the identifier `ident` against an expression whose CTE chain is `ctx`
  `Ev.readView n`               a `session.sql` statement of P is qualified against the catalog's columns of view `n`
  `outs σ I`                    everything P observes of the session along the interleaving `I`, in order
  `onlyOwn I`                   the same program in a session that did nothing else
-/
import SqlframeModel.Lemmas.C18
namespace Sqlframe
open Sqlframe.Sess Sqlframe.Gen

/-! ### the decisions the theorems rest on (regenerated from the source on every run) -/

/-- ids are uuid4 values recorded in `known_ids`; `alias` appends a fresh sequence id; both lookups of
    `normalize` iterate over the CTEs of the expression being normalised (latest first); a CTE name is a
    hash of the SQL text only; the uuid literal is inserted only on a CTE-name clash; a schema lookup goes
    through a TEMPORARY view -/
theorem C18_gen_decisions :
    sessIdSource = .uuid4 ∧ sessAliasAppendsFreshSeq = true ∧
    sessAliasScope = .expressionCtes ∧ sessIdScope = .expressionCtes ∧
    sessAliasOrder = .latestFirst ∧ sessIdOrder = .latestFirst ∧
    sessHashParts = [.sqlText] ∧ sessLiteralOnlyOnClash = true ∧
    sessSchemaViaView = true ∧ sessSchemaViewTemporary = true ∧ sessCounterStart = 1 ∧ sessCounterStep = 1 := by decide

/-! ### alias resolution is scoped -/

/-- **C18_alias_scope.**  The alias lookup depends only on the part of the session's alias map that concerns
    the sequence ids of the expression's own CTE chain. -/
theorem C18_alias_scope (m₁ m₂ : List (Name × List Id)) (ctx : List Cte) (n : Name)
    (h : ∀ c ∈ ctx, (c.seq ∈ lookupAlias m₁ n ↔ c.seq ∈ lookupAlias m₂ n)) :
    resolveAlias m₁ ctx n = resolveAlias m₂ ctx n := resolveAlias_scope m₁ m₂ ctx n h

/-- … and so does the whole normalisation of one identifier: two sessions that agree on everything not
    involving the ids `X` normalise it alike when the identifier and its CTE chain do not involve `X`. -/
theorem C18_ident_scope (X : List Id) (σ σ' : Session) (hag : AgreeOff X σ σ') (ctx : List Cte) (joined : List Name)
    (ident : Name) (hq : ∀ n ∈ queryNames ctx ident, n ∉ X) :
    resolveIdent σ ctx joined ident = resolveIdent σ' ctx joined ident := resolveIdent_agree X σ σ' hag ctx joined ident hq

/-! ### history independence -/

/-- **C18_history.**  For every session state and every interleaving `I` of the construction steps of a
    program P with the steps of any other work H — other DataFrames, reuse of the same alias names, schema
    lookups, actions, actions that raise, registrations of other view names — everything P observes of the
    session (every identifier after normalisation, every catalog column list its SQL statements are
    qualified against) is what it observes when the session does nothing else.  Hypotheses:
    `H_idsFresh` — no id drawn by H occurs among P's identifiers or in P's CTE chains (uuid4 freshness; user
    names are not of the generated shape); `H_viewsOwn` — P reads no view name that H registers;
    `H_ctesHaveIds` — every CTE of the expressions P normalises against carries ids (none comes from the
    text of a `session.sql` statement), or the lookups skip CTEs without ids (`Gen.sessLookupTotal`). -/
theorem C18_history (σ₀ : Session) (I : List Ev)
    (H_idsFresh : idsFresh I (foreignIds I) = true)
    (H_viewsOwn : viewsOwn I (foreignViews I) = true)
    (H_ctesHaveIds : ctesHaveIds I = true) :
    outs σ₀ I = outs σ₀ (onlyOwn I) :=
  outs_interleaved (foreignIds I) (foreignViews I) I σ₀ σ₀ (agree_refl _ σ₀) (fun _ _ => rfl)
    (fun _ h => h) (fun _ h => h) H_idsFresh H_viewsOwn H_ctesHaveIds

/-- removing the actions that raise from a history changes nothing -/
def dropFailed : List Ev → List Ev
  | [] => []
  | .step _ .failedAction :: r => dropFailed r
  | e :: r => e :: dropFailed r

/-- **C18_failed_action_no_state.**  In every history, the actions that raised (P's own or H's) leave no
    trace: P's observations and the final session are those of the history without them. -/
theorem C18_failed_action_no_state (I : List Ev) : ∀ σ : Session,
    outs σ I = outs σ (dropFailed I) ∧ finalSession σ I = finalSession σ (dropFailed I) := by
  induction I with
  | nil => intro σ; exact ⟨rfl, rfl⟩
  | cons e r ih =>
    intro σ
    cases e with
    | step own st =>
      cases st <;> simp only [dropFailed, outs, finalSession, applyStep] <;> first | exact ih _ | skip
      all_goals (try exact ih σ)
      all_goals (split <;> exact ih _)
    | query ctx j ident => simp only [dropFailed, outs, finalSession, (ih σ).1, (ih σ).2]; exact ⟨trivial, trivial⟩
    | readView n => simp only [dropFailed, outs, finalSession, (ih σ).1, (ih σ).2]; exact ⟨trivial, trivial⟩

/-- **C18_readonly_no_objects.**  Every sequence of read-only steps — DataFrame construction, aliases,
    transformations, `collect` / `count` / `show` / `columns`, schema lookups, actions that raise — leaves
    the set of objects the catalog API reports unchanged. -/
theorem C18_readonly_no_objects (σ : Session) (steps : List Step) (h : ∀ st ∈ steps, st.readOnly = true) :
    (runSteps σ steps).catalogObjects = σ.catalogObjects :=
  readOnly_catalog steps σ C18_gen_decisions.2.2.2.2.2.2.2.2.2.1 h

/-! ### reproducible text -/

theorem hashInput_eraseIds (c : TCte) : hashInput sessHashParts c = hashInput sessHashParts c.eraseIds := by
  have h : sessHashParts = [.sqlText] := C18_gen_decisions.2.2.2.2.2.2.1
  rw [h]
  simp [hashInput, TCte.eraseIds]

/-- **C18_text.**  The rendered CTE chain (names re-hashed from the bodies, references renamed) does not
    depend on the branch ids, sequence ids or counter values attached to the CTEs: two builds of a program
    that agree on the bodies, the reference structure and the inserted literals produce identical text. -/
theorem C18_text (H : String → Name) (chain chain' : List TCte)
    (h : chain.map TCte.eraseIds = chain'.map TCte.eraseIds) :
    rehash H sessHashParts chain = rehash H sessHashParts chain' := by
  have key : ∀ ch : List TCte, rehash H sessHashParts ch = rehash H sessHashParts (ch.map TCte.eraseIds) := by
    intro ch
    unfold rehash
    simp only [List.map_map]
    have hren : (ch.map fun c => (c.name, H (hashInput sessHashParts c)))
        = (ch.map ((fun c => (c.name, H (hashInput sessHashParts c))) ∘ TCte.eraseIds)) := by
      apply List.map_congr_left
      intro c _
      simp only [Function.comp]
      rw [← hashInput_eraseIds c]
      rfl
    rw [← hren]
    apply List.map_congr_left
    intro c _
    rfl
  rw [key chain, key chain', h]

/-! ### non-vacuity -/

namespace C18Ex

/-- P: a = createDataFrame; x = a.alias("x"); x.select("x.k")     H: b = createDataFrame; b.alias("x"); b.schema;
    an action that raises; a view of its own — interleaved -/
def I : List Ev :=
  [ .step true (.create "rb1" "rs1"),
    .step false (.create "rb2" "rs2"),
    .step false (.alias "x" "rs3"),
    .step true (.alias "x" "rs4"),
    .step false (.schemaLookup "rv1"),
    .step false .failedAction,
    .step false (.registerView "vh" ["k"]),
    .step true (.registerView "vp" ["k", "s"]),
    .query [⟨"t1", some ("rb1", "rs1")⟩, ⟨"t2", some ("rb1", "rs4")⟩] [] "x",
    .query [⟨"t1", some ("rb1", "rs1")⟩, ⟨"t2", some ("rb1", "rs4")⟩] [] "rb1",
    .readView "vp" ]

end C18Ex

open C18Ex in
/-- the hypotheses of `C18_history` hold for a history that reuses the alias name `x`, and P's alias and
    handle resolve to its own latest CTE in both runs -/
example : idsFresh I (foreignIds I) = true ∧ viewsOwn I (foreignViews I) = true ∧ ctesHaveIds I = true ∧
    outs Session.fresh I = [.ident "t2", .ident "t2", .viewCols (some ["k", "s"])] ∧
    outs Session.fresh (onlyOwn I) = [.ident "t2", .ident "t2", .viewCols (some ["k", "s"])] := by decide

/-- C18_readonly_no_objects instance -/
example : (runSteps Session.fresh [.create "b" "s", .alias "x" "s2", .schemaLookup "v", .action, .failedAction]).catalogObjects = [] ∧
    (runSteps Session.fresh [.create "b" "s", .alias "x" "s2", .schemaLookup "v", .action, .failedAction]).engineTemp = ["v"] := by decide

/-! ### counterexamples for the scope hypotheses -/

/-- **H_idsFresh is needed**: if other work had drawn the very sequence id P's alias uses (two equal uuid4
    values), P's alias `x` would resolve differently with and without that work. -/
theorem C18_cex_idsFresh :
    let I : List Ev := [ .step false (.alias "x" "rs1"), .query [⟨"t1", some ("rb1", "rs1")⟩] [] "x" ]
    idsFresh I (foreignIds I) = false ∧ outs Session.fresh I ≠ outs Session.fresh (onlyOwn I) := by decide

/-- **H_viewColumnsStable is needed** while `catalog.add_table` keeps the old column list: other work registered
    the view name first with other columns; P re-registers it and its statement is still qualified against
    the old list — in a fresh session it sees its own. -/
theorem C18_cex_viewColumnsStable : viewSchemaKeptOnReregister = true →
    (let I : List Ev := [ .step false (.registerView "v" ["k", "s"]), .step true (.registerView "v" ["k", "w"]), .readView "v" ]
     outs Session.fresh I = [.viewCols (some ["k", "s"])] ∧ outs Session.fresh (onlyOwn I) = [.viewCols (some ["k", "w"])]) := by
  decide

/-- **H_ctesHaveIds is needed** while the lookups index `cte.args["sequence_id"]`: P filters the result of a
    `session.sql` statement that had its own CTE `c` (a CTE without ids) on column `k`; other work has
    aliased some DataFrame as `k`.  Alone, the identifier `k` is left as it is; after that work the alias
    lookup runs over P's CTEs and raises KeyError. -/
theorem C18_cex_ctesHaveIds : sessLookupTotal = false →
    (let I : List Ev := [ .step false (.alias "k" "rs9"), .query [⟨"c", none⟩, ⟨"t1", some ("rb1", "rs1")⟩] [] "k" ]
     ctesHaveIds I = false ∧ outs Session.fresh I = [.raised] ∧ outs Session.fresh (onlyOwn I) = [.ident "k"]) := by
  decide

/-! ### the full statement -/

/-- C18 at full strength: along every interleaving with any other work whose ids are fresh, P observes what it
    observes alone — also for view names the other work registered *before* P registered them itself
    (`lastOwnBefore`); the rendered text ignores ids; read-only steps leave no catalog-visible object.
    `C18_history` proves the first part for view names the history does not touch; `C18_cex_viewColumnsStable`
    shows the remaining case fails for the code as it is (shared root cause with C13 H_reregisterKeepsColumns). -/
def C18_full_statement : Prop :=
  (∀ (σ₀ : Session) (I : List Ev), idsFresh I (foreignIds I) = true →   -- no H_ctesHaveIds, no H_viewsOwn
      (∀ pre n post, I = pre ++ .readView n :: post →
        ∃ pre₁ cols pre₂, pre = pre₁ ++ .step true (.registerView n cols) :: pre₂ ∧ n ∉ foreignViews pre₂) →
      outs σ₀ I = outs σ₀ (onlyOwn I)) ∧
  (∀ (H : String → Name) (chain chain' : List TCte), chain.map TCte.eraseIds = chain'.map TCte.eraseIds →
      rehash H sessHashParts chain = rehash H sessHashParts chain') ∧
  (∀ (σ : Session) (steps : List Step), (∀ st ∈ steps, st.readOnly = true) →
      (runSteps σ steps).catalogObjects = σ.catalogObjects)

end Sqlframe
