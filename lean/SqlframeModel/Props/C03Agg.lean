/-
Props/C03Agg.lean — an aggregating block that sqlframe builds is one sqlglot's optimizer keeps apart.

`df.sql()` optimizes by default.  sqlglot's `merge_subqueries` inlines a block into its reader unless `_mergeable`
refuses; for the block alone that is decided by the Select arguments that are set and by the *classes* of the nodes in
its projections (`Gen.unmergeableArgs`, `Gen.mergeBarrierClasses`, regenerated from the installed sqlglot).  An
aggregation that is inlined into a filter / join over its result no longer means the same (`… WHERE v > AVG(t.v)`).

Proved here, for every list of grouping keys and every list of aggregate items:
  * `C03_agg_refuses_iff`      the block `GroupedData.agg` builds is kept apart  iff  it has a key or one of its items
                               is a node of a barrier class — so without keys the node class is all there is;
  * `C03_agg_opaque_merged`    … and a whole-table aggregation made of `exp.Anonymous` nodes only is always mergeable;
  * `C03_shortcut_refused`     every GroupedData shortcut (avg/max/min/sum/mean, any columns, any keys) is kept apart,
                               because (`C03_shortcuts_typed`) each name of `Gen.byNameShortcuts` resolves, after the
                               lower-casing of `_get_function_applied_columns`, to a typed AggFunc of `Gen.fnNodeTable`;
  * `C03_count_refused`        `count()` likewise;
  * `C03_routes_agree`         asking by name (`avg("x")`, `agg({"x": "AVG"})`) builds exactly the items of asking by
                               function (`agg(F.avg("x").alias("avg(x)"))`), whatever the spelling (`C03_dict_spelling`,
                               `C03_dict_lowered`: `str.lower()` is idempotent on every string);
  * `C03_agg_partial`          every route, under the scope hypothesis `H_optOpaqueAggregate` (each function used is a
                               typed aggregate of the table) — the hypothesis is needed: `C03_cex_opaqueAggregate`.
Assumed (validated by the check on every generated program against the real `_mergeable`): that `innerRefuses` is what
sqlglot's `_mergeable` decides for the inner block.
-/
import SqlframeModel.Impl.C03Agg
import SqlframeModel.Lemmas.C03Agg
namespace Sqlframe
open Gen

/-! ### facts about the generated lists -/

theorem group_unmergeable : unmergeableArgs.contains "group" = true := by decide

theorem plain_args_mergeable :
    unmergeableArgs.contains "expressions" = false ∧ unmergeableArgs.contains "from" = false := by decide

theorem shell_classes_not_barrier :
    mergeBarrierClasses.contains "Alias" = false ∧ mergeBarrierClasses.contains "Column" = false ∧
    mergeBarrierClasses.contains "Identifier" = false ∧ mergeBarrierClasses.contains "Anonymous" = false ∧
    mergeBarrierClasses.contains "?" = false := by decide

/-- every AggFunc class is one `_mergeable` looks for (AggFunc is among `mergeBarrierRoots`) -/
theorem agg_sub_barrier (c : String) (h : aggFuncClasses.contains c = true) : mergeBarrierClasses.contains c = true := by
  simp only [mergeBarrierClasses, List.contains_iff_mem, List.mem_append] at *
  exact Or.inl (Or.inl h)

theorem typedAgg_barrier (i : AggItem) (h : i.typedAgg = true) : i.barrier = true := by
  unfold AggItem.typedAgg at h
  unfold AggItem.barrier
  cases hn : i.node with
  | none => simp [hn] at h
  | some n =>
    simp only [hn] at h ⊢
    cases n with
    | typed c => exact agg_sub_barrier c h
    | anonymous _ => simp [FnNode.isAggClass] at h

/-! ### the inner half of `_mergeable` on the block `agg` builds -/

theorem proj_barrier (i : AggItem) :
    (["Alias", (i.node.map FnNode.rootClass).getD "?", "Column", "Identifier"].any
      (fun c => mergeBarrierClasses.contains c)) = i.barrier := by
  obtain ⟨hA, hC, hI, hN, hQ⟩ := shell_classes_not_barrier
  unfold AggItem.barrier
  cases hn : i.node with
  | none => simp only [Option.map_none, Option.getD_none, List.any_cons, List.any_nil, hA, hC, hI, hQ, Bool.or_false]
  | some n =>
    cases n with
    | typed c =>
      simp only [Option.map_some, Option.getD_some, FnNode.rootClass, FnNode.isBarrierClass, List.any_cons, List.any_nil,
        hA, hC, hI, Bool.or_false, Bool.false_or]
    | anonymous m =>
      simp only [Option.map_some, Option.getD_some, FnNode.rootClass, FnNode.isBarrierClass, List.any_cons, List.any_nil,
        hA, hC, hI, hN, Bool.or_false]

theorem key_projs_no_barrier (keys : List String) :
    (keys.map (fun _ => ["Column", "Identifier"])).any (fun p => p.any (fun c => mergeBarrierClasses.contains c)) = false := by
  obtain ⟨_, hC, hI, _, _⟩ := shell_classes_not_barrier
  induction keys with
  | nil => rfl
  | cons k ks ih =>
    simp only [List.map_cons, List.any_cons, List.any_nil, hC, hI, Bool.or_false, Bool.false_or]
    exact ih

theorem item_projs_barrier (items : List AggItem) :
    (items.map (fun i => ["Alias", (i.node.map FnNode.rootClass).getD "?", "Column", "Identifier"])).any
      (fun p => p.any (fun c => mergeBarrierClasses.contains c)) = items.any AggItem.barrier := by
  induction items with
  | nil => rfl
  | cons i is ih =>
    simp only [List.map_cons]
    rw [List.any_cons, ih, proj_barrier i, List.any_cons]

/-- **the block `GroupedData.agg` builds is kept apart iff it has a grouping key or an item of a barrier class** —
    for every list of keys and every list of items -/
theorem C03_agg_refuses_iff (keys : List String) (items : List AggItem) :
    innerRefuses (aggBlock keys items) = (!keys.isEmpty || items.any AggItem.barrier) := by
  obtain ⟨hE, hF⟩ := plain_args_mergeable
  unfold innerRefuses aggBlock
  simp only [List.any_append, key_projs_no_barrier, item_projs_barrier, Bool.false_or]
  cases keys with
  | nil =>
    simp only [List.isEmpty_nil, ↓reduceIte, List.any_cons, List.any_nil, hE, hF, Bool.or_false,
      Bool.false_or, Bool.not_true]
  | cons k ks =>
    simp only [List.isEmpty_cons, Bool.false_eq_true, ↓reduceIte, List.any_cons,
      List.any_nil, hE, hF, group_unmergeable, Bool.or_false, Bool.false_or, Bool.true_or, Bool.not_false]

theorem C03_agg_keyed_refused (keys : List String) (items : List AggItem) (h : keys ≠ []) :
    innerRefuses (aggBlock keys items) = true := by
  rw [C03_agg_refuses_iff]
  cases keys with
  | nil => exact absurd rfl h
  | cons k ks => simp

theorem C03_agg_typed_refused (keys : List String) (items : List AggItem) (h : ∃ i ∈ items, i.typedAgg = true) :
    innerRefuses (aggBlock keys items) = true := by
  rw [C03_agg_refuses_iff]
  obtain ⟨i, hi, ht⟩ := h
  have : items.any AggItem.barrier = true := List.any_eq_true.mpr ⟨i, hi, typedAgg_barrier i ht⟩
  simp [this]

/-- **a whole-table aggregation none of whose items is of a barrier class is mergeable** — in particular one made of
    `exp.Anonymous` nodes only, whatever the functions are called -/
theorem C03_agg_opaque_merged (items : List AggItem) (h : ∀ i ∈ items, i.barrier = false) :
    innerRefuses (aggBlock [] items) = false := by
  rw [C03_agg_refuses_iff]
  have : items.any AggItem.barrier = false := by
    apply Bool.eq_false_iff.mpr
    intro ht
    obtain ⟨i, hi, hb⟩ := List.any_eq_true.mp ht
    rw [h i hi] at hb
    exact Bool.noConfusion hb
  simp [this]

theorem anonymous_not_barrier (fn n arg alias : String) :
    ({ fn := fn, node := some (.anonymous n), arg := arg, alias := alias } : AggItem).barrier = false := rfl

/-! ### the by-name routes -/

/-- the name `_get_function_applied_columns` looks up in the functions module -/
def normFn (fn : String) : String := if byNameLowers then pyLower fn else fn

theorem byName_eq (fn : String) (cols : List String) :
    byName fn cols = (cols.map fun n => (normFn fn, n, byNameAlias (normFn fn) n)).map fnItem := by
  simp [byName, normFn, fnItem, List.map_map, Function.comp_def]

theorem byName_alias (fn : String) (cols : List String) :
    (byName fn cols).map (·.alias) = cols.map (byNameAlias (normFn fn)) := by
  simp [byName, normFn, List.map_map, Function.comp_def]

theorem byName_typed (fn : String) (cols : List String) (c : String)
    (h : fnNode (normFn fn) = some (.typed c)) (hc : aggFuncClasses.contains c = true) :
    ∀ i ∈ byName fn cols, i.typedAgg = true := by
  intro i hi
  simp only [byName, List.mem_map] at hi
  obtain ⟨n, _, rfl⟩ := hi
  simp only [normFn] at h
  simp only [AggItem.typedAgg, h, FnNode.isAggClass, hc]

def shortcutTyped (f : String) : Bool :=
  match fnNode (normFn f) with
  | some n => n.isAggClass
  | none => false

theorem shortcuts_typed_all : byNameShortcuts.all (fun p => shortcutTyped p.2) = true := by decide

theorem lookup_mem {α} (m : String) (f : α) : ∀ (l : List (String × α)), l.lookup m = some f → (m, f) ∈ l := by
  intro l
  induction l with
  | nil => intro h; simp [List.lookup] at h
  | cons p ps ih =>
    intro h
    obtain ⟨k, v⟩ := p
    simp only [List.lookup] at h
    by_cases hk : m = k
    · subst hk
      simp at h
      subst h
      exact List.mem_cons_self
    · have : (m == k) = false := by simpa using hk
      simp only [this] at h
      exact List.mem_cons_of_mem _ (ih h)

/-- **every GroupedData shortcut resolves to a typed aggregate**: the name it hands to
    `_get_function_applied_columns`, lower-cased as that method does, is in `Gen.fnNodeTable` with an AggFunc class -/
theorem C03_shortcuts_typed (m f : String) (h : byNameShortcuts.lookup m = some f) :
    ∃ c, fnNode (normFn f) = some (.typed c) ∧ aggFuncClasses.contains c = true := by
  have hm := lookup_mem m f _ h
  have := List.all_eq_true.mp shortcuts_typed_all (m, f) hm
  simp only [shortcutTyped] at this
  cases hn : fnNode (normFn f) with
  | none => simp [hn] at this
  | some n =>
    simp only [hn] at this
    cases n with
    | typed c => exact ⟨c, rfl, this⟩
    | anonymous _ => simp [FnNode.isAggClass] at this

/-- **avg / max / min / sum / mean over any columns under any keys are kept apart**, one typed item per column, named
    `<fn>(<col>)` -/
theorem C03_shortcut_refused (m : String) (cols keys : List String) (items : List AggItem) (hc : cols ≠ [])
    (h : (Route.shortcut m cols).items = some items) :
    innerRefuses (aggBlock keys items) = true ∧ H_optOpaqueAggregate items ∧
    ∃ f, byNameShortcuts.lookup m = some f ∧ items.map (·.alias) = cols.map (byNameAlias (normFn f)) := by
  simp only [Route.items] at h
  cases hl : byNameShortcuts.lookup m with
  | none => simp [hl] at h
  | some f =>
    simp only [hl, Option.map_some, Option.some.injEq] at h
    subst h
    obtain ⟨c, hn, hcl⟩ := C03_shortcuts_typed m f hl
    have ht := byName_typed f cols c hn hcl
    refine ⟨?_, ht, f, rfl, byName_alias f cols⟩
    cases cols with
    | nil => exact absurd rfl hc
    | cons x xs =>
      apply C03_agg_typed_refused
      have hmem : ({ fn := normFn f, node := fnNode (normFn f), arg := x, alias := byNameAlias (normFn f) x } : AggItem) ∈ byName f (x :: xs) := by
        simp [byName, normFn]
      exact ⟨_, hmem, ht _ hmem⟩

theorem count_item_typed :
    ({ fn := groupCountFn, node := fnNode groupCountFn, arg := groupCountArg, alias := groupCountAlias } : AggItem).typedAgg = true := by
  decide

/-- **`count()` under any keys is kept apart** -/
theorem C03_count_refused (keys : List String) :
    ∃ items, Route.count.items = some items ∧ innerRefuses (aggBlock keys items) = true ∧ H_optOpaqueAggregate items := by
  refine ⟨_, rfl, C03_agg_typed_refused _ _ ⟨_, List.mem_singleton.mpr rfl, count_item_typed⟩, ?_⟩
  intro i hi
  rw [List.mem_singleton.mp hi]
  exact count_item_typed

theorem flatMap_take_one (pairs : List (String × String)) :
    (pairs.flatMap fun p => (byName p.2 [p.1]).take 1) =
      (pairs.map fun p => (normFn p.2, p.1, byNameAlias (normFn p.2) p.1)).map fnItem := by
  induction pairs with
  | nil => rfl
  | cons p ps ih =>
    simp only [List.flatMap_cons, ih]
    simp [byName, normFn, fnItem]

/-- **asking by name builds exactly what asking by function builds**: a shortcut and the dict form of `agg` hand
    `agg` the items of `agg(F.<lower-cased name>(<col>).alias("<name>(<col>)"), …)` -/
theorem C03_routes_agree :
    (∀ m f cols, byNameShortcuts.lookup m = some f →
      (Route.shortcut m cols).items = (Route.fns (cols.map fun n => (normFn f, n, byNameAlias (normFn f) n))).items) ∧
    (∀ pairs, (Route.dict pairs).items =
      (Route.fns (pairs.map fun p => (normFn p.2, p.1, byNameAlias (normFn p.2) p.1))).items) := by
  refine ⟨?_, ?_⟩
  · intro m f cols h
    simp only [Route.items, h, Option.map_some, byName_eq]
  · intro pairs
    simp only [Route.items, flatMap_take_one]

/-- the dict form depends on a function's name only through its lower-cased spelling (`func_name.lower()`) -/
theorem C03_dict_spelling (hl : byNameLowers = true) (pairs pairs' : List (String × String))
    (h : pairs.map (fun p => (p.1, pyLower p.2)) = pairs'.map (fun p => (p.1, pyLower p.2))) :
    (Route.dict pairs).items = (Route.dict pairs').items := by
  rw [C03_routes_agree.2 pairs, C03_routes_agree.2 pairs']
  have e : ∀ l : List (String × String),
      (l.map fun p => (normFn p.2, p.1, byNameAlias (normFn p.2) p.1)) =
      ((l.map fun p => (p.1, pyLower p.2)).map fun q => (q.2, q.1, byNameAlias q.2 q.1)) := by
    intro l
    simp [List.map_map, Function.comp_def, normFn, hl]
  rw [e pairs, e pairs', h]

/-- … so writing the names in lower case beforehand changes nothing, for any dict (`str.lower()` is idempotent) -/
theorem C03_dict_lowered (hl : byNameLowers = true) (pairs : List (String × String)) :
    (Route.dict (pairs.map fun p => (p.1, pyLower p.2))).items = (Route.dict pairs).items := by
  apply C03_dict_spelling hl
  simp [List.map_map, Function.comp_def, pyLower_idem]

/-- the dict form of `agg` with at least one item, every function of which is a typed aggregate, is kept apart -/
theorem C03_dict_refused (pairs : List (String × String)) (keys : List String) (items : List AggItem)
    (hne : pairs ≠ [])
    (ht : ∀ p ∈ pairs, ∃ c, fnNode (normFn p.2) = some (.typed c) ∧ aggFuncClasses.contains c = true)
    (h : (Route.dict pairs).items = some items) : innerRefuses (aggBlock keys items) = true := by
  rw [C03_routes_agree.2 pairs] at h
  simp only [Route.items, Option.some.injEq] at h
  subst h
  cases pairs with
  | nil => exact absurd rfl hne
  | cons p ps =>
    obtain ⟨c, hn, hc⟩ := ht p List.mem_cons_self
    apply C03_agg_typed_refused
    refine ⟨fnItem (normFn p.2, p.1, byNameAlias (normFn p.2) p.1), by simp, ?_⟩
    simp only [fnItem, AggItem.typedAgg, hn, FnNode.isAggClass, hc]

/-! ### every route, under the scope hypothesis -/

/-- **every route to an aggregation**, with any keys: if each function used is a typed aggregate the block is kept apart -/
theorem C03_agg_partial (r : Route) (keys : List String) (items : List AggItem)
    (_h : r.items = some items) (hne : items ≠ []) (hyp : H_optOpaqueAggregate items) :
    innerRefuses (aggBlock keys items) = true := by
  cases items with
  | nil => exact absurd rfl hne
  | cons i is => exact C03_agg_typed_refused _ _ ⟨i, List.mem_cons_self, hyp i List.mem_cons_self⟩

/-- the statement at full strength: no hypothesis on the functions -/
def C03Agg_full_statement : Prop :=
  ∀ (r : Route) (keys : List String) (items : List AggItem), r.items = some items → items ≠ [] →
    innerRefuses (aggBlock keys items) = true

def cexOpaqueItem : AggItem := { fn := "product", node := some (.anonymous "PRODUCT"), arg := "v", alias := "a0" }

/-- **counterexample** for `H_optOpaqueAggregate` (replayed on the real code by the check): `functions.product` is emitted
    as `exp.Anonymous("PRODUCT")`; `df.groupBy().agg(F.product("v").alias("a0"))` is a block sqlglot merges into a
    filter on `a0` -/
theorem C03_cex_opaqueAggregate (h : fnNode "product" = some (.anonymous "PRODUCT")) :
    (Route.fns [("product", "v", "a0")]).items = some [cexOpaqueItem] ∧
    innerRefuses (aggBlock [] [cexOpaqueItem]) = false ∧
    violatedC03Agg [cexOpaqueItem] = ["H_optOpaqueAggregate"] := by
  refine ⟨by simp [Route.items, fnItem, h, cexOpaqueItem], ?_, by decide⟩
  exact C03_agg_opaque_merged _ (by intro i hi; rw [List.mem_singleton.mp hi]; rfl)

theorem C03_agg_full_fails (h : fnNode "product" = some (.anonymous "PRODUCT")) : ¬ C03Agg_full_statement := by
  intro full
  obtain ⟨h1, h2, _⟩ := C03_cex_opaqueAggregate h
  have := full _ [] _ h1 (by simp)
  rw [h2] at this
  exact Bool.noConfusion this

/-! ### non-vacuity -/

example : (Route.shortcut "mean" ["v", "k"]).items = some
    [{ fn := "avg", node := some (.typed "Avg"), arg := "v", alias := "avg(v)" },
     { fn := "avg", node := some (.typed "Avg"), arg := "k", alias := "avg(k)" }] := by decide
example : (Route.dict [("v", "MAX")]).items = some [{ fn := "max", node := some (.typed "Max"), arg := "v", alias := "max(v)" }] := by decide
example : innerRefuses (aggBlock [] [{ fn := "avg", node := some (.typed "Avg"), arg := "v", alias := "avg(v)" }]) = true := by decide
example : H_optOpaqueAggregate [{ fn := "avg", node := some (.typed "Avg"), arg := "v", alias := "avg(v)" }] := by decide
example : ∃ c, fnNode (normFn "MAX") = some (.typed c) ∧ aggFuncClasses.contains c = true := ⟨"Max", by decide⟩
example : fnNode "product" = some (.anonymous "PRODUCT") := by decide
example : byNameShortcuts.lookup "mean" = some "avg" := by decide
example : byNameLowers = true := by decide
example : (Route.dict [("v", "Max")]).items = (Route.dict [("v", "MAX")]).items :=
  C03_dict_spelling (by decide) _ _ (by decide)

end Sqlframe
