/-
Props/C06.lean — property theorems for C06 (grouping and aggregation follow Spark semantics).

Model: Impl/C06Group.lean around the regenerated Gen.Group (shortcut table, alias format, count alias,
agg's decorator tag, cube's size sequence), Gen.Methods (tags of groupBy / agg / cube) and Gen.Operations
(the wrap rule of both decorators).  avg is an exact rational (see Impl/C06Group.lean).
-/
import SqlframeModel.Lemmas.C06DF
namespace Sqlframe
open Gen

/-- same columns, same bag of rows -/
def SameBag (S T : Table) : Prop := S.cols = T.cols ∧ S.rows.Perm T.rows

/-! ### semantics of grouping and of the aggregate functions -/

/-- **One row per distinct key combination, NULL being a key value like any other.**  Hash aggregation
    over any key function yields exactly one group per distinct key tuple (no tuple twice), holding
    exactly the rows with that key. -/
theorem C06_group_sem (keyOf : Row → List Val) (rows : List Row) :
    groupR keyOf rows = (distinctL (rows.map keyOf)).map (fun k => (k, rows.filter (fun r => keyOf r = k))) ∧
    (distinctL (rows.map keyOf)).Nodup ∧ (∀ k, k ∈ distinctL (rows.map keyOf) ↔ ∃ r ∈ rows, keyOf r = k) := by
  refine ⟨groupR_spec keyOf rows, distinctL_nodup _, fun k => ?_⟩
  rw [mem_distinctL, List.mem_map]

theorem intsOf_nonNull : ∀ vs : List Val, intsOf (nonNull vs) = intsOf vs
  | [] => rfl
  | v :: vs => by
    have ih := intsOf_nonNull vs
    cases v <;> simp_all [nonNull, intsOf, List.filter_cons]

/-- **Aggregates skip NULL inputs; count('*') counts rows while count(col) counts non-NULLs.** -/
theorem C06_agg_nulls (vs : List Val) :
    aggVal .countStar vs = .int vs.length ∧
    aggVal .count vs = .int (vs.filter (fun v => v ≠ .null)).length ∧
    (∀ fn, fn ≠ .countStar → aggVal fn vs = aggVal fn (nonNull vs)) := by
  refine ⟨rfl, rfl, fun fn hfn => ?_⟩
  have hid : nonNull (nonNull vs) = nonNull vs := by simp [nonNull, List.filter_filter]
  cases fn <;> simp only [aggVal, hid, intsOf_nonNull] <;> exact absurd rfl hfn

theorem distinctL_singletons : ∀ vs : List Val, distinctL (vs.map (fun v => [v])) = (distinctVals vs).map (fun v => [v])
  | [] => rfl
  | v :: vs => by
    have ih := distinctL_singletons vs
    have hm : ([v] ∈ vs.map (fun v => [v])) ↔ v ∈ vs := by
      simp [List.mem_map]
    simp only [List.map_cons, distinctL, distinctVals]
    by_cases h : v ∈ vs
    · rw [if_pos (hm.mpr h), if_pos h, ih]
    · rw [if_neg (fun h' => h (hm.mp h')), if_neg h, ih, List.map_cons]

/-- **count_distinct over several columns counts the distinct tuples among the rows in which *every*
    argument is non-NULL** — an inductive characterisation over the rows of a group: nothing counts on no
    rows; a row with a NULL in any argument is skipped; a tuple already seen is not counted again; a new
    all-non-NULL tuple counts once; and with one argument it is the single-column count_distinct. -/
theorem C06_count_distinct_n :
    countDistinctTuples [] = .int 0 ∧
    (∀ t ts, tupleNonNull t = false → countDistinctTuples (t :: ts) = countDistinctTuples ts) ∧
    (∀ t ts, t ∈ ts → countDistinctTuples (t :: ts) = countDistinctTuples ts) ∧
    (∀ t ts n, tupleNonNull t = true → t ∉ ts → countDistinctTuples ts = .int n →
        countDistinctTuples (t :: ts) = .int (n + 1)) ∧
    (∀ vs : List Val, countDistinctTuples (vs.map (fun v => [v])) = aggVal .countDistinct vs) := by
  refine ⟨rfl, fun t ts h => ?_, fun t ts hm => ?_, fun t ts n h hm hn => ?_, fun vs => ?_⟩
  · simp [countDistinctTuples, List.filter_cons, h]
  · by_cases h : tupleNonNull t = true
    · have : t ∈ ts.filter tupleNonNull := List.mem_filter.mpr ⟨hm, h⟩
      simp [countDistinctTuples, List.filter_cons, h, distinctL, this]
    · simp [countDistinctTuples, List.filter_cons, h]
  · have hnm : t ∉ ts.filter tupleNonNull := fun h' => hm (List.mem_filter.mp h').1
    simp only [countDistinctTuples, Val.int.injEq] at hn ⊢
    simp only [List.filter_cons, h, if_true, distinctL, hnm, if_false, List.length_cons]
    omega
  · have hf : (vs.map (fun v => [v])).filter tupleNonNull = (nonNull vs).map (fun v => [v]) := by
      induction vs with
      | nil => rfl
      | cons v vs ih =>
        by_cases hv : v = .null
        · subst hv; simpa [nonNull, tupleNonNull, List.filter_cons] using ih
        · simpa [nonNull, tupleNonNull, List.filter_cons, hv] using ih
    simp only [countDistinctTuples, aggVal, hf, distinctL_singletons, List.length_map]

/-- **GROUP BY block = specification, for all tables.**  The block `GroupedData.agg` builds (GROUP BY on the
    un-aliased key expressions, select list keys ++ aggregates, the WHERE of the open block kept) evaluates
    to the specification applied to the filtered source. -/
theorem C06_agg_sem (wher : List Expr) (keys : List (Name × Expr)) (aggs : List (Name × AExpr)) (T0 : Table)
    (hk : (keys.map (·.2)).Nodup) :
    evalGBlock { wher := wher, groupBy := keys.map (·.2),
                 sel := keys.map (fun k => (k.1, GItem.key k.2)) ++ aggs.map (fun a => (a.1, GItem.agg a.2)) } T0
      = aggSpec keys aggs { cols := T0.cols, rows := stWhere wher T0 } :=
  evalGBlock_spec wher keys aggs T0 hk

/-- **Empty input**: a global aggregate yields exactly one row (count 0, sum/min/max/avg NULL), a grouped
    one yields none — for the DataFrame model, in any reachable state. -/
theorem C06_empty (d : DF) (hi : Inv d) (keys : List (Name × Expr)) (aggs : List (Name × AExpr))
    (hwf : aggsWF d.eval.cols keys aggs) (he : d.eval.rows = []) :
    (keys = [] → ((d.groupBy keys).agg aggs).eval.rows = [aggs.map (fun a => evalAExpr d.eval.cols [] a.2)]) ∧
    (keys ≠ [] → ((d.groupBy keys).agg aggs).eval.rows = []) ∧
    aggVal .countStar [] = .int 0 ∧ aggVal .count [] = .int 0 ∧ aggVal .sum [] = .null ∧
    aggVal .avg [] = .null ∧ aggVal .min [] = .null ∧ aggVal .max [] = .null ∧ aggVal .countDistinct [] = .int 0 := by
  rw [(groupAgg_df d hi keys aggs hwf).1]
  refine ⟨?_, ?_, by decide, by decide, by decide, by decide, by decide, by decide, by decide⟩
  · intro hk; subst hk; simp [aggSpec, he]
  · intro hk; simp [aggSpec, he, hk, distinctL]

/-! ### output columns -/

/-- **Output columns are the keys followed by the aggregates in the order given; shortcut aggregates are
    named `fn(col)` as in PySpark (`avg(c)` also for `mean`), `count()` gives `count`.**
    (1) groupBy(keys).agg(aggs) in any reachable state; (2) for *every* method name and column list the
    generated shortcut table and alias format produce PySpark's aggregate list (name and function);
    (3) count(). -/
theorem C06_cols :
    (∀ (d : DF) (keys : List (Name × Expr)) (aggs : List (Name × AExpr)), Inv d → aggsWF d.eval.cols keys aggs →
        ((d.groupBy keys).agg aggs).eval.cols = keys.map (·.1) ++ aggs.map (·.1)) ∧
    (∀ (m : String) (cs : List Name), shortcutAggs m cs = specShortcutAggs m cs) ∧
    (∀ (m : String) (c : Name) (p : String × AggFn), sparkShortcut m = some p →
        shortcutAggs m [c] = some [(p.1 ++ "(" ++ c ++ ")", AExpr.agg p.2 (.col c))]) ∧
    countAggs = [("count", AExpr.agg .countStar (.lit (.int 1)))] := by
  refine ⟨fun d keys aggs hi hwf => ?_, shortcutAggs_spec, fun m c p hp => ?_, by decide⟩
  · rw [(groupAgg_df d hi keys aggs hwf).1]; rfl
  · rw [shortcutAggs_spec]; simp [specShortcutAggs, hp]

/-! ### cube -/

/-- **cube enumerates every subset of the keys exactly once** (unbounded number of keys): the generated
    loop `for i in <sizes>: combinations(cols, i)` is a permutation of the canonical enumeration of all
    sub-lists, which for duplicate-free keys contains each sub-list exactly once. -/
theorem C06_cube {α} (keys : List α) :
    (cubeSets keys).Perm (sublistsL keys) ∧
    (∀ s, s ∈ sublistsL keys ↔ s.Sublist keys) ∧
    (keys.Nodup → (sublistsL keys).Nodup ∧ (cubeSets keys).Nodup) := by
  refine ⟨cubeSets_perm keys, mem_sublistsL keys, fun h => ⟨sublistsL_nodup keys h, ?_⟩⟩
  exact (cubeSets_perm keys).nodup_iff.mpr (sublistsL_nodup keys h)

/-- **cube on a non-empty input** = every sub-total level of the specification (as a bag), and the result
    satisfies the clause-order invariant -/
theorem C06_cube_df (d : DF) (hi : Inv d) (keys : List (Name × Expr)) (aggs : List (Name × AExpr))
    (hwf : aggsWF d.eval.cols keys aggs) (hne : d.eval.rows ≠ []) :
    SameBag ((d.cube keys).agg aggs).eval (cubeSpec keys aggs d.eval) ∧ Inv ((d.cube keys).agg aggs) := by
  obtain ⟨h1, h2, h3⟩ := cube_df d hi keys aggs hwf hne
  exact ⟨⟨h1, h2⟩, h3⟩

/-! ### as a step inside chains -/

/-- **One step** (a plain C01 step other than orderBy, or groupBy().agg / a shortcut / count() /
    DataFrame.agg): the model's result is the specification's, and the invariant is re-established — so an
    aggregate after a select starts a new SELECT, and a where after an aggregate is a post-filter. -/
theorem C06_step (d : DF) (s : GStep) (hi : Inv d) (hs : s.WF d.eval.cols) (hok : s.okForChain = true) :
    (d.applyG s).eval = specG d.eval s ∧ Inv (d.applyG s) := applyG_step d s hi hs hok

theorem C06_run (steps : List GStep) : ∀ (d : DF), Inv d → GStepsWF d.eval steps →
    (∀ s ∈ steps, s.okForChain = true) → (d.runG steps).eval = specRunG d.eval steps ∧ Inv (d.runG steps) := by
  induction steps with
  | nil => intro d hi _ _; exact ⟨rfl, hi⟩
  | cons s ss ih =>
    intro d hi hwf hok
    obtain ⟨he, hi'⟩ := C06_step d s hi hwf.1 (hok s (by simp))
    have := ih (d.applyG s) hi' (by rw [he]; exact hwf.2) (fun t ht => hok t (by simp [ht]))
    simp only [DF.runG, specRunG, List.foldl_cons] at this ⊢
    rw [this.1, he]
    exact ⟨rfl, this.2⟩

/-! ### the full statement, the proved part, the counterexample -/

def GStep.noOrderBy : GStep → Bool
  | .plain s => !s.isOrderBy
  | .group _ => true

/-- C06 as given: every PySpark-valid chain of plain steps and grouping operations (cube included, anywhere)
    over a well-formed table yields PySpark's columns and bag of rows. -/
def C06_full_statement : Prop :=
  ∀ (T : Table) (steps : List GStep), T.WF → GStepsWF T steps → (∀ s ∈ steps, s.noOrderBy = true) →
    SameBag ((DF.init T).runG steps).eval (specRunG T steps)

/-- **C06 (proved part).**  (1) every chain without cube: equality with the specification;
    (2) a chain followed by one cube whose input is not empty (`H_cubeEmptyInput`): same bag. -/
theorem C06_partial (T : Table) (hT : T.WF) (pre : List GStep) (hwf : GStepsWF T pre)
    (hok : ∀ s ∈ pre, s.okForChain = true) :
    ((DF.init T).runG pre).eval = specRunG T pre ∧
    (∀ keys aggs, aggsWF (specRunG T pre).cols keys aggs → (specRunG T pre).rows ≠ [] →
      SameBag ((DF.init T).runG (pre ++ [.group (.cube keys aggs)])).eval (specRunG T (pre ++ [.group (.cube keys aggs)]))) := by
  have hf := init_fresh T hT
  have he : (DF.init T).eval = T := fresh_eval _ hf
  obtain ⟨hr, hi⟩ := C06_run pre (DF.init T) hf.inv (by rw [he]; exact hwf) hok
  rw [he] at hr
  refine ⟨hr, fun keys aggs hw hne => ?_⟩
  have h := (C06_cube_df _ hi keys aggs (by rw [hr]; exact hw) (by rw [hr]; exact hne)).1
  simp only [DF.runG, specRunG, List.foldl_append, List.foldl_cons, List.foldl_nil] at hr ⊢
  simp only [DF.applyG, specG, GOp.implParts, GOp.specParts, GOp.isDfAgg, GOp.isCube, if_true, Bool.false_eq_true, if_false]
  rw [← hr]
  exact h

def cexTable : Table := { cols := ["k", "x"], rows := [] }
def cexSteps : List GStep := [.group (.cube [("k", .col "k")] [("count", .agg .countStar (.lit (.int 1)))])]

/-- **counterexample** for `H_cubeEmptyInput` (replayed on the real code by the check): `cube('k').count()` on
    an empty table — GROUPING SETS gives the grand-total row `(NULL, 0)`, Spark gives no row. -/
theorem C06_cex_cubeEmptyInput :
    cexTable.WF ∧ GStepsWF cexTable cexSteps ∧
    ((DF.init cexTable).runG cexSteps).eval.rows = [[.null, .int 0]] ∧ (specRunG cexTable cexSteps).rows = [] ∧
    violatedC06 cexTable cexSteps = ["H_cubeEmptyInput"] := by decide

theorem C06_not_full : ¬ C06_full_statement := by
  intro h
  obtain ⟨hwf, hs, hm, hsp, _⟩ := C06_cex_cubeEmptyInput
  have := (h cexTable cexSteps hwf hs (by decide)).2
  rw [hm, hsp] at this
  exact absurd this.length_eq (by decide)

/-! ### non-vacuity -/

def exT : Table :=
  { cols := ["k", "x", "s"], rows := [[.int 1, .int 2, .str "a"], [.int 1, .null, .str "b"], [.null, .int 5, .null], [.null, .int 7, .str "a"], [.int 2, .null, .null]] }

/-- select, then groupBy on an aliased expression + a name, all aggregate kinds, then a post-filter, then re-aggregation -/
def exChain : List GStep :=
  [ .plain (.select [("k", .col "k"), ("y", .bin .add (.col "x") (.lit (.int 1))), ("s", .col "s")]),
    .group (.groupAgg [("kk", .bin .mul (.col "k") (.lit (.int 2)))]
      [("c", .agg .countStar (.lit (.int 1))), ("n", .agg .count (.col "y")), ("t", .agg .sum (.col "y")),
       ("a", .agg .avg (.col "y")), ("lo", .agg .min (.col "s")), ("hi", .agg .max (.col "y")), ("d", .agg .countDistinct (.col "s")),
       ("z", .bin .add (.agg .sum (.col "y")) (.agg .countStar (.lit (.int 1))))]),
    .plain (.wher (.bin .gt (.col "c") (.lit (.int 1)))),
    .group (.shortcut [] "mean" ["c"]) ]

example : exT.WF ∧ GStepsWF exT exChain ∧ (∀ s ∈ exChain, s.okForChain = true) := by decide
example : (specRunG exT (exChain.take 2)).rows =
    [[.int 2, .int 2, .int 1, .int 3, .int 3, .str "a", .int 3, .int 2, .int 5],
     [.null, .int 2, .int 2, .int 14, .int 7, .str "a", .int 8, .int 1, .int 16],
     [.int 4, .int 1, .int 0, .null, .null, .null, .null, .int 0, .null]] := by decide
example : ((DF.init exT).runG exChain).eval = { cols := ["avg(c)"], rows := [[.int 2]] } := by decide
example : countDistinctTuples [[.str "ann", .str "tea"], [.str "ann", .str "tea"], [.str "ann", .null], [.null, .str "tea"],
    [.str "bob", .str "tea"], [.null, .null]] = .int 2 := by decide
example : (cubeSets ["a", "b"]) = [["a", "b"], ["a"], ["b"], []] := by decide
example : aggsWF exT.cols [("k", .col "k"), ("s", .col "s")] [("count", .agg .countStar (.lit (.int 1)))] ∧ exT.rows ≠ [] := by decide

end Sqlframe
