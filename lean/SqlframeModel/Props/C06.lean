/-
Props/C06.lean — property theorems for C06 (grouping and aggregation follow Spark semantics).

Model: Impl/C06Group.lean around the regenerated Gen.Group (shortcut table, alias format, count alias,
agg's decorator tag, cube's size sequence), Gen.Methods (tags of groupBy / agg / cube) and Gen.Operations
(the wrap rule of both decorators).  avg is an exact rational (see Impl/C06Group.lean).
-/
import SqlframeModel.Lemmas.C06DF
import SqlframeModel.Lemmas.C06Const
import SqlframeModel.Lemmas.C06Pos
namespace Sqlframe
open Gen

/-- same columns, same bag of rows -/
def SameBag (S T : Table) : Prop := S.cols = T.cols ∧ S.rows.Perm T.rows

/-! ### semantics of grouping and of the aggregate functions -/

/-- **One row per distinct key combination, NULL being a key value like any other.**  Hash aggregation
    over any key function yields exactly one group per distinct key tuple (no tuple twice), holding
    exactly the rows with that key. -/
theorem C06_group_sem (keyOf : Row → List Val) (rows : List Row) :
    groupR keyOf rows = (distinctL (rows.map keyOf)).map (fun k => (k, rows.filter (fun r => keyOf r = k))) ∧
    (distinctL (rows.map keyOf)).Nodup ∧ (∀ k, k ∈ distinctL (rows.map keyOf) ↔ ∃ r ∈ rows, keyOf r = k) := by
  refine ⟨groupR_spec keyOf rows, distinctL_nodup _, fun k => ?_⟩
  rw [mem_distinctL, List.mem_map]

theorem intsOf_nonNull : ∀ vs : List Val, intsOf (nonNull vs) = intsOf vs
  | [] => rfl
  | v :: vs => by
    have ih := intsOf_nonNull vs
    cases v <;> simp_all [nonNull, intsOf, List.filter_cons]

/-- **Aggregates skip NULL inputs; count('*') counts rows while count(col) counts non-NULLs.** -/
theorem C06_agg_nulls (vs : List Val) :
    aggVal .countStar vs = .int vs.length ∧
    aggVal .count vs = .int (vs.filter (fun v => v ≠ .null)).length ∧
    (∀ fn, fn ≠ .countStar → aggVal fn vs = aggVal fn (nonNull vs)) := by
  refine ⟨rfl, rfl, fun fn hfn => ?_⟩
  have hid : nonNull (nonNull vs) = nonNull vs := by simp [nonNull, List.filter_filter]
  cases fn <;> simp only [aggVal, hid, intsOf_nonNull] <;> exact absurd rfl hfn

theorem distinctL_singletons : ∀ vs : List Val, distinctL (vs.map (fun v => [v])) = (distinctVals vs).map (fun v => [v])
  | [] => rfl
  | v :: vs => by
    have ih := distinctL_singletons vs
    have hm : ([v] ∈ vs.map (fun v => [v])) ↔ v ∈ vs := by
      simp [List.mem_map]
    simp only [List.map_cons, distinctL, distinctVals]
    by_cases h : v ∈ vs
    · rw [if_pos (hm.mpr h), if_pos h, ih]
    · rw [if_neg (fun h' => h (hm.mp h')), if_neg h, ih, List.map_cons]

/-- **count_distinct over several columns counts the distinct tuples among the rows in which *every*
    argument is non-NULL** — an inductive characterisation over the rows of a group: nothing counts on no
    rows; a row with a NULL in any argument is skipped; a tuple already seen is not counted again; a new
    all-non-NULL tuple counts once; and with one argument it is the single-column count_distinct. -/
theorem C06_count_distinct_n :
    countDistinctTuples [] = .int 0 ∧
    (∀ t ts, tupleNonNull t = false → countDistinctTuples (t :: ts) = countDistinctTuples ts) ∧
    (∀ t ts, t ∈ ts → countDistinctTuples (t :: ts) = countDistinctTuples ts) ∧
    (∀ t ts n, tupleNonNull t = true → t ∉ ts → countDistinctTuples ts = .int n →
        countDistinctTuples (t :: ts) = .int (n + 1)) ∧
    (∀ vs : List Val, countDistinctTuples (vs.map (fun v => [v])) = aggVal .countDistinct vs) := by
  refine ⟨rfl, fun t ts h => ?_, fun t ts hm => ?_, fun t ts n h hm hn => ?_, fun vs => ?_⟩
  · simp [countDistinctTuples, List.filter_cons, h]
  · by_cases h : tupleNonNull t = true
    · have : t ∈ ts.filter tupleNonNull := List.mem_filter.mpr ⟨hm, h⟩
      simp [countDistinctTuples, List.filter_cons, h, distinctL, this]
    · simp [countDistinctTuples, List.filter_cons, h]
  · have hnm : t ∉ ts.filter tupleNonNull := fun h' => hm (List.mem_filter.mp h').1
    simp only [countDistinctTuples, Val.int.injEq] at hn ⊢
    simp only [List.filter_cons, h, if_true, distinctL, hnm, if_false, List.length_cons]
    omega
  · have hf : (vs.map (fun v => [v])).filter tupleNonNull = (nonNull vs).map (fun v => [v]) := by
      induction vs with
      | nil => rfl
      | cons v vs ih =>
        by_cases hv : v = .null
        · subst hv; simpa [nonNull, tupleNonNull, List.filter_cons] using ih
        · simpa [nonNull, tupleNonNull, List.filter_cons, hv] using ih
    simp only [countDistinctTuples, aggVal, hf, distinctL_singletons, List.length_map]

/-- **GROUP BY block = specification, for all tables.**  The block `GroupedData.agg` builds (GROUP BY on the
    un-aliased expressions of the keys the regenerated filter keeps, select list keys ++ aggregates, the WHERE
    of the open block kept) evaluates to the specification applied to the filtered source — for every key
    list without an integer literal (`H_intLiteralKey`), constants of any other kind included. -/
theorem C06_agg_sem (wher : List Expr) (keys : List (Name × Expr)) (aggs : List (Name × AExpr)) (T0 : Table)
    (hk : (keys.map (·.2)).Nodup) (hn : ∀ k ∈ keys, k.2.isIntLit = false) :
    evalGBlock { wher := wher, groupBy := groupByList keys,
                 sel := keys.map (fun k => (k.1, GItem.key k.2)) ++ aggs.map (fun a => (a.1, GItem.agg a.2)) } T0
      = aggSpec keys aggs { cols := T0.cols, rows := stWhere wher T0 } :=
  evalGBlock_spec wher keys aggs T0 hk hn

/-- **Empty input**: a global aggregate yields exactly one row (count 0, sum/min/max/avg NULL), a grouped
    one yields none — for the DataFrame model, in any reachable state. -/
theorem C06_empty (d : DF) (hi : Inv d) (keys : List (Name × Expr)) (aggs : List (Name × AExpr))
    (hwf : aggsWF d.eval.cols keys aggs) (hn : ∀ k ∈ keys, k.2.isIntLit = false) (he : d.eval.rows = []) :
    (keys = [] → ((d.groupBy keys).agg aggs).eval.rows = [aggs.map (fun a => evalAExpr d.eval.cols [] a.2)]) ∧
    (keys ≠ [] → ((d.groupBy keys).agg aggs).eval.rows = []) ∧
    aggVal .countStar [] = .int 0 ∧ aggVal .count [] = .int 0 ∧ aggVal .sum [] = .null ∧
    aggVal .avg [] = .null ∧ aggVal .min [] = .null ∧ aggVal .max [] = .null ∧ aggVal .countDistinct [] = .int 0 := by
  rw [(groupAgg_df d hi keys aggs hwf hn).1]
  refine ⟨?_, ?_, by decide, by decide, by decide, by decide, by decide, by decide, by decide⟩
  · intro hk; subst hk; simp [aggSpec, he]
  · intro hk; simp [aggSpec, he, hk, distinctL]

/-! ### which keys reach GROUP BY; constant keys; integer constants are positions -/

/-- **Every grouping key reaches the GROUP BY clause** (and, for cube, the tuple of every grouping set it
    belongs to), whatever the class of its expression — string / number literal, Boolean, NULL, column, or
    any other expression.  The two filters are regenerated from the comprehensions
    `[x.column_expression for x in self.group_by_cols <if …>]` / `… for x in grouping_set <if …>` of
    `GroupedData.agg`; a non-empty key list therefore never yields a statement without GROUP BY. -/
theorem C06_groupby_keys :
    (∀ c : KeyClass, groupByKeeps c = true) ∧ (∀ c : KeyClass, groupingSetKeeps c = true) ∧
    (∀ keys : List (Name × Expr), groupByList keys = keys.map (·.2)) ∧
    (∀ S : List (Name × Expr), groupingSetList S = S.map (·.2)) ∧
    (∀ keys : List (Name × Expr), keys ≠ [] → groupByList keys ≠ []) := by
  refine ⟨groupByKeeps_all, groupingSetKeeps_all, groupByList_eq, groupingSetList_eq, fun keys hk h => ?_⟩
  rw [groupByList_eq] at h
  exact hk (List.map_eq_nil_iff.mp h)

/-- **A grouped aggregate whose keys are all constants is still a grouped aggregate**: one row — the
    constants followed by the aggregates over all rows — iff the input has a row, and *no* row over an empty
    input (a global aggregate would yield one).  (1) PySpark's specification, for every table;
    (2) the DataFrame model in any reachable state (keys without integer literals). -/
theorem C06_const_keys (keys : List (Name × Expr)) (aggs : List (Name × AExpr))
    (hk : keys ≠ []) (hc : ∀ k ∈ keys, k.2.refs = []) :
    (∀ T : Table, (aggSpec keys aggs T).rows =
      if T.rows = [] then []
      else [keys.map (fun k => constValue k.2) ++ aggs.map (fun a => evalAExpr T.cols T.rows a.2)]) ∧
    (∀ d : DF, Inv d → aggsWF d.eval.cols keys aggs → (∀ k ∈ keys, k.2.isIntLit = false) →
      ((d.groupBy keys).agg aggs).eval.rows =
        if d.eval.rows = [] then []
        else [keys.map (fun k => constValue k.2) ++ aggs.map (fun a => evalAExpr d.eval.cols d.eval.rows a.2)]) := by
  refine ⟨fun T => aggSpec_const_keys keys aggs T hk hc, fun d hi hwf hn => ?_⟩
  rw [(groupAgg_df d hi keys aggs hwf hn).1]
  exact aggSpec_const_keys keys aggs d.eval hk hc

/-- **The engine reads a bare integer constant in GROUP BY as a position in the select list** (the assumed
    engine rule, validated against DuckDB by the stream): any other term stands for itself; the constant `n`
    stands for the expression of the n-th select item if that is a key, and is rejected otherwise; one
    rejected term rejects the clause. -/
theorem C06_groupby_position (sel : List (Name × GItem)) :
    (∀ e : Expr, e.isIntLit = false → groupByTerm sel e = some e) ∧
    (∀ (n : Int) (e : Expr), groupByTerm sel (.lit (.int n)) = some e ↔
        0 < n ∧ ∃ nm, sel[(n - 1).toNat]? = some (nm, GItem.key e)) ∧
    (∀ es : List Expr, (∃ e ∈ es, groupByTerm sel e = none) → resolveGroupBy sel es = none) ∧
    (∀ es : List Expr, (∀ e ∈ es, e.isIntLit = false) → resolveGroupBy sel es = some es) := by
  refine ⟨groupByTerm_self sel, fun n e => ?_, resolveGroupBy_none sel, resolveGroupBy_self sel⟩
  simp only [groupByTerm]
  by_cases h0 : n ≤ 0
  · rw [if_pos h0]
    constructor
    · intro h; exact absurd h (by simp)
    · intro h; omega
  · rw [if_neg h0]
    have hpos : 0 < n := by omega
    cases hs : sel[(n - 1).toNat]? with
    | none => simp [hpos]
    | some it =>
      obtain ⟨nm, gi⟩ := it
      cases gi with
      | key e' => simp [hpos]
      | agg a => simp [hpos]

/-- **`H_intLiteralKey`, characterised**: with an integer-literal key `lit n` the statement `agg` builds is
    rejected by the engine whenever `n` is not the position of one of the keys (`n ≤ 0` or
    `n > number of keys`) — for every table, every other key and every aggregate list.  PySpark groups by
    the constant. -/
theorem C06_intLiteral_rejected (wher : List Expr) (keys : List (Name × Expr)) (aggs : List (Name × AExpr)) (T0 : Table)
    (nm : Name) (n : Int) (hmem : (nm, Expr.lit (.int n)) ∈ keys) (hout : n ≤ 0 ∨ (keys.length : Int) < n) :
    evalGBlock { wher := wher, groupBy := groupByList keys,
                 sel := keys.map (fun k => (k.1, GItem.key k.2)) ++ aggs.map (fun a => (a.1, GItem.agg a.2)) } T0
      = aggErrTable := by
  have hnone := resolveGroupBy_none (keys.map (fun k => (k.1, GItem.key k.2)) ++ aggs.map (fun a => (a.1, GItem.agg a.2)))
    (groupByList keys) ⟨.lit (.int n), by rw [groupByList_eq]; exact List.mem_map.mpr ⟨_, hmem, rfl⟩, groupByTerm_out keys aggs n hout⟩
  simp only [evalGBlock, hnone]

/-- **Outside cube, `H_intLiteralKey` is loud, never silent.**  For *every* key list — integer literals
    included, no hypothesis on the keys at all — (1) the GROUP BY block `GroupedData.agg` builds is either
    rejected by the engine or equal to the specification (a position that names a key of the select list adds
    nothing to the grouping; the constant itself is evaluated as a constant), for all tables; (2) the same for
    `groupBy(keys).agg(aggs)` on the DataFrame model in any reachable state.  (The check therefore accepts the
    known finding outside cube only when the real engine did reject the statement.) -/
theorem C06_intLiteral_loud (keys : List (Name × Expr)) (aggs : List (Name × AExpr)) :
    (∀ (wher : List Expr) (T0 : Table),
      evalGBlock { wher := wher, groupBy := groupByList keys,
                   sel := keys.map (fun k => (k.1, GItem.key k.2)) ++ aggs.map (fun a => (a.1, GItem.agg a.2)) } T0 = aggErrTable ∨
      evalGBlock { wher := wher, groupBy := groupByList keys,
                   sel := keys.map (fun k => (k.1, GItem.key k.2)) ++ aggs.map (fun a => (a.1, GItem.agg a.2)) } T0
        = aggSpec keys aggs { cols := T0.cols, rows := stWhere wher T0 }) ∧
    (∀ d : DF, Inv d → aggsWF d.eval.cols keys aggs →
      ((d.groupBy keys).agg aggs).eval.cols = [] ∨ ((d.groupBy keys).agg aggs).eval = aggSpec keys aggs d.eval) := by
  refine ⟨fun wher T0 => evalGBlock_loud wher keys aggs T0, fun d hi hwf => ?_⟩
  rcases groupAgg_df_loud d hi keys aggs hwf with h | h
  · exact Or.inl h
  · exact Or.inr h.1

/-! ### output columns -/

/-- **Output columns are the keys followed by the aggregates in the order given; shortcut aggregates are
    named `fn(col)` as in PySpark (`avg(c)` also for `mean`), `count()` gives `count`.**
    (1) groupBy(keys).agg(aggs) in any reachable state; (2) for *every* method name and column list the
    generated shortcut table and alias format produce PySpark's aggregate list (name and function);
    (3) count(). -/
theorem C06_cols :
    (∀ (d : DF) (keys : List (Name × Expr)) (aggs : List (Name × AExpr)), Inv d → aggsWF d.eval.cols keys aggs →
        (∀ k ∈ keys, k.2.isIntLit = false) →
        ((d.groupBy keys).agg aggs).eval.cols = keys.map (·.1) ++ aggs.map (·.1)) ∧
    (∀ (m : String) (cs : List Name), shortcutAggs m cs = specShortcutAggs m cs) ∧
    (∀ (m : String) (c : Name) (p : String × AggFn), sparkShortcut m = some p →
        shortcutAggs m [c] = some [(p.1 ++ "(" ++ c ++ ")", AExpr.agg p.2 (.col c))]) ∧
    countAggs = [("count", AExpr.agg .countStar (.lit (.int 1)))] := by
  refine ⟨fun d keys aggs hi hwf hn => ?_, shortcutAggs_spec, fun m c p hp => ?_, by decide⟩
  · rw [(groupAgg_df d hi keys aggs hwf hn).1]; rfl
  · rw [shortcutAggs_spec]; simp [specShortcutAggs, hp]

/-! ### cube -/

/-- **cube enumerates every subset of the keys exactly once** (unbounded number of keys): the generated
    loop `for i in <sizes>: combinations(cols, i)` is a permutation of the canonical enumeration of all
    sub-lists, which for duplicate-free keys contains each sub-list exactly once. -/
theorem C06_cube {α} (keys : List α) :
    (cubeSets keys).Perm (sublistsL keys) ∧
    (∀ s, s ∈ sublistsL keys ↔ s.Sublist keys) ∧
    (keys.Nodup → (sublistsL keys).Nodup ∧ (cubeSets keys).Nodup) := by
  refine ⟨cubeSets_perm keys, mem_sublistsL keys, fun h => ⟨sublistsL_nodup keys h, ?_⟩⟩
  exact (cubeSets_perm keys).nodup_iff.mpr (sublistsL_nodup keys h)

/-- **cube on a non-empty input** = every sub-total level of the specification (as a bag), and the result
    satisfies the clause-order invariant -/
theorem C06_cube_df (d : DF) (hi : Inv d) (keys : List (Name × Expr)) (aggs : List (Name × AExpr))
    (hwf : aggsWF d.eval.cols keys aggs) (hne : d.eval.rows ≠ []) (hn : ∀ k ∈ keys, k.2.isIntLit = false) :
    SameBag ((d.cube keys).agg aggs).eval (cubeSpec keys aggs d.eval) ∧ Inv ((d.cube keys).agg aggs) := by
  obtain ⟨h1, h2, h3⟩ := cube_df d hi keys aggs hwf hne hn
  exact ⟨⟨h1, h2⟩, h3⟩

/-! ### as a step inside chains -/

/-- **One step** (a plain C01 step other than orderBy, or groupBy().agg / a shortcut / count() /
    DataFrame.agg): the model's result is the specification's, and the invariant is re-established — so an
    aggregate after a select starts a new SELECT, and a where after an aggregate is a post-filter. -/
theorem C06_step (d : DF) (s : GStep) (hi : Inv d) (hs : s.WF d.eval.cols) (hok : s.okForChain = true)
    (hn : s.intLitKeyInGroupBy = false) :
    (d.applyG s).eval = specG d.eval s ∧ Inv (d.applyG s) := applyG_step d s hi hs hok hn

theorem C06_run (steps : List GStep) : ∀ (d : DF), Inv d → GStepsWF d.eval steps →
    (∀ s ∈ steps, s.okForChain = true) → noIntLitKey steps = true →
    (d.runG steps).eval = specRunG d.eval steps ∧ Inv (d.runG steps) := by
  induction steps with
  | nil => intro d hi _ _ _; exact ⟨rfl, hi⟩
  | cons s ss ih =>
    intro d hi hwf hok hn
    simp only [noIntLitKey, List.all_cons, Bool.and_eq_true, Bool.not_eq_true'] at hn
    obtain ⟨he, hi'⟩ := C06_step d s hi hwf.1 (hok s (by simp)) hn.1
    have := ih (d.applyG s) hi' (by rw [he]; exact hwf.2) (fun t ht => hok t (by simp [ht])) (by simpa [noIntLitKey] using hn.2)
    simp only [DF.runG, specRunG, List.foldl_cons] at this ⊢
    rw [this.1, he]
    exact ⟨rfl, this.2⟩

/-- **Chains without cube, integer-literal keys allowed**: either the engine rejects the statement of some
    grouping step (`runGErr`, which the check compares with the real engine's refusal) or the chain evaluates
    to the specification — no silent wrong answer. -/
theorem C06_run_loud (steps : List GStep) : ∀ (d : DF), Inv d → GStepsWF d.eval steps →
    (∀ s ∈ steps, s.okForChain = true) →
    d.runGErr steps = true ∨ ((d.runG steps).eval = specRunG d.eval steps ∧ Inv (d.runG steps)) := by
  induction steps with
  | nil => intro d hi _ _; exact Or.inr ⟨rfl, hi⟩
  | cons s ss ih =>
    intro d hi hwf hok
    rw [runGErr_cons]
    rcases applyG_step_loud d s hi hwf.1 (hok s (by simp)) with hr | ⟨he, hi'⟩
    · left; rw [hr]; rfl
    · rcases ih (d.applyG s) hi' (by rw [he]; exact hwf.2) (fun t ht => hok t (by simp [ht])) with h | h
      · left; rw [h]; exact Bool.or_true _
      · right
        simp only [DF.runG, specRunG, List.foldl_cons] at h ⊢
        rw [h.1, he]
        exact ⟨rfl, h.2⟩

/-! ### the full statement, the proved part, the counterexample -/

def GStep.noOrderBy : GStep → Bool
  | .plain s => !s.isOrderBy
  | .group _ => true

/-- C06 as given: every PySpark-valid chain of plain steps and grouping operations (cube included, anywhere)
    over a well-formed table yields PySpark's columns and bag of rows. -/
def C06_full_statement : Prop :=
  ∀ (T : Table) (steps : List GStep), T.WF → GStepsWF T steps → (∀ s ∈ steps, s.noOrderBy = true) →
    SameBag ((DF.init T).runG steps).eval (specRunG T steps)

/-- **C06 (proved part).**  Under `H_intLiteralKey` (no integer-literal grouping key):
    (1) every chain without cube: equality with the specification;
    (2) a chain followed by one cube whose input is not empty (`H_cubeEmptyInput`): same bag. -/
theorem C06_partial (T : Table) (hT : T.WF) (pre : List GStep) (hwf : GStepsWF T pre)
    (hok : ∀ s ∈ pre, s.okForChain = true) (hn : noIntLitKey pre = true) :
    ((DF.init T).runG pre).eval = specRunG T pre ∧
    (∀ keys aggs, aggsWF (specRunG T pre).cols keys aggs → (specRunG T pre).rows ≠ [] →
      (∀ k ∈ keys, k.2.isIntLit = false) →
      SameBag ((DF.init T).runG (pre ++ [.group (.cube keys aggs)])).eval (specRunG T (pre ++ [.group (.cube keys aggs)]))) := by
  have hf := init_fresh T hT
  have he : (DF.init T).eval = T := fresh_eval _ hf
  obtain ⟨hr, hi⟩ := C06_run pre (DF.init T) hf.inv (by rw [he]; exact hwf) hok hn
  rw [he] at hr
  refine ⟨hr, fun keys aggs hw hne hnk => ?_⟩
  have h := (C06_cube_df _ hi keys aggs (by rw [hr]; exact hw) (by rw [hr]; exact hne) hnk).1
  simp only [DF.runG, specRunG, List.foldl_append, List.foldl_cons, List.foldl_nil] at hr ⊢
  simp only [DF.applyG, specG, GOp.implParts, GOp.specParts, GOp.isDfAgg, GOp.isCube, if_true, Bool.false_eq_true, if_false]
  rw [← hr]
  exact h

def cexTable : Table := { cols := ["k", "x"], rows := [] }
def cexSteps : List GStep := [.group (.cube [("k", .col "k")] [("count", .agg .countStar (.lit (.int 1)))])]

/-- **counterexample** for `H_cubeEmptyInput` (replayed on the real code by the check): `cube('k').count()` on
    an empty table — GROUPING SETS gives the grand-total row `(NULL, 0)`, Spark gives no row. -/
theorem C06_cex_cubeEmptyInput :
    cexTable.WF ∧ GStepsWF cexTable cexSteps ∧
    ((DF.init cexTable).runG cexSteps).eval.rows = [[.null, .int 0]] ∧ (specRunG cexTable cexSteps).rows = [] ∧
    violatedC06 cexTable cexSteps = ["H_cubeEmptyInput"] := by decide

def cexLitTable : Table := { cols := ["k", "x"], rows := [[.int 1, .int 2], [.int 1, .null], [.null, .int 5]] }
def cexLitSteps : List GStep := [.group (.groupAgg [("c", .lit (.int 7))] [("n", .agg .countStar (.lit (.int 1)))])]
def cexLitCube : List GStep := [.group (.cube [("k", .col "k"), ("one", .lit (.int 1))] [("n", .agg .countStar (.lit (.int 1)))])]

/-- **counterexample** for `H_intLiteralKey` (replayed on the real code by the check):
    `groupBy(lit(7).alias("c")).agg(count("*").alias("n"))` — `GROUP BY 7` is rejected by the engine,
    PySpark returns `(7, 3)`. -/
theorem C06_cex_intLiteralKey :
    cexLitTable.WF ∧ GStepsWF cexLitTable cexLitSteps ∧
    (DF.init cexLitTable).runGErr cexLitSteps = true ∧ (specRunG cexLitTable cexLitSteps).rows = [[.int 7, .int 3]] ∧
    violatedC06 cexLitTable cexLitSteps = ["H_intLiteralKey"] := by decide

/-- … and inside cube the positional reading is silent: `cube("k", lit(1).alias("one")).agg(count)` emits
    `GROUPING SETS ((k, 1), (k), (1), ())` where `1` names the first select item `k`, so the constant column
    is never NULLed and the `(one)`-level groups by `k` -/
theorem C06_cex_intLiteralKey_cube :
    GStepsWF cexLitTable cexLitCube ∧ (DF.init cexLitTable).runGErr cexLitCube = false ∧
    ((DF.init cexLitTable).runG cexLitCube).eval.rows =
      [[.int 1, .int 1, .int 2], [.null, .int 1, .int 1], [.int 1, .int 1, .int 2], [.null, .int 1, .int 1],
       [.int 1, .int 1, .int 2], [.null, .int 1, .int 1], [.null, .int 1, .int 3]] ∧
    (specRunG cexLitTable cexLitCube).rows =
      [[.int 1, .int 1, .int 2], [.null, .int 1, .int 1], [.int 1, .null, .int 2], [.null, .null, .int 1],
       [.null, .int 1, .int 3], [.null, .null, .int 3]] ∧
    violatedC06 cexLitTable cexLitCube = ["H_intLiteralKey"] := by decide

theorem C06_not_full : ¬ C06_full_statement := by
  intro h
  obtain ⟨hwf, hs, hm, hsp, _⟩ := C06_cex_cubeEmptyInput
  have := (h cexTable cexSteps hwf hs (by decide)).2
  rw [hm, hsp] at this
  exact absurd this.length_eq (by decide)

/-! ### non-vacuity -/

def exT : Table :=
  { cols := ["k", "x", "s"], rows := [[.int 1, .int 2, .str "a"], [.int 1, .null, .str "b"], [.null, .int 5, .null], [.null, .int 7, .str "a"], [.int 2, .null, .null]] }

/-- select, then groupBy on an aliased expression + a name, all aggregate kinds, then a post-filter, then re-aggregation -/
def exChain : List GStep :=
  [ .plain (.select [("k", .col "k"), ("y", .bin .add (.col "x") (.lit (.int 1))), ("s", .col "s")]),
    .group (.groupAgg [("kk", .bin .mul (.col "k") (.lit (.int 2)))]
      [("c", .agg .countStar (.lit (.int 1))), ("n", .agg .count (.col "y")), ("t", .agg .sum (.col "y")),
       ("a", .agg .avg (.col "y")), ("lo", .agg .min (.col "s")), ("hi", .agg .max (.col "y")), ("d", .agg .countDistinct (.col "s")),
       ("z", .bin .add (.agg .sum (.col "y")) (.agg .countStar (.lit (.int 1))))]),
    .plain (.wher (.bin .gt (.col "c") (.lit (.int 1)))),
    .group (.shortcut [] "mean" ["c"]) ]

example : exT.WF ∧ GStepsWF exT exChain ∧ (∀ s ∈ exChain, s.okForChain = true) ∧ noIntLitKey exChain = true := by decide
example : (specRunG exT (exChain.take 2)).rows =
    [[.int 2, .int 2, .int 1, .int 3, .int 3, .str "a", .int 3, .int 2, .int 5],
     [.null, .int 2, .int 2, .int 14, .int 7, .str "a", .int 8, .int 1, .int 16],
     [.int 4, .int 1, .int 0, .null, .null, .null, .null, .int 0, .null]] := by decide
example : ((DF.init exT).runG exChain).eval = { cols := ["avg(c)"], rows := [[.int 2]] } := by decide
example : countDistinctTuples [[.str "ann", .str "tea"], [.str "ann", .str "tea"], [.str "ann", .null], [.null, .str "tea"],
    [.str "bob", .str "tea"], [.null, .null]] = .int 2 := by decide
example : (cubeSets ["a", "b"]) = [["a", "b"], ["a"], ["b"], []] := by decide
example : aggsWF exT.cols [("k", .col "k"), ("s", .col "s")] [("count", .agg .countStar (.lit (.int 1)))] ∧ exT.rows ≠ [] := by decide

/-- constant keys (a string, a Boolean, NULL, a constant expression) next to a column: hypotheses of
    `C06_agg_sem` / `C06_const_keys` hold, and the values are what PySpark returns -/
def exConstKeys : List (Name × Expr) := [("scope", .lit (.str "all")), ("t", .lit (.bool true)), ("nn", .lit .null), ("two", .bin .add (.lit (.int 1)) (.lit (.int 1)))]
example : exConstKeys ≠ [] ∧ (∀ k ∈ exConstKeys, k.2.refs = []) ∧ (∀ k ∈ exConstKeys, k.2.isIntLit = false) ∧
    aggsWF exT.cols exConstKeys [("n", .agg .countStar (.lit (.int 1)))] := by decide
example : (aggSpec exConstKeys [("n", .agg .countStar (.lit (.int 1)))] exT).rows = [[.str "all", .bool true, .null, .int 2, .int 5]] ∧
    (aggSpec exConstKeys [("n", .agg .countStar (.lit (.int 1)))] { exT with rows := [] }).rows = [] ∧
    (((DF.init { exT with rows := [] }).groupBy exConstKeys).agg [("n", .agg .countStar (.lit (.int 1)))]).eval.rows = [] ∧
    ((DF.init { exT with rows := [] }).aggAll [("n", .agg .countStar (.lit (.int 1)))]).eval.rows = [[.int 0]] := by decide
example : groupByTerm [("a", .key (.col "k")), ("n", .agg (.agg .countStar (.lit (.int 1))))] (.lit (.int 1)) = some (.col "k") ∧
    groupByTerm [("a", .key (.col "k")), ("n", .agg (.agg .countStar (.lit (.int 1))))] (.lit (.int 2)) = none ∧
    groupByTerm [("a", .key (.col "k")), ("n", .agg (.agg .countStar (.lit (.int 1))))] (.lit (.int 0)) = none := by decide
example : (("c", Expr.lit (.int 7)) ∈ [("k", Expr.col "k"), ("c", Expr.lit (.int 7))]) ∧ ((2 : Int) < 7) := by decide

/-- both alternatives of `C06_run_loud` occur: `GROUP BY 7` is rejected; `GROUP BY k, 2` (the position of the
    constant itself) is accepted and right; so is `GROUP BY k, 1` where the position names the key `k` -/
def exLoudChain (n : Int) : List GStep :=
  [.group (.groupAgg [("k", .col "k"), ("c", .lit (.int n))] [("t", .agg .sum (.col "x"))]),
   .plain (.wher (.bin .gt (.col "t") (.lit (.int 0))))]
example : GStepsWF exT (exLoudChain 7) ∧ (∀ s ∈ exLoudChain 7, s.okForChain = true) ∧ (DF.init exT).runGErr (exLoudChain 7) = true := by decide
example : (DF.init exT).runGErr (exLoudChain 2) = false ∧ (DF.init exT).runGErr (exLoudChain 1) = false ∧
    ((DF.init exT).runG (exLoudChain 2)).eval = specRunG exT (exLoudChain 2) ∧
    (specRunG exT (exLoudChain 2)).rows = [[.int 1, .int 2, .int 2], [.null, .int 2, .int 12]] := by decide

end Sqlframe
