/-
Props/C10.lean — C10: column names — case-insensitive lookup, case-preserving output, safe quoting; the
four views (df.columns, Row fields of collect(), df.schema names, toPandas() columns) agree.

The model (Impl/C10Names.lean) is abstract in sqlglot's identifier normalisation (`NameFns`); the laws used
(`NameLaws`: `low` idempotent, the display-map key injective on normalised names) are hypotheses that the
check validates on every generated name, together with the case-insensitivity law of `low`.

  C10_sites_record        every naming site the code is expected to record does record (regenerated flags)
  C10_collect_pair        result column names are renormalised execution → output, case-sensitively
  C10_lookup              case variants of a reference resolve to the same select item, and a reference to a
                          shown column resolves
  C10_spelling_partial    for EVERY chain of naming steps (induction): df.columns is PySpark's spelling list —
                          the spelling used where the column was last named or selected
  C10_views_agree_partial … and Row fields, pandas columns and schema names are that same list
  C10_quote / C10_quote_unescape   every name (any characters but NUL) written as a quoted identifier is read
                          by the engine's scanner as ONE identifier token carrying exactly that name
Named hypotheses (each with a counterexample theorem whose witness is replayed on the real code):
  H_reselect H_toDF H_groupAgg H_joinRight H_joinKeyQuoted H_unionMissing H_quoteAgree H_collectReparse H_orderByReserved H_asciiFold
-/
import SqlframeModel.Lemmas.C10Steps
import SqlframeModel.Lemmas.C09Lex
namespace Sqlframe
open Gen C09 C10

/-- the naming sites that must write the display-name map do (a site that stops recording breaks this) -/
theorem C10_sites_record :
    colSetsDisplay = true ∧ aliasSetsDisplay = true ∧ createRecordsDisplay = true ∧ selectRecordsDisplay = true ∧
    withColumnsRecordsDisplay = true ∧ renameRecordsDisplay = true ∧ aggRecordsDisplay = true := by decide

/-- `_collect` renormalises the engine's result names execution → output and keeps their case -/
theorem C10_collect_pair : collectFrom = "execution" ∧ collectTo = "output" ∧ collectCaseSensitive = true := by decide

/-- references that normalise alike resolve alike; in particular every case variant (`variant` is any
    relation the normalisation identifies — the check validates that letter-case variants are one) -/
theorem C10_lookup (F : NameFns) (variant : String → String → Prop)
    (hci : ∀ a b, variant a b → F.low a = F.low b) (d : NDF) (r₁ r₂ : String) (h : variant r₁ r₂) :
    resolve F d r₁ = resolve F d r₂ := by
  unfold resolve; rw [hci r₁ r₂ h]

/-- a reference to a column the frame shows, in any spelling that normalises alike, finds it -/
theorem C10_lookup_finds (F : NameFns) (d : NDF) (sp : List String) (h : R F d sp) (s r : String)
    (hs : s ∈ sp) (hr : F.low r = F.low s) : (resolve F d r).isSome = true := by
  unfold resolve
  have : F.low r ∈ d.cols := by rw [h.1, hr]; exact List.mem_map_of_mem hs
  simp [List.idxOf_lt_length_iff.mpr this]

/-- df.columns after any chain of naming steps is PySpark's spelling list: the spelling used where the
    column was last named or selected -/
theorem C10_spelling_partial (F : NameFns) (L : NameLaws F) (names : List String) (steps : List NStep)
    (hnd : (names.map F.low).Nodup) (hok : StepsOK F (create F names) names steps) :
    columns F (runSteps F (create F names) steps) = specRun F names steps :=
  columns_of_R F _ _ (run_R F L steps _ _ (create_R F L names hnd) hok)

/-- the four views agree (and are that list) -/
theorem C10_views_agree_partial (F : NameFns) (L : NameLaws F) (names : List String) (steps : List NStep)
    (hnd : (names.map F.low).Nodup) (hok : StepsOK F (create F names) names steps)
    (hq : H_quoteAgree F (specRun F names steps)) (hb : H_collectReparse F (specRun F names steps)) :
    let d := runSteps F (create F names) steps
    fields F d = columns F d ∧ pandas F d = columns F d ∧ schemaNames F d = columns F d := by
  intro d
  have hR := run_R F L steps _ _ (create_R F L names hnd) hok
  have hc := columns_of_R F _ _ hR
  refine ⟨?_, ?_, ?_⟩
  · rw [hc]; exact fields_of_R F _ _ hR hb
  · rw [hc]; exact pandas_of_R F _ _ hR
  · rw [hc]; exact schema_of_R F L _ _ hR hq

/-- one more step keeps a frame that shows PySpark's spellings showing them (the inductive step, usable
    from any reachable state) -/
theorem C10_step (F : NameFns) (L : NameLaws F) (d : NDF) (sp : List String) (st : NStep)
    (h : R F d sp) (hwf : StepWF F sp st) (hs : StepInScope F d sp st) :
    columns F (nstep F d st) = specStep F sp st :=
  columns_of_R F _ _ (step_R F L d sp st h hwf hs)

-- ------------------------------------------------------------------------------------------------
-- quoting
-- ------------------------------------------------------------------------------------------------

/-- every name: its quoted identifier is read as one identifier token carrying exactly the name, and
    scanning resumes in the default state — spaces, reserved words, leading digits, non-ASCII, quote
    characters, comment markers inside the name cannot change the statement's structure -/
theorem C10_quote (name rest : List Char) (h : NoNul name) (hsep : C09.Sep DQ rest) :
    lex (quoteIdent name ++ rest) = .quoted DQ name :: lex rest :=
  lex_quoteWith DQ (Or.inr rfl) name rest h hsep

theorem C10_quote_unescape (name : List Char) (h : NoNul name) : unquoteIdent (quoteIdent name) = some name := by
  have := C10_quote name [] h (by simp [C09.Sep])
  simp only [List.append_nil] at this
  unfold unquoteIdent
  rw [this]
  simp [lex, run, finish]

/-- a quoted identifier anywhere in a statement (e.g. `SELECT … AS "<display name>"`) -/
theorem C10_quote_statement (pre name post : List Char) (hpre : stateAfter .norm pre = .norm)
    (h : NoNul name) (hsep : C09.Sep DQ post) :
    lex (pre ++ (quoteIdent name ++ post)) = emitted .norm pre ++ .quoted DQ name :: lex post := by
  unfold lex
  rw [run_append, hpre]
  exact congrArg _ (C10_quote name post h hsep)

example : lex (quoteIdent "a \"b\" -- select 1x é".toList ++ " FROM t".toList)
    = .quoted DQ "a \"b\" -- select 1x é".toList :: lex " FROM t".toList :=
  C10_quote _ _ (by decide) (by decide)

-- ------------------------------------------------------------------------------------------------
-- orderBy on a reserved word
-- ------------------------------------------------------------------------------------------------

theorem C10_orderBy_partial (reserved : Bool) (h : H_orderByReserved reserved) : orderByOk reserved = true := by
  rcases h with h | h <;> simp [orderByOk, h]

/-- why H_orderByReserved is a hypothesis: `df.orderBy('select')` on a column named `select` -/
theorem C10_cex_orderByReserved (h : orderByReparsesText = true) : orderByOk true = false := by
  simp [orderByOk, h]

/-- an ORDER BY on the normalised name finds the select item aliased to the display name when the engine's
    own (ASCII-only) case folding identifies the two -/
theorem C10_orderBy_alias (bare : Bool) (display normalised : List Char) (h : H_asciiFold bare display normalised) :
    orderKeyVisible bare display normalised = true := by
  unfold orderKeyVisible
  rcases h with h | ⟨h, hb⟩ | h
  · rw [h]
  · rw [h]; simp [hb]
  · cases orderByRespell <;> simp [aliasVisible, h]

/-- why H_asciiFold is a hypothesis: `withColumnRenamed('v', 'Éa').orderBy(col('éa') + 1)` — the key is an
    expression, so its column keeps the normalised spelling next to the alias "Éa" -/
theorem C10_cex_asciiFold (h : orderByRespell ≠ .all) : orderKeyVisible false "Éa".toList "éa".toList = false := by
  unfold orderKeyVisible
  cases hr : orderByRespell with
  | all => exact absurd hr h
  | bare => decide
  | none => decide

example : H_asciiFold false "New Name".toList "new name".toList := Or.inr (Or.inr (by decide))

-- ------------------------------------------------------------------------------------------------
-- a concrete, computable instance of the name functions (Spark-like on the names used below)
-- ------------------------------------------------------------------------------------------------

/-- lower-casing on the witnesses' names; the display-map key writes `` `a b` `` back-quoted; the engine's
    typed-column listing additionally back-quotes `1x` -/
def C10.F0 : NameFns where
  low := fun s =>
    if s = "Kx" ∨ s = "KX" ∨ s = "kX" then "kx" else if s = "Total" then "total" else if s = "Aa" then "aa"
    else if s = "Ww" then "ww" else if s = "Q q" then "q q" else if s = "V" then "v" else s
  key := fun s => if s = "q q" then "`q q`" else s
  typed := fun s => if s = "q q" then "`q q`" else if s = "1x" then "`1x`" else s
  back := fun s => if s = "Group By" then "GROUP BY" else s

/-- a non-trivial chain inside the scope: select by case variant and alias, replace a column in another
    case, rename, filter -/
example : StepsOK C10.F0 (create C10.F0 ["Kx", "v"]) ["Kx", "v"]
    [.select [.col "KX", .alias "Q q", .name "V"], .withColumn "kX", .keep, .withColumnRenamed "v" "Ww"] := by decide

example : specRun C10.F0 ["Kx", "v"]
    [.select [.col "KX", .alias "Q q", .name "V"], .withColumn "kX", .keep, .withColumnRenamed "v" "Ww"]
    = ["kX", "Q q", "Ww"] := by decide

example : H_quoteAgree C10.F0 ["kX", "Q q", "Ww"] := by decide
example : H_collectReparse C10.F0 ["kX", "Q q", "Ww"] := by decide

-- counterexamples: why each hypothesis is one (witnesses replayed on the real code by the check)

/-- H_toDF: after `toDF('Aa','w')` df.columns says Aa, the Row fields say aa -/
theorem C10_cex_toDF (h : toDFRecordsDisplay = false) :
    let d := nstep C10.F0 (create C10.F0 ["Kx", "v"]) (.toDF ["Aa", "w"])
    columns C10.F0 d = ["Aa", "w"] ∧ fields C10.F0 d = ["aa", "w"] := by
  simp only [nstep, h]; decide

/-- H_reselect: `drop('v')` turns `Kx` into `kx` -/
theorem C10_cex_reselect (h : reselectMethods.contains "drop" = true) (h2 : selectRecordsDisplay = true) :
    columns C10.F0 (nstep C10.F0 (create C10.F0 ["Kx", "v"]) (.drop "v")) = ["kx"] := by
  simp only [nstep, reselectOf, h, h2]; decide

/-- H_groupAgg: `groupBy('KX').agg(max('v').alias('Total'))` shows Kx / total (PySpark: KX / Total) -/
theorem C10_cex_groupAgg (h : groupAggRecordsDisplay = false) :
    columns C10.F0 (nstep C10.F0 (create C10.F0 ["Kx", "v"]) (.groupAgg ["KX"] ["Total"])) = ["Kx", "total"] ∧
    specStep C10.F0 ["Kx", "v"] (.groupAgg ["KX"] ["Total"]) = ["KX", "Total"] := by
  simp only [nstep, h]; decide

/-- H_joinRight: the right frame's `Ww` comes out as `ww` -/
theorem C10_cex_joinRight (h : joinKeepsRightDisplay = false) :
    columns C10.F0 (nstep C10.F0 (create C10.F0 ["Kx", "v"]) (.joinUsing "kx" ["KX", "Ww"])) = ["Kx", "v", "ww"] := by
  simp only [nstep, h]; decide

/-- H_unionMissing: `unionByName(other['kX','Ww'], allowMissingColumns=True)` shows kx / v / ww -/
theorem C10_cex_unionMissing (h : unionByNameReselects = true) :
    columns C10.F0 (nstep C10.F0 (create C10.F0 ["Kx", "v"]) (.unionByName ["kX", "Ww"] true)) = ["kx", "v", "ww"] ∧
    specStep C10.F0 ["Kx", "v"] (.unionByName ["kX", "Ww"] true) = ["Kx", "v", "Ww"] := by
  simp only [nstep, unionStep, h]; decide

/-- H_quoteAgree: the schema view of a column named `1x` -/
theorem C10_cex_quoteAgree :
    schemaNames C10.F0 (create C10.F0 ["1x", "v"]) = ["`1x`", "v"] ∧ columns C10.F0 (create C10.F0 ["1x", "v"]) = ["1x", "v"] := by
  decide

/-- H_collectReparse: the Row field of a column renamed to `Group By` -/
theorem C10_cex_collectReparse (h : collectParsesNames = true) :
    let d := nstep C10.F0 (create C10.F0 ["k", "v"]) (.withColumnRenamed "v" "Group By")
    fields C10.F0 d = ["k", "GROUP BY"] ∧ columns C10.F0 d = ["k", "Group By"] := by
  simp only [fields, h]; decide

-- ------------------------------------------------------------------------------------------------
-- the property at full strength
-- ------------------------------------------------------------------------------------------------

def C10_full_statement : Prop :=
  ∀ (F : NameFns), NameLaws F → ∀ (names : List String) (steps : List NStep),
    (names.map F.low).Nodup → StepsWF F names steps →
    let d := runSteps F (create F names) steps
    columns F d = specRun F names steps ∧ fields F d = columns F d ∧ pandas F d = columns F d ∧
    schemaNames F d = columns F d

end Sqlframe
