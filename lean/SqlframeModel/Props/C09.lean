/-
Props/C09.lean — C09: Python values and declared types survive the trip through the engine; no string
content can change the statement's structure.

Decided here (machine-checked, over the regenerated `Gen.Values`):
  strings    every NUL-free string is written as ONE literal token that the engine's scanner reads back to
             exactly that string, wherever it stands in the statement and whatever follows a separator
             (C09_string_token, C09_statement, C09_structure, C09_values_tokens, C09_unescape)
  integers   every 64-bit integer is read back (C09_int_roundtrip); larger ones are rejected, not wrapped
  kinds      which SQL type is inferred for which Python value (C09_infer_order, C09_infer_spec), which
             literal kind is emitted (C09_lit_kind), that typed columns are CAST (C09_cast_present)
  trees      the type inferred for a whole first-row value (nested lists / Rows / dicts): for every value tree
             that shows a type at every inference position it is PySpark's type, every Row field included, and
             it never depends on the VALUE of a scalar, only on its class (C09_infer_tree,
             C09_infer_struct_names, C09_infer_falsy_free)
  instants   an aware datetime denotes the same instant before and after, a naive one the same wall-clock
             reading, in every (fixed-offset) session zone; of the three ways `_lit` could treat an aware
             datetime exactly `replace(tzinfo=utc)` is wrong (C09_ts_roundtrip, C09_ts_modes, C09_ts_instant)
  names      the column names the five schema forms give (C09_auto_names, C09_schema_forms)
  rows       how dict rows are laid out (C09_dict_rows)
  scalars    None / bool / int / str cells round-trip at the literal level (C09_partial)
NOT decided, not claimed: that a float, date or bytes value survives, and the calendar arithmetic of timestamps —
the lexical form is produced by sqlglot / Python `repr`/`isoformat`/`hex` and read back by the engine's parser;
the model treats such a literal as an opaque token of the right kind (for timestamps: a wall-clock reading in
microseconds plus an offset).  Those values are run through the real
code by the correspondence stream only.
-/
import SqlframeModel.Lemmas.C09
import SqlframeModel.Lemmas.C09Infer
import SqlframeModel.Impl.C09Scope
namespace Sqlframe
open Gen C09

-- ================================================================================================
-- strings: no content can change the structure of the statement
-- ================================================================================================

/-- every NUL-free string: its literal is read as one string token carrying exactly `s`, and scanning
    of whatever follows starts in the default state (so nothing inside `s` — quotes, backslashes, `--`,
    `/*`, `;`, newlines — is ever seen by the scanner as syntax) -/
theorem C09_string_token (s rest : List Char) (h : H_noNul s) (hsep : C09.Sep SQ rest) :
    lex (quote s ++ rest) = .quoted SQ s :: lex rest :=
  lex_quoteWith SQ (Or.inl rfl) s rest h hsep

/-- a literal anywhere in a statement: the tokens before it and after it do not depend on `s` -/
theorem C09_statement (pre s post : List Char) (hpre : stateAfter .norm pre = .norm)
    (h : H_noNul s) (hsep : C09.Sep SQ post) :
    lex (pre ++ (quote s ++ post)) = emitted .norm pre ++ .quoted SQ s :: lex post := by
  unfold lex
  rw [run_append, hpre]
  exact congrArg _ (C09_string_token s post h hsep)

/-- the shape of a token list: string contents erased -/
def C09.Tok.shape : Tok → Tok
  | .quoted q _ => .quoted q []
  | t => t

/-- replacing the content of a string literal changes no token of the statement except that literal's
    own content -/
theorem C09_structure (pre s₁ s₂ post : List Char) (hpre : stateAfter .norm pre = .norm)
    (h₁ : H_noNul s₁) (h₂ : H_noNul s₂) (hsep : C09.Sep SQ post) :
    (lex (pre ++ (quote s₁ ++ post))).map Tok.shape = (lex (pre ++ (quote s₂ ++ post))).map Tok.shape := by
  rw [C09_statement pre s₁ post hpre h₁ hsep, C09_statement pre s₂ post hpre h₂ hsep]
  simp [Tok.shape]

/-- a VALUES-like sequence of any number of string cells, each followed by a comma -/
def C09.renderCells : List (List Char) → List Char
  | [] => []
  | s :: ss => quote s ++ ',' :: renderCells ss

theorem C09_values_tokens (ss : List (List Char)) (rest : List Char) (h : ∀ s ∈ ss, H_noNul s) :
    lex (renderCells ss ++ rest) = ss.flatMap (fun s => [.quoted SQ s, .other ',']) ++ lex rest := by
  induction ss with
  | nil => simp [renderCells]
  | cons s ss ih =>
    have hs : H_noNul s := h s (by simp)
    have ih' := ih (fun x hx => h x (by simp [hx]))
    have e : renderCells (s :: ss) ++ rest = quote s ++ (',' :: (renderCells ss ++ rest)) := by
      simp [renderCells, List.append_assoc]
    rw [e, C09_string_token s _ hs (by simp [C09.Sep, SQ])]
    have : lex (',' :: (renderCells ss ++ rest)) = .other ',' :: lex (renderCells ss ++ rest) := by
      simp [lex, run, step, stepNorm, NUL, SQ, DQ]
    rw [this, ih']
    simp

/-- the engine's reading of the literal is the original string -/
theorem C09_unescape (s : List Char) (h : H_noNul s) : unquote (quote s) = some s := by
  have := C09_string_token s [] h (by simp [C09.Sep])
  simp only [List.append_nil] at this
  unfold unquote
  rw [this]
  simp [lex, run, finish]

/-- different strings have different literals -/
theorem C09_quote_injective (s₁ s₂ : List Char) (h₁ : H_noNul s₁) (h₂ : H_noNul s₂) (e : quote s₁ = quote s₂) :
    s₁ = s₂ := by
  have a := C09_unescape s₁ h₁
  rw [e, C09_unescape s₂ h₂] at a
  exact (Option.some.inj a).symm

/-- why H_noNul is a hypothesis: a NUL inside a string ends the input inside the literal -/
theorem C09_cex_noNul : lex (quote ['x', NUL, 'y'] ++ [',', '1']) = [.unterminated] := by decide

/-- … for every string that contains one -/
theorem C09_cex_noNul_all (a b rest : List Char) (ha : NoNul a) :
    lex (quote (a ++ NUL :: b) ++ rest) = [.unterminated] := by
  have hdead : ∀ l : List Char, run .dead l = [] := by
    intro l; induction l with
    | nil => simp [run, finish]
    | cons c cs ih => simp [run, step, ih]
  have hbody : ∀ (s acc more : List Char), NoNul s →
      run (.inQ SQ acc) (quoteBody SQ s ++ more) = run (.inQ SQ (s.reverse ++ acc)) more := by
    intro s
    induction s with
    | nil => intro acc more _; simp [quoteBody]
    | cons c cs ih =>
      intro acc more hs
      have hc : c ≠ NUL := hs c (by simp)
      have hcs : NoNul cs := fun x hx => hs x (by simp [hx])
      by_cases h : c = SQ
      · subst h; simp [quoteBody, run, step, hc, ih _ _ hcs, List.append_assoc]
      · simp [quoteBody, h, run, step, hc, ih _ _ hcs, List.append_assoc]
  have hsplit : ∀ (a x : List Char), quoteBody SQ (a ++ x) = quoteBody SQ a ++ quoteBody SQ x := by
    intro a x; induction a with
    | nil => simp [quoteBody]
    | cons c cs ih => by_cases h : c = SQ <;> simp [quoteBody, h, ih]
  have hn : NUL ≠ SQ := by decide
  have e : quote (a ++ NUL :: b) ++ rest = SQ :: (quoteBody SQ a ++ (NUL :: (quoteBody SQ b ++ SQ :: rest))) := by
    simp [quote, quoteWith, hsplit, quoteBody, hn, List.append_assoc]
  rw [e]
  simp only [lex, run, step, stepNorm_quote (Or.inl rfl), List.nil_append]
  rw [hbody a [] _ ha]
  simp [run, step, hdead]

/-- why `Sep` is a side condition: two adjacent literals are one token (`'a''b'` is the string a'b) -/
theorem C09_cex_sep : lex (quote ['a'] ++ quote ['b']) = [.quoted SQ ['a', '\'', 'b']] := by decide

-- non-vacuity
example : lex (quote "it's -- /* ; \\ \n".toList ++ ", 1".toList)
    = .quoted SQ "it's -- /* ; \\ \n".toList :: lex ", 1".toList :=
  C09_string_token _ _ (by decide) (by decide)

example : stateAfter .norm "SELECT * FROM (VALUES (".toList = .norm := by decide

-- ================================================================================================
-- integers
-- ================================================================================================

/-- every 64-bit integer: the text `str(i)` under CAST AS BIGINT is read back as `i` -/
theorem C09_int_roundtrip (i : Int) (h : inInt64 i) : readInt (renderInt i) = some i := by
  simp [readInt, readIntText_renderInt, h]

/-- an integer outside the 64-bit range is rejected (never silently wrapped) -/
theorem C09_int_overflow (i : Int) (h : ¬ inInt64 i) : readInt (renderInt i) = none := by
  simp [readInt, readIntText_renderInt, h]

example : inInt64 (-9223372036854775808) ∧ inInt64 9223372036854775807 ∧ ¬ inInt64 9223372036854775808 := by decide

-- ================================================================================================
-- type inference and literal kinds
-- ================================================================================================

/-- the order of the isinstance chain: a bool is boolean (not bigint), a datetime is a timestamp (not a
    date), a Row is a struct (not an array) -/
theorem C09_infer_order :
    inferType .bool = some "boolean" ∧ inferType .int = some "bigint" ∧
    inferType .datetimeNaive = some "timestamp" ∧ inferType .datetimeTz = some "timestamptz" ∧
    inferType .date = some "date" ∧ inferType .row = some "struct" ∧ inferType .list = some "array" := by
  decide

/-- totality and agreement with PySpark's inference on every kind -/
theorem C09_infer_spec (k : PyKind) : (inferType k).map tyFamily = specType k := by
  cases k <;> decide

theorem C09_infer_total (k : PyKind) (h : k ≠ .none) : (inferType k).isSome = true := by
  cases k <;> first | exact absurd rfl h | decide

/-- the literal `lit` emits for a value is one the engine reads as a value of the value's own type -/
theorem C09_lit_kind (k : PyKind) (hk : k ≠ .tuple) (h : H_infLiteral k) : typedRight k (litOf k) = true := by
  rcases h with h | h
  · exact absurd h (by decide)
  · cases k <;> first | exact absurd rfl h | exact absurd rfl hk | decide

/-- a value INSIDE a list / Row / dict, or used as the Python operand of a Column operator, does not pass
    through `functions.lit` but through `Column._lit`: that path, too, emits a literal of the value's own
    type (an infinity: as long as `_lit` has a case for it, H_infOperand).  A special case that lives in `lit`
    only — e.g. the NaN cast — breaks this. -/
theorem C09_nested_lit_kind (k : PyKind) (hk : k ≠ .tuple) (hinf : H_infOperand k) :
    typedRight k (columnLit k) = true := by
  rcases hinf with h | h
  · cases k <;> first | exact absurd rfl hk | exact h | decide
  · cases k <;> first | exact absurd rfl hk | exact absurd rfl h | decide

/-- why H_infLiteral is a hypothesis: `lit(float('inf'))` is the *string* 'inf' -/
theorem C09_cex_infLiteral (h : litInfIsString = true) : litOf .floatInf = .string ∧ typedRight .floatInf (litOf .floatInf) = false := by
  constructor <;> simp [litOf, h] <;> decide

/-- a Python infinity used as a bare operand (`col('f') < float('inf')`) or nested in a cell is a typed DOUBLE
    literal (not the bare word `inf`, which the engine would read as a column name): H_infOperand holds of every kind -/
theorem C09_operand_inf : typedRight .floatInf (operandLit .floatInf) = true ∧ ∀ k, H_infOperand k := by
  refine ⟨by decide, fun k => Or.inl (by decide)⟩

/-- the texts written for the two infinities are read by the engine as +inf and -inf respectively -/
theorem C09_inf_texts : infLitTexts.map (fun p => (readInfText p.1, readInfText p.2)) = some (some false, some true) := by
  decide

/-- a finite float comes back as a Python float -/
theorem C09_float_back (decimalTyped direct : Bool) (h : H_listFloat decimalTyped direct) :
    floatBack decimalTyped direct = .float := by
  rcases h with h | h
  · simp [floatBack, h]
  · cases decimalTyped <;> cases direct <;> simp [floatBack] at h ⊢

/-- why H_listFloat is a hypothesis: `select(lit([0.1]))` gives `[Decimal('0.1')]` -/
theorem C09_cex_listFloat (h : toValueDecimalToFloat = false) : floatBack true false = .decimal := by
  simp [floatBack, h]

/-- the finite floats that share a column / array with a NaN keep double precision -/
theorem C09_float_width (u : Bool) (h : H_nanWidth u) : groupFloatBits u = 53 := by
  rcases h with h | h
  · simp [groupFloatBits, h]
  · simp [groupFloatBits, h]

/-- why H_nanWidth is a hypothesis: `createDataFrame([(715610.9448721367,), (nan,)], ['f'])` gives 715610.9375 -/
theorem C09_cex_nanWidth (h : nanLitTy = some "float") : groupFloatBits true = 24 := by
  simp [groupFloatBits, h]

example : H_nanWidth false := Or.inr rfl

/-- a column whose type is known (declared or inferred) is CAST to it -/
theorem C09_cast_present (typed : Bool) (h : typed = true) : columnHasCast typed = true := by
  subst h; decide

-- ================================================================================================
-- type inference on whole values
-- ================================================================================================

theorem C09.branch_seq (k : PyKind) (h : k.isSeq = true) : branchOf k = some .arrayOf := by
  cases k <;> first | (simp [PyKind.isSeq] at h; done) | decide

theorem C09.scalar_infer (su : StructUntyped) (k : PyKind) (f : Bool) (t : String) (hk : k.isScalar = true)
    (h : specType k = some t) : (inferTyW su false (.scalar k f)).map STy.family = some (.prim t) := by
  cases k <;> simp [PyKind.isScalar] at hk <;> simp [specType] at h <;> subst h <;> cases f <;> cases su <;> rfl

mutual
/-- every value tree that shows a type at every position the inference looks at (`specTy v = some t`: no None,
    no empty container on the first-element spine, every Row field typed): `get_default_data_type` without a
    truthiness guard gives PySpark's type — at every depth, with every Row field, whatever the scalar values are
    (0, '', False, …) and whichever way a Row field of unknown type would be treated -/
theorem C09.infer_treeW (su : StructUntyped) :
    ∀ (v : PyVal) (t : STy), specTy v = some t → (inferTyW su false v).map STy.family = some t
  | .scalar k f, t, h => by
    simp only [specTy] at h
    by_cases hk : k.isScalar = true
    · simp only [hk, if_true] at h
      cases hs : specType k with
      | none => rw [hs] at h; simp at h
      | some t' =>
        rw [hs] at h; simp at h; subst h
        exact C09.scalar_infer su k f t' hk hs
    · rw [if_neg hk] at h; cases h
  | .seq k es, t, h => by
    unfold specTy at h
    by_cases hk : k.isSeq = true
    · simp only [hk, if_true] at h
      cases es with
      | nil => simp at h
      | cons e es =>
        simp only at h
        cases he : specTy e with
        | none => rw [he] at h; simp at h
        | some te =>
          rw [he] at h; simp at h; subst h
          have ih := C09.infer_treeW su e te he
          simp only [inferTyW, Bool.false_and, C09.branch_seq k hk]
          cases hi : inferTyW su false e with
          | none => rw [hi] at ih; simp at ih
          | some ti => rw [hi] at ih; simp at ih; simp [STy.family, ih]
    · rw [if_neg hk] at h; cases h
  | .row ns vs, t, h => by
    simp only [specTy] at h
    by_cases hl : ns.length = vs.length
    · simp only [hl, if_true] at h
      cases ha : allSome (specTys vs) with
      | none => rw [ha] at h; simp at h
      | some ts =>
        rw [ha] at h; simp at h; subst h
        obtain ⟨us, hu, hfam⟩ := C09.infer_treesW su vs ts ha
        have hb : branchOf .row = some .structOf := by decide
        have hlen : ns.length = us.length := by
          have h1 := allSome_length _ _ ha
          rw [specTys_length] at h1
          have h2 := families_length us
          rw [hfam] at h2
          omega
        unfold inferTyW
        simp only [Bool.false_and, hb, hu, keepTyped_all su ns us hlen]
        simp [STy.family, hfam]
    · rw [if_neg hl] at h; cases h
  | .dict ks vs, t, h => by
    unfold specTy at h
    cases ks with
    | nil => simp at h
    | cons k ks =>
      cases vs with
      | nil => simp at h
      | cons v vs =>
        simp only at h
        cases hk : specTy k with
        | none => rw [hk] at h; simp at h
        | some tk =>
          cases hv : specTy v with
          | none => rw [hk, hv] at h; simp at h
          | some tv =>
            rw [hk, hv] at h; simp at h; subst h
            have ih1 := C09.infer_treeW su k tk hk
            have ih2 := C09.infer_treeW su v tv hv
            have hb : branchOf .dict = some .mapOf := by decide
            simp only [inferTyW, Bool.false_and, hb]
            cases h1 : inferTyW su false k with
            | none => rw [h1] at ih1; simp at ih1
            | some a =>
              cases h2 : inferTyW su false v with
              | none => rw [h2] at ih2; simp at ih2
              | some b =>
                rw [h1] at ih1; rw [h2] at ih2
                simp at ih1 ih2
                simp [STy.family, ih1, ih2]
theorem C09.infer_treesW (su : StructUntyped) : ∀ (vs : List PyVal) (ts : List STy), allSome (specTys vs) = some ts →
    ∃ us, inferTysW su false vs = us.map some ∧ STy.families us = ts
  | [], ts, h => by
    simp [specTys, allSome] at h
    exact ⟨[], by simp [inferTysW], by simp [STy.families, h]⟩
  | v :: vs, ts, h => by
    simp only [specTys] at h
    obtain ⟨t, rest, h1, h2, h3⟩ := allSome_cons_some h
    obtain ⟨us, hu, hfam⟩ := C09.infer_treesW su vs rest h2
    have ih := C09.infer_treeW su v t h1
    cases hi : inferTyW su false v with
    | none => rw [hi] at ih; simp at ih
    | some u =>
      rw [hi] at ih; simp at ih
      exact ⟨u :: us, by simp [inferTysW, hi, hu], by simp [STy.families, ih, hfam, h3]⟩
end

/-- … and that is what the source does: it has no truthiness guard in front of the chain -/
theorem C09_infer_tree (v : PyVal) (t : STy) (h : specTy v = some t) : (inferTy v).map STy.family = some t := by
  have hf : inferFalsyFirst = false := by decide
  unfold inferTy
  rw [hf]
  exact C09.infer_treeW _ v t h

/-- why the guard must not be there: with a leading `if not value: return None` the integer 0, the float 0.0, False,
    '' and b'' get no type, and a Row loses its zero field -/
theorem C09_cex_falsyGuard :
    inferTyW .skip true (.scalar .int true) = none ∧ inferTyW .skip true (.scalar .floatFinite true) = none ∧
    (inferTyW .skip true (.row ["n", "s"] [.scalar .int true, .scalar .str false])).map STy.text = some "struct<s: string>" := by
  decide

def C09.structNames : Option STy → Option (List String)
  | some (.struct ns _) => some ns
  | _ => none

/-- the struct type a Row is CAST to names every field of the Row (so the CAST removes none) -/
theorem C09_infer_struct_names (ns : List String) (vs : List PyVal) (h : H_firstRowTyped (.row ns vs)) :
    structNames (inferTy (.row ns vs)) = some ns := by
  unfold H_firstRowTyped at h
  cases hs : specTy (.row ns vs) with
  | none => rw [hs] at h; simp at h
  | some t =>
    have ht := C09_infer_tree _ t hs
    simp only [specTy] at hs
    by_cases hl : ns.length = vs.length
    · simp only [hl, if_true] at hs
      cases ha : allSome (specTys vs) with
      | none => rw [ha] at hs; simp at hs
      | some ts =>
        rw [ha] at hs; simp at hs; subst hs
        cases hi : inferTy (.row ns vs) with
        | none => rw [hi] at ht; simp at ht
        | some u =>
          rw [hi] at ht; simp at ht
          cases u <;> simp [STy.family] at ht
          simp [structNames, ht.1]
    · rw [if_neg hl] at hs; cases hs

/-- the inferred type of a scalar depends on its class only, never on its value: 0, 0.0, False, '' and b'' are
    typed like every other int, float, bool, str, bytes -/
theorem C09_infer_falsy_free (k : PyKind) (f g : Bool) : inferTy (.scalar k f) = inferTy (.scalar k g) := by
  have hf : inferFalsyFirst = false := by decide
  simp [inferTy, inferTyW, hf]

/-- why H_firstRowTyped is a hypothesis: `Row(n=None, s='x')` in the first row is typed `struct<s: string>` (the
    CAST then removes `n` from every row), and a list that starts with None gets no type at all -/
theorem C09_cex_firstRowTyped (h : inferStructUntyped = .skip) :
    (inferTy (.row ["n", "s"] [.scalar .none false, .scalar .str false])).map STy.text = some "struct<s: string>" ∧
    (inferTy (.seq .list [.scalar .none false, .scalar .int false])).map STy.text = none := by
  have hf : inferFalsyFirst = false := by decide
  unfold inferTy
  rw [h, hf]
  decide

example : H_firstRowTyped (.row ["w", "ks"] [.scalar .floatFinite true, .seq .list [.scalar .int true, .scalar .none false]]) := by
  decide

example : (inferTy (.row ["w", "ks"] [.scalar .floatFinite true, .seq .list [.scalar .int true]])).map STy.text
    = some "struct<w: double, ks: array<bigint>>" := by decide

-- ================================================================================================
-- timestamps: which instant
-- ================================================================================================

/-- of the three things `_lit` can do to an aware datetime before writing it, `astimezone(utc)` and nothing at
    all keep the instant in every session zone and for every datetime; `replace(tzinfo=utc)` does not -/
theorem C09_ts_modes (m : TzMode) :
    (∀ (z : Int) (v : PyTs), tsBackWith m z v = some (specTsBack z v)) ↔ m ≠ .relabel := by
  constructor
  · intro h e
    subst e
    have := h 0 ⟨0, some 1⟩
    revert this
    decide
  · intro hm z v
    obtain ⟨w, o⟩ := v
    cases o with
    | none => simp [tsBackWith, litTsWith, engineRead, specTsBack, litNaiveTy]
    | some o =>
      cases m with
      | relabel => exact absurd rfl hm
      | keep => simp [tsBackWith, litTsWith, engineRead, specTsBack, litAwareTy, toValueStripsTz]
      | convert => simp [tsBackWith, litTsWith, engineRead, specTsBack, litAwareTy, toValueStripsTz]

/-- every datetime, naive or aware with any offset, in every session zone: what `collect()` hands back is what
    PySpark hands back (the same instant read in the session zone / the same wall-clock reading) -/
theorem C09_ts_roundtrip (z : Int) (v : PyTs) : tsBack z v = some (specTsBack z v) :=
  (C09_ts_modes litAwareMode).mpr (by decide) z v

/-- the literal of an aware datetime denotes its instant `wall - off`, whatever the session zone -/
theorem C09_ts_instant (z w o : Int) : engineRead z (litTs ⟨w, some o⟩) = .instant (w - o) := by
  simp [litTs, litTsWith, litAwareMode, engineRead, litAwareTy]

/-- the literal of a naive datetime is a TIMESTAMP with its own fields, whatever the session zone -/
theorem C09_ts_naive (z w : Int) : engineRead z (litTs ⟨w, none⟩) = .naive w := by
  simp [litTs, litTsWith, engineRead, litNaiveTy]

-- 2020-01-02 03:04:05+05:00 is 2020-01-01 22:04:05 UTC (microseconds since the epoch)
example : tsBack 0 ⟨1577934245000000, some 18000000000⟩ = some 1577916245000000 := by decide

-- ================================================================================================
-- column names
-- ================================================================================================

/-- auto names are `_1 … _n`, for every row width -/
theorem C09_auto_names (n : Nat) : autoNames n = specAutoNames n := by
  unfold autoNames specAutoNames
  have e1 : autoNameCount n = n := by simp [autoNameCount]
  have e2 : autoNamePrefix = "_" := by decide
  have e3 : autoNameStart = 1 := by decide
  rw [e1, e2, e3]

theorem C09.stripS_trimmed {s : String} (h : trimmed s) : stripS s = s := by
  unfold stripS; rw [h]; exact String.ofList_toList

theorem C09.map_stripS {ns : List String} (h : allTrimmed ns) : ns.map stripS = ns := by
  induction ns with
  | nil => rfl
  | cons n rest ih =>
    have h1 : stripS n = n := stripS_trimmed (h n (by simp))
    have h2 := ih (fun x hx => h x (by simp [hx]))
    simp [h1, h2]

/-- the five schema forms: the derived column names are the declared names (auto names for none) -/
theorem C09_schema_forms (form : SchemaForm) (shape : RowShape) (h : SchemaInScope form shape) :
    derivedNames form shape = some (specNames form shape) := by
  cases form with
  | none =>
    cases shape with
    | positional n => simp [derivedNames, specNames, C09_auto_names]
    | keyed ks =>
      rcases h with h | h
      · exact absurd h (by decide)
      · have : (ks.all fun n => ks.contains n) = true := by
          rw [List.all_eq_true]; intro n hn; simpa using hn
        simp [derivedNames, specNames, map_stripS h]
  | names ns =>
    cases shape with
    | positional n =>
      rcases h with h | h
      · exact absurd h (by decide)
      · simp [derivedNames, specNames, map_stripS h]
    | keyed ks =>
      obtain ⟨h1, h2⟩ := h
      rcases h1 with h1 | h1
      · exact absurd h1 (by decide)
      · have : (ns.all fun n => ks.contains n) = true := by
          rw [List.all_eq_true]; intro n hn; simpa using h2 n hn
        simpa [derivedNames, specNames, map_stripS h1] using h2
  | ddl fs =>
    obtain ⟨hne, hs, hstruct⟩ := h
    have hne' : fs.map (fun f => (f.1.toList, f.2.toList)) ≠ [] := by simpa using hne
    have hs' : ∀ f ∈ fs.map (fun f => (f.1.toList, f.2.toList)), simpleField f := by
      intro f hf
      obtain ⟨g, hg, rfl⟩ := List.mem_map.mp hf
      exact hs g hg
    simp only [derivedNames, specNames, ddlFields_renderDDL _ hne' hs' hstruct, Option.map_some, List.map_map]
    congr 1
    apply List.map_congr_left
    intro f _
    simp [String.ofList_toList]
  | dict fs => simp [derivedNames, specNames]
  | structType fs => simp [derivedNames, specNames]

-- why the schema hypotheses are hypotheses (each witness is replayed on the real code)
/-- H_ddlSimple: a type with a comma is cut in two: `b decimal(10,2)` -/
theorem C09_cex_ddlSimple :
    derivedNames (.ddl [("a", "int"), ("b", "decimal(10,2)")]) (.positional 2) = none := by decide

/-- H_namesAreFields: renaming Row / dict fields by a list of names raises -/
theorem C09_cex_namesAreFields : derivedNames (.names ["c", "d"]) (.keyed ["a", "b"]) = none := by decide

/-- H_trimmedNames: blanks around a listed name are dropped (PySpark keeps them) -/
theorem C09_cex_trimmedNames (h : listNamesStripped = true) :
    derivedNames (.names [" a"]) (.positional 1) = some ["a"] := by
  simp [derivedNames, h]; decide

/-- … and a Row field / dict key with blanks around it cannot be used at all (KeyError) -/
theorem C09_cex_trimmedFields (h : inferredNamesStripped = true) :
    derivedNames .none (.keyed [" a "]) = none := by
  simp [derivedNames, h]; decide

example : SchemaInScope (.ddl [("a", "int"), ("Sel", "array<string>")]) (.positional 2) := by decide
example : SchemaInScope (.names ["x", "y z"]) (.keyed ["y z", "x"]) := by decide

-- ================================================================================================
-- dict rows
-- ================================================================================================

/-- a dict row is laid out under the right columns -/
theorem C09_dict_rows {α : Type} (cols : List String) (row : List (String × α))
    (hnd : (row.map (·.1)).Nodup) (h : H_dictOrder cols row) :
    dictRowCells cols row = specDictRowCells cols row := by
  rcases h with h | h
  · simp [dictRowCells, specDictRowCells, h]
  · subst h
    by_cases hb : dictRowsByKey = true
    · simp [dictRowCells, specDictRowCells, hb]
    · simp only [dictRowCells, specDictRowCells, hb]
      exact (lookup_own_keys row hnd).symm

/-- why H_dictOrder is a hypothesis: the second row of `[{'a':1,'b':2},{'b':3,'a':4}]` -/
theorem C09_cex_dictOrder (h : dictRowsByKey = false) :
    dictRowCells ["a", "b"] [("b", 3), ("a", 4)] = [some 3, some 4] ∧
    specDictRowCells ["a", "b"] [("b", 3), ("a", 4)] = [some 4, some 3] := by
  constructor
  · simp [dictRowCells, h]
  · decide

example : H_dictOrder ["a", "b"] [("a", 1), ("b", 2)] := by decide

-- ================================================================================================
-- scalar cells at the literal level
-- ================================================================================================

def C09.Scalar.InScope : Scalar → Prop
  | .str s => H_noNul s
  | .int i => inInt64 i
  | _ => True

theorem C09.renderInt_ne_NULL (i : Int) : renderInt i ≠ ['N', 'U', 'L', 'L'] := by
  intro e
  have := readIntText_renderInt i
  rw [e] at this
  have hn : readIntText ['N', 'U', 'L', 'L'] = none := by decide
  rw [hn] at this
  cases this

theorem C09.quote_ne_NULL (s : List Char) : quote s ≠ ['N', 'U', 'L', 'L'] := by
  intro e; simp [quote, quoteWith, SQ] at e

/-- None, bool, 64-bit int and NUL-free str cells: the literal sqlframe writes, read by the engine under
    the CAST to the column's type, is the original value -/
theorem C09_partial (v : Scalar) (ty : ColTy) (hfit : v.fits ty) (h : v.InScope) :
    readAs ty v.text = some v := by
  cases v with
  | none => simp [Scalar.text, readAs]
  | bool b =>
    cases ty <;> simp [Scalar.fits] at hfit
    cases b <;> simp [Scalar.text, readAs]
  | int i =>
    cases ty <;> simp [Scalar.fits] at hfit
    simp [Scalar.text, readAs, renderInt_ne_NULL, C09_int_roundtrip i h]
  | str s =>
    cases ty <;> simp [Scalar.fits] at hfit
    simp [Scalar.text, readAs, quote_ne_NULL, C09_unescape s h]

example : (Scalar.str "a'b\\".toList).InScope ∧ (Scalar.str "a'b\\".toList).fits .string := by
  constructor
  · show H_noNul _; decide
  · trivial

-- ================================================================================================
-- the property at full strength (not a theorem of the pinned tree: see the counterexamples above)
-- ================================================================================================

def C09_full_statement : Prop :=
  (∀ (v : Scalar) (ty : ColTy), v.fits ty → (∀ i, v = .int i → inInt64 i) → readAs ty v.text = some v) ∧
  (∀ k : PyKind, k ≠ .tuple → typedRight k (litOf k) = true) ∧
  (∀ k : PyKind, (inferType k).map tyFamily = specType k) ∧
  (∀ (ns : List String) (vs : List PyVal), ns.length = vs.length → structNames (inferTy (.row ns vs)) = some ns) ∧
  (∀ (z : Int) (v : PyTs), tsBack z v = some (specTsBack z v)) ∧
  (∀ form shape, derivedNames form shape = some (specNames form shape)) ∧
  (∀ (cols : List String) (row : List (String × Int)), (row.map (·.1)).Nodup → dictRowCells cols row = specDictRowCells cols row)

end Sqlframe
